(* Props/C11.v - Server-side cursors deliver every row exactly once, in order. *)
From Coq Require Import List Arith NArith Lia Bool.
From MM Require Import Lib.Bytes Model.Conn Model.Resp Proofs.RespProofs Proofs.FetchProofs Proofs.C10Proofs Proofs.C03Proofs Proofs.CursorProofs Gen.FactsConn.
From MM Require Import Gen.FactsOutline.
Import ListNotations.
Open Scope N_scope.

Definition BATCH : N := utils_batch_size.

Theorem c11_source_shape :
  translated_conn = true /\ connection_connection_handle_stmt_fetch_ok = true /\
  connection_connection_handle_stmt_execute_ok = true /\ connection_connection_handle_stmt_reset_ok = true /\
  connection_connection_handle_stmt_close_ok = true /\ connection_connection_get_stmt_ok = true /\
  utils_cooperative_iterate_ok = true /\ utils_aiterate_ok = true /\
  status_cursor_exists = FL_CURSOR_EXISTS /\ status_last_row_sent = FL_LAST_ROW_SENT /\
  packets_parse_handle_stmt_fetch_ok = true /\ packets_read_cursor_flags_ok = true.
Proof. repeat split; reflexivity. Qed.

(* the modules this property rests on define the functions, classes, methods and class-level names they defined when the
   model was transcribed - nothing added (an override, a new helper in the path), removed or renamed *)
Theorem c11_module_outlines : translated_outline = true /\ outline_connection_ok = true /\ outline_prepared_ok = true /\ outline_utils_ok = true.
Proof. repeat split; reflexivity. Qed.


(* one fetch of `want` rows on a cursor whose source still holds `items` (rows, waits, possibly a raise):
   the rows written are the next min(want, rows left) ones, in order, each pulled row is written *)
Theorem c11_fetch_spec : forall id items fuel j c want i0, (length items < fuel)%nat -> c <= want ->
  let '(k, c') := fetch_plan BATCH fuel id items j c want i0 in
  c' = N.min want (c + N.of_nat (nrows items)) /\
  plan_pkts k = row_pkts (seqN (i0 + c) (N.to_nat (c' - c))) /\
  pulls k = N.to_nat (c' - c).
Proof. exact (fetch_plan_spec BATCH). Qed.

(* for every result length and every sequence of fetch sizes: the concatenation of what the fetches
   deliver is the prefix 0 .. min(total requested, rows) - 1 of the result *)
Theorem c11_every_row_once_in_order : forall id wants items pos, has_raise items = false ->
  concat (map fst (fetches BATCH id items pos wants)) =
  row_pkts (seqN pos (N.to_nat (N.min (sumN wants) (N.of_nat (nrows items))))).
Proof. exact (fetches_deliver_prefix BATCH). Qed.

(* last-row-sent is flagged exactly on a fetch that could not be filled *)
Theorem c11_last_row_flag : forall id items pos w,
  let '(k, c) := fetch_plan BATCH (S (length items)) id items pos 0 w pos in
  (c <? w) = (N.of_nat (nrows items) <? w).
Proof. exact (fetch_flag BATCH). Qed.

(* the packets of a fetch form a response of the protocol grammar *)
Theorem c11_fetch_response : forall dep idx (is_last : bool),
  accepts dep RKFetch (row_pkts idx ++ [term_pkt dep (if is_last then FL_LAST_ROW_SENT else FL_CURSOR_EXISTS)]) = true.
Proof. exact fetch_accepted. Qed.

Example c11_seven_rows_2_2_5 :
  map fst (fetches BATCH 0 (repeat (IRow 3) 7) 0 [2; 2; 5]) =
  [[PRow 0; PRow 1]; [PRow 2; PRow 3]; [PRow 4; PRow 5; PRow 6]].
Proof. vm_compute. reflexivity. Qed.

(* re-executing a statement discards its cursor the moment the execution is dispatched - before the application is asked,
   so whatever it answers (a result with or without a new cursor, no result, an error) and whether or not the cursor flag is
   set: until a new cursor is installed a fetch on the statement is refused *)
Theorem c11_execute_discards_the_cursor : forall s id cur v, find_stmt id (stmts s) = Some v ->
  find_stmt id (stmts (fst (handler BATCH s (CExecute id cur)))) = Some (mk_stmt None 0) /\
  forall s' n z j, find_stmt id (stmts s') = Some (mk_stmt None j) -> snd (handler BATCH s' (CFetch id n z)) = [MRaise XOther None].
Proof.
  intros s id cur v H. split.
  - cbn [handler]. rewrite H. cbn [fst stmts set_stmts]. rewrite find_put, N.eqb_refl. reflexivity.
  - intros s' n z j H'. cbn [handler]. rewrite H'. reflexivity.
Qed.

(* ---- over whole lock-step conversations (Proofs/CursorProofs.v, on the connection machine Model/Conn.v) ------------------- *)

(* One round of a command whose handler is a straight plan (no application call): through every suspension - rows becoming
   ready, the loop's turns, the socket pausing and resuming, in any number and order - the machine executes exactly the
   operations of that plan, or the client is sent an ERR: the watched statement ends up as those operations leave it, and the
   packets sent are those the plan writes, in order. *)
Theorem c11_round_executes_plan : forall B dep id c evs s,
  quiescent dep s -> at_prompt s -> Forall allowed evs ->
  let h := handler BATCH (set_exec (set_seq (set_inq (set_inq s [c]) []) ((seq (set_inq s [c]) + 1) mod 256)) true) c in
  Forall simple (snd h) ->
  let r := exec B BATCH s (EvPayload c :: evs) in
  at_prompt (fst r) ->
  has_err (map snd (pkts_out (snd r)) ++ bufp (fst r)) \/
  (find_stmt id (stmts (fst r)) = applyl id (find_stmt id (stmts (fst h))) (snd h) /\
   map snd (pkts_out (snd r)) ++ bufp (fst r) = pkts (snd h)).
Proof. intros B. exact (round_executes_plan B BATCH). Qed.

(* COM_STMT_FETCH id n at the prompt of a connection with a cursor open on id (`items` to come, j rows fetched so far): when
   the server is back at its prompt the client has been sent an ERR, or exactly the rows j .. j+m-1 (m = min(n, rows left)),
   in order, and the terminator with last-row-sent iff the fetch could not be filled; the cursor has advanced by exactly
   those rows; no other statement has changed. *)
Theorem c11_fetch_round : forall B dep id n szf evs s items j,
  quiescent dep s -> at_prompt s -> Forall allowed evs ->
  find_stmt id (stmts s) = Some (mk_stmt (Some items) j) -> has_raise items = false ->
  let r := exec B BATCH s (EvPayload (CFetch id n szf) :: evs) in
  at_prompt (fst r) ->
  let sent := map snd (pkts_out (snd r)) in
  let m := N.min n (N.of_nat (nrows items)) in
  has_err sent \/
  (sent = row_pkts (seqN j (N.to_nat m)) ++ [CursorProofs.term_pkt dep (if m <? n then FL_LAST_ROW_SENT else FL_CURSOR_EXISTS)] /\
   find_stmt id (stmts (fst r)) = Some (mk_stmt (Some (rest items 0 n)) (j + m)) /\
   forall i, i <> id -> find_stmt i (stmts (fst r)) = find_stmt i (stmts s)).
Proof. intros B. exact (fetch_round B BATCH). Qed.

(* nothing else on the connection moves a cursor: a round of ANY command that does not address the statement - queries with
   their results, executions / fetches / resets / closes of other statements, PREPAREs, COM_CHANGE_USER with its whole
   exchange - leaves it exactly as it was, wherever the connection is suspended afterwards *)
Theorem c11_other_rounds_keep_the_cursor : forall B dep id c evs s,
  quiescent dep s -> at_prompt s -> Forall allowed evs -> addresses id c = false ->
  (match c with CPrepare _ _ => next_stmt s <> id | _ => True end) ->
  let r := exec B BATCH s (EvPayload c :: evs) in
  forall w k f ic, ctl_ (fst r) = Susp w k f ic -> find_stmt id (stmts (fst r)) = find_stmt id (stmts s).
Proof. intros B. exact (other_round_keeps_statement B BATCH). Qed.

(* hence: a fetch, any such round, another fetch - the second continues exactly where the first stopped *)
Theorem c11_fetches_continue : forall B dep id n1 n2 z1 z2 evs1 c evs2 evs3 s items j,
  quiescent dep s -> at_prompt s -> find_stmt id (stmts s) = Some (mk_stmt (Some items) j) -> has_raise items = false ->
  Forall allowed evs1 -> Forall allowed evs2 -> Forall allowed evs3 -> cmd_ok c -> addresses id c = false ->
  let r1 := exec B BATCH s (EvPayload (CFetch id n1 z1) :: evs1) in
  let r2 := exec B BATCH (fst r1) (EvPayload c :: evs2) in
  let r3 := exec B BATCH (fst r2) (EvPayload (CFetch id n2 z2) :: evs3) in
  (match c with CPrepare _ _ => next_stmt (fst r1) <> id | _ => True end) ->
  at_prompt (fst r1) -> at_prompt (fst r2) -> at_prompt (fst r3) ->
  let sent1 := map snd (pkts_out (snd r1)) in let sent3 := map snd (pkts_out (snd r3)) in
  ~ has_err sent1 -> ~ has_err sent3 ->
  let m1 := N.min n1 (N.of_nat (nrows items)) in
  let m2 := N.min n2 (N.of_nat (nrows items) - m1) in
  sent1 = row_pkts (seqN j (N.to_nat m1)) ++ [CursorProofs.term_pkt dep (if m1 <? n1 then FL_LAST_ROW_SENT else FL_CURSOR_EXISTS)] /\
  sent3 = row_pkts (seqN (j + m1) (N.to_nat m2)) ++ [CursorProofs.term_pkt dep (if m2 <? n2 then FL_LAST_ROW_SENT else FL_CURSOR_EXISTS)].
Proof. intros B. exact (two_fetches B BATCH). Qed.

(* the premises are met by a real conversation: handshake, PREPARE, EXECUTE with a cursor over four rows (one of them
   arriving late), FETCH 2 under a paused socket, a PING, FETCH 5 - and the rows arrive as 0 1 | 2 3 *)
Example c11_conversation_nonvacuous :
  let s0 := fst (exec 32768 BATCH (fst (boot 32768 BATCH 78)) [EvHandshake true true; EvDecide ASuccess; EvApp OVoid;
                   EvPayload (CPrepare 0 (mk_sizes 12 [] 5 0)); EvPayload (CExecute 0 true);
                   EvApp (OSet (mk_sizes 1 [26] 5 7) [IRow 9; IRow 9; ISuspend; IRow 9; IRow 9])]) in
  let r1 := exec 32768 BATCH s0 [EvPayload (CFetch 0 2 7); EvPause; EvResume] in
  let r2 := exec 32768 BATCH (fst r1) [EvPayload CPing] in
  let r3 := exec 32768 BATCH (fst r2) [EvPayload (CFetch 0 5 7); EvRowReady] in
  quiescent true s0 /\ at_prompt s0 /\ find_stmt 0 (stmts s0) = Some (mk_stmt (Some [IRow 9; IRow 9; ISuspend; IRow 9; IRow 9]) 0) /\
  at_prompt (fst r1) /\ at_prompt (fst r2) /\ at_prompt (fst r3) /\
  map snd (pkts_out (snd r1)) = [PRow 0; PRow 1; POk true FL_CURSOR_EXISTS] /\
  map snd (pkts_out (snd r3)) = [PRow 2; PRow 3; POk true FL_LAST_ROW_SENT].
Proof. vm_compute. repeat split; reflexivity. Qed.
