(* Props/C11.v - Server-side cursors deliver every row exactly once, in order. *)
From Coq Require Import List Arith NArith Lia Bool.
From MM Require Import Lib.Bytes Model.Conn Model.Resp Proofs.RespProofs Proofs.FetchProofs Gen.FactsConn.
From MM Require Import Gen.FactsOutline.
Import ListNotations.
Open Scope N_scope.

Definition BATCH : N := utils_batch_size.

Theorem c11_source_shape :
  translated_conn = true /\ connection_connection_handle_stmt_fetch_ok = true /\
  connection_connection_handle_stmt_execute_ok = true /\ connection_connection_handle_stmt_reset_ok = true /\
  connection_connection_handle_stmt_close_ok = true /\ connection_connection_get_stmt_ok = true /\
  utils_cooperative_iterate_ok = true /\ utils_aiterate_ok = true /\
  status_cursor_exists = FL_CURSOR_EXISTS /\ status_last_row_sent = FL_LAST_ROW_SENT /\
  packets_parse_handle_stmt_fetch_ok = true /\ packets_read_cursor_flags_ok = true.
Proof. repeat split; reflexivity. Qed.

(* the modules this property rests on define the functions, classes, methods and class-level names they defined when the
   model was transcribed - nothing added (an override, a new helper in the path), removed or renamed *)
Theorem c11_module_outlines : translated_outline = true /\ outline_connection_ok = true /\ outline_prepared_ok = true /\ outline_utils_ok = true.
Proof. repeat split; reflexivity. Qed.


(* one fetch of `want` rows on a cursor whose source still holds `items` (rows, waits, possibly a raise):
   the rows written are the next min(want, rows left) ones, in order, each pulled row is written *)
Theorem c11_fetch_spec : forall id items fuel j c want i0, (length items < fuel)%nat -> c <= want ->
  let '(k, c') := fetch_plan BATCH fuel id items j c want i0 in
  c' = N.min want (c + N.of_nat (nrows items)) /\
  plan_pkts k = row_pkts (seqN (i0 + c) (N.to_nat (c' - c))) /\
  pulls k = N.to_nat (c' - c).
Proof. exact (fetch_plan_spec BATCH). Qed.

(* for every result length and every sequence of fetch sizes: the concatenation of what the fetches
   deliver is the prefix 0 .. min(total requested, rows) - 1 of the result *)
Theorem c11_every_row_once_in_order : forall id wants items pos, has_raise items = false ->
  concat (map fst (fetches BATCH id items pos wants)) =
  row_pkts (seqN pos (N.to_nat (N.min (sumN wants) (N.of_nat (nrows items))))).
Proof. exact (fetches_deliver_prefix BATCH). Qed.

(* last-row-sent is flagged exactly on a fetch that could not be filled *)
Theorem c11_last_row_flag : forall id items pos w,
  let '(k, c) := fetch_plan BATCH (S (length items)) id items pos 0 w pos in
  (c <? w) = (N.of_nat (nrows items) <? w).
Proof. exact (fetch_flag BATCH). Qed.

(* the packets of a fetch form a response of the protocol grammar *)
Theorem c11_fetch_response : forall dep idx (is_last : bool),
  accepts dep RKFetch (row_pkts idx ++ [term_pkt dep (if is_last then FL_LAST_ROW_SENT else FL_CURSOR_EXISTS)]) = true.
Proof. exact fetch_accepted. Qed.

Example c11_seven_rows_2_2_5 :
  map fst (fetches BATCH 0 (repeat (IRow 3) 7) 0 [2; 2; 5]) =
  [[PRow 0; PRow 1]; [PRow 2; PRow 3]; [PRow 4; PRow 5; PRow 6]].
Proof. vm_compute. reflexivity. Qed.
