(* Props/C16.v - Catalog answers mirror the application's declared schema exactly. *)
From Coq Require Import List NArith Lia Bool.
From MM Require Import Lib.Bytes Model.Like Model.Catalog Proofs.LikeProofs Proofs.CatalogProofs Gen.FactsCatalog Gen.FactsConn Model.Packets Proofs.PacketProofs.
From MM Require Import Gen.FactsOutline.
Import ListNotations.
Open Scope N_scope.

Theorem c16_source_shape :
  translated_catalog = true /\ schema_like_to_regex_ok = true /\ schema_mapping_to_columns_ok = true /\
  schema_info_schema_tables_ok = true /\ schema_show_statement_to_info_schema_query_ok = true /\
  schema_com_field_list_to_show_statement_ok = true /\ utils_dict_depth_ok = true /\
  session_session_show_variables_ok = true /\ session_session_show_ok = true /\ session_session_describe_middleware_ok = true /\
  connection_connection_handle_field_list_ok = true /\ schema_ensure_info_schema_ok = true /\ schema_infoschema_query_ok = true /\
  schema_infoschema_from_mapping_ok = true /\ session_session_query_info_schema_ok = true /\ session_session_show_middleware_ok = true.
Proof. repeat split; reflexivity. Qed.

(* the modules this property rests on define the functions, classes, methods and class-level names they defined when the
   model was transcribed - nothing added (an override, a new helper in the path), removed or renamed *)
Theorem c16_module_outlines : translated_outline = true /\ outline_schema_ok = true /\ outline_session_ok = true.
Proof. repeat split; reflexivity. Qed.


(* the regular expression built from a LIKE pattern matches exactly the strings SQL LIKE matches (whole string,
   % any sequence, _ any single character, everything else literally) - for every pattern and every string *)
Theorem c16_like_regex_correct : forall p s, like p s = true <-> matches (to_re p) s.
Proof. exact like_regex_correct. Qed.

Theorem c16_like_without_wildcards_is_equality : forall p,
  forallb (fun c => negb (c =? PCT) && negb (c =? USC)) p = true -> forall s, like p s = true <-> s = p.
Proof. exact like_literal_exact. Qed.

(* every declared column is listed with its declared type; nothing is listed that was not declared *)
Theorem c16_columns_complete : forall m cat db tab name ty dbs tabs cols,
  In (cat, dbs) m -> In (db, tabs) dbs -> In (tab, cols) tabs -> In (name, ty) cols ->
  In (mk_col cat db tab name ty) (columns_of m).
Proof. exact columns_complete. Qed.

Theorem c16_columns_sound : forall m c, In c (columns_of m) ->
  exists dbs tabs cols, In (c_cat c, dbs) m /\ In (c_db c, tabs) dbs /\ In (c_tab c, cols) tabs /\ In (c_name c, c_type c) cols.
Proof. exact columns_sound. Qed.

(* a table's columns in declaration order *)
Theorem c16_declaration_order : forall cat db tab cols,
  map (fun c => (c_name c, c_type c)) (columns_of [(cat, [(db, [(tab, cols)])])]) = cols.
Proof. exact columns_one_table. Qed.

(* SHOW COLUMNS / DESCRIBE: exactly the columns of that table and database whose names match LIKE *)
Theorem c16_show_columns_exact : forall all tab db pat name ty,
  In (name, ty) (show_columns all tab db pat) <->
  exists c, In c all /\ c_name c = name /\ c_type c = ty /\ c_tab c = tab /\ eq_opt db (c_db c) = true /\ like_opt pat (c_name c) = true.
Proof. exact show_columns_spec. Qed.

(* INFORMATION_SCHEMA.TABLES / SCHEMATA: every declared table / database exactly once, and only those *)
Theorem c16_tables_exactly_once : forall all k,
  (In k (tables_of all) <-> exists c, In c all /\ k = (c_cat c, c_db c, c_tab c)) /\ NoDup (tables_of all).
Proof. exact tables_exactly_once. Qed.
Theorem c16_schemata_exactly_once : forall all k,
  (In k (schemata_of all) <-> exists c, In c all /\ k = (c_cat c, c_db c, [])) /\ NoDup (schemata_of all).
Proof. exact schemata_exactly_once. Qed.

Example c16_version_is_not_a_prefix_match :
  like [118;101;114;115;105;111;110] [118;101;114;115;105;111;110;95;99] = false /\
  like [118;101;114;37] [118;101;114;115;105;111;110;95;99] = true.
Proof. vm_compute. split; reflexivity. Qed.

(* COM_FIELD_LIST: every column definition the server sends - with or without a default value - is decoded by a client
   to the definition that was encoded, followed by the default-value suffix (Model/Packets.v) *)
Theorem c16_field_list_definition_decodable : forall cd dflt, coldef_wf cd ->
  dec_coldef (enc_coldef cd (Some dflt)) =
  Some (cd, match dflt with None => uint_len 0 | Some v => str_len v end).
Proof. exact field_list_coldef_roundtrip. Qed.

(* ... and that suffix is ONE length-encoded string from which the client reads the default value back *)
Theorem c16_field_list_default_decodable : forall dflt, match dflt with Some v => len v < 2 ^ 64 | None => True end ->
  read_str_len (match dflt with None => uint_len 0 | Some v => str_len v end) =
  Some (match dflt with None => [] | Some v => v end, []).
Proof. exact field_list_default_roundtrip. Qed.
