(* Props/C02.v - A password proof is accepted iff it fits this connection's nonce and secret.
   The hash is an arbitrary function with 20-byte output (Section variable): nothing about SHA-1 is assumed;
   "useless elsewhere" is proved as: a response accepted under two nonces exhibits a collision. *)
From Coq Require Import List NArith Lia Bool.
From MM Require Import Lib.Bytes Lib.Sha1 Model.Parse Model.Auth Proofs.AuthProofs Gen.FactsAuth.
From MM Require Import Gen.FactsOutline.
Import ListNotations.
Open Scope N_scope.

Theorem c02_source_shape :
  translated_auth = true /\ auth_nativepasswordauthplugin_auth_ok = true /\
  auth_nativepasswordauthplugin_password_matches_ok = true /\ auth_nativepasswordauthplugin_verify_scramble_ok = true /\
  auth_nativepasswordauthplugin_empty_password_quickpath_ok = true /\ auth_abstractclearpasswordauthplugin_auth_ok = true /\
  auth_nologinauthplugin_auth_ok = true /\ utils_xor_ok = true /\ utils_nonce_ok = true /\
  packets_make_handshake_v10_ok = true /\ auth_native_names_ok = true /\
  (* which nonce a proof is checked against is decided in authenticate / connection_phase / handle_change_user *)
  connection_connection_authenticate_ok = true /\ connection_connection_connection_phase_ok = true /\
  connection_connection_handle_change_user_ok = true /\ packets_make_auth_switch_request_ok = true /\
  packets_parse_handshake_response_41_ok = true /\ packets_parse_com_change_user_ok = true.
Proof. repeat split; reflexivity. Qed.

(* the modules this property rests on define the functions, classes, methods and class-level names they defined when the
   model was transcribed - nothing added (an override, a new helper in the path), removed or renamed *)
Theorem c02_module_outlines : translated_outline = true /\ outline_auth_ok = true /\ outline_connection_ok = true /\ outline_utils_ok = true.
Proof. repeat split; reflexivity. Qed.


Section AnyHash.
Variable H : bytes -> bytes.
Hypothesis H_len : forall m, length (H m) = 20%nat.

(* the exact scramble of the account's password under the issued nonce is accepted - every password, every nonce *)
Theorem c02_complete : forall pw nonce,
  verify_decoded H (Some (stored_of H pw)) (scramble H pw nonce) nonce = true.
Proof. exact (verify_complete H H_len). Qed.

(* acceptance <=> the response carries a whole 20-byte proof and its first 20 bytes XOR H(nonce ++ stored) is a pre-image
   of the stored secret *)
Theorem c02_sound : forall stored response nonce,
  verify_decoded H (Some stored) response nonce = true <->
  (20 <= length response)%nat /\ H (xor_bytes (firstn 20 response) (H (nonce ++ stored))) = stored.
Proof. exact (verify_accepts_iff_preimage H H_len). Qed.

(* a response shorter than a proof is refused whatever the stored secret - also the hash of a short string, which a
   truncated XOR would otherwise reach (a stored SHA1("") accepting the empty response) *)
Theorem c02_short_response_never_accepts : forall stored response nonce, (length response < 20)%nat ->
  verify_decoded H (Some stored) response nonce = false.
Proof. exact (short_never_verifies H). Qed.

Theorem c02_malformed_hash_never_accepts : forall response nonce, verify_decoded H None response nonce = false.
Proof. exact (malformed_never_accepts H). Qed.

(* a response captured under another nonce: accepted only together with a collision of H *)
Theorem c02_replay_needs_collision : forall stored response n1 n2,
  n1 <> n2 -> length n1 = length n2 ->
  verify_decoded H (Some stored) response n1 = true -> verify_decoded H (Some stored) response n2 = true ->
  exists a b, a <> b /\ H a = H b.
Proof. exact (replay_needs_collision H H_len). Qed.

(* every acceptance goes through the quick path (empty response, account without password), the current
   or the secondary password *)
Theorem c02_routes : forall u response nonce, password_matches H u response nonce = true ->
  (response = [] /\ empty_auth (u_auth u) = true) \/
  verify_scramble H (u_auth u) response nonce = true \/ verify_scramble H (u_old u) response nonce = true.
Proof. exact (matches_routes H). Qed.
End AnyHash.

(* XOR with the digest is an involution at equal length (what makes the scramble invertible by the server) *)
Theorem c02_xor_involutive : forall a b, length a = length b -> xor_bytes (xor_bytes a b) b = a.
Proof. exact xor_involutive. Qed.

(* nonces: every character the generator can choose is NUL-free; the handshake's 8+13 split is lossless *)
Theorem c02_nonce_alphabet : forallb (fun c => negb (c =? 0) && (c <? 128)) utils_safe_nonce_chars = true.
Proof. vm_compute. reflexivity. Qed.

Theorem c02_handshake_nonce_roundtrip : forall auth, (8 <= length auth)%nat -> (length auth <= 255)%nat ->
  client_nonce (handshake_auth_parts auth) (len auth) = auth.
Proof. exact handshake_nonce_roundtrip. Qed.

(* non-vacuity with the real SHA-1: a password is accepted under its nonce and refused under another *)
Example c02_real_sha1 :
  let pw := [115; 51; 99; 114; 51; 116] in let n1 := repeat 65 20 in let n2 := repeat 66 20 in
  verify_decoded sha1 (Some (stored_of sha1 pw)) (scramble sha1 pw n1) n1 = true /\
  verify_decoded sha1 (Some (stored_of sha1 pw)) (scramble sha1 pw n1) n2 = false.
Proof. vm_compute. split; reflexivity. Qed.
