(* Props/C08.v - Connections do not interfere: each behaves as if it were alone. *)
From Coq Require Import List NArith Lia Bool String.
From MM Require Import Lib.Bytes Model.Conn Model.Multi Proofs.MultiProofs Gen.FactsConn Gen.FactsShared.
From MM Require Import Gen.FactsOutline.
Import ListNotations.
Open Scope N_scope.

(* the modules this property rests on define the functions, classes, methods and class-level names they defined when the
   model was transcribed - nothing added (an override, a new helper in the path), removed or renamed *)
Theorem c08_module_outlines : translated_outline = true /\ outline_variables_ok = true /\ outline_session_ok = true /\ outline_connection_ok = true /\ outline_control_ok = true /\ outline_schema_ok = true /\ outline_results_ok = true /\ outline_packets_ok = true.
Proof. repeat split; reflexivity. Qed.


Definition B : N := conn_buffer_size.
Definition BATCH : N := utils_batch_size.

(* the product construction is faithful only if connections share no mutable state: every module-level and
   class-level container of the package is found by the translator, and nothing in the package writes to one;
   stream, session (with its own variable store) and connection (with its own statement table) are created per
   accepted socket; the only memo cache is the pure parse_timezone *)
Theorem c08_no_shared_writes :
  translated_shared = true /\ shared_writes = []%list /\ shared_memo_caches = ["variables.parse_timezone"%string] /\
  server_objects_per_connection = true /\ session_own_variables = true /\ connection_own_statements = true /\
  server_mysqlserver_client_connected_cb_ok = true.
Proof. repeat split; reflexivity. Qed.

(* frame: an event-loop iteration of connection i changes no other connection and emits nothing for it *)
Theorem c08_frame : forall ms i e j, i <> j ->
  mget j (fst (mstep B BATCH ms (i, e))) = mget j ms /\ proj_out j (snd (mstep B BATCH ms (i, e))) = [].
Proof. exact (mstep_frame B BATCH). Qed.

(* projection: for EVERY interleaving of the connections' events (packets, completions of in-flight
   application calls, socket drains, kills aimed at it), connection i ends in the state and produces exactly
   the outputs it produces when run alone on its own events *)
Theorem c08_projection : forall evs ms i s, mget i ms = Some s ->
  mget i (fst (mrun B BATCH ms evs)) = Some (fst (run1 B BATCH s (proj_ev i evs))) /\
  proj_out i (snd (mrun B BATCH ms evs)) = snd (run1 B BATCH s (proj_ev i evs)).
Proof. exact (mrun_projection B BATCH). Qed.

Example c08_two_connections :
  let s0 := fst (boot B BATCH 50) in
  let evs := [(1, EvHandshake true true); (2, EvHandshake true false); (2, EvDecide AForbidden); (1, EvDecide ASuccess);
              (1, EvApp OVoid); (1, EvPayload CPing)] in
  proj_out 1 (snd (mrun B BATCH [(1, s0); (2, s0)] evs)) =
  snd (run1 B BATCH s0 [EvHandshake true true; EvDecide ASuccess; EvApp OVoid; EvPayload CPing]).
Proof. vm_compute. reflexivity. Qed.
