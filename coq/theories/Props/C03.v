(* Props/C03.v - Every command gets exactly one complete, well-formed response (lockstep).
   Proved here: for every column count, row list and capability setting the packets each handler plan of
   Model/Conn.v writes form a response of the protocol grammar Model/Resp.v; a response cut at ANY point
   and completed by one ERR is a response; nothing may follow a complete response.
   The composition "the machine emits exactly plan packets + at most one ERR between two reads" is tied to
   the code by the lock-step runs (every implementation response is run through the grammar inside Coq). *)
From Coq Require Import List Arith NArith Lia Bool.
From MM Require Import Lib.Bytes Model.Conn Model.Resp Proofs.RespProofs Proofs.C10Proofs Gen.FactsConn Gen.FactsPackets Model.Packets Proofs.PacketProofs.
Import ListNotations.
Open Scope N_scope.

Definition BATCH : N := utils_batch_size.

Theorem c03_source_shape :
  translated_conn = true /\ connection_connection_command_phase_ok = true /\ connection_connection_handle_query_ok = true /\
  connection_connection_text_resultset_ok = true /\ connection_connection_ok_or_eof_ok = true /\
  connection_connection_handle_stmt_prepare_ok = true /\ connection_connection_com_stmt_prepare_response_ok = true /\
  connection_connection_handle_stmt_execute_ok = true /\ connection_connection_handle_stmt_fetch_ok = true /\
  connection_connection_handle_field_list_ok = true /\ connection_connection_handle_stmt_send_long_data_ok = true /\
  connection_connection_handle_stmt_close_ok = true /\ connection_connection_handle_ping_ok = true /\
  connection_connection_handle_init_db_ok = true /\ connection_connection_handle_stmt_reset_ok = true /\
  stream_mysqlstream_write_ok = true /\ stream_mysqlstream_reset_seq_ok = true /\
  constants_default_server_capabilities_ok = true /\ packets_make_column_count_ok = true /\
  types_cap_deprecate_eof_bit = 24.
Proof. repeat split; reflexivity. Qed.

Theorem c03_text_resultset : forall s sz items, has_raise items = false -> sz_coldef sz <> [] ->
  accepts (deprecate_eof s) RKQuery (plan_pkts (text_plan BATCH s sz items)) = true.
Proof. exact (text_plan_accepted BATCH). Qed.

Theorem c03_resultset_grammar : forall dep cols idx, cols <> [] -> accepts dep RKQuery (resultset dep cols idx) = true.
Proof. exact resultset_accepted. Qed.

Theorem c03_binary_resultset : forall dep cols idx, cols <> [] -> accepts dep (RKExecute false) (resultset dep cols idx) = true.
Proof. exact exec_resultset_accepted. Qed.

Theorem c03_cursor_open : forall dep cols, cols <> [] ->
  accepts dep (RKExecute true) (PColCount (len cols) :: map (fun _ : N => PColDef) cols ++ [term_pkt dep FL_CURSOR_EXISTS]) = true.
Proof. exact cursor_open_accepted. Qed.

Theorem c03_prepare_block : forall s n sz, n = len (sz_coldef sz) ->
  accepts (deprecate_eof s) RKPrepare (plan_pkts (snd (handler BATCH s (CPrepare n sz)))) = true.
Proof. exact (prepare_plan_accepted BATCH). Qed.

Theorem c03_field_list : forall dep defs,
  accepts dep RKFieldList (map (fun _ : N => PFieldList 1) defs ++ [term_pkt dep 0]) = true.
Proof. exact fieldlist_accepted. Qed.

(* failure half-way through streaming: what was written plus exactly one ERR is a response *)
Theorem c03_midstream_failure : forall dep c pre post code, c <> RKNone ->
  accepts dep c (pre ++ post) = true -> post <> [] -> accepts dep c (pre ++ [PErr code]) = true.
Proof. exact midstream_err_accepted. Qed.

Theorem c03_single_err : forall dep c code, c <> RKNone -> accepts dep c [PErr code] = true.
Proof. exact err_only_accepted. Qed.

(* the client is never sent a packet it did not ask for: anything after a complete response is rejected *)
Theorem c03_nothing_after_complete : forall dep c ps extra, accepts dep c ps = true -> c <> RKNone -> extra <> [] ->
  accepts dep c (ps ++ extra) = false.
Proof. exact nothing_after_complete. Qed.

(* the no-reply commands produce no packet, also for unknown statement ids *)
Theorem c03_no_reply_commands : forall s id,
  plan_pkts (snd (handler BATCH s (CLongData id))) = [] /\ plan_pkts (snd (handler BATCH s (CClose id))) = [] /\
  plan_pkts (snd (handler BATCH s CQuit)) = [].
Proof. intros. repeat split; reflexivity. Qed.

(* 300 rows: the sequence ids wrap through 255 -> 0 and the response is still the grammar's *)
Example c03_seq_wrap :
  let r := Proofs.C10Proofs.session conn_buffer_size BATCH 50
             [EvHandshake true true; EvDecide ASuccess; EvApp OVoid; EvPayload CQuery;
              EvApp (OSet (mk_sizes 1 [20] 5 7) (repeat (IRow 5) 300))] in
  let pk := flat_map (fun o => match o with OWrite ps => ps | _ => [] end) (snd r) in
  map fst (skipn 256 pk) = [255; 0; 1; 2; 3; 4; 5; 6; 7; 8; 9; 10; 11; 12; 13; 14; 15; 16; 17; 18; 19; 20; 21; 22; 23; 24;
                            25; 26; 27; 28; 29; 30; 31; 32; 33; 34; 35; 36; 37; 38; 39; 40; 41; 42; 43; 44; 45; 46; 47] /\
  accepts true RKQuery (map snd (skipn 2 pk)) = true.
Proof. vm_compute. split; reflexivity. Qed.

(* ---- the packets themselves, byte for byte (Model/Packets.v): what the server encodes, a client decodes --------------- *)
Theorem c03_packet_source_shape :
  packets_make_ok_ok = true /\ packets_make_eof_ok = true /\ packets_make_error_ok = true /\
  packets_make_column_definition_41_ok = true /\ packets_make_handshake_v10_ok = true /\ types_str_fixed_ok = true /\
  types_str_null_ok = true /\ types_str_len_ok = true /\ types_str_rest_ok = true /\ types_uint_1_ok = true /\ types_uint_2_ok = true /\
  types_uint_4_ok = true /\ errors_get_sqlstate_ok = true.
Proof. repeat split; reflexivity. Qed.

Theorem c03_ok_packet : forall c eof aff last status warn rest,
  protocol_41 c = true -> aff < 2 ^ 64 -> last < 2 ^ 64 -> status < 65536 -> warn < 65536 ->
  dec_ok (enc_ok c eof aff last status warn ++ rest) = Some (eof, aff, last, status, warn, rest).
Proof. exact ok_roundtrip. Qed.
Theorem c03_eof_packet : forall c warn status, protocol_41 c = true -> warn < 65536 -> status < 65536 ->
  dec_eof (enc_eof c warn status) = Some (warn, status).
Proof. exact eof_roundtrip. Qed.
Theorem c03_err_packet : forall c code sqlstate msg, protocol_41 c = true -> code < 65536 -> len sqlstate = 5 ->
  dec_err (enc_err c code sqlstate msg) = Some (code, sqlstate, msg).
Proof. exact err_roundtrip. Qed.
Theorem c03_column_count_packet : forall c n rest, optional_metadata c = false -> n < 2 ^ 64 ->
  read_uint_len (enc_colcount c n ++ rest) = Some (n, rest).
Proof. exact colcount_roundtrip. Qed.
Theorem c03_column_definition_packet : forall cd rest, coldef_wf cd -> dec_coldef (enc_coldef cd None ++ rest) = Some (cd, rest).
Proof. exact coldef_roundtrip. Qed.
