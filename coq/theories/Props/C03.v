(* Props/C03.v - Every command gets exactly one complete, well-formed response (lockstep).
   Proved here: for every column count, row list and capability setting the packets each handler plan of
   Model/Conn.v writes form a response of the protocol grammar Model/Resp.v; a response cut at ANY point
   and completed by one ERR is a response; nothing may follow a complete response.
   The composition over whole conversations (Proofs/C03Proofs.v): for EVERY lock-step conversation - any list of
   commands, any application outcome, any schedule of row / loop / socket events and authentication exchanges - the
   packets the machine hands to the socket between two reads of a command are a response of the grammar for that command
   with consecutive sequence numbers, and the machine is back at its prompt only when that response is complete. *)
From Coq Require Import List Arith NArith Lia Bool.
From MM Require Import Lib.Bytes Model.Conn Model.Resp Proofs.RespProofs Proofs.C10Proofs Gen.FactsConn Gen.FactsPackets Gen.FactsControl Model.Packets Proofs.PacketProofs Proofs.C03Proofs Proofs.FuelProofs Proofs.DeferProofs Proofs.PipelineProofs.
From MM Require Import Gen.FactsOutline.
Import ListNotations.
Open Scope N_scope.

Definition BATCH : N := utils_batch_size.

Theorem c03_source_shape :
  translated_conn = true /\ connection_connection_command_phase_ok = true /\ connection_connection_handle_query_ok = true /\
  connection_connection_text_resultset_ok = true /\ connection_connection_ok_or_eof_ok = true /\
  connection_connection_handle_stmt_prepare_ok = true /\ connection_connection_com_stmt_prepare_response_ok = true /\
  connection_connection_handle_stmt_execute_ok = true /\ connection_connection_handle_stmt_fetch_ok = true /\
  connection_connection_handle_field_list_ok = true /\ connection_connection_handle_stmt_send_long_data_ok = true /\
  connection_connection_handle_stmt_close_ok = true /\ connection_connection_handle_ping_ok = true /\
  connection_connection_handle_init_db_ok = true /\ connection_connection_handle_stmt_reset_ok = true /\
  stream_mysqlstream_write_ok = true /\ stream_mysqlstream_reset_seq_ok = true /\
  constants_default_server_capabilities_ok = true /\ packets_make_column_count_ok = true /\
  types_cap_deprecate_eof_bit = 24 /\
  connection_connection_init___ok = true /\ connection_connection_ok_ok = true /\ connection_connection_eof_ok = true /\
  packets_make_com_stmt_prepare_ok_ok = true /\ results_resultset_bool___ok = true /\ utils_seq_ok = true.
Proof. repeat split; reflexivity. Qed.

(* the modules this property rests on define the functions, classes, methods and class-level names they defined when the
   model was transcribed - nothing added (an override, a new helper in the path), removed or renamed *)
Theorem c03_module_outlines : translated_outline = true /\ outline_connection_ok = true /\ outline_packets_ok = true /\ outline_stream_ok = true /\ outline_results_ok = true.
Proof. repeat split; reflexivity. Qed.


Theorem c03_text_resultset : forall s sz items, has_raise items = false -> sz_coldef sz <> [] ->
  accepts (deprecate_eof s) RKQuery (plan_pkts (text_plan BATCH s sz items)) = true.
Proof. exact (text_plan_accepted BATCH). Qed.

Theorem c03_resultset_grammar : forall dep cols idx, cols <> [] -> accepts dep RKQuery (resultset dep cols idx) = true.
Proof. exact resultset_accepted. Qed.

Theorem c03_binary_resultset : forall dep cols idx, cols <> [] -> accepts dep (RKExecute false) (resultset dep cols idx) = true.
Proof. exact exec_resultset_accepted. Qed.

Theorem c03_cursor_open : forall dep cols, cols <> [] ->
  accepts dep (RKExecute true) (PColCount (len cols) :: map (fun _ : N => PColDef) cols ++ [term_pkt dep FL_CURSOR_EXISTS]) = true.
Proof. exact cursor_open_accepted. Qed.

Theorem c03_prepare_block : forall s n sz, n = len (sz_coldef sz) ->
  accepts (deprecate_eof s) RKPrepare (plan_pkts (snd (handler BATCH s (CPrepare n sz)))) = true.
Proof. exact (prepare_plan_accepted BATCH). Qed.

Theorem c03_field_list : forall dep defs,
  accepts dep RKFieldList (map (fun _ : N => PFieldList 1) defs ++ [term_pkt dep 0]) = true.
Proof. exact fieldlist_accepted. Qed.

(* failure half-way through streaming: what was written plus exactly one ERR is a response *)
Theorem c03_midstream_failure : forall dep c pre post code, c <> RKNone ->
  accepts dep c (pre ++ post) = true -> post <> [] -> accepts dep c (pre ++ [PErr code]) = true.
Proof. exact midstream_err_accepted. Qed.

Theorem c03_single_err : forall dep c code, c <> RKNone -> accepts dep c [PErr code] = true.
Proof. exact err_only_accepted. Qed.

(* the client is never sent a packet it did not ask for: anything after a complete response is rejected *)
Theorem c03_nothing_after_complete : forall dep c ps extra, accepts dep c ps = true -> c <> RKNone -> extra <> [] ->
  accepts dep c (ps ++ extra) = false.
Proof. exact nothing_after_complete. Qed.

(* the no-reply commands produce no packet, also for unknown statement ids *)
Theorem c03_no_reply_commands : forall s id,
  plan_pkts (snd (handler BATCH s (CLongData id))) = [] /\ plan_pkts (snd (handler BATCH s (CClose id))) = [] /\
  plan_pkts (snd (handler BATCH s CQuit)) = [].
Proof. intros. repeat split; reflexivity. Qed.

(* 300 rows: the sequence ids wrap through 255 -> 0 and the response is still the grammar's *)
Example c03_seq_wrap :
  let r := Proofs.C10Proofs.session conn_buffer_size BATCH 50
             [EvHandshake true true; EvDecide ASuccess; EvApp OVoid; EvPayload CQuery;
              EvApp (OSet (mk_sizes 1 [20] 5 7) (repeat (IRow 5) 300))] in
  let pk := flat_map (fun o => match o with OWrite ps => ps | _ => [] end) (snd r) in
  map fst (skipn 256 pk) = [255; 0; 1; 2; 3; 4; 5; 6; 7; 8; 9; 10; 11; 12; 13; 14; 15; 16; 17; 18; 19; 20; 21; 22; 23; 24;
                            25; 26; 27; 28; 29; 30; 31; 32; 33; 34; 35; 36; 37; 38; 39; 40; 41; 42; 43; 44; 45; 46; 47] /\
  accepts true RKQuery (map snd (skipn 2 pk)) = true.
Proof. vm_compute. split; reflexivity. Qed.

(* ---- the packets themselves, byte for byte (Model/Packets.v): what the server encodes, a client decodes --------------- *)
Theorem c03_packet_source_shape :
  packets_make_ok_ok = true /\ packets_make_eof_ok = true /\ packets_make_error_ok = true /\
  packets_make_column_definition_41_ok = true /\ packets_make_handshake_v10_ok = true /\ types_str_fixed_ok = true /\
  types_str_null_ok = true /\ types_str_len_ok = true /\ types_str_rest_ok = true /\ types_uint_1_ok = true /\ types_uint_2_ok = true /\
  types_uint_4_ok = true /\ errors_get_sqlstate_ok = true.
Proof. repeat split; reflexivity. Qed.

Theorem c03_ok_packet : forall c eof aff last status warn rest,
  protocol_41 c = true -> aff < 2 ^ 64 -> last < 2 ^ 64 -> status < 65536 -> warn < 65536 ->
  dec_ok (enc_ok c eof aff last status warn ++ rest) = Some (eof, aff, last, status, warn, rest).
Proof. exact ok_roundtrip. Qed.
Theorem c03_eof_packet : forall c warn status, protocol_41 c = true -> warn < 65536 -> status < 65536 ->
  dec_eof (enc_eof c warn status) = Some (warn, status).
Proof. exact eof_roundtrip. Qed.
Theorem c03_err_packet : forall c code sqlstate msg, protocol_41 c = true -> code < 65536 -> len sqlstate = 5 ->
  dec_err (enc_err c code sqlstate msg) = Some (code, sqlstate, msg).
Proof. exact err_roundtrip. Qed.
Theorem c03_column_count_packet : forall c n rest, optional_metadata c = false -> n < 2 ^ 64 ->
  read_uint_len (enc_colcount c n ++ rest) = Some (n, rest).
Proof. exact colcount_roundtrip. Qed.
Theorem c03_column_definition_packet : forall cd rest, coldef_wf cd -> dec_coldef (enc_coldef cd None ++ rest) = Some (cd, rest).
Proof. exact coldef_roundtrip. Qed.

(* ---- the composition: every lock-step conversation ------------------------------------------------------------------
   `lockstep B BATCH dep s rounds`: for each round (c, evs) - the command c sent to a server waiting at its prompt, followed
   by the events evs - a client that parses what it is sent with the grammar of c (`observe`: rstep, plus the sequence-number
   check, starting at 1 and skipping the number of its own reply to an authentication request) never rejects a packet, and
   if the server is back at its prompt the response is complete (accepting), the state is quiescent (buffer empty, sequence
   reset) and the rest of the conversation has the same property.
   Events: the application's outcome (`out_ok`: a result set has at least one column - what ensure_result_set guarantees;
   exceptions of either kind allowed), rows becoming available, loop turns, the socket pausing / resuming, the identity
   provider's and the plugin's verdicts in a COM_CHANGE_USER exchange.  Not in scope here: kills (C09), a client that sends
   the next command before the response (pipelining: checked by the lock-step runs), disconnects and malformed frames (C07,
   C10).  The model's fuel: DESIGN.md section 11. *)
Theorem c03_lockstep_conversation : forall B BATCH dep rounds s,
  quiescent dep s -> at_prompt s ->
  Forall (fun r : cmd * list ev => cmd_ok (fst r) /\ Forall allowed (snd r)) rounds ->
  lockstep B BATCH dep s rounds.
Proof. exact lockstep_ok. Qed.

(* one round, in full: whatever state the machine is left in (suspended anywhere, finished, or out of fuel) the monitor has
   not rejected; at the prompt it accepts *)
Theorem c03_round : forall B BATCH dep c evs s,
  cmd_ok c -> quiescent dep s -> at_prompt s -> Forall allowed evs ->
  let r := Proofs.C10Proofs.exec B BATCH s (EvPayload c :: evs) in
  m_rs (observe dep (rkind_of c) (snd r)) <> RBad /\
  (at_prompt (fst r) -> accepting (rkind_of c) (m_rs (observe dep (rkind_of c) (snd r))) = true /\ quiescent dep (fst r)).
Proof.
  intros B BATCH dep c evs s Hc Q P Ha.
  assert (F : Forall (fun r : cmd * list ev => cmd_ok (fst r) /\ Forall allowed (snd r)) [(c, evs)]) by (apply Forall_cons; [split; assumption|apply Forall_nil]).
  pose proof (lockstep_ok B BATCH dep [(c, evs)] s Q P F) as L.
  cbn [lockstep] in L. destruct L as [L1 L2]. split; [exact L1|]. intros P'. destruct (L2 P') as (A & Q' & _). now split.
Qed.

(* a connection that logged in waits at its prompt in a quiescent state: the conversations above start here *)
Theorem c03_prompt_after_login : forall B BATCH dep hs,
  let s := fst (Proofs.C10Proofs.exec B BATCH (fst (boot B BATCH hs)) [EvHandshake true dep; EvDecide ASuccess; EvApp OVoid]) in
  quiescent dep s /\ at_prompt s.
Proof. exact session_at_prompt. Qed.

(* non-vacuity: a conversation over result sets (async source, failure in mid-stream, a paused socket), prepared statements,
   a cursor, a COM_CHANGE_USER with a two-step exchange and the no-reply COM_STMT_CLOSE returns to the prompt after EVERY
   round - so the "complete response" half of the theorem applies to each of them *)
Definition c03_conv : list (cmd * list ev) :=
  [(CQuery, [EvApp (OSet (mk_sizes 1 [20; 21] 5 7) [IRow 5; ISuspend; IRow 6]); EvRowReady]);
   (CPing, []);
   (CPrepare 1 (mk_sizes 12 [24] 5 0), []);
   (CExecute 0 true, [EvApp (OSet (mk_sizes 1 [20] 5 7) [IRow 5; IRow 6; IRow 7])]);
   (CFetch 0 2 5, []);
   (CQuery, [EvPause; EvApp (OSet (mk_sizes 1 [20] 5 7) [IRow 5; IRaise (Some 1064)]); EvResume]);
   (CChangeUser, [EvDecide ASwitch; EvAuthReply AMore; EvAuthReply ASuccess; EvApp OVoid]);
   (CClose 0, []); (CFieldList, [EvApp (ORaise None)]); (CPing, [])].
Fixpoint c03_prompts (B BATCH : N) (s : st) (rs : list (cmd * list ev)) : list bool :=
  match rs with
  | [] => []
  | (c, evs) :: rest =>
      let r := Proofs.C10Proofs.exec B BATCH s (EvPayload c :: evs) in
      (match ctl_ (fst r) with Susp WRead [] FRead None => true | _ => false end) :: c03_prompts B BATCH (fst r) rest
  end.
Example c03_lockstep_nonvacuous :
  Forall (fun r : cmd * list ev => cmd_ok (fst r) /\ Forall allowed (snd r)) c03_conv /\
  c03_prompts conn_buffer_size BATCH
    (fst (Proofs.C10Proofs.exec conn_buffer_size BATCH (fst (boot conn_buffer_size BATCH 78)) [EvHandshake true false; EvDecide ASuccess; EvApp OVoid]))
    c03_conv = [true; true; true; true; true; true; true; true; true; true].
Proof.
  split; [|vm_compute; reflexivity].
  unfold c03_conv. repeat (apply Forall_cons; [split; [cbn; auto|repeat (apply Forall_cons; [cbn; auto; discriminate|]); apply Forall_nil]|]). apply Forall_nil.
Qed.

(* the model's fuel: running a plan with the amount FUEL computes, or with ANY larger amount, gives the same state and the
   same outputs - `go` is the fuel-independent semantics of the machine, `Stuck` is never the result of running out of fuel
   (Proofs/FuelProofs.v: a potential over plan length, queued commands weighted by their cursors, and the frame) *)
Theorem c03_fuel_suffices : forall B BATCH s k f n, (FUEL s k <= n)%nat -> run B BATCH n s k f = go B BATCH s k f.
Proof. exact go_stable. Qed.

(* ---- conversations in which the client does NOT wait for the prompt (Proofs/DeferProofs.v, Proofs/PipelineProofs.v) ----------
   A command that reaches the server while it is busy waits in the queue and is dispatched when the plan in progress is
   exhausted: `c03_early_command` - running ANY plan with commands appended to the queue equals running it without them and,
   if that run ends at the prompt, handing them over one by one (`defer`); for every state, plan, frame and queue.
   Consequently EVERY conversation - commands at any moment at which the connection takes commands (`takes_commands`:
   alive and not inside the authentication exchange of a COM_CHANGE_USER, whose next packet IS the exchange's reply;
   COM_CHANGE_USER itself only at the prompt), any application
   outcomes, any schedule of the other events - is executed as the lock-step conversation `execp` in which each command is
   handed over at a prompt; the monitor, restarted at each hand-over, accepts at every hand-over and has not rejected at the
   end (`v = true`): the stream a pipelining client receives is the concatenation of complete, well-formed responses with
   consecutive sequence numbers in the order of its commands, the last one possibly still in progress; commands not yet
   read (`D'`) are still queued. *)
Theorem c03_early_command : forall B BATCH n s k f W D,
  (wt s k <= W)%nat -> (Phi W (DeferProofs.Tq D s) k f <= n)%nat -> Ik s -> (f = FRead -> k = []) ->
  run B BATCH n (DeferProofs.Tq D s) k f = defer B BATCH (run B BATCH n s k f) D.
Proof. exact run_defer. Qed.

Theorem c03_pipelined_conversation : forall B BATCH dep evs s,
  quiescent dep s -> at_prompt s -> pvalid B BATCH dep s [] evs ->
  let '(rk', m', s', D', o, v) := execp B BATCH dep RKOk (mk_mon RDone 0) s [] evs in
  Proofs.C10Proofs.exec B BATCH s evs = (DeferProofs.Tq D' s', o) /\ v = true.
Proof. exact pipelined_from_prompt. Qed.

(* non-vacuity: a client that sends four commands at once, then more while results are produced under a paused socket *)
Definition c03_pipe : list ev :=
  [EvPayload CQuery; EvPayload CPing; EvPayload (CClose 3); EvPayload CQuery; EvPause;
   EvApp (OSet (mk_sizes 1 [20] 5 7) [IRow 5; IRow 6]); EvPayload (CPrepare 1 (mk_sizes 12 [24] 5 0)); EvResume;
   EvApp (ORaise None); EvPayload CPing].
Example c03_pipelined_nonvacuous :
  let s := fst (Proofs.C10Proofs.exec conn_buffer_size BATCH (fst (boot conn_buffer_size BATCH 78)) [EvHandshake true false; EvDecide ASuccess; EvApp OVoid]) in
  pvalid conn_buffer_size BATCH false s [] c03_pipe /\
  (let '(rk', m', s', D', o, v) := execp conn_buffer_size BATCH false RKOk (mk_mon RDone 0) s [] c03_pipe in
   (D', v, is_prompt s')) = ([], true, true).
Proof. vm_compute. repeat split; auto; try (intros H; discriminate H). Qed.
