(* Props/C03.v - placeholder, extended below *)
From MM Require Import Model.Conn Model.Resp.
