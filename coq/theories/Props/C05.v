(* Props/C05.v - Clients decode exactly the values the application returned (text and binary). *)
From Coq Require Import List Arith NArith ZArith Lia Bool.
From MM Require Import Lib.Bytes Lib.Bitmap Lib.Decimal Model.Values Proofs.ValueProofs Gen.FactsResults Gen.FactsPackets.
From MM Require Import Gen.FactsOutline.
Import ListNotations.
Open Scope N_scope.

Theorem c05_source_shape :
  translated_results = true /\ results_text_encoders_ok = true /\ results_binary_encoders_ok = true /\
  results_py_to_mysql_type_ok = true /\ results_binary_encode_tiny_ok = true /\ results_binary_encode_str_ok = true /\
  results_binary_encode_date_ok = true /\ results_binary_encode_short_ok = true /\ results_binary_encode_long_ok = true /\
  results_binary_encode_longlong_ok = true /\ results_timedelta_parts_ok = true /\ results_text_encode_timedelta_ok = true /\
  results_binary_encode_timedelta_ok = true /\ results_text_encode_str_ok = true /\ results_text_encode_tiny_ok = true /\
  results_infer_type_ok = true /\ results_ensure_result_cols_ok = true /\ results_ensure_result_set_ok = true /\
  results_nullbitmap_new_ok = true /\ results_nullbitmap_num_bytes_ok = true /\ results_nullbitmap_flip_ok = true /\
  results_nullbitmap_pos_ok = true /\ packets_make_text_resultset_row_ok = true /\ packets_make_binary_resultrow_ok = true /\
  packets_make_column_definition_41_ok = true /\ packets_make_column_count_ok = true /\ types_str_len_ok = true /\
  types_fixed_width_ok = true /\ types_uint_len_ok = true.
Proof. repeat split; reflexivity. Qed.

(* the modules this property rests on define the functions, classes, methods and class-level names they defined when the
   model was transcribed - nothing added (an override, a new helper in the path), removed or renamed *)
Theorem c05_module_outlines : translated_outline = true /\ outline_results_ok = true /\ outline_packets_ok = true /\ outline_connection_ok = true.
Proof. repeat split; reflexivity. Qed.


(* durations: the decomposition into sign / hours / minutes / seconds / microseconds loses nothing - for every
   timedelta: negative, more than 24 hours, fractional *)
Theorem c05_duration_fields_lossless : forall us,
  let '(neg, h, mi, s, f) := dur_parts us in dur_of_parts neg h mi s f = us.
Proof. exact dur_roundtrip. Qed.

(* binary TIME: a client reads back exactly the application's duration *)
Theorem c05_binary_time_roundtrip : forall us rest, (Z.abs us < 2 ^ 32 * 86400000000)%Z ->
  dec_bin_time (bin_time us ++ rest) = Some (us, rest).
Proof. exact bin_time_roundtrip. Qed.

(* dates and timestamps: every field up to the microsecond survives both protocols, for every calendar value
   (the hypotheses hold for every Python date/datetime: year <= 9999, month <= 12, ... microsecond <= 999999) *)
Theorem c05_binary_datetime_roundtrip : forall y m d h mi s us rest, y < 65536 -> us < 2 ^ 32 ->
  dec_bin_datetime (bin_datetime y m d h mi s us ++ rest) = Some ((y, m, d, h, mi, s, us), rest).
Proof. exact bin_datetime_roundtrip. Qed.
Theorem c05_text_date_roundtrip : forall y m d, y < 10000 -> m < 100 -> d < 100 -> dec_text_date (text_date y m d) = Some (y, m, d).
Proof. exact text_date_roundtrip. Qed.
Theorem c05_text_datetime_roundtrip : forall y m d h mi s us,
  y < 10000 -> m < 100 -> d < 100 -> h < 100 -> mi < 100 -> s < 100 -> us < 1000000 ->
  dec_text_datetime (text_datetime y m d h mi s us) = Some (y, m, d, h, mi, s, us).
Proof. exact text_datetime_roundtrip. Qed.
Example c05_midnight_with_microseconds :
  dec_bin_datetime (bin_datetime 2000 1 1 0 0 0 5) = Some ((2000, 1, 1, 0, 0, 0, 5), []).
Proof. reflexivity. Qed.

(* integers of every width: binary (two's complement) and text (decimal) *)
Theorem c05_binary_int_roundtrip : forall k z, (0 < k)%nat ->
  (- (256 ^ Z.of_nat k) / 2 <= z < 256 ^ Z.of_nat k / 2)%Z ->
  to_signed k (le_val (le_bytes k (of_signed k z))) = z.
Proof. exact bin_int_roundtrip. Qed.

Theorem c05_text_int_roundtrip : forall z, undec_Z (dec_Z z) = Some z.
Proof. exact text_int_roundtrip. Qed.

(* text rows: every column count, every pattern of NULLs, every cell contents (also > 250 bytes and > 64 KiB) *)
Theorem c05_text_row_roundtrip : forall cells rest,
  Forall (fun c => match c with Some b => len b < 2 ^ 64 | None => True end) cells ->
  dec_text_row (length cells) (enc_cells cells ++ rest) = Some (cells, rest).
Proof. exact text_row_roundtrip. Qed.

(* binary rows: the NULL bitmap with bit offset 2 is read back for EVERY column count (6/7/14/15 are instances) *)
Theorem c05_binary_null_bitmap : forall nulls, read_bitmap 2 (length nulls) (bitmap 2 nulls) = nulls.
Proof. exact bin_row_null_bitmap. Qed.

Theorem c05_binary_bitmap_size : forall n, length (bitmap 2 (repeat false n)) = ((n + 9) / 8)%nat.
Proof. exact bin_row_bitmap_size. Qed.

(* strings: the length prefix is exact for every length below 2^64 *)
Theorem c05_string_roundtrip : forall s rest, len s < 2 ^ 64 -> read_str_len (str_len s ++ rest) = Some (s, rest).
Proof. exact str_len_roundtrip. Qed.

(* inference by peeking never drops, duplicates or reorders a row and keeps the number of columns *)
Theorem c05_inference_preserves_rows : forall cols rows, snd (ensure_cols cols rows) = rows.
Proof. exact ensure_preserves_rows. Qed.
Theorem c05_inference_column_count : forall cols rows, length (fst (ensure_cols cols rows)) = length cols.
Proof. exact ensure_column_count. Qed.

Example c05_domain_nonempty :
  dec_bin_time (bin_time (-1000000)) = Some ((-1000000)%Z, []) /\
  text_time (-1000000) = [45; 48; 48; 58; 48; 48; 58; 48; 49] /\
  text_time (90000000000 + 5) = [50; 53; 58; 48; 48; 58; 48; 48; 46; 48; 48; 48; 48; 48; 53] /\
  dec_text_time (text_time (-3723000007)) = Some (-3723000007)%Z /\
  fst (ensure_cols [None; None; Some 8] [[VNull; VStr [97]; VInt 1]; [VBool true; VNull; VInt 2]]) = [T_TINY; T_STRING; 8].
Proof. vm_compute. repeat split; reflexivity. Qed.
