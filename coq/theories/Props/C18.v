(* Props/C18.v - Connection ids are unique among live connections and address the right one. *)
From Coq Require Import List NArith Lia Bool.
From MM Require Import Lib.Bytes Model.ConnId Proofs.ConnIdProofs Gen.FactsControl Gen.FactsConn Model.Packets Proofs.PacketProofs.
From MM Require Import Gen.FactsOutline.
Import ListNotations.
Open Scope N_scope.

Definition W : N := control_max_seq.
Definition prefix_of (sid : N) : N := id_prefix control_max_server_id control_id_bits sid.

(* the code still has the shape the model was transcribed from, and the layout is 16 + 16 bits *)
Theorem c18_source_shape :
  translated_control = true /\ control_new_id_skeleton_ok = true /\ control_add_remove_kill_ok = true /\
  utils_seq_ok = true /\ W = 2 ^ control_id_bits /\ control_id_bits = 16 /\ control_max_server_id = 2 ^ 16 /\
  server_too_many_code = 1040 /\ server_cb_finally_ok = true /\
  (* the registry entry lives exactly as long as the connection task: the only removal is the wrapper's `finally` *)
  server_mysqlserver_client_connected_cb_ok = true /\ connection_connection_start_ok = true /\
  connection_connection_inner_start_ok = true /\ connection_connection_kill_ok = true.
Proof. repeat split; vm_compute; reflexivity. Qed.

(* the modules this property rests on define the functions, classes, methods and class-level names they defined when the
   model was transcribed - nothing added (an override, a new helper in the path), removed or renamed *)
Theorem c18_module_outlines : translated_outline = true /\ outline_control_ok = true /\ outline_server_ok = true /\ outline_utils_ok = true.
Proof. repeat split; reflexivity. Qed.


Lemma Wpos : 0 < W. Proof. reflexivity. Qed.

(* a configured server id - 0 included - is the one that is used *)
Theorem c18_configured_server_id : forall sid rnd, effective_server_id control_sid_mode (Some sid) rnd = sid.
Proof. exact (fun sid rnd => eq_refl). Qed.

(* with fewer than W live connections a new id is handed out: not live, carrying the prefix *)
Theorem c18_fresh : forall sid r, Inv W (prefix_of sid) r -> len (live r) < W ->
  exists id v', new_id W (prefix_of sid) r = IdOk id v' /\ ~ In id (live r) /\
                has_prefix W (prefix_of sid) id /\ v' < W.
Proof. exact (fun sid => add_fresh W Wpos (prefix_of sid)). Qed.

(* for every history of arrivals and departures: ids pairwise distinct, all with the prefix *)
Theorem c18_unique_forever : forall sid ops r, Inv W (prefix_of sid) r ->
  Inv W (prefix_of sid) (fst (run W (prefix_of sid) r ops)).
Proof. exact (fun sid => run_inv W Wpos (prefix_of sid)). Qed.

(* the `while id in connections` loop terminates in every reachable registry *)
Theorem c18_search_terminates : forall sid ops r, Inv W (prefix_of sid) r ->
  ~ In Stuck (snd (run W (prefix_of sid) r ops)).
Proof. exact (fun sid => run_never_stuck W Wpos (prefix_of sid)). Qed.

Theorem c18_full_refuses : forall sid r, W <= len (live r) -> new_id W (prefix_of sid) r = IdFull.
Proof. exact (fun sid => add_full W Wpos (prefix_of sid)). Qed.

Theorem c18_recover : forall sid r id, Inv W (prefix_of sid) r -> In id (live r) ->
  exists id' v', new_id W (prefix_of sid) (fst (step W (prefix_of sid) r (Remove id))) = IdOk id' v'.
Proof. exact (fun sid => full_then_recover W Wpos (prefix_of sid)). Qed.

(* ids are 32-bit, upper half = server id mod 2^16, lower half = the sequence value *)
Theorem c18_layout : forall sid x, x < W ->
  let id := prefix_of sid + x in
  id / 2 ^ 16 = sid mod 2 ^ 16 /\ id mod 2 ^ 16 = x /\ id < 2 ^ 32.
Proof. exact (fun sid x H => id_layout (2 ^ 16) 16 sid x eq_refl H). Qed.

Example c18_inv_nonvacuous : Inv W (prefix_of 7) (mk_reg [prefix_of 7 + 3; prefix_of 7 + 65535] 4).
Proof.
  repeat split; cbn [live ctr].
  - repeat constructor; cbn; intuition discriminate.
  - repeat constructor; [exists 3|exists 65535]; split; reflexivity.
Qed.

(* the id a client sees: the greeting carries the connection id in a 4-byte field that a client reads back unchanged
   (Model/Packets.v), for every 32-bit id, version string, nonce and capability word *)
Theorem c18_greeting_carries_the_id : forall c capsw cs version cid auth status plugin,
  no_nul version -> cid < 2 ^ 32 -> capsw < 2 ^ 32 -> cs < 256 -> status < 65536 -> 8 <= len auth -> len auth < 256 ->
  match dec_handshake (enc_handshake c capsw cs version cid auth status plugin) with
  | Some (_, cid', _, _, _, _, _, _) => cid' = cid
  | None => False
  end.
Proof.
  intros c capsw cs version cid auth status plugin H1 H2 H3 H4 H5 H6 H7.
  rewrite (handshake_roundtrip c capsw cs version cid auth status plugin H1 H2 H3 H4 H5 H6 H7). reflexivity.
Qed.
