(* Props/C12.v - Results stream lazily with back-pressure and without starving other clients. *)
From Coq Require Import List Arith NArith Lia Bool.
From MM Require Import Lib.Bytes Model.Conn Model.Resp Proofs.C10Proofs Proofs.StreamProofs Proofs.C03Proofs Proofs.LazyProofs Gen.FactsConn Gen.FactsStream Gen.FactsRoute Gen.FactsVars.
From MM Require Import Gen.FactsOutline.
Import ListNotations.
Open Scope N_scope.

Definition B : N := conn_buffer_size.
Definition BATCH : N := utils_batch_size.
Lemma BATCHpos : 0 < BATCH. Proof. reflexivity. Qed.

Theorem c12_source_shape :
  translated_conn = true /\ stream_mysqlstream_write_ok = true /\ stream_mysqlstream_drain_ok = true /\ stream_mysqlstream_start_tls_ok = true /\
  utils_cooperative_iterate_ok = true /\ utils_aiterate_ok = true /\ connection_connection_text_resultset_ok = true /\
  connection_connection_handle_query_ok = true /\ connection_connection_handle_stmt_execute_ok = true /\
  connection_connection_handle_stmt_fetch_ok = true /\ stream_flush_rule_ge = true /\ stream_buffer_size = B /\
  (* between the application and the connection the result object passes the session's middleware chain untouched *)
  session_query_next_ok = true /\ session_query_start_ok = true /\ session_session_handle_query_ok = true /\
  session_session_set_var_middleware_ok = true /\ session_session_replace_variables_middleware_ok = true /\
  session_session_info_schema_middleware_ok = true /\ connection_connection_query_ok = true.
Proof. repeat split; reflexivity. Qed.

(* the modules this property rests on define the functions, classes, methods and class-level names they defined when the
   model was transcribed - nothing added (an override, a new helper in the path), removed or renamed *)
Theorem c12_module_outlines : translated_outline = true /\ outline_connection_ok = true /\ outline_stream_ok = true /\ outline_results_ok = true /\ outline_utils_ok = true.
Proof. repeat split; reflexivity. Qed.


(* back-pressure, buffer part: after ANY write the library holds less than B bytes, or nothing *)
Theorem c12_buffer_bounded : forall s p sz d,
  buf_bytes (buf (state_of (exec_op B s (MWrite p sz d)))) < B \/ buf (state_of (exec_op B s (MWrite p sz d))) = [].
Proof. exact (write_keeps_buffer_bounded B). Qed.

(* accounting: pulled = handed to the socket + rows buffered + rows in flight; a pull adds one row in flight,
   writing a row removes it, nothing else changes the balance *)
Theorem c12_pull_then_write : forall s i sz d n,
  in_flight_ok s n -> in_flight_ok (state_of (exec_op B (state_of (exec_op B s MPull)) (MWrite (PRow i) sz d))) n.
Proof. intros s i sz d n H. apply (write_row_lands B BATCH BATCHpos). now apply (pull_takes_one B BATCH BATCHpos). Qed.

Theorem c12_other_packets_keep_balance : forall s p sz d n, is_rowpkt p = false -> in_flight_ok s n ->
  in_flight_ok (state_of (exec_op B s (MWrite p sz d))) n.
Proof. exact (write_other_keeps B BATCH BATCHpos). Qed.

(* laziness: in the text protocol, the binary protocol and cursor fetches, for EVERY source (any length - the
   bound does not depend on it - any mixture of rows, waits and a raise) at most ONE pulled row is ever waiting
   to be written *)
Theorem c12_text_one_row_in_flight : forall items i, (max_in_flight (rows_plan BATCH items i) 0 <= 1)%nat.
Proof. exact (rows_plan_one_in_flight BATCH BATCHpos). Qed.
Theorem c12_binary_one_row_in_flight : forall items i, (max_in_flight (bin_rows_plan BATCH items i) 0 <= 1)%nat.
Proof. exact (bin_rows_plan_one_in_flight BATCH BATCHpos). Qed.
Theorem c12_fetch_one_row_in_flight : forall id items fuel j c want i0,
  (max_in_flight (fst (fetch_plan BATCH fuel id items j c want i0)) 0 <= 1)%nat.
Proof. exact (fetch_plan_one_in_flight BATCH BATCHpos). Qed.

(* fairness: a source that never suspends by itself hands control back to the event loop after at most
   BATCH + 1 rows, from every position of every result *)
Theorem c12_yield_within_batch : forall items i,
  N.of_nat (pulls_before_yield (rows_plan BATCH items i)) <= BATCH + 1.
Proof. exact (rows_plan_yields BATCH BATCHpos). Qed.

Example c12_bound_value : B / 5 + 1 = 6554.
Proof. reflexivity. Qed.

(* ---- over whole conversations (Proofs/LazyProofs.v, on top of the invariant of Proofs/C03Proofs.v) --------------------------------
   In the state every round of every lock-step conversation ends in (any commands except COM_FIELD_LIST, whose handler consumes
   the library's own catalogue result; any application outcomes; any schedule of row / loop / socket events), unless the
   connection is closing: the write buffer is below its limit (or empty), and the rows pulled from the application's sources
   are at most the rows handed to the socket plus the rows in the buffer plus ONE - the server is never more than one buffer
   and one row ahead of the socket; and when the server is back at its prompt nothing is in flight.  `base` is the difference
   of the two counters when the conversation starts (0 for a fresh connection). *)
Theorem c12_lookahead_in_every_conversation : forall B BATCH dep base rounds s,
  quiescent dep s -> at_prompt s -> acct base s 0 ->
  Forall (fun r : cmd * list ev => cmd_ok (fst r) /\ no_fieldlist (fst r) /\ Forall allowed (snd r)) rounds ->
  lazy_rounds B BATCH base s rounds.
Proof. exact lazy_lockstep. Qed.

(* in bytes: 4 x (pulled - handed - base) <= B + 4 *)
Theorem c12_lookahead_in_bytes : forall B base s, lazy_state B base s ->
  match ctl_ s with
  | Susp _ _ (FClose _) _ => True
  | Susp _ _ _ _ => 4 * pulled s <= 4 * (base + handed s) + B + 4
  | _ => True
  end.
Proof. exact lazy_state_bytes. Qed.

(* non-vacuity: a fresh connection meets the premises; a 40-row result under a paused socket ends the round suspended in the
   socket drain, where the bound applies *)
Example c12_conversation_nonvacuous :
  let s := fst (exec B BATCH (fst (boot B BATCH 78)) [EvHandshake true false; EvDecide ASuccess; EvApp OVoid]) in
  quiescent false s /\ at_prompt s /\ acct 0 s 0 /\
  ctl_ (fst (exec B BATCH s [EvPayload CQuery; EvPause; EvApp (OSet (mk_sizes 1 [20] 5 7) (repeat (IRow 2000) 40))])) =
    Susp WDrain (skipn 37 (text_plan BATCH s (mk_sizes 1 [20] 5 7) (repeat (IRow 2000) 40))) FHandler None.
Proof. vm_compute. repeat split; reflexivity. Qed.
