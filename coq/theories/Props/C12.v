(* Props/C12.v - Results stream lazily with back-pressure and without starving other clients. *)
From Coq Require Import List Arith NArith Lia Bool.
From MM Require Import Lib.Bytes Model.Conn Proofs.StreamProofs Gen.FactsConn Gen.FactsStream Gen.FactsRoute Gen.FactsVars.
Import ListNotations.
Open Scope N_scope.

Definition B : N := conn_buffer_size.
Definition BATCH : N := utils_batch_size.
Lemma BATCHpos : 0 < BATCH. Proof. reflexivity. Qed.

Theorem c12_source_shape :
  translated_conn = true /\ stream_mysqlstream_write_ok = true /\ stream_mysqlstream_drain_ok = true /\
  utils_cooperative_iterate_ok = true /\ utils_aiterate_ok = true /\ connection_connection_text_resultset_ok = true /\
  connection_connection_handle_query_ok = true /\ connection_connection_handle_stmt_execute_ok = true /\
  connection_connection_handle_stmt_fetch_ok = true /\ stream_flush_rule_ge = true /\ stream_buffer_size = B /\
  (* between the application and the connection the result object passes the session's middleware chain untouched *)
  session_query_next_ok = true /\ session_query_start_ok = true /\ session_session_handle_query_ok = true /\
  session_session_set_var_middleware_ok = true /\ session_session_replace_variables_middleware_ok = true /\
  session_session_info_schema_middleware_ok = true /\ connection_connection_query_ok = true.
Proof. repeat split; reflexivity. Qed.

(* back-pressure, buffer part: after ANY write the library holds less than B bytes, or nothing *)
Theorem c12_buffer_bounded : forall s p sz d,
  buf_bytes (buf (state_of (exec_op B s (MWrite p sz d)))) < B \/ buf (state_of (exec_op B s (MWrite p sz d))) = [].
Proof. exact (write_keeps_buffer_bounded B). Qed.

(* accounting: pulled = handed to the socket + rows buffered + rows in flight; a pull adds one row in flight,
   writing a row removes it, nothing else changes the balance *)
Theorem c12_pull_then_write : forall s i sz d n,
  in_flight_ok s n -> in_flight_ok (state_of (exec_op B (state_of (exec_op B s MPull)) (MWrite (PRow i) sz d))) n.
Proof. intros s i sz d n H. apply (write_row_lands B BATCH BATCHpos). now apply (pull_takes_one B BATCH BATCHpos). Qed.

Theorem c12_other_packets_keep_balance : forall s p sz d n, is_rowpkt p = false -> in_flight_ok s n ->
  in_flight_ok (state_of (exec_op B s (MWrite p sz d))) n.
Proof. exact (write_other_keeps B BATCH BATCHpos). Qed.

(* laziness: in the text protocol, the binary protocol and cursor fetches, for EVERY source (any length - the
   bound does not depend on it - any mixture of rows, waits and a raise) at most ONE pulled row is ever waiting
   to be written *)
Theorem c12_text_one_row_in_flight : forall items i, (max_in_flight (rows_plan BATCH items i) 0 <= 1)%nat.
Proof. exact (rows_plan_one_in_flight BATCH BATCHpos). Qed.
Theorem c12_binary_one_row_in_flight : forall items i, (max_in_flight (bin_rows_plan BATCH items i) 0 <= 1)%nat.
Proof. exact (bin_rows_plan_one_in_flight BATCH BATCHpos). Qed.
Theorem c12_fetch_one_row_in_flight : forall id items fuel j c want i0,
  (max_in_flight (fst (fetch_plan BATCH fuel id items j c want i0)) 0 <= 1)%nat.
Proof. exact (fetch_plan_one_in_flight BATCH BATCHpos). Qed.

(* fairness: a source that never suspends by itself hands control back to the event loop after at most
   BATCH + 1 rows, from every position of every result *)
Theorem c12_yield_within_batch : forall items i,
  N.of_nat (pulls_before_yield (rows_plan BATCH items i)) <= BATCH + 1.
Proof. exact (rows_plan_yields BATCH BATCHpos). Qed.

Example c12_bound_value : B / 5 + 1 = 6554.
Proof. reflexivity. Qed.
