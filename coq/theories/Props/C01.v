(* Props/C01.v - placeholder, extended below *)
From MM Require Import Model.Conn.
