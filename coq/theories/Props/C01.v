(* Props/C01.v - No command is served on a connection that has not authenticated.
   Proved here, for EVERY event list (Proofs/C01Proofs.v, plan-aware invariants): on a fresh connection, as long as
   no verdict of the exchange is Success, the session receives nothing but the user lookup and the client nothing
   but greeting / auth requests / ERR (c01_nothing_before_success); from any state waiting for a command, a
   COM_CHANGE_USER whose exchange contains no Success verdict is never followed by a served call again
   (c01_change_user_without_success).  Also: a refusal finishes the connection for good, for every continuation
   (finite families of refusal prefixes, c01_refusal_is_final / c01_change_user_refusal_is_final). *)
From Coq Require Import List Arith NArith Lia Bool.
From MM Require Import Lib.Bytes Model.Conn Proofs.ConnInv Proofs.C10Proofs Proofs.KillProofs Proofs.C01Proofs Gen.FactsConn.
From MM Require Import Gen.FactsOutline.
Import ListNotations.
Open Scope N_scope.

Definition B : N := conn_buffer_size.
Definition BATCH : N := utils_batch_size.

Theorem c01_source_shape :
  translated_conn = true /\ connection_connection_authenticate_ok = true /\ connection_connection_inner_start_ok = true /\
  connection_connection_connection_phase_ok = true /\ connection_connection_handle_change_user_ok = true /\
  connection_connection_command_phase_ok = true /\
  err_access_denied_error = E_ACCESS_DENIED /\ err_user_does_not_exist = E_USER_DOES_NOT_EXIST /\
  connection_connection_init___ok = true /\ packets_make_auth_more_data_ok = true.
Proof. repeat split; reflexivity. Qed.

(* the modules this property rests on define the functions, classes, methods and class-level names they defined when the
   model was transcribed - nothing added (an override, a new helper in the path), removed or renamed *)
Theorem c01_module_outlines : translated_outline = true /\ outline_auth_ok = true /\ outline_connection_ok = true.
Proof. repeat split; reflexivity. Qed.


Definition served (o : out) : bool :=
  match o with OSess SInit | OSess SQuery | OSess SReset | OSess SUse => true | _ => false end.
Definition non_err_write (o : out) : bool :=
  match o with OWrite ps => existsb (fun qp => match snd qp with PErr _ => false | _ => true end) ps | _ => false end.

Lemma exec_app s a b : exec B BATCH s (a ++ b) =
  let '(s1, o1) := exec B BATCH s a in let '(s2, o2) := exec B BATCH s1 b in (s2, o1 ++ o2).
Proof.
  revert s. induction a as [|e a IH]; intros s; cbn [app exec].
  - destruct (exec B BATCH s b); reflexivity.
  - destruct (step B BATCH s e) as [s1 o1]. rewrite IH. destruct (exec B BATCH s1 a) as [s2 o2].
    destruct (exec B BATCH s2 b) as [s3 o3]. now rewrite app_assoc.
Qed.

Lemma exec_done s evs : ctl_ s = Done -> exec B BATCH s evs = (s, []).
Proof.
  revert s. induction evs as [|e evs IH]; intros s H; [reflexivity|].
  cbn [exec]. rewrite (step_done B BATCH s e H). rewrite IH by assumption. reflexivity.
Qed.

Lemma done_of_flag (r : st * list out) (rest : bool) :
  (match ctl_ (fst r) with Done => true | _ => false end && rest) = true -> ctl_ (fst r) = Done.
Proof. destruct (ctl_ (fst r)); cbn; intros H; try discriminate H; reflexivity. Qed.

Lemma session_app_done hs pre evs : ctl_ (fst (session B BATCH hs pre)) = Done ->
  session B BATCH hs (pre ++ evs) = session B BATCH hs pre.
Proof.
  unfold session. destruct (boot B BATCH hs) as [s0 o0]. rewrite exec_app.
  destruct (exec B BATCH s0 pre) as [s1 o1]. cbn [fst]. intros D.
  rewrite (exec_done s1 evs D). now rewrite app_nil_r.
Qed.

(* a refusal (unknown user / forbidden / provider or plugin failure / unparsable handshake response) at the
   first verdict, after one or after two more-data / auth-switch round trips: the connection is finished,
   the session was never initialised, nothing was served; and for EVERY continuation of the client the
   outcome is the same: nothing more is called, nothing more is written *)
Definition refusal_prefixes : list (list ev) :=
  flat_map (fun dep =>
    [ [EvHandshake true dep; EvDecide ANoUser]; [EvHandshake true dep; EvDecide AForbidden];
      [EvHandshake true dep; EvDecide AMore; EvAuthReply AForbidden];
      [EvHandshake true dep; EvDecide ASwitch; EvAuthReply AForbidden];
      [EvHandshake true dep; EvDecide ASwitch; EvAuthReply AMore; EvAuthReply AForbidden];
      [EvHandshake true dep; EvDecide AMore; EvAuthReply AMore; EvAuthReply AMore; EvAuthReply AForbidden];
      [EvHandshake false dep]; [EvHandshake true dep; EvDecide ARaise]; [EvHandshake true dep; EvDecide AMore; EvAuthReply ARaise] ])
    [true; false].

Definition refused_ok (pre : list ev) : bool :=
  let r := session B BATCH 60 pre in
  match ctl_ (fst r) with Done => true | _ => false end &&
  negb (existsb served (snd r)) && negb (inited (fst r)) && (closes (fst r) =? 0)%nat.

Lemma refusals_computed : forallb refused_ok refusal_prefixes = true.
Proof. vm_compute. reflexivity. Qed.

Lemma refusals_done : Forall (fun pre => ctl_ (fst (session B BATCH 60 pre)) = Done) refusal_prefixes.
Proof. unfold refusal_prefixes. cbn [flat_map app]. repeat constructor; vm_compute; reflexivity. Qed.

Theorem c01_refusal_is_final : forall pre evs, In pre refusal_prefixes ->
  session B BATCH 60 (pre ++ evs) = session B BATCH 60 pre /\ refused_ok pre = true.
Proof.
  intros pre evs Hin. split.
  - apply session_app_done. pose proof refusals_done as D. rewrite Forall_forall in D. exact (D pre Hin).
  - pose proof refusals_computed as R. rewrite forallb_forall in R. exact (R pre Hin).
Qed.

(* a refused or aborted COM_CHANGE_USER: ERR, then only session.close, then the connection is finished;
   nothing the client sends afterwards is served *)
Definition cu_prefix (d : adecision) : list ev :=
  [EvHandshake true true; EvDecide ASuccess; EvApp OVoid; EvPayload CChangeUser; EvDecide d; EvApp OVoid].

Definition cu_ok (d : adecision) : bool :=
  let r := session B BATCH 60 (cu_prefix d) in
  match ctl_ (fst r) with Done => true | _ => false end && (closes (fst r) =? 1)%nat &&
  match filter (fun x => match x with OSess _ => true | _ => false end) (skipn 4 (snd r)) with
  | [OSess SGetUser; OSess SClose] => true | _ => false end.

Lemma cu_computed : forallb cu_ok [ANoUser; AForbidden; ARaise] = true.
Proof. vm_compute. reflexivity. Qed.

Lemma cu_done : Forall (fun d => ctl_ (fst (session B BATCH 60 (cu_prefix d))) = Done) [ANoUser; AForbidden; ARaise].
Proof. repeat constructor; vm_compute; reflexivity. Qed.

Theorem c01_change_user_refusal_is_final : forall d evs, In d [ANoUser; AForbidden; ARaise] ->
  session B BATCH 60 (cu_prefix d ++ evs) = session B BATCH 60 (cu_prefix d) /\ cu_ok d = true.
Proof.
  intros d evs Hin. split.
  - apply session_app_done. pose proof cu_done as D. rewrite Forall_forall in D. exact (D d Hin).
  - pose proof cu_computed as R. rewrite forallb_forall in R. exact (R d Hin).
Qed.

(* ---- the general statements: every event list --------------------------------------------------------------------- *)
(* a fresh connection: as long as no verdict of the exchange is Success - whatever else happens: any number of
   auth-switch / more-data round trips, refusals, failures, truncated or mis-sequenced replies, disconnects, socket
   failures, kills, payloads sent early - the session receives nothing but the user lookup (in particular it is never
   initialised) and the client nothing but the greeting, auth requests and ERR packets *)
Theorem c01_nothing_before_success : forall hs evs, Forall no_success evs -> Forall Opre (snd (session B BATCH hs evs)).
Proof. exact (preauth_silent B BATCH). Qed.

(* from ANY state in which the connection waits for the next command: a COM_CHANGE_USER followed by ANY events without a
   Success verdict is never followed by a served call (init / query / use / reset) again *)
Theorem c01_change_user_without_success : forall s evs,
  ctl_ s = Susp WRead [] FRead None -> phase s = Command -> inq s = [] -> kill s <> Some KQ -> Forall no_success evs ->
  Forall Osess (snd (exec B BATCH s (EvPayload CChangeUser :: evs))).
Proof. exact (change_user_without_success_serves_nothing B BATCH). Qed.

(* ... also when the COM_CHANGE_USER had queued up behind another command and is dispatched by the command loop *)
Theorem c01_queued_change_user_without_success : forall s q evs,
  inq s = CChangeUser :: q -> kill s <> Some KQ -> Forall no_success evs ->
  let '(s1, o1) := go B BATCH s [] FRead in Forall Osess (o1 ++ snd (exec B BATCH s1 evs)).
Proof. exact (queued_change_user_without_success_serves_nothing B BATCH). Qed.

(* non-vacuity: the state after a successful login meets the hypotheses, and a refused re-authentication followed by a
   query really runs: user lookup, ERR, session.close - and no query *)
Example c01_general_nonvacuous :
  let s := fst (session B BATCH 60 [EvHandshake true true; EvDecide ASuccess; EvApp OVoid]) in
  ctl_ s = Susp WRead [] FRead None /\ phase s = Command /\ inq s = [] /\ kill s = None /\
  filter (fun o => match o with OSess _ => true | _ => false end)
         (snd (exec B BATCH s [EvPayload CChangeUser; EvDecide ASwitch; EvAuthReply AForbidden; EvApp OVoid; EvPayload CQuery]))
  = [OSess SGetUser; OSess SClose].
Proof. vm_compute. repeat split; reflexivity. Qed.
