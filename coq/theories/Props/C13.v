(* Props/C13.v - The application sees exactly the statements it must handle, once, in order.
   Statements are taken after parsing (kind, tables): SQL text -> statement is sqlglot's parser, outside the model.
   The middleware list and the catalog database names are regenerated from session.py / constants.py. *)
From Coq Require Import List Arith NArith Bool String Lia Sorted.
From MM Require Import Model.Vars Model.Route Proofs.RouteProofs Gen.FactsRoute.
From MM Require Import Gen.FactsOutline.
Import ListNotations.
Open Scope N_scope.

Theorem c13_source_shape :
  translated_route = true /\ session_middlewares = expected_names /\
  session_query_next_ok = true /\ session_query_start_ok = true /\ session_session_parse_ok = true /\
  session_session_static_query_middleware_ok = true /\ session_session_use_middleware_ok = true /\
  session_session_kill_middleware_ok = true /\ session_session_begin_middleware_ok = true /\
  session_session_commit_middleware_ok = true /\ session_session_rollback_middleware_ok = true /\
  session_session_info_schema_middleware_ok = true /\ session_session_use_ok = true /\ utils_find_tables_ok = true /\
  utils_find_dbs_ok = true /\ connection_connection_handle_query_ok = true /\ connection_connection_query_ok = true.
Proof. repeat split; reflexivity. Qed.

(* the modules this property rests on define the functions, classes, methods and class-level names they defined when the
   model was transcribed - nothing added (an override, a new helper in the path), removed or renamed *)
Theorem c13_module_outlines : translated_outline = true /\ outline_session_ok = true /\ outline_intercept_ok = true /\ outline_schema_ok = true /\ outline_utils_ok = true.
Proof. repeat split; reflexivity. Qed.


Notation handle_query := (handle_query catalog_dbs session_middlewares).
Notation reaches_app := (reaches_app catalog_dbs).
Notation spec_calls := (spec_calls catalog_dbs).

(* one statement: built-in kinds and FROM-less SELECTs are answered by the library, statements reading catalog databases
   only (unqualified tables resolved against the default database) by the catalog executor, everything else reaches the
   application; only USE changes the default database *)
Theorem c13_route : forall s se,
  route catalog_dbs session_middlewares s se = (if reaches_app s (database se) then App else Library, mk_sess (db_after s (database se))).
Proof. exact (route_char catalog_dbs). Qed.

(* any SQL text (any number of statements, any order and multiplicity, any default database): the application calls are
   exactly the statements that must reach it, in textual order, each with the default database selected before it; the
   result is the last statement's; the default database afterwards is the last one selected *)
Theorem c13_routing : forall stmts se,
  handle_query stmts se = (mk_sess (spec_db stmts (database se)), spec_calls stmts O (database se), spec_result catalog_dbs stmts (database se)).
Proof. exact (handle_query_spec catalog_dbs). Qed.

Theorem c13_once_in_order : forall stmts db, StronglySorted (fun a b => (c_index a < c_index b)%nat) (spec_calls stmts O db).
Proof. intros. apply spec_calls_sorted. Qed.

Theorem c13_builtins_never_reach_the_application : forall stmts db c, In c (spec_calls stmts O db) ->
  exists s, nth_error stmts (c_index c) = Some s /\ builtin (kind s) = false.
Proof.
  intros stmts db c H. destruct (builtin_never_reaches_app catalog_dbs stmts O db c H) as [s [N1 N2]].
  exists s. rewrite Nat.sub_0_r in N1. auto.
Qed.

(* the default database the application observes is the one the client selected last: handshake, COM_INIT_DB, USE
   (also in the middle of a text), COM_CHANGE_USER *)
Theorem c13_database_tracks_client : forall ops se,
  database (fold_left (fun s o => fst (cstep catalog_dbs session_middlewares s o)) ops se) = fold_left client_db ops (database se).
Proof. exact (database_tracks_client catalog_dbs). Qed.

Example c13_text :
  let info := [105;110;102;111;114;109;97;116;105;111;110;95;115;99;104;101;109;97] in
  let db := [100;98] in
  handle_query [mk_stmt KSet []; mk_stmt (KSelect false) [None]; mk_stmt (KUse info) []; mk_stmt (KSelect false) [None];
                mk_stmt (KSelect false) [Some db]; mk_stmt KOther []; mk_stmt (KSelect true) []] (mk_sess (Some db))
  = (mk_sess (Some info), [mk_call 1 (Some db); mk_call 4 (Some info); mk_call 5 (Some info)], RLibrary 6).
Proof. vm_compute. reflexivity. Qed.
