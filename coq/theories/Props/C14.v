(* Props/C14.v - System variables form a typed, scoped store that clients cannot corrupt.
   All statements are about Model/Vars.v instantiated with the schema, the character-set tables, the
   validators and the transaction characteristics regenerated from variables.py / charset.py / intercept.py. *)
From Coq Require Import List NArith ZArith Bool Lia String.
From MM Require Import Lib.Decimal Model.Vars Proofs.VarsProofs Gen.FactsCharset Gen.FactsVars.
From MM Require Import Gen.FactsOutline.
Import ListNotations.
Open Scope N_scope.

Definition usable : list str := map (fun r => fst (fst (fst r))) (filter (fun r => snd r) charset_table).
Definition defcoll (cs : str) : option str := lookup cs default_collations.
Notation SV := system_variables.
Notation TX := tx_characteristics.
Notation vset := (vset SV usable).
Notation vget := (vget SV).
Notation run := (run SV usable defcoll TX).
Notation hinted := (hinted SV usable).

Theorem c14_source_shape :
  translated_vars = true /\ variables_variables_get_schema_ok = true /\ variables_variables_set_ok = true /\
  variables_variables_get_ok = true /\ variables_variables_list_ok = true /\ variables_parse_timezone_ok = true /\
  variables_re_timezone_ok = true /\ variables_validate_character_set_ok = true /\ variables_validators_ok = true /\
  variables_validate_client_character_set_ok = true /\ variables_to_bool_ok = true /\
  variables_sessionvariables_schema_ok = true /\ variables_globalvariables_schema_ok = true /\
  session_session_set_var_middleware_ok = true /\ session_session_set_middleware_ok = true /\
  session_session_set_variable_ok = true /\ session_session_set_charset_ok = true /\ session_session_set_names_ok = true /\
  session_session_set_transaction_ok = true /\ session_session_replace_variables_middleware_ok = true /\
  session_session_timezone_ok = true /\ session_session_handle_query_ok = true /\ intercept_setitem_kind_ok = true /\
  intercept_value_to_expression_ok = true /\ intercept_expression_to_value_ok = true /\
  handshake_announces_version_variable = true /\ forced_assignments = ["external_user"]%string /\ forced_assignment_sites = 2%nat.
Proof. repeat split; reflexivity. Qed.

(* the modules this property rests on define the functions, classes, methods and class-level names they defined when the
   model was transcribed - nothing added (an override, a new helper in the path), removed or renamed *)
Theorem c14_module_outlines : translated_outline = true /\ outline_variables_ok = true /\ outline_session_ok = true /\ outline_intercept_ok = true.
Proof. repeat split; reflexivity. Qed.


(* the regenerated schema: defaults are NULL or valid values of their type, and a fresh session can work *)
Lemma schema_defaults : defaults_ok SV usable.
Proof. apply defaults_ok_check. vm_compute. reflexivity. Qed.
Lemma schema_operational : operational SV usable [] = true.
Proof. vm_compute. reflexivity. Qed.

(* reading returns the value most recently assigned (coerced to the variable's type), DEFAULT and NULL restore the
   default, and no other variable moves *)
Theorem c14_read_your_writes : forall st name v force st',
  vset st name v force = Ok st' ->
  exists t d dyn y, lookup (lower name) SV = Some (t, d, dyn) /\ vget st' name = Ok y /\
    match v with
    | SDefault | SVal VNone => y = d
    | SVal x => coerce t x = Some y /\ has_type t y = true
    end /\
  forall m, lower m <> lower name -> vget st' m = vget st m.
Proof.
  intros st name v force st' H. destruct (vset_get_same _ _ _ _ _ _ _ H) as [y [Hs Hg]].
  destruct (setval_spec _ _ _ _ _ _ Hs) as [t [d [dyn [Hl [_ Hv]]]]].
  exists t, d, dyn, y. split; [exact Hl|]. split; [exact Hg|]. split.
  - destruct v as [|x]; [exact Hv|]. destruct x; try exact Hv; (destruct Hv as [Hc _]; split; [exact Hc|eapply coerce_typed; exact Hc]).
  - intros m Hm. eapply vset_get_other; eassumption.
Qed.

(* unknown names are errors; read-only variables refuse every client assignment; a refused assignment is no assignment *)
Theorem c14_unknown_is_error : forall st name v force, lookup (lower name) SV = None -> vset st name v force = Err EUnknown.
Proof. intros st name v force H. rewrite vset_char, (setval_unknown _ _ _ _ _ H). reflexivity. Qed.
Theorem c14_unknown_read_is_error : forall st name, lookup (lower name) SV = None -> lookup (lower name) st = None -> vget st name = Err EUnknown.
Proof. intros st name H1 H2. unfold Model.Vars.vget. now rewrite H2, H1. Qed.
Theorem c14_readonly_refused : forall st name v t d, lookup (lower name) SV = Some (t, d, false) -> vset st name v false = Err ENotDynamic.
Proof. intros st name v t d H. rewrite vset_char, (setval_readonly _ _ _ _ _ _ H). reflexivity. Qed.

(* a SET statement is applied as a whole or not at all: when any of its assignments is refused, every variable reads
   as before the statement *)
Theorem c14_refused_set_changes_nothing : forall st items st' e,
  set_statement SV usable defcoll TX st items = (st', Some e) -> st' = st.
Proof.
  intros st items st' e. unfold set_statement. destruct (resolve_items SV st items) as [l|x]; [|intros H; now inversion H].
  destruct (exec_items SV usable defcoll TX st l) as [s1 [x|]]; intros H; inversion H; reflexivity.
Qed.

(* read-only variables: no sequence of client statements - SET in any form, hints, reads - changes one *)
Theorem c14_readonly : forall ops st n t d, lookup (lower n) SV = Some (t, d, false) -> forallb client_op ops = true ->
  vget (fst (run st ops)) n = vget st n.
Proof. intros ops st n t d. apply readonly_untouched. Qed.

(* typing: after any history every stored value is the variable's default or a valid value of its type *)
Theorem c14_typed : forall ops, wt SV usable (fst (run [] ops)).
Proof. intros ops. apply run_wt. apply wt_nil. Qed.

(* a SET_VAR hint changes variables for its own statement only: whatever the hints name (unknown, read-only, wrongly
   typed, repeated in another case), whatever the statement does (returns or raises), every variable reads as before *)
Theorem c14_hint_is_scoped : forall ops hints i,
  let st := fst (run [] ops) in forall n, vget (fst (hinted st hints i)) n = vget st n.
Proof. intros ops hints i st n. apply (hint_is_scoped SV usable schema_defaults). apply c14_typed. Qed.

(* an assignment the server accepted never breaks the session: after any history the time zone parses, the two
   character sets the connection depends on exist, and the client's is one in which the protocol's NUL-terminated
   strings can be sent (not ucs2 / utf16 / utf16le / utf32) *)
Theorem c14_session_stays_operational : forall ops, operational SV usable (fst (run [] ops)) = true.
Proof. intros ops. apply run_operational; exact schema_operational. Qed.

(* time zones: what is accepted is an offset of less than a day, and the wall clock is the UTC instant shifted by it *)
Theorem c14_timezone_offset_valid : forall s off, parse_tz s = Some off -> (-1440 < off < 1440)%Z.
Proof. exact parse_tz_bounds. Qed.
Example c14_timezone_effect :
  parse_tz [43;48;53;58;51;48] = Some 330%Z /\ parse_tz [45;49;49;58;51;48] = Some (-690)%Z /\ parse_tz [85;84;67] = Some 0%Z /\
  parse_tz [103;97;114;98;97;103;101] = None /\ parse_tz [43;50;53;58;48;48] = None /\
  local_seconds 1000 330 = 20800%Z.
Proof. vm_compute. repeat split; reflexivity. Qed.

(* non-vacuity: a concrete history on the regenerated schema *)
Example c14_history :
  let ops := [OSet [IVar false ScSession [115;113;108;95;109;111;100;101] (RVal (VStr [88]))];
              OHinted [[[([115;113;108;95;109;111;100;101], RVal (VStr [72]))]; [([118;101;114;115;105;111;110], RVal (VStr [57]))]]] (InGet [[115;113;108;95;109;111;100;101]]);
              OGet [[115;113;108;95;109;111;100;101]; n_version]] in
  snd (run [] ops) = [Done; Failed ENotDynamic; Values [VStr [88]; VStr [56;46;48;46;50;57]]].
Proof. vm_compute. reflexivity. Qed.
