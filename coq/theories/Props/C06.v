(* Props/C06.v - Prepared-statement parameters are bound as data, never as SQL. *)
From Coq Require Import List NArith ZArith Lia Bool.
From MM Require Import Lib.Bytes Model.Placeholders Model.Parse Proofs.PlaceholderProofs Proofs.ParseProofs Model.Exec Model.Stmts Proofs.StmtProofs Gen.FactsPackets Gen.FactsConn Gen.FactsCharset Gen.FactsControl.
From MM Require Import Gen.FactsOutline.
Import ListNotations.
Open Scope N_scope.

(* the functions the model transcribes still have the transcribed shape *)
Theorem c06_source_shape :
  translated_packets = true /\ prepared_find_params_ok = true /\ packets_encode_param_as_sql_ok = true /\
  packets_interpolate_by_position = true /\ connection_prepare_counts_with_find_params = true /\
  types_column_type_codes = column_type_codes /\ packets_string_param_types = string_types /\
  (* long data is attached by COM_STMT_SEND_LONG_DATA and discarded by every execution before the query runs *)
  connection_connection_handle_stmt_execute_ok = true /\ connection_connection_handle_stmt_send_long_data_ok = true /\
  connection_connection_handle_stmt_prepare_ok = true /\ connection_connection_handle_stmt_reset_ok = true /\
  types_fixed_width_ok = true /\ types_read_uint_len_ok = true /\ types_read_str_len_ok = true /\
  packets_read_params_ok = true /\ packets_read_param_value_ok = true /\ packets_parse_com_stmt_execute_ok = true /\
  packets_interpolate_params_ok = true /\
  (* the statement table of Model/Stmts.v: where it is created, the id counter, the small parsers of its commands *)
  connection_connection_init___ok = true /\ utils_seq_ok = true /\ connection_connection_handle_stmt_close_ok = true /\
  connection_connection_get_stmt_ok = true /\ packets_parse_com_stmt_reset_ok = true /\ packets_parse_com_stmt_close_ok = true /\
  packets_read_cursor_flags_ok = true /\ packets_read_param_type_ok = true /\ packets_parse_com_stmt_send_long_data_ok = true /\
  packets_make_com_stmt_prepare_ok_ok = true.
Proof. repeat split; reflexivity. Qed.

(* the modules this property rests on define the functions, classes, methods and class-level names they defined when the
   model was transcribed - nothing added (an override, a new helper in the path), removed or renamed *)
Theorem c06_module_outlines : translated_outline = true /\ outline_packets_ok = true /\ outline_prepared_ok = true /\ outline_connection_ok = true.
Proof. repeat split; reflexivity. Qed.


(* whatever the text - quotes unbalanced, a dangling backslash - the scanner flags one position per character and only
   question marks: interpolation never replaces anything else *)
Theorem c06_only_question_marks : forall t, length (flags t) = length t /\
  forall i, nth i (flags t) false = true -> nth i t 0 = QMARK.
Proof. exact (fun t => conj (scanf_length t None false) (scanf_only_qmarks t None false)). Qed.

(* a string literal built from any character sequence denotes exactly that sequence and ends
   exactly where the builder ended it *)
Theorem c06_literal_is_data : forall s rest, not_quote_start rest ->
  lex_literal (quote_string s ++ rest) = Some (s, rest).
Proof. exact literal_is_data. Qed.

Example c06_literal_hostile :
  lex_literal (quote_string [97; 39; 92; 63; 0; 10; 37; 95; 92; 49] ++ [32; 63]) =
  Some ([97; 39; 92; 63; 0; 10; 37; 95; 92; 49], [32; 63]).
Proof. vm_compute. reflexivity. Qed.

(* on the template grammar the recognised placeholders are exactly the holes: question marks inside
   '...', "..." and `...` are not placeholders - whatever else the quoted text holds: quote characters of the other
   kinds ("it's ?"), escaped quotes and backslashes ('\' ?', '?\\'), doubled quotes (two adjacent segments) -;
   prepare-time count = number of holes *)
Theorem c06_placeholder_recognition : forall tpl, forallb seg_ok tpl = true ->
  flags (render tpl) = hole_flags tpl /\ count_params (render tpl) = N.of_nat (holes tpl).
Proof. exact (fun tpl H => conj (placeholders_are_holes tpl H) (count_params_is_holes tpl H)). Qed.

(* the SQL handed to the application is the template with hole i replaced by the literal of value i
   and is otherwise unchanged; values are never rescanned *)
Theorem c06_interpolate_spec : forall tpl vals, forallb seg_ok tpl = true ->
  interpolate (render tpl) vals = fill tpl (map render_param vals).
Proof. exact interpolate_spec. Qed.

Example c06_grammar_nonvacuous :
  let tpl := [Plain [83; 32]; Hole; Quoted 39 [Ch 63]; Hole; Quoted 96 [Ch 63; Ch 63]; Quoted 34 [Ch 63]] in
  forallb seg_ok tpl = true /\ holes tpl = 2%nat /\
  interpolate (render tpl) [VStr [39; 63]; VNull] = [83; 32] ++ quote_string [39; 63] ++ [39; 63; 39] ++ [78; 85; 76; 76] ++ [96; 63; 63; 96; 34; 63; 34].
Proof. vm_compute. repeat split; reflexivity. Qed.

(* SELECT 'a?' , "it's" , ? , 'x\'?' 'y''?' `b\` : quote characters of another kind inside a string, an escaped quote, a
   doubled quote, a backslash ending an identifier - one placeholder *)
Example c06_grammar_mixed_quotes :
  let tpl := [Quoted 39 [Ch 97; Ch 63]; Plain [44]; Quoted 34 [Ch 105; Ch 116; Ch 39; Ch 115]; Plain [44]; Hole; Plain [44];
              Quoted 39 [Ch 120; Esc 39; Ch 63]; Quoted 39 [Ch 121]; Quoted 39 [Ch 63]; Quoted 96 [Ch 98; Ch 92]] in
  forallb seg_ok tpl = true /\ count_params (render tpl) = 1 /\
  interpolate (render tpl) [VNull] = fill tpl [[78; 85; 76; 76]].
Proof. vm_compute. repeat split; reflexivity. Qed.

(* binary parameter values: what a client encodes is what the server reads, for every list of
   well-formed parameters (all integer widths and signedness, strings, floats, NULL positions) *)
Theorem c06_binary_values : forall qa ps rest, forallb wf_param ps = true ->
  rd_params qa (len ps) [] (encode_params qa ps ++ rest) = Ok (map (param_out qa) ps, rest).
Proof. exact rd_params_roundtrip. Qed.

Example c06_wf_nonvacuous : forallb wf_param
  [mk_param [] 1 false (PInt (-128)); mk_param [] 1 true (PInt 255); mk_param [] 8 false (PInt (-9223372036854775808));
   mk_param [] 8 true (PInt 18446744073709551615); mk_param [] 253 false (PStr [39; 92]); mk_param [] 6 false PNull;
   mk_param [] 3 false PNull; mk_param [] 5 false (PF64 [0;0;0;0;0;0;240;63])] = true.
Proof. vm_compute. reflexivity. Qed.

(* ---- over whole histories of one connection (Model/Stmts.v: the statement table with its long-data buffers) ---------------- *)

(* Any history of fewer than 2^32 prepared-statement commands on a fresh connection; somewhere in it a command that uses
   up the long data of statement id - its PREPARE, an EXECUTE (accepted - whatever the application then answers: the
   buffers are dropped before it is called - or refused while it is parsed: long data belongs to one attempt), a RESET -; after it any commands that do not address id except by sending
   long data.  Then the statement is there and its buffers hold exactly what those long-data commands sent for it, per
   parameter, in order of arrival: nothing from before the consuming command, nothing that was sent for another statement. *)
Theorem c06_long_data_since_last_use : forall qa ftab pre o mid id,
  N.of_nat (length (pre ++ o :: mid)) < SEQ_SIZE ->
  let s1 := fst (srun qa ftab store0 pre) in
  consumes id o (snd (sstep qa ftab s1 o)) = true ->
  forallb (quiet id) mid = true ->
  exists st, lookup (fst (srun qa ftab (fst (sstep qa ftab s1 o)) mid)) id = Some st /\ st_buffers st = collect id mid.
Proof. exact long_data_since_last_use. Qed.

(* ... and the next execution binds, for every parameter that has long data, exactly that data (or NULL when the client
   flags the parameter as NULL) - never the inline bytes, never part of them *)
Theorem c06_execute_binds_long_data : forall qa lk d st ex, parse_com_stmt_execute qa lk d = Ok (st, ex) ->
  forall j name v x, nth_error (ex_params ex) j = Some (name, v) -> assoc_N (N.of_nat j) (st_buffers st) = Some x ->
  v = PNull \/ v = PStr x.
Proof. exact execute_binds_long_data. Qed.

(* what is done to one statement leaves every other statement as it is: text, parameter count, long data *)
Theorem c06_other_statements_untouched : forall qa ftab s o j st, inv s -> lookup s j = Some st ->
  quiet j o = true -> collect1 j (st_buffers st) o = st_buffers st ->
  lookup (fst (sstep qa ftab s o)) j = Some st.
Proof. exact other_statements_untouched. Qed.

Theorem c06_closed_is_unknown : forall qa ftab s d id, parse_stmt_id d = Ok id ->
  lookup (fst (sstep qa ftab s (SClose d))) id = None.
Proof. exact closed_is_unknown. Qed.

(* a concrete history: prepare "S?" (id 0), long data "ab" for parameter 0, an execution (binds 'ab', consumes it), then
   long data "cd" for it, long data for an unknown statement and a second PREPARE: the hypotheses hold, the application was
   called with S'ab', and the buffers of statement 0 hold "cd" only *)
Example c06_history_nonvacuous :
  let pre := [SPrepare [83; 63]; SLongData [0;0;0;0; 0;0; 97; 98]] in
  let o := SExecute [0;0;0;0; 0; 1;0;0;0; 0; 1; 253;0] in
  let mid := [SLongData [0;0;0;0; 0;0; 99]; SLongData [9;0;0;0; 0;0; 120]; SPrepare [83]; SLongData [0;0;0;0; 0;0; 100]] in
  let s1 := fst (srun false [] store0 pre) in
  consumes 0 o (snd (sstep false [] s1 o)) = true /\ forallb (quiet 0) mid = true /\
  snd (sstep false [] s1 o) = RExec [83; 39; 97; 98; 39] [] false /\
  collect 0 mid = [(0, [99; 100])] /\
  option_map st_buffers (lookup (fst (srun false [] (fst (sstep false [] s1 o)) mid)) 0) = Some [(0, [99; 100])].
Proof. vm_compute. repeat split; reflexivity. Qed.
