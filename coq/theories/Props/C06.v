(* Props/C06.v - Prepared-statement parameters are bound as data, never as SQL. *)
From Coq Require Import List NArith ZArith Lia Bool.
From MM Require Import Lib.Bytes Model.Placeholders Model.Parse Proofs.PlaceholderProofs Proofs.ParseProofs Gen.FactsPackets Gen.FactsConn Gen.FactsCharset.
Import ListNotations.
Open Scope N_scope.

(* the functions the model transcribes still have the transcribed shape *)
Theorem c06_source_shape :
  translated_packets = true /\ prepared_find_params_ok = true /\ packets_encode_param_as_sql_ok = true /\
  packets_interpolate_by_position = true /\ connection_prepare_counts_with_find_params = true /\
  types_column_type_codes = column_type_codes /\ packets_string_param_types = string_types /\
  (* long data is attached by COM_STMT_SEND_LONG_DATA and discarded by every execution before the query runs *)
  connection_connection_handle_stmt_execute_ok = true /\ connection_connection_handle_stmt_send_long_data_ok = true /\
  connection_connection_handle_stmt_prepare_ok = true /\ connection_connection_handle_stmt_reset_ok = true /\
  types_fixed_width_ok = true /\ types_read_uint_len_ok = true /\ types_read_str_len_ok = true /\
  packets_read_params_ok = true /\ packets_read_param_value_ok = true /\ packets_parse_com_stmt_execute_ok = true /\
  packets_interpolate_params_ok = true.
Proof. repeat split; reflexivity. Qed.

(* the one-pass scanner recognises exactly the positions of the placeholder regex:
   a '?' followed by an even number of quote characters *)
Theorem c06_scanner_is_regex : forall t, flags t = spec_flags t.
Proof. exact flags_spec. Qed.

(* a string literal built from any character sequence denotes exactly that sequence and ends
   exactly where the builder ended it *)
Theorem c06_literal_is_data : forall s rest, not_quote_start rest ->
  lex_literal (quote_string s ++ rest) = Some (s, rest).
Proof. exact literal_is_data. Qed.

Example c06_literal_hostile :
  lex_literal (quote_string [97; 39; 92; 63; 0; 10; 37; 95; 92; 49] ++ [32; 63]) =
  Some ([97; 39; 92; 63; 0; 10; 37; 95; 92; 49], [32; 63]).
Proof. vm_compute. reflexivity. Qed.

(* on the template grammar the recognised placeholders are exactly the holes: question marks inside
   '...', "..." and `...` are not placeholders; prepare-time count = number of holes *)
Theorem c06_placeholder_recognition : forall tpl, forallb seg_ok tpl = true ->
  flags (render tpl) = hole_flags tpl /\ count_params (render tpl) = N.of_nat (holes tpl).
Proof. exact (fun tpl H => conj (placeholders_are_holes tpl H) (count_params_is_holes tpl H)). Qed.

(* the SQL handed to the application is the template with hole i replaced by the literal of value i
   and is otherwise unchanged; values are never rescanned *)
Theorem c06_interpolate_spec : forall tpl vals, forallb seg_ok tpl = true ->
  interpolate (render tpl) vals = fill tpl (map render_param vals).
Proof. exact interpolate_spec. Qed.

Example c06_grammar_nonvacuous :
  let tpl := [Plain [83; 32]; Hole; Quoted 39 [63]; Hole; Quoted 96 [63; 63]; Quoted 34 [63]] in
  forallb seg_ok tpl = true /\ holes tpl = 2%nat /\
  interpolate (render tpl) [VStr [39; 63]; VNull] = [83; 32] ++ quote_string [39; 63] ++ [39; 63; 39] ++ [78; 85; 76; 76] ++ [96; 63; 63; 96; 34; 63; 34].
Proof. vm_compute. repeat split; reflexivity. Qed.

(* binary parameter values: what a client encodes is what the server reads, for every list of
   well-formed parameters (all integer widths and signedness, strings, floats, NULL positions) *)
Theorem c06_binary_values : forall qa ps rest, forallb wf_param ps = true ->
  rd_params qa (len ps) [] (encode_params qa ps ++ rest) = Ok (map (param_out qa) ps, rest).
Proof. exact rd_params_roundtrip. Qed.

Example c06_wf_nonvacuous : forallb wf_param
  [mk_param [] 1 false (PInt (-128)); mk_param [] 1 true (PInt 255); mk_param [] 8 false (PInt (-9223372036854775808));
   mk_param [] 8 true (PInt 18446744073709551615); mk_param [] 253 false (PStr [39; 92]); mk_param [] 6 false PNull;
   mk_param [] 3 false PNull; mk_param [] 5 false (PF64 [0;0;0;0;0;0;240;63])] = true.
Proof. vm_compute. reflexivity. Qed.
