(* Props/C04.v - Packet framing is lossless for every payload size and every stream segmentation.
   Only property theorems here, each closed by [exact]; see Proofs/WireProofs.v for the proofs. *)
From Coq Require Import List NArith Lia Bool.
From MM Require Import Lib.Bytes Model.Wire Proofs.WireProofs Gen.FactsStream Gen.FactsControl Gen.FactsConn.
From MM Require Import Gen.FactsOutline.
Import ListNotations.
Open Scope N_scope.

(* the split size the model is instantiated with is the one MysqlStream.write slices with *)
Definition M : N := stream_write_take.

(* every occurrence of the constant in stream.py agrees, and the header layout is the 3+1 layout *)
Theorem c04_source_constants :
  translated_stream = true /\ stream_write_drop = M /\ stream_write_cont = M /\ stream_read_cont = M /\
  stream_len_mask = 2 ^ 24 - 1 /\ stream_seq_mask = 255 * 2 ^ 24 /\ stream_seq_shift = 24 /\
  stream_seq_size = 256 /\ stream_header_size = 4 /\ types_uint3_le = true /\
  (0 <? M) = true /\ (M <? 2 ^ 24) = true /\ utils_seq_ok = true /\
  stream_mysqlstream_write_ok = true /\ stream_mysqlstream_drain_ok = true /\ stream_mysqlstream_start_tls_ok = true.
Proof. repeat split; vm_compute; reflexivity. Qed.

(* the modules this property rests on define the functions, classes, methods and class-level names they defined when the
   model was transcribed - nothing added (an override, a new helper in the path), removed or renamed *)
Theorem c04_module_outlines : translated_outline = true /\ outline_stream_ok = true /\ outline_utils_ok = true.
Proof. repeat split; reflexivity. Qed.


Lemma Mpos : 0 < M. Proof. reflexivity. Qed.
Lemma Mfits : M < 2 ^ 24. Proof. reflexivity. Qed.

(* Any payload of any length, written when the sequence counter is s, is reassembled to the identical
   payload by the reader (whatever follows it on the stream, whatever was accumulated before). *)
Theorem c04_write_read_roundtrip : forall hm d s a rest, s < 256 ->
  pumpall M hm (write_bytes M s d ++ rest) s a =
    let '(ds, st) := pumpall M hm rest (seq_after s (frame M d)) [] in (Payload (a ++ d) :: ds, st).
Proof. exact (write_read_roundtrip M Mpos Mfits). Qed.

(* packets: floor(n/M) full ones and a final shorter one - empty exactly when n is a multiple of M *)
Theorem c04_packet_lengths : forall d, map len (frame M d) = frame_lens M (len d).
Proof. exact (frame_lens_spec M Mpos Mfits). Qed.

Theorem c04_packets_concat : forall d, concat (frame M d) = d.
Proof. exact (frame_concat M Mpos Mfits). Qed.

(* the header is fetched with readexactly(4), and a clean EOF on a packet boundary is still a close *)
Theorem c04_header_read_exact : stream_header_read = Exactly /\ stream_header_eof_handled = true.
Proof. split; reflexivity. Qed.

(* However the client byte stream is cut into network reads, the reader delivers the same payloads
   (and errors) and ends in the same state as if everything had arrived at once. *)
Theorem c04_segmentation_independent : forall cs st, settled M st ->
  feeds M stream_header_read st cs = feed M stream_header_read st (concat cs).
Proof. exact (feeds_concat M Mpos). Qed.

Example c04_settled_nonvacuous : settled M (rst0 0).
Proof. exact (rst0_settled M 0). Qed.

(* Why read(4) is not enough: a header split 2+2 is a counterexample for the UpTo reader. *)
Theorem c04_upto_refuted : exists cs,
  fst (feeds M UpTo (rst0 0) cs) <> fst (feed M UpTo (rst0 0) (concat cs)).
Proof. exists [[1; 0]; [0; 0; 7]]. vm_compute. discriminate. Qed.
