(* Props/C09.v - KILL QUERY spares the connection; KILL CONNECTION ends exactly the target. *)
From Coq Require Import List Arith NArith Lia Bool.
From MM Require Import Lib.Bytes Model.Conn Model.Resp Proofs.ConnInv Proofs.C10Proofs Proofs.KillProofs Proofs.KillAbort Proofs.RespProofs Gen.FactsConn Gen.FactsRoute Gen.FactsControl.
From MM Require Import Gen.FactsOutline.
Import ListNotations.
Open Scope N_scope.

Definition B : N := conn_buffer_size.
Definition BATCH : N := utils_batch_size.

Theorem c09_source_shape :
  translated_conn = true /\ connection_connection_kill_ok = true /\ connection_connection_command_phase_ok = true /\
  connection_connection_inner_start_ok = true /\ connection_connection_start_ok = true /\
  connection_connection_handle_change_user_ok = true /\ err_session_was_killed = E_SESSION_WAS_KILLED /\
  (* the KILL statement reaches Connection.kill from the issuing connection's own task (the self-kill guard relies on it) *)
  session_session_kill_middleware_ok = true /\ control_add_remove_kill_ok = true.
Proof. repeat split; reflexivity. Qed.

(* the modules this property rests on define the functions, classes, methods and class-level names they defined when the
   model was transcribed - nothing added (an override, a new helper in the path), removed or renamed *)
Theorem c09_module_outlines : translated_outline = true /\ outline_connection_ok = true /\ outline_control_ok = true /\ outline_server_ok = true.
Proof. repeat split; reflexivity. Qed.


(* in EVERY state: a KILL QUERY that finds no command being handled (idle, connection phase, shutdown,
   re-authentication) changes nothing and writes nothing *)
Theorem c09_kill_query_idle_is_noop : forall s, executing s = false -> step B BATCH s (EvKill KQ) = (s, []).
Proof. exact (kq_ignored_when_not_executing B BATCH). Qed.

(* in EVERY state: a KILL QUERY never rescues a connection that is being killed *)
Theorem c09_kill_connection_not_downgraded : forall s, kill s = Some KC -> step B BATCH s (EvKill KQ) = (s, []).
Proof. exact (kq_after_kc_ignored B BATCH). Qed.

Theorem c09_kill_query_from_own_callback_is_noop : forall s, step B BATCH s (EvKillSelf KQ) = (s, []).
Proof. exact (kq_self_ignored B BATCH). Qed.

(* in EVERY state where a statement executes inside a handler frame (whatever the plan, the suspension point, the statement
   table, the buffer): the KILL QUERY produces exactly one write - what was still buffered followed by ONE ERR "session was
   killed" under the next sequence number -, does not close the session, clears the executing flag, and the connection is
   back at its prompt (kill cleared, sequence reset) or, if the socket does not accept data, waits for exactly that *)
Theorem c09_kill_query_aborts_with_one_err : forall s w k f ic,
  ctl_ s = Susp w k f ic -> is_handler f = true -> executing s = true -> kill s = None -> dead s = false -> eof s = false -> inq s = [] ->
  let r := step B BATCH s (EvKill KQ) in
  snd r = [OWrite (map fst (buf s) ++ [(seq s, PErr E_SESSION_WAS_KILLED)])] /\
  closes (fst r) = closes s /\ executing (fst r) = false /\ buf (fst r) = [] /\
  (if paused s then ctl_ (fst r) = Susp WDrain [] (FHandlerErr true) None /\ kill (fst r) = Some KQ
   else ctl_ (fst r) = Susp WRead [] FRead None /\ kill (fst r) = None /\ seq (fst r) = 0).
Proof. exact (kq_aborts_statement B BATCH). Qed.

(* ... and when the socket accepts data again the connection is at its prompt, nothing more is written *)
Theorem c09_kill_query_abort_resumes : forall s,
  ctl_ s = Susp WDrain [] (FHandlerErr true) None -> eof s = false -> inq s = [] ->
  let r := step B BATCH s EvResume in
  snd r = [] /\ ctl_ (fst r) = Susp WRead [] FRead None /\ kill (fst r) = None /\ seq (fst r) = 0 /\ closes (fst r) = closes s /\
  buf (fst r) = buf s.
Proof. exact (kq_abort_resumes B BATCH). Qed.

(* in every REACHABLE state - after any list of events from a fresh connection, kills, faults and disconnects included - a
   KILL QUERY either changes nothing or finds the task suspended inside a handler frame with a statement executing (the case
   of the theorem above): it never enters the `except` clauses that end the connection *)
Theorem c09_kill_query_reachable : forall hs evs,
  let s := fold_left (fun s e => fst (step B BATCH s e)) evs (fst (boot B BATCH hs)) in
  step B BATCH s (EvKill KQ) = (s, []) \/
  exists w k f ic, ctl_ s = Susp w k f ic /\ is_handler f = true /\ executing s = true.
Proof. exact (kq_reachable B BATCH). Qed.

(* KILL CONNECTION, in EVERY state of the command phase (at the prompt, inside any handler, while an ERR is being written;
   any plan, buffer, statement table): exactly one write - what was buffered followed by ONE "session was killed" ERR (under
   the current sequence number at the prompt, under a fresh sequence inside a command) -, then session.close() exactly once
   (at once, or when the socket accepts data again), then the task ends and the socket and the registry entry are released *)
Theorem c09_kill_connection_terminates : forall s w k f ic,
  ctl_ s = Susp w k f ic -> cmd_frame f = true -> dead s = false ->
  let r := step B BATCH s (EvKill KC) in
  closes (fst r) = (if paused s then closes s else S (closes s)) /\ buf (fst r) = [] /\
  (if paused s
   then snd r = [OWrite (map fst (buf s) ++ [(kc_seq s f, PErr E_SESSION_WAS_KILLED)])] /\
        ctl_ (fst r) = Susp WDrain [] FKillErr None /\ kill (fst r) = Some KC
   else snd r = [OWrite (map fst (buf s) ++ [(kc_seq s f, PErr E_SESSION_WAS_KILLED)]); OSess SClose] /\
        ctl_ (fst r) = Susp (WApp SClose) [] (FClose false) None).
Proof. exact (kc_terminates B BATCH). Qed.

Theorem c09_kill_connection_resumes : forall s,
  ctl_ s = Susp WDrain [] FKillErr None ->
  let r := step B BATCH s EvResume in
  snd r = [OSess SClose] /\ ctl_ (fst r) = Susp (WApp SClose) [] (FClose false) None /\ closes (fst r) = S (closes s).
Proof. exact (kc_resumes B BATCH). Qed.

Theorem c09_kill_connection_finishes : forall s o re,
  ctl_ s = Susp (WApp SClose) [] (FClose re) None ->
  let r := step B BATCH s (EvApp o) in
  ctl_ (fst r) = Done /\ closes (fst r) = closes s /\ exists exc, snd r = [OEnd exc; OWriterClose; OCtlRemove].
Proof. exact (kc_finishes B BATCH). Qed.

(* the hypotheses are met: a connection whose COM_QUERY waits for the application *)
Example c09_abort_nonvacuous :
  let s := fst (session B BATCH 50 [EvHandshake true true; EvDecide ASuccess; EvApp OVoid; EvPayload CQuery]) in
  ctl_ s = Susp (WApp SQuery) [MCont QText] FHandler None /\ executing s = true /\ kill s = None /\ dead s = false /\
  eof s = false /\ inq s = [].
Proof. vm_compute. repeat split; reflexivity. Qed.

(* a kill for a connection that has ended changes nothing *)
Theorem c09_kill_finished_connection : forall s e, ctl_ s = Done -> step B BATCH s e = (s, []).
Proof. exact (any_event_when_done B BATCH). Qed.

(* ... and that single ERR completes whatever part of the response had been written (see C03) *)
Theorem c09_err_completes_response : forall dep c pre post code, c <> RKNone ->
  accepts dep c (pre ++ post) = true -> post <> [] -> accepts dep c (pre ++ [PErr code]) = true.
Proof. exact midstream_err_accepted. Qed.

(* a kill of either kind at EVERY suspension point of a reference conversation (query with async rows and
   cooperative yields, prepared statement, cursor fetch under a paused socket, COM_CHANGE_USER): KILL QUERY leaves
   the connection alive at a command boundary or inside the same exchange; KILL CONNECTION ends it after one
   session.close; computed inside Coq for all placements *)
Definition ref_conv : list ev :=
  [EvHandshake true true; EvDecide ASuccess; EvApp OVoid; EvPayload CPing;
   EvPayload CQuery; EvApp (OSet (mk_sizes 1 [20; 20] 5 7) [IRow 5; ISuspend; IRow 5; IRow 5; IRow 5]); EvRowReady; EvTick;
   EvPayload (CPrepare 1 (mk_sizes 12 [24] 5 0)); EvPayload (CExecute 0 true);
   EvApp (OSet (mk_sizes 1 [20] 5 7) [IRow 5; IRow 5; ISuspend; IRow 5; IRow 5]);
   EvPause; EvPayload (CFetch 0 2 7); EvResume; EvPayload (CFetch 0 9 7); EvRowReady; EvTick;
   EvPayload (CReset 0); EvApp OVoid; EvPayload CChangeUser; EvDecide AMore; EvAuthReply ASuccess; EvApp OVoid;
   EvPayload CInitDb; EvApp OVoid].

Definition finish_up : list ev := [EvResume; EvApp OVoid; EvRowReady; EvTick; EvTick; EvApp OVoid; EvApp OVoid].

Definition kill_at (i : nat) (k : kk) : st * list out :=
  session B 2 50 (firstn i ref_conv ++ [EvKill k] ++ finish_up).

Definition kq_ok (i : nat) : bool :=
  let s := fst (kill_at i KQ) in
  match ctl_ s with Done => false | Stuck => false | _ => (closes s =? 0)%nat end.
Definition kc_ok (i : nat) : bool :=
  let r := kill_at i KC in
  match ctl_ (fst r) with
  | Done => (closes (fst r) =? Nat.b2n (inited (fst r)))%nat && (releases (snd r) =? 2)%nat
  | _ => false end.

Theorem c09_every_placement_computed :
  forallb kq_ok (List.seq 0 (S (length ref_conv))) = true /\ forallb kc_ok (List.seq 0 (S (length ref_conv))) = true.
Proof. vm_compute. split; reflexivity. Qed.

(* whatever kills arrive, in any number and order, mixed with any other events: close at most once (C10) *)
Theorem c09_any_kills_close_at_most_once : forall hs evs,
  (closes (fst (session B BATCH hs evs)) <= 1)%nat.
Proof.
  intros hs evs. pose proof (session_good B BATCH hs evs) as G. unfold good10, good in G.
  destruct (ctl_ (fst (session B BATCH hs evs))).
  - apply P_weak in G. apply G.
  - unfold D10 in G. rewrite G. destruct (inited _); cbn; lia.
  - apply G.
Qed.

(* the recorded open finding: a KILL QUERY accepted after the terminal packet of the response was written
   (the handler still waits for the final drain) appends an ERR to a complete response *)
Theorem c09_kill_query_after_terminal_packet_refuted : exists evs,
  let r := session B BATCH 50 evs in
  let pk := flat_map (fun o => match o with OWrite ps => map snd ps | _ => [] end) (snd r) in
  skipn 2 pk = [POk false 0; PErr E_SESSION_WAS_KILLED] /\ accepts true RKOk (skipn 2 pk) = false.
Proof.
  exists [EvHandshake true true; EvDecide ASuccess; EvApp OVoid; EvPause; EvPayload CPing; EvKill KQ; EvResume].
  vm_compute. split; reflexivity.
Qed.
