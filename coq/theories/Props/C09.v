From MM Require Import Model.Conn.
