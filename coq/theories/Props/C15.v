(* Props/C15.v - Text crosses the wire in the negotiated character sets without corruption.
   The codecs themselves are CPython's (parameters enc / dec below, with the round-trip hypothesis for representable
   strings); what is proved is that, over every history of a connection, both sides apply the SAME character set to
   the same text, and that a switch takes effect from the next command on. *)
From Coq Require Import List NArith ZArith Bool Lia.
From MM Require Import Lib.Decimal Model.Vars Model.Charset Proofs.VarsProofs Proofs.CharsetProofs Gen.FactsCharset Gen.FactsVars.
From MM Require Import Gen.FactsOutline.
Import ListNotations.
Open Scope N_scope.

Definition usable : list str := map (fun r => fst (fst (fst r))) (filter (fun r => snd r) charset_table).
Definition defcoll (cs : str) : option str := lookup cs default_collations.
Definition cs_of (id : N) : option str := charset_of_collation collation_table collation_charset id.
Definition utf8mb4 : str := [117;116;102;56;109;98;52].
Definition dflt : view := (utf8mb4, utf8mb4).
Notation SV := system_variables.
Notation TX := tx_characteristics.

Theorem c15_source_shape :
  translated_charset = true /\ charset_characterset_codec_ok = true /\ charset_characterset_decode_ok = true /\
  charset_characterset_encode_ok = true /\ charset_characterset_default_collation_ok = true /\ charset_collation_charset_ok = true /\
  charset_collation_codec_ok = true /\ connection_connection_server_charset_ok = true /\ connection_connection_client_charset_ok = true /\
  connection_connection_error_ok = true /\ connection_connection_text_resultset_ok = true /\ connection_connection_handle_init_db_ok = true /\
  packets_parse_handshake_response_41_ok = true /\ packets_parse_com_change_user_ok = true /\ packets_parse_com_init_db_ok = true /\
  packets_parse_com_field_list_ok = true /\ packets_make_error_ok = true /\ packets_make_handshake_v10_ok = true /\
  packets_make_auth_switch_request_ok = true /\ packets_read_param_value_ok = true /\ packets_parse_com_stmt_execute_ok = true /\
  packets_interpolate_params_ok = true /\ packets_read_params_ok = true /\ packets_parse_com_query_ok = true /\
  packets_parse_com_stmt_send_long_data_ok = true /\ connection_connection_handle_stmt_prepare_ok = true /\
  connection_connection_handle_stmt_execute_ok = true /\ connection_connection_handle_field_list_ok = true /\
  prepared_preparedstatement_class_ok = true /\
  session_session_set_names_ok = true /\ session_session_set_charset_ok = true /\ session_session_set_middleware_ok = true.
Proof. repeat split; reflexivity. Qed.

(* the modules this property rests on define the functions, classes, methods and class-level names they defined when the
   model was transcribed - nothing added (an override, a new helper in the path), removed or renamed *)
Theorem c15_module_outlines : translated_outline = true /\ outline_charset_ok = true /\ outline_connection_ok = true /\ outline_packets_ok = true /\ outline_session_ok = true.
Proof. repeat split; reflexivity. Qed.


(* the regenerated tables: every collation belongs to a character set of the catalogue, every character set has a default
   collation that belongs to it, ids are unique *)
Definition in_charsets (cs : str) : bool := existsb (fun r => str_eqb (fst (fst (fst r))) cs) charset_table.
Theorem c15_collation_table :
  forallb (fun e => match lookup (fst e) collation_charset with Some cs => in_charsets cs | None => false end) collation_table = true /\
  forallb (fun r => match defcoll (fst (fst (fst r))) with
                    | Some c => match lookup c collation_charset with Some cs => str_eqb cs (fst (fst (fst r))) | None => false end
                    | None => false end) charset_table = true /\
  NoDup (map snd collation_table) /\ NoDup (map (fun r => snd (fst (fst r))) charset_table).
Proof.
  split; [vm_compute; reflexivity|]. split; [vm_compute; reflexivity|].
  split; apply (NoDup_count_occ' N.eq_dec); intros x Hx;
    match goal with |- count_occ _ ?l _ = _ =>
      assert (A : forallb (fun y => Nat.eqb (count_occ N.eq_dec l y) 1) l = true) by (vm_compute; reflexivity);
      rewrite forallb_forall in A; apply Nat.eqb_eq; apply A; exact Hx end.
Qed.

Lemma look_client : lookup n_cs_client SV = Some (TStr, VStr (fst dflt), true). Proof. vm_compute. reflexivity. Qed.
Lemma look_results : lookup n_cs_results SV = Some (TStr, VStr (snd dflt), true). Proof. vm_compute. reflexivity. Qed.
Lemma tx_names : Forall (fun e => lower (fst e) <> n_cs_client /\ lower (fst e) <> n_cs_results) TX.
Proof. repeat constructor; cbn; discriminate. Qed.
Lemma schema_defaults : defaults_ok SV usable.
Proof. apply defaults_ok_check. vm_compute. reflexivity. Qed.

(* an accepted SET NAMES / SET CHARACTER SET / handshake / COM_CHANGE_USER establishes the character set it names *)
Theorem c15_switch_establishes : forall st v c, cmd_wf c = true -> wt SV usable st -> view_of SV st = Some v ->
  view_of SV (fst (server_step SV usable defcoll TX cs_of st c)) =
  Some (client_step cs_of dflt v c (snd (server_step SV usable defcoll TX cs_of st c))).
Proof. intros st v c Hwf W Hv. apply (step_agree SV usable defcoll TX cs_of dflt look_client look_results tx_names schema_defaults); assumption. Qed.

(* over every history of commands (switches in every form, statements that are refused, hinted statements, reads, text
   commands) the server's two character sets are what a conforming client - one that updates its belief only on OK - believes *)
Theorem c15_views_agree : forall cmds, forallb cmd_wf cmds = true ->
  view_of SV (fst (run_both SV usable defcoll TX cs_of dflt [] dflt cmds)) = Some (snd (run_both SV usable defcoll TX cs_of dflt [] dflt cmds)).
Proof.
  intros cmds Hwf. apply (views_agree SV usable defcoll TX cs_of dflt look_client look_results tx_names schema_defaults); [exact Hwf|apply wt_nil|].
  apply (view_of_fresh SV dflt look_client look_results).
Qed.

(* hence, for any codecs that round-trip representable strings: text the client can encode arrives unchanged at the
   application side, names and messages the server can encode arrive unchanged at the client *)
Theorem c15_text_arrives_unchanged : forall (enc dec : str -> list N -> option (list N)),
  (forall cs s b, enc cs s = Some b -> dec cs b = Some s) ->
  forall cmds s, forallb cmd_wf cmds = true ->
  let '(st, v) := run_both SV usable defcoll TX cs_of dflt [] dflt cmds in
  (forall b, enc (fst v) s = Some b -> to_server SV enc dec st v s = Some s) /\
  (forall b, enc (snd v) s = Some b -> to_client SV enc dec st v s = Some s).
Proof.
  intros enc dec Hc cmds s Hwf.
  exact (text_arrives_unchanged SV usable defcoll TX cs_of dflt look_client look_results tx_names schema_defaults enc dec Hc cmds s Hwf).
Qed.

(* a statement that is refused switches nothing, whatever it contains *)
Theorem c15_refused_statement_switches_nothing : forall st items e,
  set_statement SV usable defcoll TX st items = (fst (set_statement SV usable defcoll TX st items), Some e) ->
  fst (set_statement SV usable defcoll TX st items) = st.
Proof.
  intros st items e. unfold set_statement. destruct (resolve_items SV st items) as [l|x]; [|reflexivity].
  destruct (exec_items SV usable defcoll TX st l) as [s1 [x|]]; [reflexivity|]. cbn. intros H. inversion H.
Qed.

Example c15_history :
  let latin1 := [108;97;116;105;110;49] in
  run_views SV usable defcoll TX cs_of
    [KHandshake 8; KText; KSet [INames (Some [115;106;105;115]) None]; KText;
     KSet [IVar false ScSession n_cs_client (RVal (VStr latin1)); IVar false ScSession [110;111;115;117;99;104] (RVal (VInt 1))];
     KChangeUser (Some 255)]
  = [(latin1, utf8mb4); (latin1, utf8mb4); ([115;106;105;115], [115;106;105;115]); ([115;106;105;115], [115;106;105;115]);
     ([115;106;105;115], [115;106;105;115]); (utf8mb4, [115;106;105;115])].
Proof. vm_compute. reflexivity. Qed.
