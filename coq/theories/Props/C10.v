(* Props/C10.v - Every initialised session is closed exactly once; every connection is released. *)
From Coq Require Import List Arith NArith Lia Bool.
From MM Require Import Lib.Bytes Model.Conn Proofs.ConnInv Proofs.C10Proofs Gen.FactsConn Gen.FactsControl Proofs.FuelProofs.
From MM Require Import Gen.FactsOutline.
Import ListNotations.
Open Scope N_scope.

Definition B : N := conn_buffer_size.
Definition BATCH : N := utils_batch_size.

(* the life-cycle code still has the shape Model/Conn.v was transcribed from *)
Theorem c10_source_shape :
  translated_conn = true /\ connection_connection_start_ok = true /\ connection_connection_inner_start_ok = true /\
  connection_connection_kill_ok = true /\ connection_connection_command_phase_ok = true /\
  connection_connection_connection_phase_ok = true /\ connection_connection_authenticate_ok = true /\
  connection_connection_handle_change_user_ok = true /\
  server_mysqlserver_client_connected_cb_ok = true /\ stream_mysqlstream_drain_ok = true /\
  (* the registry a kill travels through and the connection is released from *)
  control_add_remove_kill_ok = true /\ server_cb_finally_ok = true.
Proof. repeat split; reflexivity. Qed.

(* the modules this property rests on define the functions, classes, methods and class-level names they defined when the
   model was transcribed - nothing added (an override, a new helper in the path), removed or renamed *)
Theorem c10_module_outlines : translated_outline = true /\ outline_connection_ok = true /\ outline_control_ok = true /\ outline_server_ok = true /\ outline_stream_ok = true.
Proof. repeat split; reflexivity. Qed.


(* For EVERY list of events - commands, disconnects (clean, mid-packet, bad sequence id), socket failures,
   pauses, kills of either kind, application results and exceptions from any callback, in any order:
   session.close has been called at most once and only for an initialised session; once the connection
   task has ended it has been called exactly once iff the session had been initialised. *)
Theorem c10_close_exactly_once : forall hs evs,
  let s := fst (session B BATCH hs evs) in
  (closes s <= 1)%nat /\ (closes s = 1%nat -> inited s = true) /\
  (ctl_ s = Done -> closes s = Nat.b2n (inited s)).
Proof.
  intros hs evs s. pose proof (session_good B BATCH hs evs) as G. fold s in G.
  unfold good10, good in G. destruct (ctl_ s) as [w k f ic| |] eqn:Ec.
  - apply P_weak in G. destruct G as [G1 G2]. repeat split; auto; intros; discriminate.
  - unfold D10 in G. rewrite G. destruct (inited s); cbn; repeat split; auto; intros; try discriminate; lia.
  - destruct G as [G1 G2]. repeat split; auto; intros; discriminate.
Qed.

(* while the task is alive the close count is determined by where it is: 0 before and during the command
   phase, 1 exactly while (and after) the `finally: await session.close()` *)
Theorem c10_never_early : forall hs evs w k f ic,
  let s := fst (session B BATCH hs evs) in
  ctl_ s = Susp w k f ic ->
  match f with FClose _ => closes s = 1%nat | _ => closes s = 0%nat end.
Proof.
  intros hs evs w k f ic s E. pose proof (session_good B BATCH hs evs) as G. fold s in G.
  unfold good10, good in G. rewrite E in G. destruct f; cbn in G; tauto.
Qed.

(* writer.close() and control.remove() happen exactly once, exactly when the connection task ends *)
Theorem c10_released : forall hs evs,
  let r := session B BATCH hs evs in
  releases (snd r) = match ctl_ (fst r) with Done => 2%nat | _ => 0%nat end.
Proof. exact (session_release B BATCH). Qed.

(* a finished connection stays finished and silent *)
Theorem c10_done_absorbing : forall s e, ctl_ s = Done -> step B BATCH s e = (s, []).
Proof. exact (step_done B BATCH). Qed.

(* non-vacuity: a conversation that ends by a kill during a streamed result, and one refused before init *)
Example c10_example_killed :
  let r := session B BATCH 50 [EvHandshake true true; EvDecide ASuccess; EvApp OVoid; EvPayload CQuery;
                               EvApp (OSet (mk_sizes 1 [20] 5 7) [IRow 5; ISuspend; IRow 5]); EvKill KC; EvApp OVoid] in
  ctl_ (fst r) = Done /\ closes (fst r) = 1%nat /\ inited (fst r) = true /\ releases (snd r) = 2%nat.
Proof. vm_compute. repeat split; reflexivity. Qed.

Example c10_example_refused :
  let r := session B BATCH 50 [EvHandshake true false; EvDecide AForbidden] in
  ctl_ (fst r) = Done /\ closes (fst r) = 0%nat /\ inited (fst r) = false /\ releases (snd r) = 2%nat.
Proof. vm_compute. repeat split; reflexivity. Qed.

(* the model's fuel: running a plan with the amount FUEL computes, or with ANY larger amount, gives the same state and the
   same outputs - `go` is the fuel-independent semantics of the machine, `Stuck` is never the result of running out of fuel
   (Proofs/FuelProofs.v: a potential over plan length, queued commands weighted by their cursors, and the frame) *)
Theorem c10_fuel_suffices : forall B BATCH s k f n, (FUEL s k <= n)%nat -> run B BATCH n s k f = go B BATCH s k f.
Proof. exact go_stable. Qed.
