(* Props/C17.v - Query attributes reach the application exactly as sent. *)
From Coq Require Import List NArith ZArith Lia Bool.
From MM Require Import Lib.Bytes Model.Parse Proofs.ParseProofs Gen.FactsPackets Gen.FactsCharset.
From MM Require Import Gen.FactsOutline.
Import ListNotations.
Open Scope N_scope.

Theorem c17_source_shape :
  translated_packets = true /\ types_read_uint_len_ok = true /\ types_read_str_len_ok = true /\
  types_uint_len_ok = true /\ types_column_type_codes = column_type_codes /\
  packets_string_param_types = string_types /\ types_fixed_width_ok = true /\
  (* the parsers Model/Parse.v transcribes: attribute names and string values are decoded with the character set passed in,
     nothing is kept between two calls *)
  packets_read_params_ok = true /\ packets_read_param_value_ok = true /\ packets_parse_com_query_ok = true /\
  packets_parse_com_stmt_execute_ok = true /\ packets_interpolate_params_ok = true.
Proof. repeat split; reflexivity. Qed.

(* the modules this property rests on define the functions, classes, methods and class-level names they defined when the
   model was transcribed - nothing added (an override, a new helper in the path), removed or renamed *)
Theorem c17_module_outlines : translated_outline = true /\ outline_packets_ok = true.
Proof. repeat split; reflexivity. Qed.


(* with the capability: every attribute list and every SQL byte string come back as sent *)
Theorem c17_query_roundtrip : forall attrs sql, forallb wf_param attrs = true -> len attrs < 2 ^ 64 ->
  parse_com_query true (encode_com_query attrs sql) = Ok (sql, to_dict (map (param_out true) attrs)).
Proof. exact com_query_roundtrip. Qed.

(* without it: the whole payload is SQL, whatever its first bytes are *)
Theorem c17_capability_off : forall data, parse_com_query false data = Ok (data, []).
Proof. exact com_query_without_capability. Qed.

(* COM_STMT_EXECUTE: m positional parameters followed by attributes; attaching attributes changes
   neither the positional values nor the cursor flag *)
Theorem c17_execute_roundtrip : forall qa lookup st id flags positional attrs,
  id < 2 ^ 32 -> lookup id = Some st -> st_buffers st = [] -> st_nparams st = len positional ->
  (qa = false -> attrs = []) -> (qa = true -> positional = [] -> N.testbit flags 3 = true) ->
  forallb wf_param (positional ++ attrs) = true -> len (positional ++ attrs) < 2 ^ 64 ->
  parse_com_stmt_execute qa lookup (encode_execute qa id flags positional attrs) =
    Ok (st, mk_exec (map (param_out qa) positional) (to_dict (map (param_out qa) attrs)) (N.testbit flags 0)).
Proof. exact execute_roundtrip. Qed.

Example c17_nonvacuous :
  parse_com_query true (encode_com_query
     [mk_param [110] 8 false (PInt (-5)); mk_param [] 253 false (PStr [0; 1]); mk_param [110] 6 false PNull] [0; 1; 2; 83]) =
  Ok ([0; 1; 2; 83], [([110], PNull); ([], PStr [0; 1])]).
Proof. vm_compute. reflexivity. Qed.
