(* Props/C07.v - Malformed or hostile packets cannot hang, crash or wedge the server (parser level).
   Every loop of every packet parser ends within (length of the packet + 1) iterations, for every byte
   string: the fuelled models never report OutOfFuel, and the NUL-terminated reader is structurally
   recursive on the remaining input.  The connection-level half (one ERR, in step, or close) is carried
   by the connection machine, see Props/C03.v / Props/C10.v. *)
From Coq Require Import List NArith ZArith Lia Bool.
From MM Require Import Lib.Bytes Model.Parse Model.Conn Proofs.ParseProofs Gen.FactsPackets Gen.FactsConn Gen.FactsStream.
From MM Require Import Gen.FactsOutline.
Import ListNotations.
Open Scope N_scope.

(* the NUL-terminated reader stops at the end of the input, and the primitives have the transcribed shape *)
Theorem c07_source_shape :
  translated_packets = true /\ types_read_str_null_ok = true /\ types_read_uint_len_ok = true /\
  types_read_str_len_ok = true /\ packets_read_connect_attrs_ok = true /\ prepared_find_params_ok = true /\
  packets_interpolate_by_position = true /\ connection_connection_command_phase_ok = true /\ translated_stream = true /\
  packets_parse_handle_stmt_fetch_ok = true /\ packets_parse_com_stmt_reset_ok = true /\ packets_parse_com_stmt_close_ok = true /\
  packets_read_cursor_flags_ok = true /\ packets_read_param_type_ok = true /\
  (* what ends a connection after a packet it cannot go on from: the session is closed, the registration released *)
  connection_connection_start_ok = true /\ connection_connection_inner_start_ok = true /\ server_mysqlserver_client_connected_cb_ok = true.
Proof. repeat split; reflexivity. Qed.

(* the modules this property rests on define the functions, classes, methods and class-level names they defined when the
   model was transcribed - nothing added (an override, a new helper in the path), removed or renamed *)
Theorem c07_module_outlines : translated_outline = true /\ outline_packets_ok = true /\ outline_stream_ok = true /\ outline_connection_ok = true.
Proof. repeat split; reflexivity. Qed.


(* a packet whose sequence id is wrong is rejected before its payload is consumed: the only in-step answer is to end
   the connection, and that is what the command loop does with every exception raised by the read itself *)
Theorem c07_read_failure_ends_connection : forall s code, Model.Conn.throw s (XMysql code) FRead = ToClose s true.
Proof. intros s code. cbn. destruct (kill s) as [[|]|]; reflexivity. Qed.

Theorem c07_read_params_total : forall qa count buffers data, rd_params qa count buffers data <> Err OutOfFuel.
Proof. exact rd_params_total. Qed.

Theorem c07_com_query_total : forall qa data, parse_com_query qa data <> Err OutOfFuel.
Proof. exact parse_com_query_total. Qed.

Theorem c07_stmt_execute_total : forall qa lookup data, parse_com_stmt_execute qa lookup data <> Err OutOfFuel.
Proof. exact parse_com_stmt_execute_total. Qed.

Theorem c07_connect_attrs_total : forall data, rd_connect_attrs data <> Err OutOfFuel.
Proof. exact rd_connect_attrs_total. Qed.

Theorem c07_handshake_response_total : forall cok sc mk data, parse_handshake_response cok sc mk data <> Err OutOfFuel.
Proof. exact parse_handshake_response_total. Qed.

Theorem c07_change_user_total : forall cok c data, parse_com_change_user cok c data <> Err OutOfFuel.
Proof. exact parse_com_change_user_total. Qed.

(* a declared count of 2^64-1 parameters over a short packet is an error, not a loop *)
Example c07_absurd_count :
  parse_com_query true ([254; 255; 255; 255; 255; 255; 255; 255; 255] ++ [1; 0; 1; 8; 0]) = Err StructErr.
Proof. vm_compute. reflexivity. Qed.

(* a user name without terminator is read to the end of the packet *)
Example c07_unterminated_user : rd_str_null [97; 98; 99] = ([97; 98; 99], []).
Proof. reflexivity. Qed.
