(* Model/Placeholders.v - placeholder recognition (prepared.py: find_params), parameter
   rendering (_encode_param_as_sql) and interpolation (_interpolate_params) over code points. *)
From Coq Require Import List NArith ZArith Lia Bool.
From MM Require Import Lib.Bytes.
Import ListNotations.
Open Scope N_scope.

Definition text := list N.   (* code points *)

Definition QUOTE := 39.  Definition DQUOTE := 34.  Definition BTICK := 96.
Definition BSLASH := 92. Definition QMARK := 63.

Definition is_quote (c : N) : bool := (c =? DQUOTE) || (c =? QUOTE) || (c =? BTICK).

(* find_params: one pass from the left.  open = the quote character that opened the string or identifier the scan is in
   (None outside), esc = the previous character was a backslash escaping this one.  A '?' is a placeholder outside;
   '...' and "..." end at their own quote character (a backslash escapes the next character - a doubled quote closes
   and re-opens, which comes to the same), `...` ends at the next backtick *)
Fixpoint scanf (open : option N) (esc : bool) (t : text) : list bool :=
  match t with
  | [] => []
  | c :: r =>
    if esc then false :: scanf open false r
    else match open with
         | None => if is_quote c then false :: scanf (Some c) false r else (c =? QMARK) :: scanf None false r
         | Some q => if c =? q then false :: scanf None false r
                     else if (c =? BSLASH) && negb (q =? BTICK) then false :: scanf open true r
                     else false :: scanf open false r
         end
  end.

Definition flags (t : text) : list bool := scanf None false t.
Definition count_params (t : text) : N := len (filter (fun b : bool => b) (flags t)).

(* zip(find_params(sql), values): each flagged position replaced by the next value, single pass *)
Fixpoint splice (t : text) (fl : list bool) (vals : list text) : text :=
  match t, fl with
  | c :: r, true :: fr => match vals with
                          | v :: vs => v ++ splice r fr vs
                          | [] => c :: splice r fr []
                          end
  | c :: r, _ :: fr => c :: splice r fr vals
  | _, _ => t
  end.

(* ---- literals -------------------------------------------------------------------------------- *)
Definition escape (s : text) : text :=
  flat_map (fun c => if c =? BSLASH then [BSLASH; BSLASH] else if c =? QUOTE then [QUOTE; QUOTE] else [c]) s.
Definition quote_string (s : text) : text := QUOTE :: escape s ++ [QUOTE].

Inductive value := VNull | VInt (digits : text) | VStr (s : text) | VFloat (token : text).
(* VInt / VFloat carry str(param): decimal digits / repr(float), produced outside the model *)

Definition render_param (v : value) : text :=
  match v with
  | VNull => [78; 85; 76; 76]   (* NULL *)
  | VInt d => d
  | VFloat t => t
  | VStr s => quote_string s
  end.

Definition interpolate (tpl : text) (vals : list value) : text :=
  splice tpl (flags tpl) (map render_param vals).

(* the MySQL lexer for a single-quoted string literal (default sql_mode), as a specification:
   input starts after the opening quote; returns the denoted string and the rest of the input *)
Definition unescape (c : N) : text :=
  if c =? 48 then [0] else if c =? 98 then [8] else if c =? 110 then [10] else if c =? 114 then [13]
  else if c =? 116 then [9] else if c =? 90 then [26]
  else if (c =? 37) || (c =? 95) then [BSLASH; c]    (* \% and \_ keep the backslash *)
  else [c].

Definition push (p : text) (r : option (text * text)) : option (text * text) :=
  match r with Some (s, t) => Some (p ++ s, t) | None => None end.

Fixpoint lex_body (t : text) : option (text * text) :=
  match t with
  | [] => None
  | c :: r =>
    if c =? QUOTE then
      match r with
      | c2 :: r2 => if c2 =? QUOTE then push [QUOTE] (lex_body r2) else Some ([], r)
      | [] => Some ([], [])
      end
    else if c =? BSLASH then
      match r with
      | c2 :: r2 => push (unescape c2) (lex_body r2)
      | [] => None
      end
    else push [c] (lex_body r)
  end.

Definition lex_literal (t : text) : option (text * text) :=
  match t with
  | c :: r => if c =? QUOTE then lex_body r else None
  | [] => None
  end.

(* ---- the template grammar of the property ------------------------------------------------------ *)
(* what a quoted segment holds: a character, or a backslash and the character it escapes *)
Inductive item := Ch (c : N) | Esc (c : N).
Inductive seg := Plain (t : text) | Hole | Quoted (q : N) (body : list item).

(* inside q...q: any character but q itself - the OTHER quote characters and question marks included -; a backslash
   only as an escape, and then in front of any character (q and the backslash included); inside `...` a backslash is an
   ordinary character and nothing escapes *)
Definition item_ok (q : N) (i : item) : bool :=
  match i with
  | Ch c => negb (c =? q) && ((q =? BTICK) || negb (c =? BSLASH))
  | Esc _ => negb (q =? BTICK)
  end.
Definition render_item (i : item) : text := match i with Ch c => [c] | Esc c => [BSLASH; c] end.
Definition render_body (b : list item) : text := flat_map render_item b.

Definition seg_ok (s : seg) : bool :=
  match s with
  | Plain t => forallb (fun c => negb (is_quote c) && negb (c =? QMARK)) t
  | Hole => true
  | Quoted q b => is_quote q && forallb (item_ok q) b
  end.

Definition render_seg (s : seg) : text :=
  match s with Plain t => t | Hole => [QMARK] | Quoted q b => q :: render_body b ++ [q] end.
Definition render (tpl : list seg) : text := flat_map render_seg tpl.

Definition seg_flags (s : seg) : list bool :=
  match s with
  | Plain t => repeat false (length t)
  | Hole => [true]
  | Quoted q b => false :: repeat false (length (render_body b)) ++ [false]
  end.
Definition hole_flags (tpl : list seg) : list bool := flat_map seg_flags tpl.
Definition holes (tpl : list seg) : nat := length (filter (fun s => match s with Hole => true | _ => false end) tpl).

(* the template with its holes filled, in order, by the given texts *)
Fixpoint fill (tpl : list seg) (lits : list text) : text :=
  match tpl with
  | [] => []
  | Hole :: r => match lits with l :: ls => l ++ fill r ls | [] => [QMARK] ++ fill r [] end
  | s :: r => render_seg s ++ fill r lits
  end.
