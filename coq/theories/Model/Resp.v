(* Model/Resp.v - the response grammar of the MySQL client/server protocol as a deterministic automaton,
   written from the protocol documentation, independently of the handler plans of Model/Conn.v. *)
From Coq Require Import List NArith Bool.
From MM Require Import Lib.Bytes Model.Conn.
Import ListNotations.
Open Scope N_scope.

(* what kind of response a command calls for *)
Inductive rkind :=
| RKQuery          (* COM_QUERY: OK | ERR | text result set *)
| RKOk             (* PING, INIT_DB, RESET_CONNECTION, DEBUG, STMT_RESET, CHANGE_USER: OK | ERR *)
| RKPrepare        (* COM_STMT_PREPARE: prepare-OK block | ERR *)
| RKExecute (cursor : bool)  (* COM_STMT_EXECUTE: OK | ERR | binary result set | metadata + cursor OK *)
| RKFetch          (* COM_STMT_FETCH: rows then EOF/OK with cursor flags | ERR *)
| RKFieldList      (* COM_FIELD_LIST: column definitions then EOF/OK | ERR *)
| RKNone           (* STMT_SEND_LONG_DATA, STMT_CLOSE, QUIT: no reply at all *)
| RKAuth.          (* COM_CHANGE_USER: auth switch / more data exchanges, then OK | ERR *)

Inductive rstate :=
| RStart
| RCols (left : N)         (* column definitions still to come *)
| RMetaEof                 (* the metadata EOF (only without DEPRECATE_EOF) *)
| RRows                    (* rows, then the terminator *)
| RCursorOk                (* metadata done; the OK/EOF announcing the cursor *)
| RParams (left : N) | RParamsEof
| RDone | RBad.

Definition terminator (dep : bool) (p : pkt) : bool :=
  match p with
  | PEof _ => negb dep
  | POk true _ => dep
  | _ => false
  end.

Definition has_flag (p : pkt) (f : N) : bool :=
  match p with PEof fl | POk _ fl => negb (N.land fl f =? 0) | _ => false end.

Definition rstep (dep : bool) (c : rkind) (s : rstate) (p : pkt) : rstate :=
  match s with
  | RDone | RBad => RBad
  | _ =>
    match p with
    | PErr _ => match c with RKNone => RBad | _ => RDone end
    | _ =>
      match s, p, c with
      | RStart, POk false _, (RKQuery | RKOk | RKExecute _ | RKAuth) => RDone
      | RStart, (PAuthSwitch | PAuthMore), RKAuth => RStart
      | RStart, PColCount n, (RKQuery | RKExecute _) => if n =? 0 then RBad else RCols n
      | RStart, PPrepOk _ np, RKPrepare => if np =? 0 then RDone else RParams np
      | RStart, PFieldList n, RKFieldList => if n <=? 1 then RRows else RBad  (* one definition per packet *)
      | RStart, _, RKFetch => if terminator dep p then (if has_flag p FL_CURSOR_EXISTS || has_flag p FL_LAST_ROW_SENT then RDone else RBad)
                              else match p with PRow _ => RStart | _ => RBad end
      | RStart, _, RKFieldList => if terminator dep p then RDone else RBad
      | RCols n, PColDef, _ =>
          if n =? 1 then
            match c with
            | RKExecute true => RCursorOk
            | _ => if dep then RRows else RMetaEof
            end
          else RCols (N.pred n)
      | RMetaEof, PEof _, _ => RRows
      | RCursorOk, _, _ => if terminator dep p && has_flag p FL_CURSOR_EXISTS then RDone else RBad
      | RRows, PRow _, (RKQuery | RKExecute false) => RRows
      | RRows, PFieldList n, RKFieldList => if n <=? 1 then RRows else RBad
      | RRows, _, (RKQuery | RKExecute false | RKFieldList) => if terminator dep p then RDone else RBad
      | RParams n, PColDef, RKPrepare => if n =? 1 then (if dep then RDone else RParamsEof) else RParams (N.pred n)
      | RParamsEof, PEof _, RKPrepare => RDone
      | _, _, _ => RBad
      end
    end
  end.

Definition accepting (c : rkind) (s : rstate) : bool :=
  match s, c with
  | RDone, _ => true
  | RStart, RKNone => true
  | _, _ => false
  end.

Definition live (s : rstate) : bool := match s with RDone | RBad => false | _ => true end.

Definition accepts (dep : bool) (c : rkind) (ps : list pkt) : bool :=
  accepting c (fold_left (rstep dep c) ps RStart).

Definition rkind_of (c : cmd) : rkind :=
  match c with
  | CQuery => RKQuery
  | CPing | CResetConn | CDebug | CInitDb | CReset _ => RKOk
  | CQuit | CLongData _ | CClose _ => RKNone
  | CFieldList => RKFieldList
  | CPrepare _ _ => RKPrepare
  | CExecute _ cur => RKExecute cur
  | CFetch _ _ _ => RKFetch
  | CChangeUser => RKAuth
  | CUnknown | CBad _ => RKOk
  end.
