(* Model/Stmts.v - the prepared-statement table of one connection over its whole life: COM_STMT_PREPARE,
   COM_STMT_SEND_LONG_DATA, COM_STMT_EXECUTE, COM_STMT_RESET and COM_STMT_CLOSE as operations on a store
   (connection.py: handle_stmt_prepare / handle_stmt_send_long_data / handle_stmt_execute / handle_stmt_reset /
   handle_stmt_close, get_stmt, prepared.py: PreparedStatement, utils.seq).  What an operation leaves in the store is
   what a later one finds there: the long data accumulated for a statement, the statement ids in use, the id counter.
   Parsing of each command's payload and the binding of values are those of Model/Parse.v and Model/Exec.v. *)
From Coq Require Import List NArith ZArith Bool.
From MM Require Import Lib.Bytes Model.Parse Model.Placeholders Model.Exec.
Import ListNotations.
Open Scope N_scope.

Definition SEQ_SIZE : N := 2 ^ 32.     (* Connection._MAX_PREPARED_STMT_ID: utils.seq wraps there *)

(* Connection.prepared_stmts (a dict) and Connection.prepared_stmt_seq *)
Record store := mk_store { next_id : N; tbl : list (N * stmt) }.
Definition store0 : store := mk_store 0 [].

Fixpoint del (id : N) (l : list (N * stmt)) : list (N * stmt) :=
  match l with
  | [] => []
  | (k, v) :: r => if k =? id then del id r else (k, v) :: del id r
  end.
Definition put (id : N) (v : stmt) (l : list (N * stmt)) : list (N * stmt) := (id, v) :: del id l.
Definition lookup (s : store) (id : N) : option stmt := assoc_N id (tbl s).

(* param_buffers.setdefault(param_id, bytearray()).extend(data) *)
Fixpoint append_buf (pid : N) (data : bytes) (b : list (N * bytes)) : list (N * bytes) :=
  match b with
  | [] => [(pid, data)]
  | (k, v) :: r => if k =? pid then (k, v ++ data) :: r else (k, v) :: append_buf pid data r
  end.

Definition with_buffers (st : stmt) (b : list (N * bytes)) : stmt := mk_stmt (st_sql st) (st_nparams st) b.

Inductive sop :=
| SPrepare (sql : text)        (* the statement text, decoded *)
| SLongData (d : bytes)        (* payloads after the command byte *)
| SExecute (d : bytes)
| SReset (d : bytes)
| SClose (d : bytes).

Inductive sout :=
| RNone                                        (* the command has no reply *)
| RPrepared (id nparams : N)
| RExec (sql : text) (attrs : list (bytes * pval)) (cursor : bool)   (* what the application is called with *)
| ROk
| RErr (e : err).

(* the statement a command payload addresses (its first four bytes) *)
Definition target (d : bytes) : option N := match rd_uint 4 d with Ok (id, _) => Some id | Err _ => None end.

Section Step.
Variable qa : bool.                       (* CLIENT_QUERY_ATTRIBUTES negotiated *)
Variable ftab : list (bytes * text).      (* repr(float) tokens, supplied from outside (Model/Exec.v) *)

Definition sstep (s : store) (o : sop) : store * sout :=
  match o with
  | SPrepare sql =>
      let id := next_id s in
      let n := count_params sql in
      let s' := mk_store ((id + 1) mod SEQ_SIZE) (put id (mk_stmt sql n []) (tbl s)) in
      (* the statement is registered before the reply is built; uint_2(num_params) fails from 65536 on *)
      (s', if n <? 65536 then RPrepared id n else RErr StructErr)
  | SLongData d =>
      match parse_send_long_data d with
      | Err e => (s, RErr e)
      | Ok (id, pid, data) =>
          match lookup s id with
          | None => (s, RNone)
          | Some st => (mk_store (next_id s) (put id (with_buffers st (append_buf pid data (st_buffers st))) (tbl s)), RNone)
          end
      end
  | SExecute d =>
      match execute_sql qa (lookup s) ftab d with
      | Err e =>
          (* refused while parsing (unsupported type, flag, undecodable text ...): the long data sent for this execution
             attempt is used up all the same - it belongs to one attempt, accepted or not *)
          (match target d with
           | Some id => match lookup s id with
                        | Some st => mk_store (next_id s) (put id (with_buffers st []) (tbl s))
                        | None => s
                        end
           | None => s
           end, RErr e)
      | Ok (sql, attrs, cur) =>
          (* com_stmt_execute.stmt.param_buffers = None - before the application is called, whatever it answers *)
          match rd_uint 4 d with
          | Ok (id, _) =>
              match lookup s id with
              | Some st => (mk_store (next_id s) (put id (with_buffers st []) (tbl s)), RExec sql attrs cur)
              | None => (s, RExec sql attrs cur)
              end
          | Err _ => (s, RExec sql attrs cur)
          end
      end
  | SReset d =>
      match parse_stmt_id d with
      | Err e => (s, RErr e)
      | Ok id =>
          match lookup s id with
          | None => (s, RErr (MysqlErr ERR_UNKNOWN_PROCEDURE))
          | Some st => (mk_store (next_id s) (put id (with_buffers st []) (tbl s)), ROk)
          end
      end
  | SClose d =>
      match parse_stmt_id d with
      | Err e => (s, RErr e)
      | Ok id => (mk_store (next_id s) (del id (tbl s)), RNone)
      end
  end.

Fixpoint srun (s : store) (ops : list sop) : store * list sout :=
  match ops with
  | [] => (s, [])
  | o :: r => let '(s1, x) := sstep s o in let '(s2, xs) := srun s1 r in (s2, x :: xs)
  end.
End Step.

(* what the long-data commands of a history add to the buffers of statement id, in order of arrival *)
Definition collect1 (id : N) (b : list (N * bytes)) (o : sop) : list (N * bytes) :=
  match o with
  | SLongData d => match parse_send_long_data d with
                   | Ok (i, pid, data) => if i =? id then append_buf pid data b else b
                   | Err _ => b
                   end
  | _ => b
  end.
Definition collect (id : N) (ops : list sop) : list (N * bytes) := fold_left (collect1 id) ops [].

(* operations that neither consume the long data of statement id nor deallocate it *)
Definition quiet (id : N) (o : sop) : bool :=
  match o with
  | SPrepare _ => true
  | SLongData _ => true
  | SExecute d | SReset d | SClose d => match target d with Some i => negb (i =? id) | None => true end
  end.
