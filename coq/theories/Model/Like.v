(* Model/Like.v - SQL LIKE as a specification, and the regular expression schema.like_to_regex builds. *)
From Coq Require Import List NArith Bool.
Import ListNotations.
Open Scope N_scope.

Definition text := list N.
Definition PCT := 37.   (* % *)
Definition USC := 95.   (* _ *)

(* LIKE: % matches any sequence, _ any single character, everything else itself; the WHOLE string must match *)
Fixpoint like (p : text) : text -> bool :=
  match p with
  | [] => fun s => match s with [] => true | _ => false end
  | c :: p' =>
      if c =? PCT then
        (fix star (s : text) : bool := like p' s || match s with [] => false | _ :: s' => star s' end)
      else fun s => match s with
                    | [] => false
                    | x :: s' => ((c =? USC) || (c =? x)) && like p' s'
                    end
  end.

(* regular expressions with the textbook matching relation *)
Inductive re := Eps | Chr (c : N) | Any | Cat (a b : re) | Star (a : re).

Inductive matches : re -> text -> Prop :=
| MEps : matches Eps []
| MChr c : matches (Chr c) [c]
| MAny c : matches Any [c]
| MCat a b s t : matches a s -> matches b t -> matches (Cat a b) (s ++ t)
| MStar0 a : matches (Star a) []
| MStarS a s t : matches a s -> matches (Star a) t -> matches (Star a) (s ++ t).

(* like_to_regex: "%" -> ".*", "_" -> ".", any other character escaped; anchored at both ends (match + \Z, DOTALL) *)
Fixpoint to_re (p : text) : re :=
  match p with
  | [] => Eps
  | c :: r => Cat (if c =? PCT then Star Any else if c =? USC then Any else Chr c) (to_re r)
  end.
