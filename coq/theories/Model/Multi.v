(* Model/Multi.v - several connections on one event loop: a finite map of independent connection machines.
   An event is addressed to one connection (asyncio is cooperative: between two suspensions one task runs alone). *)
From Coq Require Import List NArith Bool.
From MM Require Import Lib.Bytes Model.Conn.
Import ListNotations.
Open Scope N_scope.

Section Multi.
Variable B BATCH : N.

Definition mstate := list (N * st).

Fixpoint mget (i : N) (ms : mstate) : option st :=
  match ms with [] => None | (k, s) :: r => if k =? i then Some s else mget i r end.
Fixpoint mput (i : N) (s : st) (ms : mstate) : mstate :=
  match ms with
  | [] => [(i, s)]
  | (k, v) :: r => if k =? i then (k, s) :: r else (k, v) :: mput i s r
  end.

(* one event-loop iteration: the event of connection i is processed up to its next suspension *)
Definition mstep (ms : mstate) (ie : N * ev) : mstate * list (N * out) :=
  let '(i, e) := ie in
  match mget i ms with
  | None => (ms, [])                       (* not (or no longer) registered: nothing happens *)
  | Some s => let '(s', o) := step B BATCH s e in (mput i s' ms, map (fun x => (i, x)) o)
  end.

Fixpoint mrun (ms : mstate) (evs : list (N * ev)) : mstate * list (N * out) :=
  match evs with
  | [] => (ms, [])
  | ie :: r => let '(ms1, o1) := mstep ms ie in let '(ms2, o2) := mrun ms1 r in (ms2, o1 ++ o2)
  end.

(* what connection i sees / does *)
Definition proj_out (i : N) (o : list (N * out)) : list out :=
  map snd (filter (fun x => fst x =? i) o).
Definition proj_ev (i : N) (evs : list (N * ev)) : list ev :=
  map snd (filter (fun x => fst x =? i) evs).

Fixpoint run1 (s : st) (evs : list ev) : st * list out :=
  match evs with
  | [] => (s, [])
  | e :: r => let '(s1, o1) := step B BATCH s e in let '(s2, o2) := run1 s1 r in (s2, o1 ++ o2)
  end.
End Multi.
