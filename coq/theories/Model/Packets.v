(* Model/Packets.v - the server-to-client packets byte for byte (packets.py: make_ok, make_eof, make_error,
   make_column_count, make_column_definition_41, make_handshake_v10) and reference decoders written from the
   protocol documentation (CLIENT_PROTOCOL_41 layout). *)
From Coq Require Import List NArith Bool.
From MM Require Import Lib.Bytes.
Import ListNotations.
Open Scope N_scope.

(* ---- OK / EOF / ERR ------------------------------------------------------------------------------------------------ *)
(* capabilities as far as these encoders look at them *)
Record caps := mk_caps { protocol_41 : bool; transactions : bool; plugin_auth : bool; optional_metadata : bool }.

Definition enc_ok (c : caps) (eof : bool) (affected last status warnings : N) : bytes :=
  [if eof then 254 else 0] ++ uint_len affected ++ uint_len last ++
  (if protocol_41 c then le_bytes 2 status ++ le_bytes 2 warnings
   else if transactions c then le_bytes 2 status else []).

Definition enc_eof (c : caps) (warnings status : N) : bytes :=
  [254] ++ (if protocol_41 c then le_bytes 2 warnings ++ le_bytes 2 status else []).

Definition enc_err (c : caps) (code : N) (sqlstate msg : bytes) : bytes :=
  [255] ++ le_bytes 2 code ++ (if protocol_41 c then [35] ++ sqlstate else []) ++ msg.

(* reference decoders (protocol 4.1): header byte, then the documented fields; trailing bytes are returned *)
Definition dec_ok (d : bytes) : option (bool * N * N * N * N * bytes) :=
  match d with
  | h :: r =>
      if (h =? 0) || (h =? 254) then
        match read_uint_len r with
        | Some (aff, r1) =>
            match read_uint_len r1 with
            | Some (last, r2) =>
                match read_uint 2 r2 with
                | Some (status, r3) =>
                    match read_uint 2 r3 with
                    | Some (warn, r4) => Some (h =? 254, aff, last, status, warn, r4)
                    | None => None
                    end
                | None => None
                end
            | None => None
            end
        | None => None
        end
      else None
  | [] => None
  end.

Definition dec_eof (d : bytes) : option (N * N) :=
  match d with
  | [254; w0; w1; s0; s1] => Some (le_val [w0; w1], le_val [s0; s1])
  | _ => None
  end.

Definition dec_err (d : bytes) : option (N * bytes * bytes) :=
  match d with
  | h :: c0 :: c1 :: m :: r =>
      if (h =? 255) && (m =? 35) then
        if len r <? 5 then None else Some (le_val [c0; c1], take 5 r, drop 5 r)
      else None
  | _ => None
  end.

(* ---- column count and column definitions ------------------------------------------------------------------------------ *)
Definition enc_colcount (c : caps) (n : N) : bytes :=
  (if optional_metadata c then [1] else []) ++ uint_len n.

Record coldef := mk_coldef {
  cd_schema : bytes; cd_table : bytes; cd_org_table : bytes; cd_name : bytes; cd_org_name : bytes;   (* already encoded *)
  cd_charset : N; cd_length : N; cd_type : N; cd_flags : N; cd_decimals : N
}.

(* default: COM_FIELD_LIST only; None = not a field list, Some None = no default, Some (Some v) = default v *)
Definition enc_coldef (cd : coldef) (field_list : option (option bytes)) : bytes :=
  str_len [100; 101; 102] ++ str_len (cd_schema cd) ++ str_len (cd_table cd) ++ str_len (cd_org_table cd) ++
  str_len (cd_name cd) ++ str_len (cd_org_name cd) ++ uint_len 12 ++
  le_bytes 2 (cd_charset cd) ++ le_bytes 4 (cd_length cd) ++ le_bytes 1 (cd_type cd) ++ le_bytes 2 (cd_flags cd) ++
  le_bytes 1 (cd_decimals cd) ++ le_bytes 2 0 ++
  match field_list with
  | None => []
  | Some None => uint_len 0
  | Some (Some v) => str_len v          (* ONE length-encoded string (the protocol's "default values") *)
  end.

Definition rd_str (d : bytes) := read_str_len d.
Definition dec_coldef (d : bytes) : option (coldef * bytes) :=
  match rd_str d with
  | Some (cat, r0) =>
    match rd_str r0 with
    | Some (sc, r1) =>
      match rd_str r1 with
      | Some (tb, r2) =>
        match rd_str r2 with
        | Some (otb, r3) =>
          match rd_str r3 with
          | Some (nm, r4) =>
            match rd_str r4 with
            | Some (onm, r5) =>
              match read_uint_len r5 with
              | Some (fixedlen, r6) =>
                  if negb (fixedlen =? 12) || (len r6 <? 12) || negb (len cat =? 3) then None else
                  match read_uint 2 r6 with
                  | Some (cs, r7) =>
                    match read_uint 4 r7 with
                    | Some (ln, r8) =>
                      match read_uint 1 r8 with
                      | Some (ty, r9) =>
                        match read_uint 2 r9 with
                        | Some (fl, r10) =>
                          match read_uint 1 r10 with
                          | Some (dc, r11) => Some (mk_coldef sc tb otb nm onm cs ln ty fl dc, drop 2 r11)
                          | None => None
                          end
                        | None => None
                        end
                      | None => None
                      end
                    | None => None
                    end
                  | None => None
                  end
              | None => None
              end
            | None => None
            end
          | None => None
          end
        | None => None
        end
      | None => None
      end
    | None => None
    end
  | None => None
  end.

(* ---- the initial handshake ------------------------------------------------------------------------------------------------ *)
Fixpoint pad_to (k : nat) (s : bytes) : bytes :=      (* struct.pack("<{k}s", s): truncate or pad with NUL *)
  match k with
  | O => []
  | S k' => match s with [] => 0 :: pad_to k' [] | b :: r => b :: pad_to k' r end
  end.

Definition enc_handshake (c : caps) (caps_word charset : N) (version : bytes) (conn_id : N) (auth : bytes)
                         (status : N) (plugin : bytes) : bytes :=
  let alen := if plugin_auth c then len auth else 0 in
  [10] ++ str_null version ++ le_bytes 4 conn_id ++ str_null (take 8 auth) ++
  le_bytes 2 (caps_word mod 65536) ++ le_bytes 1 charset ++ le_bytes 2 status ++ le_bytes 2 (caps_word / 65536) ++
  le_bytes 1 alen ++ pad_to 10 [] ++ pad_to (N.to_nat (N.max 13 (alen - 8))) (drop 8 auth) ++
  (if plugin_auth c then str_null plugin else []).

(* what a client reads: (version, connection id, first 8 nonce bytes, capability word, charset, status, auth length, rest) *)
Definition dec_handshake (d : bytes) : option (bytes * N * bytes * N * N * N * N * bytes) :=
  match d with
  | 10 :: r =>
      match split_nul r with
      | Some (version, r1) =>
          match read_uint 4 r1 with
          | Some (cid, r2) =>
              if len r2 <? 9 + 2 + 1 + 2 + 2 + 1 + 10 then None else
              let part1 := take 8 r2 in let r3 := drop 9 r2 in
              match read_uint 2 r3 with
              | Some (lo, r4) =>
                  match read_uint 1 r4 with
                  | Some (cs, r5) =>
                      match read_uint 2 r5 with
                      | Some (status, r6) =>
                          match read_uint 2 r6 with
                          | Some (hi, r7) =>
                              match read_uint 1 r7 with
                              | Some (alen, r8) => Some (version, cid, part1, lo + 65536 * hi, cs, status, alen, drop 10 r8)
                              | None => None
                              end
                          | None => None
                          end
                      | None => None
                      end
                  | None => None
                  end
              | None => None
              end
          | None => None
          end
      | None => None
      end
  | _ => None
  end.
