(* Model/Route.v - which statements the library answers itself and which reach the application
   (session.py: handle_query, the ordered middleware list, utils.find_dbs), and the default database. *)
From Coq Require Import List NArith Bool String.
From MM Require Import Model.Vars.
Import ListNotations.
Open Scope N_scope.

(* a statement after parsing, as far as routing looks at it *)
Inductive skind :=
| KSet | KUse (db : str) | KKill | KShow | KDescribeTable | KDescribeSelect   (* DESCRIBE / EXPLAIN of a table | of anything else *)
| KBegin | KCommit | KRollback
| KSelect (fromless : bool)       (* exp.Select; fromless: no FROM / JOIN at its top level and no table in any subquery -
                                     a static query: it reads nothing *)
| KSetOp                          (* UNION / EXCEPT / INTERSECT *)
| KOther.                         (* DML, DDL, anything else, commands sqlglot does not understand *)
Record stmt := mk_stmt { kind : skind; dbs : list (option str) }.   (* dbs: the db part of every table find_tables reports *)

(* utils.find_tables looks into SELECT-like statements only *)
Definition tables_of (s : stmt) : list (option str) :=
  match kind s with KSelect _ | KSetOp => dbs s | _ => [] end.

Section Route.
Variable catalog_dbs : list str.     (* constants.INFO_SCHEMA: lower-case names *)
Definition is_catalog (d : str) : bool := existsb (str_eqb (lower d)) catalog_dbs.

(* the outcome of the middleware chain for one statement *)
Inductive verdict := Library | App | UnknownMiddleware.

Record sess := mk_sess { database : option str }.

(* one middleware: Some v = it answers (and the session after it), None = q.next() *)
Definition mw := stmt -> sess -> option (verdict * sess).

Definition pass : mw := fun _ _ => None.      (* _set_var_middleware / _replace_variables_middleware wrap, they never answer *)
Definition on_kind (p : skind -> bool) : mw := fun s se => if p (kind s) then Some (Library, se) else None.
Definition mw_set := on_kind (fun k => match k with KSet => true | _ => false end).
Definition mw_static := on_kind (fun k => match k with KSelect true => true | _ => false end).
Definition mw_use : mw := fun s se => match kind s with KUse d => Some (Library, mk_sess (Some d)) | _ => None end.
Definition mw_kill := on_kind (fun k => match k with KKill => true | _ => false end).
Definition mw_show := on_kind (fun k => match k with KShow => true | _ => false end).
Definition mw_describe := on_kind (fun k => match k with KDescribeTable => true | _ => false end).
Definition mw_begin := on_kind (fun k => match k with KBegin => true | _ => false end).
Definition mw_commit := on_kind (fun k => match k with KCommit => true | _ => false end).
Definition mw_rollback := on_kind (fun k => match k with KRollback => true | _ => false end).
(* unqualified tables live in the current database *)
Definition resolve (se : sess) (d : option str) : str :=
  match d with Some x => x | None => match database se with Some x => x | None => [] end end.
Definition catalog_only (s : stmt) (se : sess) : bool :=
  match tables_of s with [] => false | ts => forallb (fun d => is_catalog (resolve se d)) ts end.
Definition mw_info_schema : mw := fun s se => if catalog_only s se then Some (Library, se) else None.

Definition mw_of_name (n : string) : option mw :=
  if String.eqb n "_set_var_middleware" then Some pass
  else if String.eqb n "_replace_variables_middleware" then Some pass
  else if String.eqb n "_set_middleware" then Some mw_set
  else if String.eqb n "_static_query_middleware" then Some mw_static
  else if String.eqb n "_use_middleware" then Some mw_use
  else if String.eqb n "_kill_middleware" then Some mw_kill
  else if String.eqb n "_show_middleware" then Some mw_show
  else if String.eqb n "_describe_middleware" then Some mw_describe
  else if String.eqb n "_begin_middleware" then Some mw_begin
  else if String.eqb n "_commit_middleware" then Some mw_commit
  else if String.eqb n "_rollback_middleware" then Some mw_rollback
  else if String.eqb n "_info_schema_middleware" then Some mw_info_schema
  else None.

Variable middleware_names : list string.     (* Session.__init__: self.middlewares, in order *)

Fixpoint chain (names : list string) (s : stmt) (se : sess) : verdict * sess :=
  match names with
  | [] => (App, se)
  | n :: r => match mw_of_name n with
              | None => (UnknownMiddleware, se)
              | Some m => match m s se with Some v => v | None => chain r s se end
              end
  end.
Definition route (s : stmt) (se : sess) : verdict * sess := chain middleware_names s se.

(* handle_query: every statement of the text in order; application calls (index of the statement in the text, the
   default database the application sees); the result of the last statement wins *)
Record call := mk_call { c_index : nat; c_db : option str }.
Inductive result := RNone | RLibrary (index : nat) | RApp (index : nat) | RBroken.

Fixpoint handle (stmts : list stmt) (i : nat) (se : sess) (calls : list call) (res : result) : sess * list call * result :=
  match stmts with
  | [] => (se, calls, res)
  | s :: r =>
      match route s se with
      | (Library, se') => handle r (S i) se' calls (RLibrary i)
      | (App, se') => handle r (S i) se' (calls ++ [mk_call i (database se')]) (RApp i)
      | (UnknownMiddleware, se') => (se', calls, RBroken)
      end
  end.
Definition handle_query (stmts : list stmt) (se : sess) := handle stmts O se [] RNone.

(* ---- the specification: which statements the application must see ---------------------------------------------------- *)
Definition builtin (k : skind) : bool :=
  match k with
  | KSet | KUse _ | KKill | KShow | KDescribeTable | KBegin | KCommit | KRollback => true
  | KSelect true => true
  | _ => false
  end.
Definition reaches_app (s : stmt) (db : option str) : bool :=
  negb (builtin (kind s)) && negb (catalog_only s (mk_sess db)).
Definition db_after (s : stmt) (db : option str) : option str := match kind s with KUse d => Some d | _ => db end.

Fixpoint spec_calls (stmts : list stmt) (i : nat) (db : option str) : list call :=
  match stmts with
  | [] => []
  | s :: r => (if reaches_app s db then [mk_call i db] else []) ++ spec_calls r (S i) (db_after s db)
  end.
Fixpoint spec_db (stmts : list stmt) (db : option str) : option str :=
  match stmts with [] => db | s :: r => spec_db r (db_after s db) end.
Definition spec_result (stmts : list stmt) (db : option str) : result :=
  (fix go (l : list stmt) (i : nat) (db : option str) (res : result) : result :=
     match l with
     | [] => res
     | s :: r => go r (S i) (db_after s db) (if reaches_app s db then RApp i else RLibrary i)
     end) stmts O db RNone.

(* ---- the connection: who selects the default database --------------------------------------------------------------- *)
Inductive cop :=
| CHandshake (db : option str)
| CInitDb (db : str)
| CChangeUser (db : option str)
| CQuery (stmts : list stmt).

Definition cstep (se : sess) (o : cop) : sess * list call :=
  match o with
  | CHandshake d | CChangeUser d => (mk_sess d, [])
  | CInitDb d => (mk_sess (Some d), [])
  | CQuery stmts => let '(se', calls, _) := handle_query stmts se in (se', calls)
  end.
(* what the client selected last *)
Definition client_db (db : option str) (o : cop) : option str :=
  match o with
  | CHandshake d | CChangeUser d => d
  | CInitDb d => Some d
  | CQuery stmts => spec_db stmts db
  end.
End Route.
