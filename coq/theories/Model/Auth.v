(* Model/Auth.v - mysql_native_password, clear password and no-login decisions (auth.py, utils.xor).
   The hash function is a Section variable: the theorems hold for every function with 20-byte output. *)
From Coq Require Import List NArith Lia Bool.
From MM Require Import Lib.Bytes Model.Parse.
Import ListNotations.
Open Scope N_scope.

(* utils.xor: both operands truncated to the shorter, bytewise *)
Fixpoint xor_bytes (a b : bytes) : bytes :=
  match a, b with
  | x :: a', y :: b' => N.lxor x y :: xor_bytes a' b'
  | _, _ => []
  end.

(* bytes.fromhex: pairs of hex digits, ASCII whitespace allowed between pairs *)
Definition hexval (c : N) : option N :=
  if (48 <=? c) && (c <=? 57) then Some (c - 48)
  else if (97 <=? c) && (c <=? 102) then Some (c - 87)
  else if (65 <=? c) && (c <=? 70) then Some (c - 55)
  else None.
Definition is_space (c : N) : bool := (c =? 32) || ((9 <=? c) && (c <=? 13)).

Fixpoint fromhex (fuel : nat) (t : list N) : option bytes :=
  match fuel with
  | O => None
  | S f =>
    match t with
    | [] => Some []
    | c :: r =>
        if is_space c then fromhex f r
        else match hexval c, r with
             | Some hi, c2 :: r2 =>
                 match hexval c2 with
                 | Some lo => match fromhex f r2 with Some bs => Some (hi * 16 + lo :: bs) | None => None end
                 | None => None
                 end
             | _, _ => None
             end
    end
  end.

Record user := mk_user { u_auth : option (list N); u_old : option (list N) }.   (* auth_string / old_auth_string as text *)

Section Auth.
Variable sha1 : bytes -> bytes.

(* the response a client computes: SHA1(pw) XOR SHA1(nonce ++ SHA1(SHA1(pw))) *)
Definition scramble (pw nonce : bytes) : bytes :=
  xor_bytes (sha1 pw) (sha1 (nonce ++ sha1 (sha1 pw))).

Definition stored_of (pw : bytes) : bytes := sha1 (sha1 pw).

(* verify_scramble with the stored hash already decoded; None = bytes.fromhex raised *)
Definition verify_decoded (stored : option bytes) (response nonce : bytes) : bool :=
  match stored with
  | None => false
  | Some h2 => Nat.leb 20 (length response) && list_eqb (sha1 (xor_bytes response (sha1 (nonce ++ h2)))) h2   (* a scramble has 20 bytes: a shorter response proves nothing *)
  end.

Definition decode_auth (a : option (list N)) : option bytes :=
  match a with None => Some [] | Some t => fromhex (S (length t)) t end.

Definition verify_scramble (a : option (list N)) (response nonce : bytes) : bool :=
  verify_decoded (decode_auth a) response nonce.

Definition empty_auth (a : option (list N)) : bool := match a with None | Some [] => true | _ => false end.

Definition password_matches (u : user) (response nonce : bytes) : bool :=
  (match response with [] => empty_auth (u_auth u) | _ => false end)
  || verify_scramble (u_auth u) response nonce
  || verify_scramble (u_old u) response nonce.

(* the nonce NativePasswordAuthPlugin.auth verifies against: the handshake's (minus trailing NULs) when the
   handshake was made by this plugin and carried data, else a fresh one sent in an auth switch *)
Fixpoint rstrip0 (b : bytes) : bytes :=
  match b with
  | [] => []
  | x :: r => match rstrip0 r with [] => if x =? 0 then [] else [x] | r' => x :: r' end
  end.

Definition nonce_used (same_plugin : bool) (handshake_data fresh : bytes) : bytes * bool (* switch sent *) :=
  if same_plugin && negb (match handshake_data with [] => true | _ => false end)
  then (rstrip0 handshake_data, false) else (fresh, true).

(* clear password: the transmitted bytes up to the first NUL *)
Definition clear_password (data : bytes) : bytes := fst (rd_str_null data).
End Auth.

(* handshake v10 carries the auth data as 8 bytes + NUL ... max(13, len-8) bytes *)
Definition handshake_auth_parts (auth : bytes) : bytes * bytes :=
  (take 8 auth, let rest := drop 8 auth in
                let n := N.max 13 (len auth - 8) in rest ++ repeat 0 (N.to_nat (n - len rest))).
Definition client_nonce (parts : bytes * bytes) (auth_len : N) : bytes :=
  take auth_len (fst parts ++ snd parts).
