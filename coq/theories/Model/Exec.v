(* Model/Exec.v - COM_STMT_EXECUTE end to end: parse the packet, then bind the positional values. *)
From Coq Require Import List NArith ZArith Bool.
From MM Require Import Lib.Bytes Lib.Decimal Model.Parse Model.Placeholders.
Import ListNotations.
Open Scope N_scope.

(* repr(float) is outside the model: the harness supplies the token for each float bit pattern *)
Fixpoint ftok (tbl : list (bytes * text)) (raw : bytes) : text :=
  match tbl with [] => [] | (k, v) :: r => if list_eqb k raw then v else ftok r raw end.

Definition value_of (tbl : list (bytes * text)) (v : pval) : value :=
  match v with
  | PNull => VNull
  | PInt z => VInt (dec_Z z)
  | PStr s => VStr s
  | PF32 raw => VFloat (ftok tbl raw)
  | PF64 raw => VFloat (ftok tbl raw)
  end.

Definition execute_sql (qa : bool) (lookup : N -> option stmt) (tbl : list (bytes * text)) (d : bytes)
  : result (text * list (bytes * pval) * bool) :=
  do (st, ex) <- parse_com_stmt_execute qa lookup d;
  Ok (interpolate (st_sql st) (map (fun nv => value_of tbl (snd nv)) (ex_params ex)), ex_attrs ex, ex_cursor ex).

Definition one_stmt (id : N) (st : stmt) : N -> option stmt := fun i => if i =? id then Some st else None.

Definition is_float (v : pval) : bool := match v with PF32 _ | PF64 _ => true | _ => false end.
Definition execute_has_float (qa : bool) (lookup : N -> option stmt) (d : bytes) : bool :=
  match parse_com_stmt_execute qa lookup d with
  | Ok (_, ex) => existsb is_float (map snd (ex_params ex))
  | Err _ => false
  end.
