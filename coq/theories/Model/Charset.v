(* Model/Charset.v - which character set decodes / encodes which text, over the history of one connection.
   The connection's two character sets are the variables character_set_client / character_set_results of its
   store (Model/Vars.v); a reference client keeps its own belief and changes it only when the server says OK. *)
From Coq Require Import List NArith ZArith Bool.
From MM Require Import Lib.Decimal Model.Vars.
Import ListNotations.
Open Scope N_scope.

(* Collation(id).charset: the collation with that id, then DEFAULT_CHARACTER_SETS *)
Definition charset_of_collation (colls : list (str * N)) (cc : list (str * str)) (id : N) : option str :=
  match find (fun e => snd e =? id) colls with
  | Some (name, _) => lookup name cc
  | None => None
  end.

Section Charset.
Variable schema : schema_t.
Variable usable_charsets : list str.
Variable default_collation : str -> option str.
Variable tx_table : list (str * value).
Variable cs_of : N -> option str.

Notation vget := (vget schema).
Notation vset := (vset schema usable_charsets).
Notation set_statement := (set_statement schema usable_charsets default_collation tx_table).
Notation step := (step schema usable_charsets default_collation tx_table).

Inductive cmd :=
| KHandshake (coll : N)             (* the handshake response names a collation (one byte) *)
| KSet (items : list item)          (* COM_QUERY carrying one SET statement *)
| KStmt (o : op)                    (* COM_QUERY carrying a statement the library answers itself: reads, hinted statements *)
| KText                             (* a command that only carries text: application queries, COM_INIT_DB, prepare / execute *)
| KChangeUser (coll : option N).    (* COM_CHANGE_USER, with or without a collation (two bytes) *)

(* (reply is OK, store afterwards).  Text carried by the command itself is decoded with the store BEFORE the step. *)
Definition server_step (st : store) (c : cmd) : store * bool :=
  match c with
  | KHandshake id | KChangeUser (Some id) =>
      match cs_of id with
      | None => (st, false)
      | Some cs => match vset st n_cs_client (SVal (VStr cs)) false with Ok st' => (st', true) | Err _ => (st, false) end
      end
  | KSet items => let '(st', e) := set_statement st items in (st', match e with None => true | Some _ => false end)
  | KStmt o => let '(st', r) := step st o in (st', match r with Failed _ => false | _ => true end)
  | KText => (st, true)
  | KChangeUser None => (st, true)
  end.

Definition view := (str * str)%type.     (* (client character set, results character set) *)
Definition view_of (st : store) : option view :=
  match vget st n_cs_client, vget st n_cs_results with
  | Ok (VStr a), Ok (VStr b) => Some (a, b)
  | _, _ => None
  end.

(* ---- the reference client ------------------------------------------------------------------------------------------ *)
Variable dflt : view.      (* the defaults of the two variables *)

Definition spec_item (v : view) (i : item) : view :=
  match i with
  | INames (Some cs) _ | ICharset (Some cs) => (cs, cs)
  | INames None _ | ICharset None => dflt
  | IVar false _ n r =>
      if str_eqb (lower n) n_cs_client then
        match r with RVal (VStr s) => (s, snd v) | RVal VNone | RDefault => (fst dflt, snd v) | _ => v end
      else if str_eqb (lower n) n_cs_results then
        match r with RVal (VStr s) => (fst v, s) | RVal VNone | RDefault => (fst v, snd dflt) | _ => v end
      else v
  | _ => v
  end.

Definition client_step (v : view) (c : cmd) (ok : bool) : view :=
  if negb ok then v else
  match c with
  | KHandshake id | KChangeUser (Some id) => match cs_of id with Some cs => (cs, snd v) | None => v end
  | KSet items => fold_left spec_item items v
  | _ => v
  end.

(* the statements a client uses to switch: an assignment to one of the two variables gives a string, DEFAULT or NULL *)
Definition item_wf (i : item) : bool :=
  match i with
  | IVar _ _ n r =>
      if str_eqb (lower n) n_cs_client || str_eqb (lower n) n_cs_results then
        match r with RVal (VStr _) | RVal VNone | RDefault => true | _ => false end
      else true
  | _ => true
  end.
Definition op_keeps_views (o : op) : bool :=
  match o with OGet _ | OShow | OHinted _ _ => true | OSet _ | OServerSet _ _ _ => false end.
Definition cmd_wf (c : cmd) : bool :=
  match c with KSet items => forallb item_wf items | KStmt o => op_keeps_views o | _ => true end.

(* both sides over a history *)
Fixpoint run_both (st : store) (v : view) (cmds : list cmd) : store * view :=
  match cmds with
  | [] => (st, v)
  | c :: r => let '(st', ok) := server_step st c in run_both st' (client_step v c ok) r
  end.

(* for the correspondence: the server's view after each command *)
Fixpoint server_views (st : store) (cmds : list cmd) : list view :=
  match cmds with
  | [] => []
  | c :: r => let st' := fst (server_step st c) in
              match view_of st' with Some v => v | None => ([], []) end :: server_views st' r
  end.
Definition run_views (cmds : list cmd) : list view := server_views [] cmds.

(* ---- text ----------------------------------------------------------------------------------------------------------------- *)
(* codecs are parameters: enc cs s = Some b when s is representable in cs *)
Variable enc : str -> list N -> option (list N).
Variable dec : str -> list N -> option (list N).

(* client -> server: the client encodes with its belief, the server decodes with its variable *)
Definition to_server (st : store) (v : view) (s : list N) : option (list N) :=
  match enc (fst v) s, view_of st with
  | Some b, Some sv => dec (fst sv) b
  | _, _ => None
  end.
(* server -> client: column names and error messages *)
Definition to_client (st : store) (v : view) (s : list N) : option (list N) :=
  match view_of st with
  | Some sv => match enc (snd sv) s with Some b => dec (snd v) b | None => None end
  | None => None
  end.
End Charset.
