(* Model/Wire.v - packet framing of mysql_mimic/stream.py (MysqlStream.write / MysqlStream.read).
   No proofs here. M is the split size (0xFFFFFF in the source, taken from Gen/Facts.v by Props). *)
From Coq Require Import List NArith Lia Bool.
From MM Require Import Lib.Bytes.
Import ListNotations.
Open Scope N_scope.

(* which StreamReader method fetches the 4 header bytes: readexactly(4) or read(4) *)
Inductive hmode := Exactly | UpTo.

Record rst := mk_rst { buf : bytes; sq : N; acc : bytes; bad : bool }.

Inductive dlv :=
| Payload (d : bytes)   (* read() returned d *)
| BadSeq                (* MysqlError(MALFORMED_PACKET) *)
| BadHeader.            (* struct.error on a short header (only with read(4)) *)

Section Wire.
Variable M : N.

(* ---- write side: the loop of MysqlStream.write ------------------------------------------- *)
Fixpoint chunks (fuel : nat) (d : bytes) : list bytes :=
  match fuel with
  | O => []
  | S f => let c := take M d in
           if len c =? M then c :: chunks f (drop M d) else [c]
  end.

Definition frame (d : bytes) : list bytes := chunks (S (length d)) d.

(* payload_length = uint_3(len(payload)); sequence_id = uint_1(next(self.seq)) *)
Definition hdr (l s : N) : bytes := le_bytes 3 l ++ [s mod 256].

Definition next_seq (s : N) : N := (s + 1) mod 256.

Fixpoint wire (s : N) (cs : list bytes) : bytes :=
  match cs with
  | [] => []
  | c :: r => hdr (len c) s ++ c ++ wire (next_seq s) r
  end.

Fixpoint seq_after (s : N) (cs : list bytes) : N :=
  match cs with [] => s | _ :: r => seq_after (next_seq s) r end.

(* what MysqlStream.write(data) appends to its buffer when the sequence counter is s *)
Definition write_bytes (s : N) (d : bytes) : bytes := wire s (frame d).

(* length-level twin, for payloads of 16 MiB and more *)
Definition frame_lens (n : N) : list N := repeat M (N.to_nat (n / M)) ++ [n mod M].

(* ---- read side: MysqlStream.read over an arrival history ---------------------------------- *)
Variable hm : hmode.

(* consume as many complete packets as the buffered bytes hold *)
Fixpoint pump (fuel : nat) (b : bytes) (s : N) (a : bytes) : list dlv * rst :=
  match fuel with
  | O => ([], mk_rst b s a false)
  | S f =>
    if len b <? 4 then
      match hm with
      | Exactly => ([], mk_rst b s a false)
      | UpTo => if len b =? 0 then ([], mk_rst b s a false) else ([BadHeader], mk_rst [] s a true)
      end
    else
    let h := take 4 b in let r := drop 4 b in
    let l := le_val (take 3 h) in let q := nth 3 h 0 in
    if negb (q =? s) then ([BadSeq], mk_rst [] s a true) else
    if len r <? l then ([], mk_rst b s a false) else
    let body := take l r in let r' := drop l r in
    if l =? M then pump f r' (next_seq s) (a ++ body)
    else let '(ds, st) := pump f r' (next_seq s) [] in (Payload (a ++ body) :: ds, st)
  end.

Definition pumpall (b : bytes) (s : N) (a : bytes) := pump (S (length b)) b s a.

(* one arrival: the bytes of one network read are appended and the reader task runs until it blocks *)
Definition feed (st : rst) (chunk : bytes) : list dlv * rst :=
  if bad st then ([], st) else pumpall (buf st ++ chunk) (sq st) (acc st).

Fixpoint feeds (st : rst) (cs : list bytes) : list dlv * rst :=
  match cs with
  | [] => ([], st)
  | c :: r => let '(d1, st1) := feed st c in let '(d2, st2) := feeds st1 r in (d1 ++ d2, st2)
  end.

Definition rst0 (s : N) : rst := mk_rst [] s [] false.

(* end of input: a clean close only on a packet boundary *)
Inductive eofr := CleanClose | Incomplete | AlreadyFailed.
Definition at_eof (st : rst) : eofr :=
  if bad st then AlreadyFailed else if len (buf st) =? 0 then CleanClose else Incomplete.

End Wire.

