(* Model/Values.v - result values on the wire (results.py encoders, packets.py row builders) and the reference
   decoders of a standard client, written from the protocol documentation. *)
From Coq Require Import List NArith ZArith Lia Bool.
From MM Require Import Lib.Bytes Lib.Bitmap Lib.Decimal.
Import ListNotations.
Open Scope N_scope.

(* Python values an application may return *)
Inductive value :=
| VNull
| VBool (b : bool)
| VInt (z : Z)
| VBytes (b : bytes)
| VStr (b : bytes)                 (* text already in the column's character set *)
| VFloat (text : bytes) (raw : bytes)   (* repr(float) and its IEEE little-endian packing: outside the model *)
| VDate (y m d : N)
| VDateTime (y m d h mi s us : N)
| VDuration (us : Z).              (* timedelta as a signed number of microseconds *)

(* column type codes (types.ColumnType) *)
Definition T_TINY := 1. Definition T_SHORT := 2. Definition T_LONG := 3. Definition T_FLOAT := 4. Definition T_DOUBLE := 5.
Definition T_TIMESTAMP := 7. Definition T_LONGLONG := 8. Definition T_INT24 := 9. Definition T_DATE := 10. Definition T_TIME := 11.
Definition T_DATETIME := 12. Definition T_YEAR := 13. Definition T_VARCHAR := 15. Definition T_BOOL := 244. Definition T_BLOB := 252.
Definition T_VAR_STRING := 253. Definition T_STRING := 254.

Definition int_width (ty : N) : option nat :=
  if (ty =? T_TINY) || (ty =? T_BOOL) then Some 1%nat
  else if (ty =? T_SHORT) || (ty =? T_YEAR) then Some 2%nat
  else if (ty =? T_LONG) || (ty =? T_INT24) then Some 4%nat
  else if ty =? T_LONGLONG then Some 8%nat
  else None.

Definition is_string_type (ty : N) : bool :=
  existsb (N.eqb ty) [0; 15; 16; 245; 246; 247; 248; 249; 250; 251; 252; 253; 254; 255].

(* ---- fixed-width decimal fields ---------------------------------------------------------------------------- *)
Definition digit (n : N) : N := 48 + n mod 10.
Definition pad2 (n : N) : bytes := [digit (n / 10); digit n].
Definition pad4 (n : N) : bytes := [digit (n / 1000); digit (n / 100); digit (n / 10); digit n].
Definition pad6 (n : N) : bytes := [digit (n / 100000); digit (n / 10000); digit (n / 1000); digit (n / 100); digit (n / 10); digit n].

Definition unpad (t : bytes) : option N := undec_N t.

(* ---- durations: sign, total hours, minutes, seconds, microseconds ----------------------------------------- *)
Definition US_S : Z := 1000000.
Definition dur_parts (us : Z) : bool * N * N * N * N :=    (* negative?, hours, minutes, seconds, microseconds *)
  let a := Z.to_N (Z.abs us) in
  let s := a / 1000000 in
  ((us <? 0)%Z, s / 3600, (s / 60) mod 60, s mod 60, a mod 1000000).

Definition dur_of_parts (neg : bool) (h mi s us : N) : Z :=
  let a := Z.of_N (((h * 60 + mi) * 60 + s) * 1000000 + us) in if neg then (- a)%Z else a.

(* text protocol: [-]HH:MM:SS[.ffffff] (hours are not limited to two digits) *)
Definition text_time (us : Z) : bytes :=
  let '(neg, h, mi, s, f) := dur_parts us in
  (if neg then [45] else []) ++ (if h <? 10 then [48] else []) ++ dec_N h ++ [58] ++ pad2 mi ++ [58] ++ pad2 s ++
  (if f =? 0 then [] else 46 :: pad6 f).

(* binary protocol: 0 | 8 | 12 bytes: sign, days (4), hours, minutes, seconds [, microseconds (4)] *)
Definition bin_time (us : Z) : bytes :=
  let '(neg, h, mi, s, f) := dur_parts us in
  if (h =? 0) && (mi =? 0) && (s =? 0) && (f =? 0) then [0]
  else
    let body := [if neg then 1 else 0] ++ le_bytes 4 (h / 24) ++ [h mod 24; mi; s] in
    if f =? 0 then 8 :: body else 12 :: body ++ le_bytes 4 f.

(* ---- dates -------------------------------------------------------------------------------------------------- *)
Definition text_date (y m d : N) : bytes := pad4 y ++ [45] ++ pad2 m ++ [45] ++ pad2 d.
Definition text_datetime (y m d h mi s us : N) : bytes :=
  text_date y m d ++ [32] ++ pad2 h ++ [58] ++ pad2 mi ++ [58] ++ pad2 s ++ (if us =? 0 then [] else 46 :: pad6 us).

Definition bin_datetime (y m d h mi s us : N) : bytes :=
  if us =? 0 then
    if (h =? 0) && (mi =? 0) && (s =? 0) then
      (if (y =? 0) && (m =? 0) && (d =? 0) then [0] else 4 :: le_bytes 2 y ++ [m; d])
    else 7 :: le_bytes 2 y ++ [m; d; h; mi; s]
  else 11 :: le_bytes 2 y ++ [m; d; h; mi; s] ++ le_bytes 4 us.

(* ---- per-cell encoders (None = the library raises for that combination) -------------------------------------- *)
Definition text_cell (ty : N) (v : value) : option bytes :=
  match v with
  | VNull => None     (* NULL is a row-level marker, not a cell encoding *)
  | VBool b => if (ty =? T_TINY) || (ty =? T_BOOL) then Some [if b then 49 else 48]
               else Some (if b then [84; 114; 117; 101] else [70; 97; 108; 115; 101])   (* str(True) / str(False) *)
  | VInt z => Some (dec_Z z)
  | VStr b | VBytes b => Some b
  | VFloat t _ => Some t
  | VDate y m d => Some (text_date y m d)
  | VDateTime y m d h mi s us => Some (text_datetime y m d h mi s us)
  | VDuration us => if ty =? T_TIME then Some (text_time us) else None
  end.

Definition bin_cell (ty : N) (v : value) : option bytes :=
  match v with
  | VNull => None
  | VInt z =>
      match int_width ty with
      | Some k => Some (le_bytes k (of_signed k z))
      | None => if is_string_type ty then Some (str_len (dec_Z z)) else None
      end
  | VBool b =>
      match int_width ty with
      | Some k => Some (le_bytes k (if b then 1 else 0))
      | None => if is_string_type ty then Some (str_len (if b then [84; 114; 117; 101] else [70; 97; 108; 115; 101])) else None
      end
  | VStr b | VBytes b => if is_string_type ty then Some (str_len b) else None
  | VFloat t raw => if (ty =? T_FLOAT) || (ty =? T_DOUBLE) then Some raw else if is_string_type ty then Some (str_len t) else None
  | VDate y m d => if (ty =? T_DATE) || (ty =? T_DATETIME) || (ty =? T_TIMESTAMP) then Some (bin_datetime y m d 0 0 0 0) else None
  | VDateTime y m d h mi s us =>
      if (ty =? T_DATE) || (ty =? T_DATETIME) || (ty =? T_TIMESTAMP) then Some (bin_datetime y m d h mi s us) else None
  | VDuration us => if ty =? T_TIME then Some (bin_time us) else None
  end.

(* ---- rows ------------------------------------------------------------------------------------------------------ *)
Definition is_null (v : value) : bool := match v with VNull => true | _ => false end.

Fixpoint text_row (tys : list N) (vs : list value) : option bytes :=
  match tys, vs with
  | ty :: tr, v :: vr =>
      match (if is_null v then Some [251] else option_map str_len (text_cell ty v)), text_row tr vr with
      | Some c, Some r => Some (c ++ r)
      | _, _ => None
      end
  | _, _ => Some []      (* zip: stops at the shorter *)
  end.

Fixpoint bin_cells (tys : list N) (vs : list value) : option bytes :=
  match tys, vs with
  | ty :: tr, v :: vr =>
      match (if is_null v then Some [] else bin_cell ty v), bin_cells tr vr with
      | Some c, Some r => Some (c ++ r)
      | _, _ => None
      end
  | _, _ => Some []
  end.

Definition bin_row (tys : list N) (vs : list value) : option bytes :=
  match bin_cells tys vs with
  | Some cells => Some (0 :: bitmap 2 (map is_null vs) ++ cells)
  | None => None
  end.

(* ---- reference decoders (client side) ---------------------------------------------------------------------------- *)
Definition split_on (c : N) (t : bytes) : list bytes :=
  fold_right (fun x acc => if x =? c then [] :: acc else match acc with [] => [[x]] | h :: r => (x :: h) :: r end) [[]] t.

Definition dec_text_time (t : bytes) : option Z :=
  let '(neg, body) := match t with 45 :: r => (true, r) | _ => (false, t) end in
  match split_on 58 body with
  | [hh; mm; rest] =>
      let '(ss, ff) := match split_on 46 rest with [s1] => (s1, []) | [s1; f1] => (s1, f1) | _ => ([], [1]) end in
      match undec_N hh, undec_N mm, undec_N ss, (match ff with [] => Some 0 | _ => if (length ff =? 6)%nat then undec_N ff else None end) with
      | Some h, Some mi, Some s, Some f => Some (dur_of_parts neg h mi s f)
      | _, _, _, _ => None
      end
  | _ => None
  end.

Definition dec_bin_time (d : bytes) : option (Z * bytes) :=
  match d with
  | 0 :: r => Some (0%Z, r)
  | 8 :: sg :: r => if len r <? 7 then None else
      let days := le_val (take 4 r) in let r2 := drop 4 r in
      match r2 with h :: mi :: s :: r3 => Some (dur_of_parts (negb (sg =? 0)) (days * 24 + h) mi s 0, r3) | _ => None end
  | 12 :: sg :: r => if len r <? 11 then None else
      let days := le_val (take 4 r) in let r2 := drop 4 r in
      match r2 with h :: mi :: s :: r3 => Some (dur_of_parts (negb (sg =? 0)) (days * 24 + h) mi s (le_val (take 4 r3)), drop 4 r3) | _ => None end
  | _ => None
  end.

Definition dec_bin_datetime (d : bytes) : option ((N * N * N * N * N * N * N) * bytes) :=
  match d with
  | 0 :: r => Some ((0, 0, 0, 0, 0, 0, 0), r)
  | 4 :: y0 :: y1 :: m :: dd :: r => Some ((le_val [y0; y1], m, dd, 0, 0, 0, 0), r)
  | 7 :: y0 :: y1 :: m :: dd :: h :: mi :: s :: r => Some ((le_val [y0; y1], m, dd, h, mi, s, 0), r)
  | 11 :: y0 :: y1 :: m :: dd :: h :: mi :: s :: r => if len r <? 4 then None else Some ((le_val [y0; y1], m, dd, h, mi, s, le_val (take 4 r)), drop 4 r)
  | _ => None
  end.

(* text DATE / DATETIME: YYYY-MM-DD[ HH:MM:SS[.ffffff]] at fixed positions *)
Definition dec_text_date (t : bytes) : option (N * N * N) :=
  match t with
  | [a; b; c; d; 45; e; f; 45; g; h] =>
      match undec_N [a; b; c; d], undec_N [e; f], undec_N [g; h] with
      | Some y, Some m, Some dd => Some (y, m, dd)
      | _, _, _ => None
      end
  | _ => None
  end.
Definition dec_text_datetime (t : bytes) : option (N * N * N * N * N * N * N) :=
  match dec_text_date (take 10 t), drop 10 t with
  | Some (y, m, dd), [] => Some (y, m, dd, 0, 0, 0, 0)
  | Some (y, m, dd), 32 :: a :: b :: 58 :: c :: d :: 58 :: e :: f :: r =>
      match undec_N [a; b], undec_N [c; d], undec_N [e; f],
            (match r with [] => Some 0 | 46 :: fr => if (length fr =? 6)%nat then undec_N fr else None | _ => None end) with
      | Some h, Some mi, Some s, Some us => Some (y, m, dd, h, mi, s, us)
      | _, _, _, _ => None
      end
  | _, _ => None
  end.

(* a text row: per column 0xFB (NULL) or a length-encoded string *)
Fixpoint dec_text_row (n : nat) (d : bytes) : option (list (option bytes) * bytes) :=
  match n with
  | O => Some ([], d)
  | S k =>
      match d with
      | [] => None
      | b :: r =>
          if b =? 251 then match dec_text_row k r with Some (cs, t) => Some (None :: cs, t) | None => None end
          else match read_str_len d with
               | Some (s, r2) => match dec_text_row k r2 with Some (cs, t) => Some (Some s :: cs, t) | None => None end
               | None => None
               end
      end
  end.

(* ---- type inference for bare column names (results.py: infer_type, _ensure_result_cols) ------------------------- *)
Definition T_NULL := 6.
Definition infer_type (v : value) : N :=
  match v with
  | VBool _ => T_TINY
  | VDateTime _ _ _ _ _ _ _ => T_DATETIME
  | VStr _ => T_STRING
  | VBytes _ => T_BLOB
  | VInt _ => T_LONGLONG
  | VFloat _ _ => T_DOUBLE
  | VDate _ _ _ => T_DATE
  | VDuration _ => T_TIME
  | VNull => T_NULL
  end.

(* the peek loop: rows are taken from the source until every bare column has shown a non-NULL value *)
Definition seen (row : list value) (i : nat) : bool := negb (is_null (nth i row VNull)).

Fixpoint peek (remaining : list nat) (rows : list (list value)) : nat :=
  match remaining with
  | [] => O
  | _ => match rows with
         | [] => O
         | r :: rest => S (peek (filter (fun i => negb (seen r i)) remaining) rest)
         end
  end.

Fixpoint first_seen (i : nat) (rows : list (list value)) : option value :=
  match rows with
  | [] => None
  | r :: rest => if seen r i then Some (nth i r VNull) else first_seen i rest
  end.

(* columns: Some ty = an explicit ResultColumn, None = a bare name *)
Definition ensure_cols (cols : list (option N)) (rows : list (list value)) : list N * list (list value) :=
  let bare := filter (fun i => match nth i cols (Some 0) with None => true | Some _ => false end) (seq 0 (length cols)) in
  let k := peek bare rows in
  (map (fun i => match nth i cols (Some 0) with
                 | Some ty => ty
                 | None => match first_seen i (firstn k rows) with Some v => infer_type v | None => T_NULL end
                 end) (seq 0 (length cols)),
   firstn k rows ++ skipn k rows).
