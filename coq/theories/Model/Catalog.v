(* Model/Catalog.v - the catalog derived from the application's schema mapping (schema.py: mapping_to_columns,
   info_schema_tables) and the answers to SHOW / INFORMATION_SCHEMA queries as an ideal relational evaluation. *)
From Coq Require Import List NArith Bool.
From MM Require Import Lib.Bytes Model.Like.
Import ListNotations.
Open Scope N_scope.

Record column := mk_col { c_cat : text; c_db : text; c_tab : text; c_name : text; c_type : text }.

(* schema mappings of depth 4 as association lists in declaration order; depth 2 and 3 are embedded with the
   database "" and the catalog "def" *)
Definition tables_t := list (text * list (text * text)).
Definition dbs_t := list (text * tables_t).
Definition cats_t := list (text * dbs_t).

Definition DEF : text := [100; 101; 102].
Definition of_depth2 (m : tables_t) : cats_t := [(DEF, [([], m)])].
Definition of_depth3 (m : dbs_t) : cats_t := [(DEF, m)].

Definition columns_of (m : cats_t) : list column :=
  flat_map (fun cd => flat_map (fun dt => flat_map (fun tc => map (fun ct => mk_col (fst cd) (fst dt) (fst tc) (fst ct) (snd ct)) (snd tc)) (snd dt)) (snd cd)) m.

Fixpoint text_eqb (a b : text) : bool :=
  match a, b with [], [] => true | x :: a', y :: b' => (x =? y) && text_eqb a' b' | _, _ => false end.
Fixpoint text_ltb (a b : text) : bool :=
  match a, b with
  | [], [] => false | [], _ => true | _, [] => false
  | x :: a', y :: b' => if x <? y then true else if y <? x then false else text_ltb a' b'
  end.

Definition key3 := (text * text * text)%type.
Definition key3_eqb (a b : key3) : bool :=
  let '(a1, a2, a3) := a in let '(b1, b2, b3) := b in text_eqb a1 b1 && text_eqb a2 b2 && text_eqb a3 b3.
Definition key3_ltb (a b : key3) : bool :=
  let '(a1, a2, a3) := a in let '(b1, b2, b3) := b in
  if text_ltb a1 b1 then true else if text_ltb b1 a1 then false else
  if text_ltb a2 b2 then true else if text_ltb b2 a2 then false else text_ltb a3 b3.

Definition key3_dec (a b : key3) : {a = b} + {a <> b}.
Proof. repeat decide equality. Defined.

Fixpoint insert3 (x : key3) (l : list key3) : list key3 :=
  match l with
  | [] => [x]
  | y :: r => if key3_ltb x y then x :: l else y :: insert3 x r
  end.
(* sorted(set(...)) *)
Definition sorted_set3 (l : list key3) : list key3 := fold_right insert3 [] (nodup key3_dec l).

(* rows of INFORMATION_SCHEMA.TABLES / SCHEMATA: sorted(set(...)) *)
Definition tables_of (cols : list column) : list key3 := sorted_set3 (map (fun c => (c_cat c, c_db c, c_tab c)) cols).
Definition schemata_of (cols : list column) : list key3 := sorted_set3 (map (fun c => (c_cat c, c_db c, [])) cols).

Definition like_opt (p : option text) (s : text) : bool := match p with None => true | Some pat => like pat s end.
Definition eq_opt (d : option text) (s : text) : bool := match d with None => true | Some x => text_eqb x s end.

(* SHOW COLUMNS FROM tab [FROM db] [LIKE p]  (db = explicit or current database; None = no restriction) *)
Definition show_columns (all : list column) (tab : text) (db : option text) (pat : option text) : list (text * text) :=
  map (fun c => (c_name c, c_type c))
      (filter (fun c => text_eqb (c_tab c) tab && eq_opt db (c_db c) && like_opt pat (c_name c)) all).

Definition show_tables (all : list column) (db : text) (pat : option text) : list text :=
  map (fun k => snd k) (filter (fun k => text_eqb (snd (fst k)) db && like_opt pat (snd k)) (tables_of all)).

Definition show_databases (all : list column) (pat : option text) : list text :=
  map (fun k => snd (fst k)) (filter (fun k => like_opt pat (snd (fst k))) (schemata_of all)).

(* ordinal positions: index of the column within its table, in declaration order *)
Fixpoint ordinals (seen : list key3) (cols : list column) : list N :=
  match cols with
  | [] => []
  | c :: r => let k := (c_cat c, c_db c, c_tab c) in
              len (filter (key3_eqb k) seen) :: ordinals (k :: seen) r
  end.
