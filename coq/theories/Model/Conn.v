(* Model/Conn.v - one server-side connection (server.py: _client_connected_cb; connection.py: start,
   _start, kill, connection_phase, authenticate, command_phase and the handlers; stream.py: write
   buffering; utils.py: cooperative_iterate) as a deterministic small-step machine at the granularity of
   asyncio suspension points.  An event is processed up to the next real suspension.  No proofs here. *)
From Coq Require Import List NArith Lia Bool.
From MM Require Import Lib.Bytes.
Import ListNotations.
Open Scope N_scope.

(* ---- alphabet ----------------------------------------------------------------------------------- *)
Inductive kk := KQ | KC.                               (* KillKind.QUERY / CONNECTION *)

Inductive pkt :=
| PHandshake | PAuthSwitch | PAuthMore
| POk (eof_header : bool) (flags : N)                 (* flags: status bits beyond the session's own *)
| PEof (flags : N)
| PErr (code : N)
| PColCount (n : N) | PColDef | PRow (i : N)
| PPrepOk (id nparams : N)
| PFieldList (n : N).                                 (* COM_FIELD_LIST: n column definitions in ONE payload *)

Inductive call := SGetUser | SInit | SClose | SQuery | SReset | SUse | SPlugin.

Inductive exn :=
| XCancel | XMysql (code : N) | XOther | XClosed | XAuthFailed.

(* a row source as the sequence of things that happen when it is iterated *)
Inductive item :=
| IRow (size : N)        (* next row; size = payload length of its packet *)
| ISuspend               (* __anext__ of an async source really suspends *)
| IRaise (mysql : option N).  (* the source raises: Some code = MysqlError(code) *)

Definition FL_CURSOR_EXISTS : N := 64.
Definition FL_LAST_ROW_SENT : N := 128.
Definition E_HANDSHAKE : N := 1043.
Definition E_UNKNOWN_COM : N := 1047.
Definition E_UNKNOWN_ERROR : N := 1105.
Definition E_UNKNOWN_PROCEDURE : N := 1106.
Definition E_ACCESS_DENIED : N := 1045.
Definition E_USER_DOES_NOT_EXIST : N := 3162.
Definition E_SESSION_WAS_KILLED : N := 3169.

(* sizes (payload lengths) of the packets of one response that are written with drain=False *)
Record sizes := mk_sizes { sz_head : N; sz_coldef : list N; sz_eof : N; sz_final : N }.

(* what the application returned from handle_query (after ensure_result_set) *)
Inductive outcome :=
| ONone                                   (* None / no columns *)
| OSet (sz : sizes) (items : list item)   (* columns = length (sz_coldef sz) >= 1 *)
| ORaise (mysql : option N)
| OVoid.                                  (* plain return of init / close / reset / use / get_user *)

(* decisions of the authentication exchange (identity provider + plugin), universally quantified *)
Inductive adecision :=
| ANoUser | AForbidden | ASuccess | ASwitch | AMore | ARaise.

(* a parsed client payload *)
Inductive cmd :=
| CQuery | CPing | CResetConn | CDebug | CQuit | CInitDb | CFieldList
| CPrepare (nparams : N) (sz : sizes)
| CLongData (id : N) | CExecute (id : N) (cursor : bool) | CFetch (id n : N) (sz_final : N)
| CReset (id : N) | CClose (id : N)
| CChangeUser
| CUnknown
| CBad (mysql : option N).     (* payload whose parser raises before anything else happens *)

Inductive frame :=
| FConn            (* connection_phase + session.init, inside _start's first try *)
| FConnErr         (* the ERR write of `except Exception` there *)
| FRead            (* stream.read() of command_phase *)
| FHandler         (* the dispatched handler *)
| FChangeUser      (* inside the try around authenticate() in handle_change_user *)
| FChangeUserReset (* inside the try around session.reset() there: the OK of the exchange is already written *)
| FHandlerErr (waskill : bool)   (* an ERR write inside one of the except clauses *)
| FKillErr         (* the ERR write of _start's `except CancelledError` *)
| FClose (reraise : bool).       (* finally: await session.close() *)

(* which handler awaits self.query() *)
Inductive qctx := QText | QExec (id : N) (cursor : bool) | QFieldList.

(* micro-operations of a handler *)
Inductive mop :=
| MWrite (p : pkt) (size : N) (drain : bool)
| MDrain
| MApp (c : call)
| MPull                        (* one row taken from the source of a streamed result *)
| MCurPull (id : N)            (* one row taken from the cursor of statement id *)
| MSleep (incur : option N)    (* cooperative yield; Some id: inside the cursor generator of id *)
| MRowWait (incur : option N)  (* the async source is waited for *)
| MRaise (x : exn) (incur : option N)
| MSetCursor (id : N) (items : list item)
| MClearStmt (id : N) (cursor_too : bool)
| MDropStmt (id : N)
| MAuthed | MResetSeq | MQuit
| MEnter (f : frame)           (* the rest of the plan runs inside another try block of the same handler *)
| MRead                        (* await self.stream.read() inside authenticate / connection_phase *)
| MCont (c : qctx).            (* what follows self.query(): decided by the application's outcome *)
Definition plan := list mop.

Inductive why := WRead | WApp (c : call) | WDrain | WSleep | WRow.
(* where the task is suspended; `incur`: the await sits inside the cursor generator of that statement *)
Inductive ctl := Susp (w : why) (k : plan) (f : frame) (incur : option N) | Done | Stuck.

Inductive out :=
| OWrite (ps : list (N * pkt))   (* one writer.write call: (sequence id, packet) in order *)
| OSess (c : call)
| OWriterClose | OCtlRemove
| OEnd (exc : bool).             (* the connection task ended (with / without exception) *)

Record stmt := mk_stmt { st_cursor : option (list item); st_inner : N }.
(* st_inner: rows already pulled through the statement's own cooperative_iterate *)

Inductive aphase :=
| PreHandshake     (* handshake written, waiting for the response *)
| InExchange (after_change_user : bool)   (* auth switch / more data written, waiting for the reply *)
| Command.

Record st := mk_st {
  ctl_ : ctl;
  phase : aphase;
  authed : bool;             (* the last completed exchange ended in Success *)
  inited : bool;             (* session.init returned *)
  closes : nat;              (* calls of session.close *)
  kill : option kk;          (* Connection._kill *)
  executing : bool;          (* Connection._executing *)
  must_cancel : bool;        (* Task._must_cancel *)
  paused : bool; dead : bool;
  eof : bool;                (* feed_eof happened *)
  inq : list cmd;            (* complete client payloads not yet read *)
  seq : N;
  buf : list (N * pkt * N);  (* MysqlStream._buffer: (seq, packet, size) not yet passed to writer.write *)
  stmts : list (N * stmt);
  next_stmt : N;
  pulled : N; handed : N;    (* rows pulled from sources / rows in packets passed to writer.write *)
  deprecate_eof : bool
}.

Section Machine.
Variable B : N.        (* MysqlStream._buffer_size *)
Variable BATCH : N.    (* cooperative_iterate batch_size *)

(* ---- record updates ------------------------------------------------------------------------------ *)
Definition upd_ctl s c := mk_st c (phase s) (authed s) (inited s) (closes s) (kill s) (executing s) (must_cancel s)
  (paused s) (dead s) (eof s) (inq s) (seq s) (buf s) (stmts s) (next_stmt s) (pulled s) (handed s) (deprecate_eof s).
Definition set_phase s p := mk_st (ctl_ s) p (authed s) (inited s) (closes s) (kill s) (executing s) (must_cancel s)
  (paused s) (dead s) (eof s) (inq s) (seq s) (buf s) (stmts s) (next_stmt s) (pulled s) (handed s) (deprecate_eof s).
Definition set_authed s b := mk_st (ctl_ s) (phase s) b (inited s) (closes s) (kill s) (executing s) (must_cancel s)
  (paused s) (dead s) (eof s) (inq s) (seq s) (buf s) (stmts s) (next_stmt s) (pulled s) (handed s) (deprecate_eof s).
Definition set_inited s := mk_st (ctl_ s) (phase s) (authed s) true (closes s) (kill s) (executing s) (must_cancel s)
  (paused s) (dead s) (eof s) (inq s) (seq s) (buf s) (stmts s) (next_stmt s) (pulled s) (handed s) (deprecate_eof s).
Definition inc_closes s := mk_st (ctl_ s) (phase s) (authed s) (inited s) (S (closes s)) (kill s) (executing s) (must_cancel s)
  (paused s) (dead s) (eof s) (inq s) (seq s) (buf s) (stmts s) (next_stmt s) (pulled s) (handed s) (deprecate_eof s).
Definition set_kill s k := mk_st (ctl_ s) (phase s) (authed s) (inited s) (closes s) k (executing s) (must_cancel s)
  (paused s) (dead s) (eof s) (inq s) (seq s) (buf s) (stmts s) (next_stmt s) (pulled s) (handed s) (deprecate_eof s).
Definition set_exec s b := mk_st (ctl_ s) (phase s) (authed s) (inited s) (closes s) (kill s) b (must_cancel s)
  (paused s) (dead s) (eof s) (inq s) (seq s) (buf s) (stmts s) (next_stmt s) (pulled s) (handed s) (deprecate_eof s).
Definition set_must s b := mk_st (ctl_ s) (phase s) (authed s) (inited s) (closes s) (kill s) (executing s) b
  (paused s) (dead s) (eof s) (inq s) (seq s) (buf s) (stmts s) (next_stmt s) (pulled s) (handed s) (deprecate_eof s).
Definition set_paused s b := mk_st (ctl_ s) (phase s) (authed s) (inited s) (closes s) (kill s) (executing s) (must_cancel s)
  b (dead s) (eof s) (inq s) (seq s) (buf s) (stmts s) (next_stmt s) (pulled s) (handed s) (deprecate_eof s).
Definition set_dead s := mk_st (ctl_ s) (phase s) (authed s) (inited s) (closes s) (kill s) (executing s) (must_cancel s)
  (paused s) true (eof s) (inq s) (seq s) (buf s) (stmts s) (next_stmt s) (pulled s) (handed s) (deprecate_eof s).
Definition set_eof s := mk_st (ctl_ s) (phase s) (authed s) (inited s) (closes s) (kill s) (executing s) (must_cancel s)
  (paused s) (dead s) true (inq s) (seq s) (buf s) (stmts s) (next_stmt s) (pulled s) (handed s) (deprecate_eof s).
Definition set_inq s q := mk_st (ctl_ s) (phase s) (authed s) (inited s) (closes s) (kill s) (executing s) (must_cancel s)
  (paused s) (dead s) (eof s) q (seq s) (buf s) (stmts s) (next_stmt s) (pulled s) (handed s) (deprecate_eof s).
Definition set_seq s q := mk_st (ctl_ s) (phase s) (authed s) (inited s) (closes s) (kill s) (executing s) (must_cancel s)
  (paused s) (dead s) (eof s) (inq s) q (buf s) (stmts s) (next_stmt s) (pulled s) (handed s) (deprecate_eof s).
Definition set_buf s b h := mk_st (ctl_ s) (phase s) (authed s) (inited s) (closes s) (kill s) (executing s) (must_cancel s)
  (paused s) (dead s) (eof s) (inq s) (seq s) b (stmts s) (next_stmt s) (pulled s) h (deprecate_eof s).
Definition set_stmts s t n := mk_st (ctl_ s) (phase s) (authed s) (inited s) (closes s) (kill s) (executing s) (must_cancel s)
  (paused s) (dead s) (eof s) (inq s) (seq s) (buf s) t n (pulled s) (handed s) (deprecate_eof s).
Definition inc_pulled s := mk_st (ctl_ s) (phase s) (authed s) (inited s) (closes s) (kill s) (executing s) (must_cancel s)
  (paused s) (dead s) (eof s) (inq s) (seq s) (buf s) (stmts s) (next_stmt s) (pulled s + 1) (handed s) (deprecate_eof s).
Definition set_depeof s b := mk_st (ctl_ s) (phase s) (authed s) (inited s) (closes s) (kill s) (executing s) (must_cancel s)
  (paused s) (dead s) (eof s) (inq s) (seq s) (buf s) (stmts s) (next_stmt s) (pulled s) (handed s) b.

(* ---- statement table ---------------------------------------------------------------------------------- *)
Fixpoint find_stmt (id : N) (t : list (N * stmt)) : option stmt :=
  match t with [] => None | (k, v) :: r => if k =? id then Some v else find_stmt id r end.
Fixpoint put_stmt (id : N) (v : stmt) (t : list (N * stmt)) : list (N * stmt) :=
  match t with
  | [] => [(id, v)]
  | (k, w) :: r => if k =? id then (k, v) :: r else (k, w) :: put_stmt id v r
  end.
Definition del_stmt (id : N) (t : list (N * stmt)) : list (N * stmt) :=
  filter (fun kv => negb (fst kv =? id)) t.

(* an exception thrown inside the cursor generator of a statement finishes that generator *)
Definition kill_cursor (s : st) (incur : option N) : st :=
  match incur with
  | None => s
  | Some id => match find_stmt id (stmts s) with
               | Some v => set_stmts s (put_stmt id (mk_stmt (Some []) (st_inner v)) (stmts s)) (next_stmt s)
               | None => s
               end
  end.

(* ---- packets of the standard responses ----------------------------------------------------------------- *)
Definition ok_or_eof (s : st) (flags : N) : pkt := if deprecate_eof s then POk true flags else PEof flags.

Definition SZ_OK : N := 7.   Definition SZ_EOF : N := 5.   Definition SZ_ERR : N := 9.

Definition errplan (code : N) : plan := [MWrite (PErr code) SZ_ERR true].

Fixpoint is_rowpkt (p : pkt) : bool := match p with PRow _ => true | _ => false end.
Definition count_rows (b : list (N * pkt * N)) : N := len (filter (fun e => is_rowpkt (snd (fst e))) b).
Definition buf_bytes (b : list (N * pkt * N)) : N := fold_left (fun a e => a + 4 + snd e) b 0.

(* rows of a streamed result: pull, cooperative yield before yielding row i when i > 0 and i mod BATCH = 0 *)
Fixpoint rows_plan (items : list item) (i : N) : plan :=
  match items with
  | [] => []
  | IRow sz :: r => MPull :: (if (negb (i =? 0)) && (i mod BATCH =? 0) then [MSleep None] else []) ++
                    MWrite (PRow i) sz false :: rows_plan r (i + 1)
  | ISuspend :: r => MRowWait None :: rows_plan r i
  | IRaise m :: _ => [MRaise (match m with Some c => XMysql c | None => XOther end) None]
  end.

Fixpoint count_irows (items : list item) : N :=
  match items with
  | [] => 0
  | IRow _ :: r => 1 + count_irows r
  | ISuspend :: r => count_irows r
  | IRaise _ :: _ => 0
  end.

(* text_resultset driven by handle_query *)
Definition text_plan (s : st) (sz : sizes) (items : list item) : plan :=
  MWrite (PColCount (len (sz_coldef sz))) (sz_head sz) false ::
  map (fun z => MWrite PColDef z false) (sz_coldef sz) ++
  (if deprecate_eof s then [] else [MWrite (PEof 0) (sz_eof sz) false]) ++
  rows_plan items 0 ++
  [MWrite (ok_or_eof s 0) (sz_final sz) false; MDrain].

(* binary rows of handle_stmt_execute: every write drains; gen_rows wraps cooperative_iterate *)
Fixpoint bin_rows_plan (items : list item) (i : N) : plan :=
  match items with
  | [] => []
  | IRow sz :: r => MPull :: (if (negb (i =? 0)) && (i mod BATCH =? 0) then [MSleep None] else []) ++
                    MWrite (PRow i) sz true :: bin_rows_plan r (i + 1)
  | ISuspend :: r => MRowWait None :: bin_rows_plan r i
  | IRaise m :: _ => [MRaise (match m with Some c => XMysql c | None => XOther end) None]
  end.

Definition exec_plan (s : st) (id : N) (cursor : bool) (sz : sizes) (items : list item) : plan :=
  MWrite (PColCount (len (sz_coldef sz))) (sz_head sz) true ::
  map (fun z => MWrite PColDef z true) (sz_coldef sz) ++
  (if cursor then [MSetCursor id items; MWrite (ok_or_eof s FL_CURSOR_EXISTS) (sz_final sz) true]
   else (if deprecate_eof s then [] else [MWrite (PEof 0) (sz_eof sz) true]) ++
        bin_rows_plan items 0 ++ [MWrite (ok_or_eof s 0) (sz_final sz) true]).

(* handle_field_list: the rows of the SHOW COLUMNS result are consumed completely (no cooperative yield),
   then one packet per column definition (sizes in sz_coldef) is written, then the terminator *)
Fixpoint consume_plan (items : list item) : plan :=
  match items with
  | [] => []
  | IRow _ :: r => MPull :: consume_plan r
  | ISuspend :: r => MRowWait None :: consume_plan r
  | IRaise m :: _ => [MRaise (match m with Some c => XMysql c | None => XOther end) None]
  end.

Definition fieldlist_plan (s : st) (sz : sizes) (items : list item) : plan :=
  consume_plan items ++
  map (fun z => MWrite (PFieldList 1) z false) (sz_coldef sz) ++
  [MWrite (ok_or_eof s 0) (sz_final sz) true].

Definition continuation (s : st) (c : qctx) (o : outcome) : plan :=
  match c, o with
  | QText, OSet sz items => text_plan s sz items
  | QExec id cursor, OSet sz items => exec_plan s id cursor sz items
  | QFieldList, OSet sz items => fieldlist_plan s sz items
  | QFieldList, _ => [MWrite (ok_or_eof s 0) (if deprecate_eof s then SZ_OK else SZ_EOF) true]
  | _, _ => [MWrite (POk false 0) SZ_OK true]
  end.

(* handle_stmt_fetch: rows of the cursor through a second cooperative_iterate; `count` rows at most.
   j: rows already pulled through the statement's own generator (st_inner); c: rows written by this fetch.
   Returns the plan and whether the fetch was filled. *)
Fixpoint fetch_plan (fuel : nat) (id : N) (items : list item) (j c want : N) (i0 : N) : plan * N :=
  if want <=? c then ([], c) else
  match fuel with
  | O => ([], c)
  | S f =>
    match items with
    | [] => ([], c)
    | IRow sz :: r =>
        let inner := if (negb (j =? 0)) && (j mod BATCH =? 0) then [MSleep (Some id)] else [] in
        let outer := if (negb (c =? 0)) && (c mod BATCH =? 0) then [MSleep None] else [] in
        let '(k, c') := fetch_plan f id r (j + 1) (c + 1) want i0 in
        (MCurPull id :: inner ++ outer ++ MWrite (PRow (i0 + c)) sz false :: k, c')
    | ISuspend :: r =>
        let '(k, c') := fetch_plan f id r j c want i0 in (MRowWait (Some id) :: k, c')
    | IRaise m :: _ => ([MRaise (match m with Some cd => XMysql cd | None => XOther end) (Some id)], c)
    end
  end.

(* ---- exceptions: the try/except/finally skeleton of _start and command_phase ------------------------------ *)
Inductive thrown :=
| Continue (s : st) (k : plan) (f : frame)
| ToClose (s : st) (reraise : bool)
| Finished (s : st) (exc : bool).

Definition throw (s : st) (x : exn) (f : frame) : thrown :=
  match f with
  | FConn =>
      match x with
      | XCancel => Finished s true                 (* BaseException: not caught by `except Exception` *)
      | XAuthFailed => Finished s false            (* except AuthenticationFailed: return *)
      | _ => Continue s (errplan E_HANDSHAKE) FConnErr
      end
  | FConnErr => Finished s true
  | FRead =>
      match x, kill s with
      | XClosed, _ => ToClose s false
      | XCancel, Some KC => Continue s (errplan E_SESSION_WAS_KILLED) FKillErr
      | _, _ => ToClose s true
      end
  | FHandler =>
      let s := set_exec s false in
      match x, kill s with
      | XAuthFailed, _ => ToClose s false                       (* refused COM_CHANGE_USER: return *)
      | XMysql c, _ => Continue s (errplan c) (FHandlerErr false)
      | XCancel, Some KQ => Continue s (errplan E_SESSION_WAS_KILLED) (FHandlerErr true)
      | XCancel, Some KC => Continue (set_seq s 0) (errplan E_SESSION_WAS_KILLED) FKillErr
      | XCancel, None => ToClose (set_seq s 0) true
      | _, _ => Continue s (errplan E_UNKNOWN_ERROR) (FHandlerErr false)
      end
  | FChangeUser =>
      (* except AuthenticationFailed: raise / except Exception: ERR, raise AuthenticationFailed;
         a CancelledError is a BaseException and reaches command_phase's handlers *)
      match x, kill s with
      | XAuthFailed, _ => ToClose (set_exec s false) false
      | XCancel, Some KQ => Continue (set_exec s false) (errplan E_SESSION_WAS_KILLED) (FHandlerErr true)
      | XCancel, Some KC => Continue (set_seq (set_exec s false) 0) (errplan E_SESSION_WAS_KILLED) FKillErr
      | XCancel, None => ToClose (set_seq (set_exec s false) 0) true
      | _, _ => Continue s [MWrite (PErr E_UNKNOWN_ERROR) SZ_ERR true; MRaise XAuthFailed None] FHandler
      end
  | FChangeUserReset =>
      (* except Exception: raise AuthenticationFailed (no second packet); a CancelledError reaches command_phase *)
      match x, kill s with
      | XCancel, Some KQ => Continue (set_exec s false) (errplan E_SESSION_WAS_KILLED) (FHandlerErr true)
      | XCancel, Some KC => Continue (set_seq (set_exec s false) 0) (errplan E_SESSION_WAS_KILLED) FKillErr
      | XCancel, None => ToClose (set_seq (set_exec s false) 0) true
      | _, _ => ToClose (set_exec s false) false
      end
  | FHandlerErr _ =>
      (* an exception while the ERR is written leaves command_phase (finally: reset_seq) *)
      let s := set_seq s 0 in
      match x, kill s with
      | XCancel, Some KC => Continue s (errplan E_SESSION_WAS_KILLED) FKillErr
      | _, _ => ToClose s true
      end
  | FKillErr => ToClose s true
  | FClose _ => Finished s true
  end.

Definition finish (s : st) (exc : bool) : st * list out :=
  (upd_ctl s Done, [OEnd exc; OWriterClose; OCtlRemove]).

(* writer.write(buffer): everything buffered is handed to the transport *)
Definition flush (s : st) : st * list out :=
  match buf s with
  | [] => (s, [])
  | b => (set_buf s [] (handed s + count_rows b), [OWrite (map fst b)])
  end.

(* the dispatch of one client payload in command_phase (after `self._executing = True`) *)
Definition handler (s : st) (c : cmd) : st * plan :=
  match c with
  | CQuery => (s, [MApp SQuery; MCont QText])
  | CPing | CResetConn | CDebug => (s, [MWrite (POk false 0) SZ_OK true])
  | CQuit => (s, [MQuit])
  | CInitDb => (s, [MApp SUse; MWrite (POk false 0) SZ_OK true])
  | CFieldList => (s, [MApp SQuery; MCont QFieldList])
  | CPrepare n sz =>
      let id := next_stmt s in
      let s1 := set_stmts s (put_stmt id (mk_stmt None 0) (stmts s)) ((id + 1) mod 2 ^ 32) in
      (s1, MWrite (PPrepOk id n) (sz_head sz) false ::
           (if 0 <? n then map (fun z => MWrite PColDef z false) (sz_coldef sz) ++
                           (if deprecate_eof s then [] else [MWrite (PEof 0) (sz_eof sz) false])
            else []) ++ [MDrain])
  | CLongData id => (s, [])      (* no reply, also for an unknown statement id *)
  | CExecute id cursor =>
      match find_stmt id (stmts s) with
      (* a new execution supersedes the statement's open cursor, whatever its outcome: stmt.cursor = None before the query runs *)
      | Some _ => (set_stmts s (put_stmt id (mk_stmt None 0) (stmts s)) (next_stmt s), [MApp SQuery; MCont (QExec id cursor)])
      | None => (s, [MRaise (XMysql E_UNKNOWN_PROCEDURE) None])
      end
  | CFetch id n szf =>
      match find_stmt id (stmts s) with
      | None => (s, [MRaise (XMysql E_UNKNOWN_PROCEDURE) None])
      | Some v =>
        match st_cursor v with
        | None => (s, [MRaise XOther None])       (* assert stmt.cursor is not None *)
        | Some items =>
            let '(k, c) := fetch_plan (S (length items)) id items (st_inner v) 0 n (st_inner v) in
            let done := c <? n in
            (s, k ++ [MDrain; MWrite (ok_or_eof s (if done then FL_LAST_ROW_SENT else FL_CURSOR_EXISTS)) szf true])
        end
      end
  | CReset id =>
      match find_stmt id (stmts s) with
      | Some _ => (s, [MClearStmt id true; MApp SReset; MWrite (POk false 0) SZ_OK true])
      | None => (s, [MRaise (XMysql E_UNKNOWN_PROCEDURE) None])
      end
  | CClose id => (s, [MDropStmt id])
  | CChangeUser => (set_exec (set_authed s false) false, [MEnter FChangeUser; MApp SGetUser])
  | CUnknown => (s, [MRaise (XMysql E_UNKNOWN_COM) None])
  | CBad m => (s, [MRaise (match m with Some cd => XMysql cd | None => XOther end) None])
  end.

(* ---- running a plan up to the next real suspension --------------------------------------------------------- *)
(* what one micro-operation does *)
Inductive action :=
| ActNext (s : st) (o : list out)                                  (* go on with the rest of the plan *)
| ActSuspend (s : st) (w : why) (ic : option N) (o : list out)     (* the task really yields to the loop here *)
| ActRaise (s : st) (x : exn) (ic : option N) (o : list out)       (* an exception is raised here *)
| ActQuit (s : st)                                                 (* `return` out of command_phase *)
| ActEnter (s : st) (f : frame).

(* await self.drain(): flush the buffer, then writer.drain() *)
Definition do_drain (s : st) : action :=
  let '(s1, o1) := flush s in
  if dead s1 then ActRaise s1 XOther None o1
  else if paused s1 then ActSuspend s1 WDrain None o1
  else ActNext s1 o1.

Definition cur_pull (s : st) (id : N) : st :=
  match find_stmt id (stmts s) with
  | Some v => set_stmts s (put_stmt id (mk_stmt (match st_cursor v with
                                                 | Some (_ :: r) => Some r
                                                 | o => o end) (st_inner v + 1)) (stmts s)) (next_stmt s)
  | None => s
  end.

Definition cur_skip_suspend (s : st) (ic : option N) : st :=
  match ic with
  | Some id => match find_stmt id (stmts s) with
               | Some v => set_stmts s (put_stmt id (mk_stmt (match st_cursor v with
                                                              | Some (ISuspend :: r) => Some r
                                                              | o => o end) (st_inner v)) (stmts s)) (next_stmt s)
               | None => s
               end
  | None => s
  end.

Definition exec_op (s : st) (m : mop) : action :=
  match m with
  | MWrite p sz d =>
      let s1 := set_seq (set_buf s (buf s ++ [(seq s, p, sz)]) (handed s)) ((seq s + 1) mod 256) in
      if d || (B <=? buf_bytes (buf s1)) then do_drain s1 else ActNext s1 []
  | MDrain => do_drain s
  | MApp c => ActSuspend s (WApp c) None [OSess c]
  | MPull => ActNext (inc_pulled s) []
  | MCurPull id => ActNext (inc_pulled (cur_pull s id)) []
  | MSleep ic => ActSuspend s WSleep ic []
  | MRowWait ic => ActSuspend (cur_skip_suspend s ic) WRow ic []
  | MRaise x ic => ActRaise s x ic []
  | MSetCursor id items => ActNext (set_stmts s (put_stmt id (mk_stmt (Some items) 0) (stmts s)) (next_stmt s)) []
  | MClearStmt id _ => ActNext (set_stmts s (put_stmt id (mk_stmt None 0) (stmts s)) (next_stmt s)) []
  | MDropStmt id => ActNext (set_stmts s (del_stmt id (stmts s)) (next_stmt s)) []
  | MAuthed => ActNext (set_authed s true) []
  | MResetSeq => ActNext (set_seq s 0) []
  | MRead => if eof s then ActRaise s XClosed None [] else ActSuspend s WRead None []
  | MEnter f' => ActEnter s f'
  | MCont _ => ActNext s []           (* only meaningful directly after MApp SQuery: see step *)
  | MQuit => ActQuit s
  end.

(* what happens when the current plan is exhausted, per frame *)
Inductive endact :=
| EFinish (s : st) (exc : bool)
| EGo (s : st) (k : plan) (f : frame)
| ESuspRead (s : st)
| ERaise (s : st) (x : exn).

Definition end_plan (s : st) (f : frame) : endact :=
  match f with
  | FConn => EGo (set_phase (set_inited s) Command) [] FRead            (* session.init returned *)
  | FConnErr => EFinish s true                                          (* `raise` after the ERR *)
  | FHandler | FChangeUser | FChangeUserReset => EGo (set_seq (set_exec s false) 0) [] FRead   (* finally: reset_seq *)
  | FHandlerErr wk => EGo (set_seq (if wk then set_kill s None else s) 0) [] FRead
  | FKillErr => EGo (inc_closes (set_kill s None)) [MApp SClose] (FClose false)
  | FClose re => EFinish s re
  | FRead =>
      (* data = await self.stream.read() *)
      match inq s with
      | c :: q =>
          let s1 := set_seq (set_inq s q) ((seq s + 1) mod 256) in
          let '(s2, k2) := handler (set_exec s1 true) c in
          EGo s2 k2 FHandler
      | [] => if eof s then ERaise s XClosed else ESuspRead s
      end
  end.

Definition is_handler (f : frame) : bool := match f with FHandler | FChangeUser | FChangeUserReset => true | _ => false end.
Definition prepend (o : list out) (r : st * list out) : st * list out := (fst r, o ++ snd r).

Fixpoint run (fuel : nat) (s : st) (k : plan) (f : frame) : st * list out :=
  match fuel with
  | O => (upd_ctl s Stuck, [])
  | S fuel' =>
    let raise (s : st) (x : exn) (ic : option N) : st * list out :=
      match throw (kill_cursor s ic) x f with
      | Continue s' k' f' => run fuel' s' k' f'
      | ToClose s' re => run fuel' (inc_closes s') [MApp SClose] (FClose re)
      | Finished s' exc => finish s' exc
      end in
    match k with
    | [] =>
        match end_plan s f with
        | EFinish s' exc => finish s' exc
        | EGo s' k' f' => run fuel' s' k' f'
        | ESuspRead s' => (upd_ctl s' (Susp WRead [] f None), [])
        | ERaise s' x => raise s' x None
        end
    | m :: k' =>
        match exec_op s m with
        | ActNext s' o => prepend o (run fuel' s' k' f)
        | ActSuspend s' w ic o => (upd_ctl s' (Susp w k' f ic), o)
        | ActRaise s' x ic o => prepend o (raise s' x ic)
        | ActEnter s' f' =>
            (* only between the try blocks of one handler *)
            if is_handler f && is_handler f' then run fuel' s' k' f' else (upd_ctl s' Stuck, [])
        | ActQuit s' =>
            (* `return` in the handler: finally reset_seq, then _start's finally.  MQuit only occurs in
               the plan of COM_QUIT, i.e. in FHandler; elsewhere the machine has no such transition *)
            match f with
            | FHandler => run fuel' (inc_closes (set_seq (set_exec s' false) 0)) [MApp SClose] (FClose false)
            | _ => (upd_ctl s' Stuck, [])
            end
        end
    end
  end.

(* fuel: every micro-operation and every transition costs at most one unit; plans of queued commands are
   bounded by the sizes of their own data (cursor items, parameter definitions) *)
Definition stmts_weight (s : st) : nat :=
  fold_left (fun a kv => a + match st_cursor (snd kv) with Some l => length l | None => O end)%nat (stmts s) O.
(* cursors that the plan itself is going to install *)
Fixpoint plan_weight (k : plan) : nat :=
  match k with
  | [] => O
  | MSetCursor _ items :: r => (length items + plan_weight r)%nat
  | _ :: r => plan_weight r
  end.
Definition cmd_cost_w (w : nat) (c : cmd) : nat :=
  match c with
  | CFetch _ _ _ => (5 * w + 16)%nat
  | CPrepare _ sz => (length (sz_coldef sz) + 16)%nat
  | _ => 16%nat
  end.
Definition cmd_cost (s : st) (c : cmd) : nat :=
  match c with
  | CFetch _ _ _ => 5 * stmts_weight s + 16
  | CPrepare _ sz => length (sz_coldef sz) + 16
  | _ => 16
  end.
Definition FUEL (s : st) (k : plan) : nat :=
  4 * (length k + fold_left (fun a c => a + cmd_cost_w (stmts_weight s + plan_weight k) c)%nat (inq s) O) + 64.
Definition go (s : st) (k : plan) (f : frame) := run (FUEL s k) s k f.

Definition raise_at (s : st) (x : exn) (f : frame) (incur : option N) : st * list out :=
  match throw (kill_cursor s incur) x f with
  | Continue s' k' f' => go s' k' f'
  | ToClose s' re => go (inc_closes s') [MApp SClose] (FClose re)
  | Finished s' exc => finish s' exc
  end.

(* ---- events --------------------------------------------------------------------------------------------------- *)
Inductive ev :=
| EvPayload (c : cmd)                 (* a complete, in-sequence client payload arrived (command phase) *)
| EvHandshake (ok : bool) (depeof : bool)   (* the handshake response: parses or not; negotiated DEPRECATE_EOF *)
| EvAuthReply (d : adecision)         (* the client's reply to an auth switch / more data, and the plugin's verdict *)
| EvDecide (d : adecision)            (* get_user returned; the plugin's verdict on the data received so far *)
| EvEof
| EvEofMidPacket (header_read : bool)   (* EOF inside a packet; after / before its 4 header bytes were consumed *)
| EvBadSeq
| EvApp (o : outcome)                 (* the pending application call returns / raises *)
| EvRowReady | EvTick
| EvPause | EvResume | EvSockFail
| EvKill (k : kk) | EvKillSelf (k : kk).

(* Connection.kill as repaired: QUERY kills only while a statement executes and never from the
   connection's own task; a pending CONNECTION kill is never downgraded *)
Definition kill_accepted (s : st) (k : kk) (self : bool) : bool :=
  match k with
  | KC => true
  | KQ => executing s && negb self && negb (match kill s with Some KC => true | _ => false end)
  end.

(* after get_user / a plugin step: what authenticate() and its caller do next *)
Definition auth_plan (d : adecision) (change_user : bool) : plan :=
  match d with
  | ANoUser => [MWrite (PErr E_USER_DOES_NOT_EXIST) SZ_ERR true; MRaise XAuthFailed None]
  | AForbidden => [MWrite (PErr E_ACCESS_DENIED) SZ_ERR true; MRaise XAuthFailed None]
  | ARaise => [MRaise XOther None]
  | ASwitch => [MWrite PAuthSwitch SZ_OK true; MRead]
  | AMore => [MWrite PAuthMore SZ_OK true; MRead]
  | ASuccess =>
      MAuthed :: MWrite (POk false 0) SZ_OK true ::
      (if change_user then [MEnter FChangeUserReset; MApp SReset] else [MResetSeq; MApp SInit])
  end.


Definition step (s : st) (e : ev) : st * list out :=
  match ctl_ s with
  | Done | Stuck => (s, [])
  | Susp w k f ic =>
    match e with
    | EvPause => (set_paused s true, [])
    | EvResume =>
        match w with
        | WDrain => go (set_paused s false) k f
        | _ => (set_paused s false, [])
        end
    | EvSockFail =>
        match w with
        | WDrain => raise_at (set_dead s) XOther f None
        | _ => (set_dead s, [])
        end
    | EvKill kd =>
        if kill_accepted s kd false then raise_at (set_kill s (Some kd)) XCancel f ic else (s, [])
    | EvKillSelf kd =>
        (* issued by this connection's own application callback before its first await: asyncio delivers the
           cancellation at that await, i.e. at the pending application call *)
        match w with
        | WApp _ => if kill_accepted s kd true then raise_at (set_kill s (Some kd)) XCancel f ic else (s, [])
        | _ => (s, [])
        end
    | EvEof =>
        match w with
        | WRead => raise_at (set_eof s) XClosed f None
        | _ => (set_eof s, [])
        end
    | EvEofMidPacket hdr =>
        (* IncompleteReadError; the sequence counter advanced if the header had been read *)
        match w with
        | WRead => raise_at (set_eof (if hdr then set_seq s ((seq s + 1) mod 256) else s)) XOther f None
        | _ => (s, [])
        end
    | EvBadSeq =>
        (* MysqlError(MALFORMED_PACKET) raised by stream.read() after next(self.seq) *)
        match w with
        | WRead => raise_at (set_seq s ((seq s + 1) mod 256)) (XMysql 1835) f None
        | _ => (s, [])
        end
    | EvPayload c =>
        match phase s, w, f with
        | Command, WRead, FRead => go (set_inq s (inq s ++ [c])) [] FRead
        | Command, WRead, _ => (s, [])        (* would be taken for an auth reply: not generated *)
        | Command, _, _ => (set_inq s (inq s ++ [c]), [])
        | _, _, _ => (s, [])
        end
    | EvHandshake ok depeof =>
        match phase s, w, f with
        | PreHandshake, WRead, FConn =>
            let s1 := set_phase (set_seq s ((seq s + 1) mod 256)) (InExchange false) in
            if ok then go (set_depeof s1 depeof) (MApp SGetUser :: k) f
            else raise_at s1 XOther f None
        | _, _, _ => (s, [])
        end
    | EvAuthReply d =>
        match phase s, w, f with
        | InExchange _, WRead, FConn => go (set_seq s ((seq s + 1) mod 256)) (auth_plan d false ++ k) f
        | Command, WRead, FChangeUser => go (set_seq s ((seq s + 1) mod 256)) (auth_plan d true ++ k) f
        | _, _, _ => (s, [])
        end
    | EvDecide d =>
        match w with
        | WApp SGetUser => go s (auth_plan d (is_handler f) ++ k) f
        | _ => (s, [])
        end
    | EvApp o =>
        match w with
        | WApp SGetUser => (s, [])     (* resolved by EvDecide *)
        | WApp c =>
            match o with
            | ORaise (Some cd) => raise_at s (XMysql cd) f None
            | ORaise None => raise_at s XOther f None
            | _ => match k with
                   | MCont q :: k' => go s (continuation s q o ++ k') f
                   | _ => go s k f
                   end
            end
        | _ => (s, [])
        end
    | EvRowReady => match w with WRow => go s k f | _ => (s, []) end
    | EvTick => match w with WSleep => go s k f | _ => (s, []) end
    end
  end.

(* a fresh connection: the handshake is written, then the response is awaited *)
Definition st0 : st :=
  mk_st (Susp WRead [] FConn None) PreHandshake false false 0 None false false false false false [] 0 [] [] 0 0 0 false.
Definition boot (sz_handshake : N) : st * list out := go st0 [MWrite PHandshake sz_handshake true; MRead] FConn.

Definition runs (s : st) (evs : list ev) : st * list (list out) :=
  fold_left (fun acc e => let '(s1, o) := step (fst acc) e in (s1, snd acc ++ [o])) evs (s, []).

End Machine.
