(* Model/Parse.v - the packet parsers of mysql_mimic/packets.py and the read_* primitives of types.py,
   over byte lists, with explicit results for the Python exceptions.  No proofs here.
   Text fields are returned as raw bytes: decoding with the client character set is outside the model
   (the correspondence runs use latin1, where decoding is the identity, and valid utf8). *)
From Coq Require Import List NArith ZArith Lia Bool.
From MM Require Import Lib.Bytes Lib.Bitmap.
Import ListNotations.
Open Scope N_scope.

Inductive err :=
| StructErr            (* struct.error: short read of a fixed-width integer *)
| ValueErr             (* ValueError: not a member of an enum (ColumnType, Collation, flags) *)
| IndexErr             (* IndexError: null bitmap shorter than the declared count *)
| MysqlErr (code : N)  (* MysqlError raised by the parser itself *)
| KeyErr
| AssertErr
| OverflowErr          (* OverflowError: BytesIO.read(n) with n >= 2^63 *)
| OutOfFuel.           (* never: excluded by Proofs/ParseProofs.v *)

Inductive result (A : Type) := Ok (a : A) | Err (e : err).
Arguments Ok {A}. Arguments Err {A}.

Definition bind {A B} (r : result A) (f : A -> result B) : result B :=
  match r with Ok a => f a | Err e => Err e end.
Notation "'do' x <- r ; k" := (bind r (fun x => k)) (at level 200, x pattern, r at level 100, k at level 200).

Definition ERR_NOT_SUPPORTED_YET : N := 1235.
Definition ERR_UNKNOWN_PROCEDURE : N := 1106.

(* ---- primitives (reader = remaining bytes) ------------------------------------------------- *)
Definition rd_uint (k : nat) (d : bytes) : result (N * bytes) :=
  match read_uint k d with Some x => Ok x | None => Err StructErr end.

Definition rd_int (k : nat) (d : bytes) : result (Z * bytes) :=
  do (u, r) <- rd_uint k d; Ok (to_signed k u, r).

Definition rd_uint_len (d : bytes) : result (N * bytes) :=
  match read_uint_len d with Some x => Ok x | None => Err StructErr end.

(* read_str_fixed / BytesIO.read(l): never fails, returns what is there *)
Definition rd_fixed (l : N) (d : bytes) : bytes * bytes := (take l d, drop l d).

Definition rd_str_len (d : bytes) : result (bytes * bytes) :=
  do (l, r) <- rd_uint_len d;
  if 2 ^ 63 <=? l then Err OverflowErr else Ok (rd_fixed l r).

(* read_str_null: up to the first NUL; at end of input without NUL: everything that is left *)
Fixpoint rd_str_null (d : bytes) : bytes * bytes :=
  match d with
  | [] => ([], [])
  | b :: r => if b =? 0 then ([], r) else let '(s, t) := rd_str_null r in (b :: s, t)
  end.

(* ---- NullBitmap --------------------------------------------------------------------------- *)
Definition bitmap_bytes (nbits offset : N) : N := (nbits + 7 + offset) / 8.

Definition testbit_at (bm : bytes) (i offset : N) : result bool :=
  let p := i + offset in
  match nth_error bm (N.to_nat (p / 8)) with
  | None => Err IndexErr
  | Some b => Ok (N.testbit b (p mod 8))
  end.

(* ---- parameter types and values ------------------------------------------------------------ *)
Inductive pval :=
| PNull
| PInt (z : Z)
| PStr (raw : bytes)     (* text in the client character set *)
| PF32 (raw : bytes)     (* 4 bytes, IEEE single, little endian *)
| PF64 (raw : bytes).    (* 8 bytes *)

(* the ColumnType enum: membership is what ColumnType(x) checks *)
Definition column_type_codes : list N :=
  [0;1;2;3;4;5;6;7;8;9;10;11;12;13;14;15;16;17;18;19;20;243;244;245;246;247;248;249;250;251;252;253;254;255].
Definition is_column_type (x : N) : bool := existsb (N.eqb x) column_type_codes.

Definition string_types : list N := [15; 249; 250; 251; 252; 253; 254].

Definition rd_param_type (d : bytes) : result ((N * bool) * bytes) :=
  do (t, r) <- rd_uint 1 d;
  if negb (is_column_type t) then Err ValueErr else
  do (f, r2) <- rd_uint 1 r;
  Ok ((t, N.testbit f 7), r2).

Definition rd_sized (k : nat) (unsigned : bool) (d : bytes) : result (pval * bytes) :=
  if unsigned then do (u, r) <- rd_uint k d; Ok (PInt (Z.of_N u), r)
  else do (z, r) <- rd_int k d; Ok (PInt z, r).

(* integer parameter types: width in bytes and whether the unsigned reader is used (BOOL always is) *)
Definition int_kind (t : N) (u : bool) : option (nat * bool) :=
  if t =? 1 then Some (1%nat, u)
  else if t =? 244 then Some (1%nat, true)
  else if (t =? 2) || (t =? 13) then Some (2%nat, u)
  else if (t =? 3) || (t =? 9) then Some (4%nat, u)
  else if t =? 8 then Some (8%nat, u)
  else None.

Definition rd_param_value (t : N) (unsigned : bool) (d : bytes) : result (pval * bytes) :=
  if existsb (N.eqb t) string_types then do (s, r) <- rd_str_len d; Ok (PStr s, r)
  else match int_kind t unsigned with
  | Some (k, u) => rd_sized k u d
  | None =>
    if t =? 4 then (if len d <? 4 then Err StructErr else Ok (PF32 (take 4 d), drop 4 d))
    else if t =? 5 then (if len d <? 8 then Err StructErr else Ok (PF64 (take 8 d), drop 8 d))
    else if t =? 6 then Ok (PNull, d)
    else Err (MysqlErr ERR_NOT_SUPPORTED_YET)
  end.

(* first loop of _read_params: `for i in range(parameter_count)` reading type, flag and (with query
   attributes) a length-encoded name.  Every iteration consumes at least two bytes. *)
Fixpoint rd_types (fuel : nat) (qa : bool) (n : N) (d : bytes) : result (list (bytes * N * bool) * bytes) :=
  if n =? 0 then Ok ([], d) else
  match fuel with
  | O => Err OutOfFuel
  | S f =>
    do ((t, u), r) <- rd_param_type d;
    do (name, r2) <- (if qa then rd_str_len r else Ok ([], r));
    do (rest, r3) <- rd_types f qa (N.pred n) r2;
    Ok ((name, t, u) :: rest, r3)
  end.

Fixpoint assoc_N {A} (k : N) (l : list (N * A)) : option A :=
  match l with [] => None | (k', v) :: r => if k =? k' then Some v else assoc_N k r end.

(* second loop: values, with NULL bitmap and long-data buffers taking precedence over inline data *)
Fixpoint rd_values (bm : bytes) (buffers : list (N * bytes)) (i : N) (tys : list (bytes * N * bool)) (d : bytes)
  : result (list (bytes * pval) * bytes) :=
  match tys with
  | [] => Ok ([], d)
  | (name, t, u) :: rest =>
    do isnull <- testbit_at bm i 0;
    do (v, r) <- (if isnull then Ok (PNull, d)
                   else match assoc_N i buffers with
                        | Some b => Ok (PStr b, d)
                        | None => rd_param_value t u d
                        end);
    do (vs, r2) <- rd_values bm buffers (i + 1) rest r;
    Ok ((name, v) :: vs, r2)
  end.

Definition rd_params (qa : bool) (count : N) (buffers : list (N * bytes)) (d : bytes)
  : result (list (bytes * pval) * bytes) :=
  if count =? 0 then Ok ([], d) else
  let '(bm, r) := rd_fixed (bitmap_bytes count 0) d in
  do (flag, r2) <- rd_uint 1 r;
  if flag =? 0 then Err (MysqlErr ERR_NOT_SUPPORTED_YET) else
  do (tys, r3) <- rd_types (S (length r2)) qa count r2;
  rd_values bm buffers 0 tys r3.

Fixpoint list_eqb (a b : bytes) : bool :=
  match a, b with
  | [], [] => true
  | x :: a', y :: b' => (x =? y) && list_eqb a' b'
  | _, _ => false
  end.

(* dict built from (name, value) pairs: a later duplicate name wins, first position kept *)
Fixpoint dict_set {V} (k : bytes) (v : V) (l : list (bytes * V)) : list (bytes * V) :=
  match l with
  | [] => [(k, v)]
  | (k', v') :: r => if list_eqb k k' then (k', v) :: r else (k', v') :: dict_set k v r
  end.

Definition to_dict {V} (l : list (bytes * V)) : list (bytes * V) :=
  fold_left (fun acc kv => dict_set (fst kv) (snd kv) acc) l [].

(* ---- COM_QUERY ------------------------------------------------------------------------------ *)
(* returns (sql bytes, attribute dict) *)
Definition parse_com_query (qa : bool) (d : bytes) : result (bytes * list (bytes * pval)) :=
  if qa then
    do (count, r) <- rd_uint_len d;
    do (_, r2) <- rd_uint_len r;
    do (ps, r3) <- rd_params true count [] r2;
    Ok (r3, to_dict ps)
  else Ok (d, []).

(* ---- COM_STMT_EXECUTE ------------------------------------------------------------------------ *)
Record stmt := mk_stmt { st_sql : list N; st_nparams : N; st_buffers : list (N * bytes) }.

(* _read_cursor_flags: (use_cursor, param_count_available) *)
Definition rd_cursor_flags (d : bytes) : result ((bool * bool) * bytes) :=
  do (f, r) <- rd_uint 1 d;
  (* ComStmtExecuteFlags(f) is an IntFlag (boundary KEEP): every byte value is accepted *)
  (* CURSOR_TYPE_READ_ONLY (bit 0) decides; CURSOR_TYPE_NO_CURSOR = 0 is `in` every flag value,
     so the MysqlError branch of the source is unreachable *)
  Ok ((N.testbit f 0, N.testbit f 3), r).

Record exec := mk_exec { ex_params : list (bytes * pval); ex_attrs : list (bytes * pval); ex_cursor : bool }.

Definition parse_com_stmt_execute (qa : bool) (lookup : N -> option stmt) (d : bytes) : result (stmt * exec) :=
  do (id, r) <- rd_uint 4 d;
  match lookup id with
  | None => Err (MysqlErr ERR_UNKNOWN_PROCEDURE)
  | Some st =>
    do (fl, r2) <- rd_cursor_flags r;
    let '(use_cursor, pca) := fl in
    do (_, r3) <- rd_uint 4 r2;
    do (count, r4) <- (if ((0 <? st_nparams st) || (qa && pca)) && qa then rd_uint_len r3
                       else Ok (st_nparams st, r3));
    if 0 <? count then
      do (ps, _) <- rd_params qa count (st_buffers st) r4;
      let n := N.to_nat (st_nparams st) in
      Ok (st, mk_exec (firstn n ps) (to_dict (skipn n ps)) use_cursor)
    else Ok (st, mk_exec [] [] use_cursor)
  end.

(* ---- small fixed-layout commands ------------------------------------------------------------ *)
Definition parse_send_long_data (d : bytes) : result (N * N * bytes) :=
  do (id, r) <- rd_uint 4 d; do (pid, r2) <- rd_uint 2 r; Ok (id, pid, r2).
Definition parse_stmt_fetch (d : bytes) : result (N * N) :=
  do (id, r) <- rd_uint 4 d; do (n, _) <- rd_uint 4 r; Ok (id, n).
Definition parse_stmt_id (d : bytes) : result N :=   (* COM_STMT_RESET, COM_STMT_CLOSE *)
  do (id, _) <- rd_uint 4 d; Ok id.
Definition parse_field_list (d : bytes) : bytes * bytes := rd_str_null d.

(* ---- connect attributes: `while total_l > 0` ------------------------------------------------- *)
(* every iteration subtracts at least 2 (two length prefixes) from a total read from the packet *)
Fixpoint rd_attrs (fuel : nat) (total : Z) (d : bytes) (acc : list (bytes * bytes)) : result (list (bytes * bytes) * bytes) :=
  if (total <=? 0)%Z then Ok (acc, d) else
  match fuel with
  | O => Err OutOfFuel
  | S f =>
    do (k, r) <- rd_str_len d;
    do (v, r2) <- rd_str_len r;
    let item := Z.of_N (len (str_len k) + len (str_len v)) in
    rd_attrs f (total - item)%Z r2 (dict_set k v acc)
  end.

Definition rd_connect_attrs (d : bytes) : result (list (bytes * bytes) * bytes) :=
  do (total, r) <- rd_uint_len d;
  rd_attrs (S (length r)) (Z.of_N total) r [].

(* ---- handshake response ---------------------------------------------------------------------- *)
Record caps := mk_caps { c_lenenc_auth : bool; c_with_db : bool; c_plugin_auth : bool; c_attrs : bool;
                         c_zstd : bool; c_secure : bool; c_proto41 : bool; c_qa : bool }.

(* bit positions of the Capabilities flags (checked against types.py by Props through Gen/FactsPackets) *)
Definition caps_of_word (w : N) : caps :=
  mk_caps (N.testbit w 21) (N.testbit w 3) (N.testbit w 19) (N.testbit w 20)
          (N.testbit w 26) (N.testbit w 15) (N.testbit w 9) (N.testbit w 27).
Definition caps_bits_used : list N := [21; 3; 19; 20; 26; 15; 9; 27].

Inductive hsr :=
| SSLReq (caps_word maxpkt coll : N)
| HSR (caps_word maxpkt coll : N) (user auth : bytes) (db plugin : option bytes)
      (attrs : list (bytes * bytes)) (zstd : N).

(* `collation_ok` stands for Collation(x) succeeding; the table is generated (Gen/FactsCharset) *)
Definition parse_handshake_response (collation_ok : N -> bool) (server_caps : N) (mk : N -> caps) (d : bytes) : result hsr :=
  do (cw, r) <- rd_uint 4 d;
  let cw' := N.land server_caps cw in
  let c := mk cw' in
  do (maxpkt, r2) <- rd_uint 4 r;
  do (coll, r3) <- rd_uint 1 r2;
  if negb (collation_ok coll) then Err ValueErr else
  let '(_, r4) := rd_fixed 23 r3 in
  match r4 with
  | [] => Ok (SSLReq cw' maxpkt coll)
  | _ =>
    let '(user, r5) := rd_str_null r4 in
    do (auth, r6) <- (if c_lenenc_auth c then rd_str_len r5
                      else do (l, t) <- rd_uint 1 r5; Ok (rd_fixed l t));
    let '(db, r7) := if c_with_db c then let '(x, t) := rd_str_null r6 in (Some x, t) else (None, r6) in
    let '(plugin, r8) := if c_plugin_auth c then let '(x, t) := rd_str_null r7 in (Some x, t) else (None, r7) in
    do (attrs, r9) <- (if c_attrs c then rd_connect_attrs r8 else Ok ([], r8));
    do (z, _) <- (if c_zstd c then rd_uint 1 r9 else Ok (0, r9));
    Ok (HSR cw' maxpkt coll user auth db plugin attrs z)
  end.

Record chg := mk_chg { cu_user : bytes; cu_auth : bytes; cu_db : bytes; cu_coll : option N;
                       cu_plugin : option bytes; cu_attrs : list (bytes * bytes) }.

Definition parse_com_change_user (collation_ok : N -> bool) (c : caps) (d : bytes) : result chg :=
  let '(user, r) := rd_str_null d in
  do (auth, r2) <- (if c_secure c then do (l, t) <- rd_uint 1 r; Ok (rd_fixed l t)
                    else Ok (rd_str_null r));
  let '(db, r3) := rd_str_null r2 in
  match r3 with
  | [] => Ok (mk_chg user auth db None None [])
  | _ =>
    do (coll, r4) <- (if c_proto41 c then
                        do (x, t) <- rd_uint 2 r3;
                        if collation_ok x then Ok (Some x, t) else Err ValueErr
                      else Ok (None, r3));
    let '(plugin, r5) := if c_plugin_auth c then let '(x, t) := rd_str_null r4 in (Some x, t) else (None, r4) in
    do (attrs, _) <- (if c_attrs c then rd_connect_attrs r5 else Ok ([], r5));
    Ok (mk_chg user auth db coll plugin attrs)
  end.

(* ---- client-side encoder (specification, from the protocol documentation) -------------------- *)
Record param := mk_param { pm_name : bytes; pm_type : N; pm_unsigned : bool; pm_val : pval }.

Definition is_null (p : param) : bool := match pm_val p with PNull => true | _ => false end.

Definition enc_int (k : nat) (u : bool) (z : Z) : bytes :=
  le_bytes k (if u then Z.to_N z else of_signed k z).

Definition enc_value (p : param) : bytes :=
  match pm_val p with
  | PNull => []
  | PInt z => match int_kind (pm_type p) (pm_unsigned p) with Some (k, u) => enc_int k u z | None => [] end
  | PStr s => str_len s
  | PF32 raw => raw
  | PF64 raw => raw
  end.

Definition enc_type (qa : bool) (p : param) : bytes :=
  [pm_type p; if pm_unsigned p then 128 else 0] ++ (if qa then str_len (pm_name p) else []).

Definition nat_bitmap_bytes (nulls : list bool) : bytes := Bitmap.bitmap 0 nulls.

Definition encode_params (qa : bool) (ps : list param) : bytes :=
  match ps with
  | [] => []
  | _ => nat_bitmap_bytes (map is_null ps) ++ [1] ++ flat_map (enc_type qa) ps ++ flat_map enc_value ps
  end.

Definition int_in_range (k : nat) (u : bool) (z : Z) : bool :=
  if u then ((0 <=? z) && (z <? 256 ^ Z.of_nat k))%Z
  else ((- (256 ^ Z.of_nat k) / 2 <=? z) && (z <? 256 ^ Z.of_nat k / 2))%Z.

Definition wf_param (p : param) : bool :=
  is_column_type (pm_type p) && (len (pm_name p) <? 2 ^ 63) &&
  match pm_val p with
  | PNull => true
  | PInt z => negb (existsb (N.eqb (pm_type p)) string_types) &&
              match int_kind (pm_type p) (pm_unsigned p) with Some (k, u) => int_in_range k u z | None => false end
  | PStr s => existsb (N.eqb (pm_type p)) string_types && (len s <? 2 ^ 63)
  | PF32 raw => (pm_type p =? 4) && (len raw =? 4)
  | PF64 raw => (pm_type p =? 5) && (len raw =? 8)
  end.

Definition param_out (qa : bool) (p : param) : bytes * pval := (if qa then pm_name p else [], pm_val p).

(* COM_QUERY as a client with CLIENT_QUERY_ATTRIBUTES builds it: count, set count 1, parameters, SQL *)
Definition encode_com_query (attrs : list param) (sql : bytes) : bytes :=
  uint_len (len attrs) ++ [1] ++ encode_params true attrs ++ sql.
