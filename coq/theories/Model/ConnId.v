(* Model/ConnId.v - connection-id allocation of mysql_mimic/control.py (LocalControl) and utils.seq. *)
From Coq Require Import List NArith Lia Bool.
From MM Require Import Lib.Bytes.
Import ListNotations.
Open Scope N_scope.

(* how LocalControl.__init__ picks the server id when the argument may be None *)
Inductive sid_mode :=
| SidNoneOnly     (* server_id if server_id is not None else random *)
| SidFalsy.       (* server_id or random  (treats 0 as "not configured") *)

Definition effective_server_id (m : sid_mode) (cfg : option N) (rnd : N) : N :=
  match cfg with
  | None => rnd
  | Some x => match m with SidNoneOnly => x | SidFalsy => if x =? 0 then rnd else x end
  end.

Inductive idres := IdOk (id v' : N) | IdFull | IdStuck.

Inductive op := Add | Remove (id : N).
Inductive res := Added (id : N) | Refused | Removed | Stuck.

Record reg := mk_reg { live : list N; ctr : N }.

Section ConnId.
Variable W : N.        (* number of sequence values: _MAX_CONNECTION_SEQ *)
Variable prefix : N.   (* (server_id % _MAX_SERVER_ID) << _CONNECTION_ID_BITS *)

Definition mem (x : N) (l : list N) : bool := existsb (N.eqb x) l.

(* the `while connection_id in self._connections` loop; seq.__next__ returns value, then value+1 mod size *)
Fixpoint search (fuel : nat) (lv : list N) (v : N) : idres :=
  match fuel with
  | O => IdStuck
  | S f => if mem (prefix + v) lv then search f lv ((v + 1) mod W) else IdOk (prefix + v) ((v + 1) mod W)
  end.

Definition new_id (r : reg) : idres :=
  if W <=? len (live r) then IdFull else search (S (length (live r))) (live r) (ctr r).

Definition remove_id (id : N) (l : list N) : list N := filter (fun x => negb (x =? id)) l.

Definition step (r : reg) (o : op) : reg * res :=
  match o with
  | Add => match new_id r with
           | IdOk id v' => (mk_reg (id :: live r) v', Added id)
           | IdFull => (r, Refused)
           | IdStuck => (r, Stuck)
           end
  | Remove id => (mk_reg (remove_id id (live r)) (ctr r), Removed)
  end.

Fixpoint run (r : reg) (ops : list op) : reg * list res :=
  match ops with
  | [] => (r, [])
  | o :: os => let '(r1, x) := step r o in let '(r2, xs) := run r1 os in (r2, x :: xs)
  end.

Definition lookup (r : reg) (id : N) : bool := mem id (live r).
End ConnId.

Definition id_prefix (sid_size bits sid : N) : N := (sid mod sid_size) * 2 ^ bits.
