(* Model/Vars.v - system variables: the typed store (variables.py), SET statements in all their forms,
   SET_VAR hints (session.py), time zones.  Strings are lists of code points. *)
From Coq Require Import List NArith ZArith Bool.
From MM Require Import Lib.Decimal.
Import ListNotations.
Open Scope N_scope.

Definition str := list N.
Fixpoint str_eqb (a b : str) : bool :=
  match a, b with [], [] => true | x :: a', y :: b' => (x =? y) && str_eqb a' b' | _, _ => false end.
Fixpoint str_ltb (a b : str) : bool :=
  match a, b with
  | [], [] => false | [], _ => true | _, [] => false
  | x :: a', y :: b' => if x <? y then true else if y <? x then false else str_ltb a' b'
  end.
Definition lower_c (c : N) : N := if (65 <=? c) && (c <=? 90) then c + 32 else c.
Definition lower (s : str) : str := map lower_c s.

(* ---- values -------------------------------------------------------------------------------------------------- *)
Inductive vty := TInt | TBool | TStr.
Inductive value :=
| VNone
| VBool (b : bool)
| VInt (z : Z)
| VStr (s : str)
| VFloat (ip : N) (frac : str).     (* a non-negative decimal literal ip.frac (frac: digits, not all zero or [48]) *)

(* int(str): optional ASCII white space, optional sign, one or more ASCII digits *)
Definition is_ws (c : N) : bool := (c =? 32) || ((9 <=? c) && (c <=? 13)).
Fixpoint lstrip (s : str) : str := match s with c :: r => if is_ws c then lstrip r else s | [] => [] end.
Definition strip (s : str) : str := rev (lstrip (rev (lstrip s))).
Definition py_int (s : str) : option Z :=
  match strip s with
  | c :: r =>
      if c =? 45 then match undec_N r with Some n => Some (- Z.of_N n)%Z | None => None end
      else if c =? 43 then match undec_N r with Some n => Some (Z.of_N n) | None => None end
      else match undec_N (c :: r) with Some n => Some (Z.of_N n) | None => None end
  | [] => None
  end.

Definition frac_zero (f : str) : bool := forallb (fun c => c =? 48) f.
Definition truthy (v : value) : bool :=
  match v with
  | VNone => false
  | VBool b => b
  | VInt z => negb (z =? 0)%Z
  | VStr s => match s with [] => false | _ => true end
  | VFloat ip f => negb ((ip =? 0) && frac_zero f)
  end.
Definition s_True : str := [84; 114; 117; 101].
Definition s_False : str := [70; 97; 108; 115; 101].
Definition s_None : str := [78; 111; 110; 101].
Definition py_str (v : value) : str :=
  match v with
  | VNone => s_None
  | VBool b => if b then s_True else s_False
  | VInt z => dec_Z z
  | VStr s => s
  | VFloat ip f => dec_N ip ++ [46] ++ f
  end.

(* _to_bool: the words ON / OFF / TRUE / FALSE / 1 / 0 given as strings mean what they say (any case), any other string
   is refused; everything else by its truth value *)
Definition s_on : str := [111; 110].
Definition s_off : str := [111; 102; 102].
Definition s_true : str := [116; 114; 117; 101].
Definition s_false : str := [102; 97; 108; 115; 101].
Definition to_bool (v : value) : option bool :=
  match v with
  | VStr s =>
      let w := lower s in
      if str_eqb w s_on || str_eqb w s_true || str_eqb w [49] then Some true
      else if str_eqb w s_off || str_eqb w s_false || str_eqb w [48] then Some false
      else None
  | _ => Some (truthy v)
  end.

(* type_(value); None = the constructor raises (ValueError) / the value is refused *)
Definition coerce (t : vty) (v : value) : option value :=
  match t with
  | TBool => match to_bool v with Some b => Some (VBool b) | None => None end
  | TStr => Some (VStr (py_str v))
  | TInt =>
      match v with
      | VNone => None
      | VBool b => Some (VInt (if b then 1 else 0))
      | VInt z => Some (VInt z)
      | VStr s => match py_int s with Some z => Some (VInt z) | None => None end
      | VFloat ip _ => Some (VInt (Z.of_N ip))
      end
  end.

Definition has_type (t : vty) (v : value) : bool :=
  match t, v with
  | TInt, VInt _ | TBool, VBool _ | TStr, VStr _ => true
  | _, _ => false
  end.

(* ---- time zones: parse_timezone ---------------------------------------------------------------------------------- *)
Definition is_dig (c : N) : bool := (48 <=? c) && (c <=? 57).
Definition s_utc : str := [117; 116; 99].
(* offset in minutes; None = parse_timezone raises (no match, or |offset| >= 24 h refused by datetime.timezone) *)
Definition parse_tz (s : str) : option Z :=
  if str_eqb (lower s) s_utc then Some 0%Z else
  match s with
  | sg :: h1 :: h2 :: c :: m1 :: m2 :: _ =>
      if (c =? 58) && ((sg =? 43) || (sg =? 45)) && is_dig h1 && is_dig h2 && is_dig m1 && is_dig m2 then
        let mins := ((h1 - 48) * 10 + (h2 - 48)) * 60 + (m1 - 48) * 10 + (m2 - 48) in
        if mins <? 1440 then Some (if sg =? 45 then (- Z.of_N mins)%Z else Z.of_N mins) else None
      else None
  | _ => None
  end.
(* the wall clock NOW()/CURDATE()/CURTIME() are rendered from: the statement's UTC instant (seconds) shifted *)
Definition local_seconds (utc : Z) (offset_min : Z) : Z := (utc + 60 * offset_min)%Z.

(* ---- the store ---------------------------------------------------------------------------------------------------- *)
Inductive err := EUnknown | ENotDynamic | EValue | EInvalid | EUserVar | EScope | EComplex | EKind | ECharset | EApp.
Inductive res (A : Type) := Ok (a : A) | Err (e : err).
Arguments Ok {A}. Arguments Err {A}.

Definition schema_t := list (str * (vty * value * bool)).     (* name: (type, default, dynamic) *)
Definition store := list (str * value).

Fixpoint lookup {A} (k : str) (l : list (str * A)) : option A :=
  match l with [] => None | (k', v) :: r => if str_eqb k k' then Some v else lookup k r end.
(* dict assignment: replace in place, or append *)
Fixpoint update {A} (k : str) (v : A) (l : list (str * A)) : list (str * A) :=
  match l with
  | [] => [(k, v)]
  | (k', v') :: r => if str_eqb k k' then (k', v) :: r else (k', v') :: update k v r
  end.

Inductive sval := SDefault | SVal (v : value).

Definition n_cs_client : str := [99;104;97;114;97;99;116;101;114;95;115;101;116;95;99;108;105;101;110;116].
Definition n_cs_connection : str := [99;104;97;114;97;99;116;101;114;95;115;101;116;95;99;111;110;110;101;99;116;105;111;110].
Definition n_cs_results : str := [99;104;97;114;97;99;116;101;114;95;115;101;116;95;114;101;115;117;108;116;115].
Definition n_cs_database : str := [99;104;97;114;97;99;116;101;114;95;115;101;116;95;100;97;116;97;98;97;115;101].
Definition n_coll_connection : str := [99;111;108;108;97;116;105;111;110;95;99;111;110;110;101;99;116;105;111;110].
Definition n_time_zone : str := [116;105;109;101;95;122;111;110;101].
Definition n_version : str := [118;101;114;115;105;111;110].
Definition n_external_user : str := [101;120;116;101;114;110;97;108;95;117;115;101;114].

Section Vars.
Variable schema : schema_t.
Variable usable_charsets : list str.                 (* character sets of the catalogue that have a codec *)
Variable default_collation : str -> option str.      (* CharacterSet[name].default_collation.name; None = KeyError *)
Variable tx_table : list (str * value).              (* TRANSACTION_CHARACTERISTICS values, by index *)

(* VALIDATORS: values the server itself depends on are checked when assigned *)
Definition charset_var (n : str) : bool := str_eqb n n_cs_client || str_eqb n n_cs_connection || str_eqb n n_cs_results.
(* the encodings a client cannot declare (as in MySQL): their zero bytes cannot be told from the protocol's terminators *)
Definition not_for_clients : list str :=
  [[117; 99; 115; 50]; [117; 116; 102; 49; 54]; [117; 116; 102; 49; 54; 108; 101]; [117; 116; 102; 51; 50]].   (* ucs2 utf16 utf16le utf32 *)
Definition validate (n : str) (v : value) : bool :=
  if charset_var n then match v with
                        | VStr s => existsb (str_eqb s) usable_charsets &&
                                    negb (str_eqb n n_cs_client && existsb (str_eqb s) not_for_clients)
                        | _ => false end
  else if str_eqb n n_time_zone then match v with VStr s => match parse_tz s with Some _ => true | None => false end | _ => false end
  else true.

(* Variables.set *)
Definition vset (st : store) (name : str) (v : sval) (force : bool) : res store :=
  let n := lower name in
  match lookup n schema with
  | None => Err EUnknown
  | Some (t, d, dyn) =>
      if negb dyn && negb force then Err ENotDynamic else
      match v with
      | SDefault | SVal VNone => Ok (update n d st)
      | SVal x =>
          match coerce t x with
          | None => Err EValue
          | Some y => if validate n y then Ok (update n y st) else Err EInvalid
          end
      end
  end.

(* Variables.get *)
Definition vget (st : store) (name : str) : res value :=
  let n := lower name in
  match lookup n st with
  | Some v => Ok v
  | None => match lookup n schema with Some (_, d, _) => Ok d | None => Err EUnknown end
  end.

(* Variables.list: sorted(schema) *)
Fixpoint insert_sorted (x : str) (l : list str) : list str :=
  match l with [] => [x] | y :: r => if str_ltb x y then x :: l else y :: insert_sorted x r end.
Definition sorted_names : list str := fold_right insert_sorted [] (map fst schema).
Definition vlist (st : store) : list (str * res value) := map (fun n => (n, vget st n)) sorted_names.
(* SHOW VARIABLES: None stays NULL, everything else str(v) *)
Definition show_value (v : value) : option str := match v with VNone => None | _ => Some (py_str v) end.

(* ---- SET statements -------------------------------------------------------------------------------------------------- *)
Inductive rhs := RVal (v : value) | RDefault | RParam (n : str) | RComplex.
Inductive scope := ScSession | ScLocal | ScOther.
Inductive item :=
| IVar (uservar : bool) (sc : scope) (name : str) (r : rhs)
| ICharset (cs : option str)                        (* None: DEFAULT *)
| INames (cs : option str) (collate : option str)
| ITransaction (chars : list nat)
| IOther.

(* _replace_variables_middleware on a SET: @@x on the right of every assignment is replaced by its current value
   before any assignment of the statement is carried out *)
Definition resolve_item (st : store) (i : item) : res item :=
  match i with
  | IVar uv sc n (RParam p) => match vget st p with Ok v => Ok (IVar uv sc n (RVal v)) | Err e => Err e end
  | _ => Ok i
  end.
Fixpoint resolve_items (st : store) (l : list item) : res (list item) :=
  match l with
  | [] => Ok []
  | i :: r => match resolve_item st i with
              | Err e => Err e
              | Ok i' => match resolve_items st r with Ok r' => Ok (i' :: r') | Err e => Err e end
              end
  end.

(* a sequence of Variables.set calls; stops at the first exception and keeps what was done before it *)
Fixpoint vsets (st : store) (l : list (str * sval)) : store * option err :=
  match l with
  | [] => (st, None)
  | (n, v) :: r => match vset st n v false with Ok st' => vsets st' r | Err e => (st, Some e) end
  end.

Definition exec_item (st : store) (i : item) : store * option err :=
  match i with
  | IVar uv sc n r =>
      if uv then (st, Some EUserVar) else
      match r with
      | RComplex | RParam _ => (st, Some EComplex)
      | RVal _ | RDefault =>
          match sc with
          | ScOther => (st, Some EScope)
          | _ => vsets st [(n, match r with RVal v => SVal v | _ => SDefault end)]
          end
      end
  | ICharset None => vsets st [(n_cs_client, SDefault); (n_cs_results, SDefault); (n_cs_connection, SDefault)]
  | ICharset (Some cs) =>
      match vget st n_cs_database with
      | Err e => (st, Some e)
      | Ok conn => vsets st [(n_cs_client, SVal (VStr cs)); (n_cs_results, SVal (VStr cs)); (n_cs_connection, SVal conn)]
      end
  | INames None _ => vsets st [(n_cs_client, SDefault); (n_cs_connection, SDefault); (n_cs_results, SDefault); (n_coll_connection, SDefault)]
  | INames (Some cs) coll =>
      match (match coll with Some c => Some c | None => default_collation cs end) with
      | None => (st, Some ECharset)
      | Some c => vsets st [(n_cs_client, SVal (VStr cs)); (n_cs_connection, SVal (VStr cs)); (n_cs_results, SVal (VStr cs));
                            (n_coll_connection, SVal (VStr c))]
      end
  | ITransaction chars =>
      (fix go (st : store) (cs : list nat) : store * option err :=
         match cs with
         | [] => (st, None)
         | c :: r => match nth_error tx_table c with
                     | None => (st, Some EKind)
                     | Some (n, v) => match vset st n (SVal v) false with Ok st' => go st' r | Err e => (st, Some e) end
                     end
         end) st chars
  | IOther => (st, Some EKind)
  end.

Fixpoint exec_items (st : store) (l : list item) : store * option err :=
  match l with
  | [] => (st, None)
  | i :: r => match exec_item st i with (st', None) => exec_items st' r | (st', Some e) => (st', Some e) end
  end.

(* a SET statement is applied as a whole or not at all: if one of its assignments is refused, the assignments
   made before it are taken back (_set_middleware restores the values it found) *)
Definition set_statement (st : store) (items : list item) : store * option err :=
  match resolve_items st items with
  | Err e => (st, Some e)
  | Ok items' => match exec_items st items' with
                 | (st', None) => (st', None)
                 | (_, Some e) => (st, Some e)
                 end
  end.

(* ---- SET_VAR hints ------------------------------------------------------------------------------------------------ *)
(* hints in the order find_all reports them (outermost first); each: the assignments of its SET_VAR(...) calls.
   The dict is filled from the innermost hint outwards, so an outer assignment overrides an inner one. *)
Definition hint_rhs (r : rhs) : res sval :=
  match r with RVal v => Ok (SVal v) | RDefault => Ok SDefault | RParam _ | RComplex => Err EComplex end.
Fixpoint assignments (l : list (str * rhs)) (acc : list (str * sval)) : res (list (str * sval)) :=
  match l with
  | [] => Ok acc
  | (k, r) :: rest => match hint_rhs r with Err e => Err e | Ok v => assignments rest (update k v acc) end
  end.
Fixpoint originals (st : store) (keys : list str) : res (list (str * sval)) :=
  match keys with
  | [] => Ok []
  | k :: r => match vget st k with
              | Err e => Err e
              | Ok v => match originals st r with Ok o => Ok ((k, SVal v) :: o) | Err e => Err e end
              end
  end.

(* the statement under the hint: a read of variables answered by the library, or an application statement (the
   application reads some variables while it runs - it does not assign any: it is outside the model - and returns or raises) *)
Inductive inner := InGet (names : list str) | InApp (names : list str) (ok : bool).
Fixpoint vgets (st : store) (names : list str) : res (list value) :=
  match names with
  | [] => Ok []
  | n :: r => match vget st n with
              | Err e => Err e
              | Ok v => match vgets st r with Ok vs => Ok (v :: vs) | Err e => Err e end
              end
  end.
Definition run_inner (st : store) (i : inner) : res (list value) :=
  match i with InGet names => vgets st names | InApp names true => vgets st names | InApp _ false => Err EApp end.

(* one activation of _set_var_middleware: read the originals, assign, run the rest of the chain, restore in `finally` *)
Definition block (st : store) (calls : list (str * rhs)) (body : store -> store * res (list value)) : store * res (list value) :=
  match assignments calls [] with
  | Err e => (st, Err e)
  | Ok asg =>
      match originals st (map fst asg) with
      | Err e => (st, Err e)
      | Ok orig =>
          let '(st1, e1) := vsets st asg in
          let '(stb, r) := match e1 with Some e => (st1, Err e) | None => body st1 end in
          let '(st2, e2) := vsets stb orig in          (* finally: restore, in the same order *)
          (st2, match e2 with Some e => Err e | None => r end)
      end
  end.

(* hints: per hint comment (outermost first) its SET_VAR calls, each with its assignments.  Query.start hands the
   whole middleware list to the first middleware and Query.next calls that first middleware once more, so
   _set_var_middleware is activated twice; its first activation removes only the LAST SET_VAR call of every hint,
   the second one therefore applies the remaining calls again, inside the first. *)
Definition pass1 (hints : list (list (list (str * rhs)))) : list (str * rhs) := concat (rev (map (@concat _) hints)).
Definition pass2 (hints : list (list (list (str * rhs)))) : list (str * rhs) := concat (rev (map (fun h => concat (removelast h)) hints)).

Definition hinted (st : store) (hints : list (list (list (str * rhs)))) (i : inner) : store * res (list value) :=
  block st (pass1 hints) (fun st1 => block st1 (pass2 hints) (fun st2 => (st2, run_inner st2 i))).

(* ---- operations of one session ----------------------------------------------------------------------------------- *)
Inductive op :=
| OSet (items : list item)
| OHinted (hints : list (list (list (str * rhs)))) (i : inner)
| OGet (names : list str)
| OShow
| OServerSet (name : str) (v : sval) (force : bool).     (* the connection itself: client charset, external_user *)

Inductive outcome := Done | Failed (e : err) | Values (vs : list value) | Listing (l : list (str * option str)).

Definition step (st : store) (o : op) : store * outcome :=
  match o with
  | OSet items => let '(st', e) := set_statement st items in (st', match e with None => Done | Some x => Failed x end)
  | OHinted hints i => let '(st', r) := hinted st hints i in (st', match r with Ok vs => Values vs | Err e => Failed e end)
  | OGet names => (st, match vgets st names with Ok vs => Values vs | Err e => Failed e end)
  | OShow => (st, Listing (map (fun nv => (fst nv, match snd nv with Ok v => show_value v | Err _ => None end)) (vlist st)))
  | OServerSet n v f => match vset st n v f with Ok st' => (st', Done) | Err e => (st, Failed e) end
  end.

Definition client_op (o : op) : bool := match o with OServerSet _ _ _ => false | _ => true end.

Definition run (st : store) (ops : list op) : store * list outcome :=
  fold_left (fun acc o => let '(s1, r) := step (fst acc) o in (s1, snd acc ++ [r])) ops (st, []).

(* the session works: its time zone parses, its character sets exist, and the one its client declared can carry the
   protocol's NUL-terminated strings *)
Definition operational (st : store) : bool :=
  match vget st n_time_zone with Ok (VStr s) => match parse_tz s with Some _ => true | None => false end | _ => false end &&
  match vget st n_cs_client with Ok (VStr s) => existsb (str_eqb s) usable_charsets && negb (existsb (str_eqb s) not_for_clients) | _ => false end &&
  match vget st n_cs_results with Ok (VStr s) => existsb (str_eqb s) usable_charsets | _ => false end.
End Vars.
