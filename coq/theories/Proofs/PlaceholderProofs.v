From Coq Require Import List NArith ZArith Lia Bool.
From MM Require Import Lib.Bytes Model.Placeholders.
Import ListNotations.
Open Scope N_scope.

(* ---- the one-pass scanner computes the regex's look-ahead condition --------------------------- *)
Lemma scan_spec t : scan t = (spec_flags t, Nat.even (count_quotes t)).
Proof.
  induction t as [|c r IH]; [reflexivity|].
  cbn [scan spec_flags]. rewrite IH. unfold count_quotes. cbn [filter].
  destruct (is_quote c) eqn:Q.
  - cbn [length]. rewrite Nat.even_succ, <- Nat.negb_even. f_equal. f_equal.
    unfold is_quote, QMARK, DQUOTE, QUOTE, BTICK in *.
    destruct (N.eqb_spec c 63) as [->|]; [discriminate Q|reflexivity].
  - reflexivity.
Qed.

Theorem flags_spec t : flags t = spec_flags t.
Proof. unfold flags. now rewrite scan_spec. Qed.

(* ---- string literals denote exactly their contents ------------------------------------------ *)
Definition not_quote_start (rest : text) : Prop :=
  match rest with [] => True | c :: _ => c <> QUOTE end.

Lemma lex_body_escape s rest : not_quote_start rest ->
  lex_body (escape s ++ QUOTE :: rest) = Some (s, rest).
Proof.
  intros Hr. induction s as [|c s IH].
  - cbn [escape flat_map app lex_body]. rewrite N.eqb_refl.
    destruct rest as [|c2 r2]; [reflexivity|].
    cbn in Hr. destruct (N.eqb_spec c2 QUOTE); [contradiction|reflexivity].
  - unfold escape in *. cbn [flat_map].
    destruct (N.eqb_spec c BSLASH) as [->|Hb].
    + cbn [app lex_body]. change (BSLASH =? QUOTE) with false. cbn match.
      rewrite N.eqb_refl. rewrite IH. reflexivity.
    + destruct (N.eqb_spec c QUOTE) as [->|Hq].
      * cbn [app lex_body]. rewrite !N.eqb_refl. rewrite IH. reflexivity.
      * cbn [app lex_body]. destruct (N.eqb_spec c QUOTE); [contradiction|].
        destruct (N.eqb_spec c BSLASH); [contradiction|]. rewrite IH. reflexivity.
Qed.

Theorem literal_is_data s rest : not_quote_start rest ->
  lex_literal (quote_string s ++ rest) = Some (s, rest).
Proof.
  intros Hr. unfold quote_string, lex_literal. cbn [app]. rewrite N.eqb_refl.
  rewrite <- app_assoc. cbn [app]. now apply lex_body_escape.
Qed.

(* ---- on the grammar, the recognised positions are exactly the holes ------------------------------ *)
Lemma scan_plain t b : forallb (fun c => negb (is_quote c) && negb (c =? QMARK)) t = true ->
  scan (t ++ b) = (repeat false (length t) ++ fst (scan b), snd (scan b)).
Proof.
  induction t as [|c t IH]; intros H; cbn [app length repeat].
  - now destruct (scan b).
  - cbn [forallb] in H. apply andb_prop in H. destruct H as [H1 H2].
    apply andb_prop in H1. destruct H1 as [Hq Hm].
    cbn [scan]. rewrite IH by assumption. apply negb_true_iff in Hq, Hm. rewrite Hq, Hm. reflexivity.
Qed.

Lemma scan_noquote t b : forallb (fun c => negb (is_quote c)) t = true -> snd (scan b) = false ->
  scan (t ++ b) = (repeat false (length t) ++ fst (scan b), false).
Proof.
  induction t as [|c t IH]; intros H Hb; cbn [app length repeat].
  - destruct (scan b); cbn in *; now subst.
  - cbn [forallb] in H. apply andb_prop in H. destruct H as [Hq H2].
    cbn [scan]. rewrite IH by assumption. apply negb_true_iff in Hq. rewrite Hq.
    now rewrite andb_false_r.
Qed.

Lemma scan_seg s b : seg_ok s = true -> snd (scan b) = true ->
  scan (render_seg s ++ b) = (seg_flags s ++ fst (scan b), true).
Proof.
  intros Hs Hb. destruct s as [t| |q body]; cbn [render_seg seg_flags seg_ok] in *.
  - rewrite scan_plain by assumption. now rewrite Hb.
  - cbn [app scan]. destruct (scan b) as [fb eb]; cbn in *; subst. reflexivity.
  - apply andb_prop in Hs. destruct Hs as [Hq Hbody].
    cbn [app scan]. rewrite <- app_assoc.
    assert (E : scan ([q] ++ b) = (false :: fst (scan b), false)).
    { cbn [app scan]. destruct (scan b) as [fb eb]; cbn in *; subst. now rewrite Hq. }
    rewrite scan_noquote; [|assumption|now rewrite E].
    rewrite E, Hq. cbn [fst negb app]. now rewrite <- app_assoc.
Qed.

Lemma scan_render tpl : forallb seg_ok tpl = true ->
  scan (render tpl) = (hole_flags tpl, true).
Proof.
  induction tpl as [|s tpl IH]; intros H; [reflexivity|].
  cbn [forallb] in H. apply andb_prop in H. destruct H as [Hs Ht].
  unfold render, hole_flags in *. cbn [flat_map].
  rewrite scan_seg; [|assumption|now rewrite IH]. now rewrite IH.
Qed.

Theorem placeholders_are_holes tpl : forallb seg_ok tpl = true -> flags (render tpl) = hole_flags tpl.
Proof. intros H. unfold flags. now rewrite scan_render. Qed.

Lemma count_hole_flags tpl : length (filter (fun b : bool => b) (hole_flags tpl)) = holes tpl.
Proof.
  induction tpl as [|s tpl IH]; [reflexivity|].
  unfold hole_flags, holes in *. cbn [flat_map filter]. rewrite filter_app, app_length, IH.
  destruct s as [t| |q b]; cbn [seg_flags].
  - assert (F : forall n, filter (fun b : bool => b) (repeat false n) = []) by (induction n; auto).
    rewrite F. reflexivity.
  - reflexivity.
  - assert (F : forall n, filter (fun b : bool => b) (repeat false n) = []) by (induction n; auto).
    cbn [filter]. rewrite filter_app, F. reflexivity.
Qed.

Theorem count_params_is_holes tpl : forallb seg_ok tpl = true ->
  count_params (render tpl) = N.of_nat (holes tpl).
Proof. intros H. unfold count_params, len. now rewrite placeholders_are_holes, count_hole_flags. Qed.

(* ---- interpolation fills the holes in order and leaves every other character alone --------------- *)
Lemma splice_false t r fr vals :
  splice (t ++ r) (repeat false (length t) ++ fr) vals = t ++ splice r fr vals.
Proof. induction t as [|c t IH]; [reflexivity|]. cbn [app length repeat splice]. now rewrite IH. Qed.

Lemma splice_fill tpl : forall lits,
  splice (render tpl) (hole_flags tpl) lits = fill tpl lits.
Proof.
  induction tpl as [|s tpl IH]; intros lits; [reflexivity|].
  unfold render, hole_flags in *. cbn [flat_map].
  destruct s as [t| |q b]; cbn [render_seg seg_flags fill].
  - rewrite splice_false. now rewrite IH.
  - cbn [app splice]. destruct lits as [|l ls]; now rewrite IH.
  - replace (q :: b ++ [q]) with ((q :: b ++ [q]) ++ []) at 1 by apply app_nil_r.
    change (false :: repeat false (length b) ++ [false]) with (repeat false 1 ++ repeat false (length b) ++ repeat false 1).
    rewrite <- !repeat_app.
    replace (1 + (length b + 1))%nat with (length (q :: b ++ [q])) by (cbn [length]; rewrite app_length; cbn; lia).
    rewrite app_nil_r. rewrite splice_false. now rewrite IH.
Qed.

Theorem interpolate_spec tpl vals : forallb seg_ok tpl = true ->
  interpolate (render tpl) vals = fill tpl (map render_param vals).
Proof. intros H. unfold interpolate. rewrite placeholders_are_holes by assumption. apply splice_fill. Qed.
