From Coq Require Import List NArith ZArith Lia Bool.
From MM Require Import Lib.Bytes Model.Placeholders.
Import ListNotations.
Open Scope N_scope.

(* ---- string literals denote exactly their contents ------------------------------------------ *)
Definition not_quote_start (rest : text) : Prop :=
  match rest with [] => True | c :: _ => c <> QUOTE end.

Lemma lex_body_escape s rest : not_quote_start rest ->
  lex_body (escape s ++ QUOTE :: rest) = Some (s, rest).
Proof.
  intros Hr. induction s as [|c s IH].
  - cbn [escape flat_map app lex_body]. rewrite N.eqb_refl.
    destruct rest as [|c2 r2]; [reflexivity|].
    cbn in Hr. destruct (N.eqb_spec c2 QUOTE); [contradiction|reflexivity].
  - unfold escape in *. cbn [flat_map].
    destruct (N.eqb_spec c BSLASH) as [->|Hb].
    + cbn [app lex_body]. change (BSLASH =? QUOTE) with false. cbn match.
      rewrite N.eqb_refl. rewrite IH. reflexivity.
    + destruct (N.eqb_spec c QUOTE) as [->|Hq].
      * cbn [app lex_body]. rewrite !N.eqb_refl. rewrite IH. reflexivity.
      * cbn [app lex_body]. destruct (N.eqb_spec c QUOTE); [contradiction|].
        destruct (N.eqb_spec c BSLASH); [contradiction|]. rewrite IH. reflexivity.
Qed.

Theorem literal_is_data s rest : not_quote_start rest ->
  lex_literal (quote_string s ++ rest) = Some (s, rest).
Proof.
  intros Hr. unfold quote_string, lex_literal. cbn [app]. rewrite N.eqb_refl.
  rewrite <- app_assoc. cbn [app]. now apply lex_body_escape.
Qed.

(* ---- on the grammar, the recognised positions are exactly the holes ------------------------------ *)
Lemma scanf_plain t b : forallb (fun c => negb (is_quote c) && negb (c =? QMARK)) t = true ->
  scanf None false (t ++ b) = repeat false (length t) ++ scanf None false b.
Proof.
  induction t as [|c t IH]; intros H; cbn [app length repeat]; [reflexivity|].
  cbn [forallb] in H. apply andb_prop in H. destruct H as [H1 H2].
  apply andb_prop in H1. destruct H1 as [Hq Hm]. apply negb_true_iff in Hq, Hm.
  cbn [scanf]. rewrite Hq, Hm, IH by assumption. reflexivity.
Qed.

Lemma quote_not_bslash q : is_quote q = true -> (BSLASH =? q) = false.
Proof.
  unfold is_quote, BSLASH, DQUOTE, QUOTE, BTICK. intros H.
  destruct (N.eqb_spec 92 q) as [<-|]; [discriminate H|reflexivity].
Qed.

(* inside a quoted segment nothing is a placeholder and the scan leaves it exactly at the closing quote *)
Lemma scanf_body q body b : is_quote q = true -> forallb (item_ok q) body = true ->
  scanf (Some q) false (render_body body ++ q :: b) =
  repeat false (length (render_body body)) ++ false :: scanf None false b.
Proof.
  intros Hq. induction body as [|i body IH]; intros H.
  - cbn [render_body flat_map app length repeat scanf]. now rewrite N.eqb_refl.
  - cbn [forallb] in H. apply andb_prop in H. destruct H as [Hi Hb]. specialize (IH Hb).
    unfold render_body in *. cbn [flat_map]. destruct i as [c|c]; cbn [render_item item_ok] in *.
    + apply andb_prop in Hi. destruct Hi as [Hc He]. apply negb_true_iff in Hc.
      cbn [app length repeat scanf]. rewrite Hc.
      assert (E : (c =? BSLASH) && negb (q =? BTICK) = false).
      { destruct (q =? BTICK); [apply andb_false_r|]. cbn in He. apply negb_true_iff in He. now rewrite He. }
      rewrite E, IH. reflexivity.
    + apply negb_true_iff in Hi.
      cbn [app length repeat scanf]. rewrite (quote_not_bslash q Hq), N.eqb_refl, Hi. cbn [negb andb].
      rewrite IH. reflexivity.
Qed.

Lemma scanf_seg s b : seg_ok s = true ->
  scanf None false (render_seg s ++ b) = seg_flags s ++ scanf None false b.
Proof.
  intros Hs. destruct s as [t| |q body]; cbn [render_seg seg_flags seg_ok] in *.
  - now apply scanf_plain.
  - reflexivity.
  - apply andb_prop in Hs. destruct Hs as [Hq Hbody].
    cbn [app scanf]. rewrite Hq. rewrite <- app_assoc. cbn [app].
    rewrite scanf_body by assumption. rewrite <- app_assoc. reflexivity.
Qed.

Lemma scan_render tpl : forallb seg_ok tpl = true -> scanf None false (render tpl) = hole_flags tpl.
Proof.
  induction tpl as [|s tpl IH]; intros H; [reflexivity|].
  cbn [forallb] in H. apply andb_prop in H. destruct H as [Hs Ht].
  unfold render, hole_flags in *. cbn [flat_map].
  rewrite scanf_seg by assumption. now rewrite IH.
Qed.

Theorem placeholders_are_holes tpl : forallb seg_ok tpl = true -> flags (render tpl) = hole_flags tpl.
Proof. intros H. unfold flags. now apply scan_render. Qed.

(* one flag per character, and only a question mark is ever flagged: whatever the text - grammatical or not, quotes
   unbalanced, a dangling backslash - interpolation touches nothing but question marks *)
Lemma scanf_length t : forall o e, length (scanf o e t) = length t.
Proof.
  induction t as [|c t IH]; intros o e; [reflexivity|]. cbn [scanf length].
  destruct e; [cbn [length]; now rewrite IH|].
  destruct o as [q|].
  - destruct (c =? q); [|destruct ((c =? BSLASH) && negb (q =? BTICK))]; cbn [length]; now rewrite IH.
  - destruct (is_quote c); cbn [length]; now rewrite IH.
Qed.

Lemma scanf_only_qmarks t : forall o e i, nth i (scanf o e t) false = true -> nth i t 0 = QMARK.
Proof.
  induction t as [|c t IH]; intros o e i H.
  - destruct i; discriminate H.
  - cbn [scanf] in H.
    assert (G : forall fl, (forall j, nth j fl false = true -> nth j t 0 = QMARK) ->
                nth i (false :: fl) false = true -> nth i (c :: t) 0 = QMARK).
    { intros fl Hfl Hn. destruct i as [|j]; [discriminate Hn|]. cbn [nth] in *. now apply Hfl. }
    destruct e; [refine (G _ _ H); intros j; apply IH|].
    destruct o as [q|].
    + destruct (c =? q); [refine (G _ _ H); intros j; apply IH|].
      destruct ((c =? BSLASH) && negb (q =? BTICK)); refine (G _ _ H); intros j; apply IH.
    + destruct (is_quote c); [refine (G _ _ H); intros j; apply IH|].
      destruct i as [|j]; cbn [nth] in *.
      * now apply N.eqb_eq in H.
      * now apply (IH None false).
Qed.

Lemma count_hole_flags tpl : length (filter (fun b : bool => b) (hole_flags tpl)) = holes tpl.
Proof.
  induction tpl as [|s tpl IH]; [reflexivity|].
  unfold hole_flags, holes in *. cbn [flat_map filter]. rewrite filter_app, app_length, IH.
  destruct s as [t| |q b]; cbn [seg_flags].
  - assert (F : forall n, filter (fun b : bool => b) (repeat false n) = []) by (induction n; auto).
    rewrite F. reflexivity.
  - reflexivity.
  - assert (F : forall n, filter (fun b : bool => b) (repeat false n) = []) by (induction n; auto).
    cbn [filter]. rewrite filter_app, F. reflexivity.
Qed.

Theorem count_params_is_holes tpl : forallb seg_ok tpl = true ->
  count_params (render tpl) = N.of_nat (holes tpl).
Proof. intros H. unfold count_params, len. now rewrite placeholders_are_holes, count_hole_flags. Qed.

(* ---- interpolation fills the holes in order and leaves every other character alone --------------- *)
Lemma splice_false t r fr vals :
  splice (t ++ r) (repeat false (length t) ++ fr) vals = t ++ splice r fr vals.
Proof. induction t as [|c t IH]; [reflexivity|]. cbn [app length repeat splice]. now rewrite IH. Qed.

Lemma splice_fill tpl : forall lits,
  splice (render tpl) (hole_flags tpl) lits = fill tpl lits.
Proof.
  induction tpl as [|s tpl IH]; intros lits; [reflexivity|].
  unfold render, hole_flags in *. cbn [flat_map].
  destruct s as [t| |q b]; cbn [render_seg seg_flags fill].
  - rewrite splice_false. now rewrite IH.
  - cbn [app splice]. destruct lits as [|l ls]; now rewrite IH.
  - set (bb := render_body b).
    replace (q :: bb ++ [q]) with ((q :: bb ++ [q]) ++ []) at 1 by apply app_nil_r.
    change (false :: repeat false (length bb) ++ [false]) with (repeat false 1 ++ repeat false (length bb) ++ repeat false 1).
    rewrite <- !repeat_app.
    replace (1 + (length bb + 1))%nat with (length (q :: bb ++ [q])) by (cbn [length]; rewrite app_length; cbn; lia).
    rewrite app_nil_r. rewrite splice_false. now rewrite IH.
Qed.

Theorem interpolate_spec tpl vals : forallb seg_ok tpl = true ->
  interpolate (render tpl) vals = fill tpl (map render_param vals).
Proof. intros H. unfold interpolate. rewrite placeholders_are_holes by assumption. apply splice_fill. Qed.
