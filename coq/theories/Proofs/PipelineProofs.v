(* Proofs/PipelineProofs.v - conversations in which the client does NOT wait for the prompt.
   A command that arrives while the server is busy waits in the queue (Proofs/DeferProofs.v: the run is the one without it,
   and the command is handed over when the server is back at its prompt).  So every conversation - commands at any time,
   any application outcomes, any schedule - is executed as the lock-step conversation `execp` in which each command is
   handed over at a prompt, and the monitor of Proofs/C03Proofs.v, restarted at every hand-over, never rejects and accepts
   at every hand-over: the stream a pipelining client receives is the concatenation of complete, well-formed responses in
   the order of its commands, the last one possibly still in progress. *)
From Coq Require Import List Arith NArith Lia Bool.
From MM Require Import Lib.Bytes Model.Conn Model.Resp Proofs.C10Proofs Proofs.ConnInv3 Proofs.FuelProofs Proofs.C03Proofs Proofs.DeferProofs.
Import ListNotations.
Open Scope N_scope.

Section Pipeline.
Variable B BATCH : N.
Variable dep : bool.
Notation step := (step B BATCH).
Notation exec := (exec B BATCH).
Notation Tq := DeferProofs.Tq.
Notation is_prompt := DeferProofs.is_prompt.
Notation good rk := (good3 mon (Qs BATCH dep rk) Qdone Qweak).

Definition nbad (rs : rstate) : bool := match rs with RBad => false | _ => true end.

(* commands handed over one by one while the server is at its prompt; the monitor restarts at each hand-over and has to
   be accepting there *)
Fixpoint drain (rk : rkind) (m : mon) (s : st) (D : list cmd) : rkind * mon * st * list cmd * list out * bool :=
  if is_prompt s then
    match D with
    | [] => (rk, m, s, [], [], true)
    | d :: D' =>
        let '(s1, o1) := step s (EvPayload d) in
        let '(rk2, m2, s2, D2, o2, v2) := drain (rkind_of d) (mrun mon (mstep dep (rkind_of d)) m0 o1) s1 D' in
        (rk2, m2, s2, D2, o1 ++ o2, accepting rk (m_rs m) && v2)
    end
  else (rk, m, s, D, [], true).

(* the conversation as the server executes it *)
Fixpoint execp (rk : rkind) (m : mon) (s : st) (D : list cmd) (evs : list ev) : rkind * mon * st * list cmd * list out * bool :=
  match evs with
  | [] => (rk, m, s, D, [], nbad (m_rs m))
  | EvPayload c :: r =>
      if is_prompt s then
        let '(s1, o1) := step s (EvPayload c) in
        let '(rk2, m2, s2, D2, o2, v2) := execp (rkind_of c) (mrun mon (mstep dep (rkind_of c)) m0 o1) s1 D r in
        (rk2, m2, s2, D2, o1 ++ o2, accepting rk (m_rs m) && v2)
      else execp rk m s (D ++ [c]) r
  | e :: r =>
      let '(s1, o1) := step s e in
      let '(rk2, m2, s2, D2, o2, v2) := drain rk (mrun mon (mstep dep rk) m o1) s1 D in
      let '(rk3, m3, s3, D3, o3, v3) := execp rk2 m2 s2 D2 r in
      (rk3, m3, s3, D3, o1 ++ o2 ++ o3, v2 && v3)
  end.

(* which conversations: application outcomes / loop / socket / exchange events as in the lock-step theorem; commands (with
   the placeholder count they announce) at any moment at which the connection is alive and not inside the authentication
   exchange of a COM_CHANGE_USER (a packet sent then IS the exchange's reply; for the same reason COM_CHANGE_USER itself is
   only sent at the prompt, with nothing queued behind which its exchange would read) *)
Definition takes_commands (s : st) : Prop :=
  match ctl_ s with
  | Susp w _ f _ => f <> FChangeUser /\ (w = WRead -> f = FRead)
  | _ => False
  end.

Fixpoint pvalid (s : st) (D : list cmd) (evs : list ev) : Prop :=
  match evs with
  | [] => True
  | EvPayload c :: r =>
      cmd_ok c /\ (c = CChangeUser -> is_prompt s = true) /\ takes_commands s /\
      (if is_prompt s then pvalid (fst (step s (EvPayload c))) D r else pvalid s (D ++ [c]) r)
  | e :: r =>
      allowed e /\
      (let '(s1, _) := step s e in
       let '(_, _, s2, D2, _, _) := drain RKOk m0 s1 D in pvalid s2 D2 r)
  end.

(* ---- hand-over --------------------------------------------------------------------------------------------------------------- *)
Lemma is_prompt_ctl s : is_prompt s = true -> exists ic, ctl_ s = Susp WRead [] FRead ic.
Proof.
  unfold DeferProofs.is_prompt. destruct (ctl_ s) as [w k f ic| |]; try discriminate.
  destruct w; try discriminate. destruct k; try discriminate. destruct f; try discriminate. intros _. eauto.
Qed.

Lemma good_prompt' rk m s : good rk m s -> is_prompt s = true -> accepting rk (m_rs m) = true /\ quiescent dep s.
Proof.
  intros G P. destruct (is_prompt_ctl s P) as [ic E]. unfold good3 in G. rewrite E in G. cbn [Qs] in G. split; apply G.
Qed.

(* the state and the list of waiting commands do not depend on the monitor the function is started with *)
Lemma drain_indep rk m rk' m' s D :
  let '(_, _, s2, D2, o2, _) := drain rk m s D in
  let '(_, _, s2', D2', o2', _) := drain rk' m' s D in s2' = s2 /\ D2' = D2 /\ o2' = o2.
Proof.
  revert rk m rk' m' s. induction D as [|d D' IH]; intros rk m rk' m' s; cbn [drain]; destruct (is_prompt s); auto.
  destruct (step s (EvPayload d)) as [s1 o1].
  specialize (IH (rkind_of d) (mrun mon (mstep dep (rkind_of d)) m0 o1) (rkind_of d) (mrun mon (mstep dep (rkind_of d)) m0 o1) s1).
  destruct (drain (rkind_of d) (mrun mon (mstep dep (rkind_of d)) m0 o1) s1 D') as [[[[[rk2 m2] s2] D2] o2] v2]. auto.
Qed.

Lemma drain_np rk m s D : is_prompt s = false -> drain rk m s D = (rk, m, s, D, [], true).
Proof. intros H. destruct D; cbn [drain]; now rewrite H. Qed.

Lemma drain_good : forall D rk m s, good rk m s -> Forall cmd_ok D ->
  let '(rk2, m2, s2, D2, o2, v2) := drain rk m s D in
  good rk2 m2 s2 /\ (is_prompt s2 = true -> D2 = []) /\ Forall cmd_ok D2 /\ v2 = true.
Proof.
  induction D as [|d D' IH]; intros rk m s G HD; cbn [drain].
  - destruct (is_prompt s) eqn:P; repeat split; auto.
  - destruct (is_prompt s) eqn:P; [|repeat split; auto; congruence].
    inversion HD as [|? ? Hd HD']; subst.
    destruct (good_prompt' rk m s G P) as [A Q]. destruct (is_prompt_ctl s P) as [ic E].
    pose proof (round_start B BATCH dep (rkind_of d) d s ic eq_refl Hd Q E) as S1. unfold ok3 in S1.
    destruct (step s (EvPayload d)) as [s1 o1]. cbn [fst snd] in S1.
    specialize (IH (rkind_of d) _ s1 S1 HD').
    destruct (drain (rkind_of d) (mrun mon (mstep dep (rkind_of d)) m0 o1) s1 D') as [[[[[rk2 m2] s2] D2] o2] v2].
    destruct IH as (I1 & I2 & I3 & I4). rewrite A, I4. repeat split; auto.
Qed.

(* DeferProofs' hand-over is this one *)
Lemma drainq_drain : forall D rk m s, is_prompt s = true ->
  DeferProofs.drainq B BATCH s D = (let '(_, _, s2, D2, o2, _) := drain rk m s D in (Tq D2 s2, o2)).
Proof.
  induction D as [|d D' IH]; intros rk m s P; cbn [DeferProofs.drainq drain]; rewrite P.
  - now rewrite Tq_nil.
  - destruct (step s (EvPayload d)) as [s1 o1]. destruct (is_prompt s1) eqn:P1.
    + rewrite (IH (rkind_of d) (mrun mon (mstep dep (rkind_of d)) m0 o1) s1 P1).
      destruct (drain (rkind_of d) (mrun mon (mstep dep (rkind_of d)) m0 o1) s1 D') as [[[[[rk2 m2] s2] D2] o2] v2]. reflexivity.
    + rewrite drain_np by exact P1. now rewrite app_nil_r.
Qed.

Lemma defer_drain rk m s o D :
  DeferProofs.defer B BATCH (s, o) D = (let '(_, _, s2, D2, o2, _) := drain rk m s D in (Tq D2 s2, o ++ o2)).
Proof.
  unfold DeferProofs.defer. cbn [fst snd]. destruct (is_prompt s) eqn:P.
  - rewrite (drainq_drain D rk m s P). destruct (drain rk m s D) as [[[[[rk2 m2] s2] D2] o2] v2]. reflexivity.
  - rewrite drain_np by exact P. now rewrite app_nil_r.
Qed.

(* ---- one event of the real conversation ---------------------------------------------------------------------------------- *)
Lemma allowed_quiet e : allowed e -> quiet e.
Proof. destruct e; cbn; auto. Qed.

Lemma step_defer_good rk m s D e : good rk m s -> allowed e -> (is_prompt s = true -> D = []) ->
  step (Tq D s) e = DeferProofs.defer B BATCH (step s e) D.
Proof.
  intros G Ha HD. destruct (is_prompt s) eqn:P.
  - rewrite (HD eq_refl), Tq_nil. destruct (step s e). now rewrite defer_nil.
  - pose proof (good_shape BATCH dep rk m s G) as GS. destruct (ctl_ s) as [w k f ic| |] eqn:Ec.
    + destruct GS as [I S]. apply step_defer; [now apply allowed_quiet|exact I|unfold shaped; now rewrite Ec|exact P].
    + unfold Conn.step. cbn [ctl_ DeferProofs.Tq set_inq]. rewrite Ec. rewrite defer_np by exact P. reflexivity.
    + unfold Conn.step. cbn [ctl_ DeferProofs.Tq set_inq]. rewrite Ec. rewrite defer_np by exact P. reflexivity.
Qed.

Lemma payload_queued rk m s D c : good rk m s -> takes_commands s -> is_prompt s = false ->
  step (Tq D s) (EvPayload c) = (Tq (D ++ [c]) s, []).
Proof.
  intros G T P. pose proof (good_shape BATCH dep rk m s G) as GS. unfold takes_commands in T.
  unfold Conn.step. cbn [ctl_ DeferProofs.Tq set_inq].
  destruct (ctl_ s) as [w k f ic| |] eqn:Ec; try contradiction. destruct T as [_ T].
  destruct GS as [[I1 I2] S]. cbn [phase DeferProofs.Tq set_inq]. rewrite I1.
  destruct w.
  1: { (* WRead: by takes_commands the frame is FRead, i.e. the prompt shape - but the state is not at its prompt *)
    specialize (T eq_refl). subst f. destruct (S eq_refl) as [_ ->]. exfalso.
    unfold good3 in G. rewrite Ec in G. cbn [Qs] in G. destruct G as (_ & Q & _).
    unfold DeferProofs.is_prompt in P. rewrite Ec in P. assert (Hq : inq s = []) by apply Q. rewrite Hq in P. discriminate. }
  all: (f_equal; unfold DeferProofs.Tq; cbn [inq set_inq]; now rewrite <- app_assoc).
Qed.

Definition not_payload (e : ev) : Prop := match e with EvPayload _ => False | _ => True end.

Lemma execp_other rk m s D e r : not_payload e ->
  execp rk m s D (e :: r) =
  (let '(s1, o1) := step s e in
   let '(rk2, m2, s2, D2, o2, v2) := drain rk (mrun mon (mstep dep rk) m o1) s1 D in
   let '(rk3, m3, s3, D3, o3, v3) := execp rk2 m2 s2 D2 r in (rk3, m3, s3, D3, o1 ++ o2 ++ o3, v2 && v3)).
Proof. destruct e; cbn [not_payload]; try contradiction; reflexivity. Qed.

Lemma pvalid_other s D e r : not_payload e ->
  pvalid s D (e :: r) =
  (allowed e /\ (let '(s1, _) := step s e in let '(_, _, s2, D2, _, _) := drain RKOk m0 s1 D in pvalid s2 D2 r)).
Proof. destruct e; cbn [not_payload]; try contradiction; reflexivity. Qed.

(* ---- the theorem ------------------------------------------------------------------------------------------------------------- *)
Theorem pipelined : forall evs rk m s D,
  good rk m s -> (is_prompt s = true -> D = []) -> Forall cmd_ok D -> pvalid s D evs ->
  let '(rk', m', s', D', o, v) := execp rk m s D evs in
  exec (Tq D s) evs = (Tq D' s', o) /\ good rk' m' s' /\ v = true.
Proof.
  induction evs as [|e r IH]; intros rk m s D G HD HC HV.
  - cbn [execp C10Proofs.exec]. repeat split; auto.
    apply (good_nb BATCH dep rk) in G. destruct (m_rs m); auto; congruence.
  - assert (NP : (exists c, e = EvPayload c) \/ not_payload e) by (destruct e; cbn; eauto).
    destruct NP as [[c ->]|NP].
    + (* EvPayload *)
      cbn [pvalid] in HV. destruct HV as (Hc & _ & HT & HV). cbn [execp C10Proofs.exec]. destruct (is_prompt s) eqn:P.
      * rewrite (HD eq_refl) in *. rewrite Tq_nil.
        destruct (good_prompt' rk m s G P) as [A Q]. destruct (is_prompt_ctl s P) as [ic E].
        pose proof (round_start B BATCH dep (rkind_of c) c s ic eq_refl Hc Q E) as S1. unfold ok3 in S1.
        destruct (step s (EvPayload c)) as [s1 o1]. cbn [fst snd] in S1, HV.
        assert (HD1 : is_prompt s1 = true -> @nil cmd = []) by auto.
        specialize (IH (rkind_of c) _ s1 [] S1 HD1 HC HV).
        destruct (execp (rkind_of c) (mrun mon (mstep dep (rkind_of c)) m0 o1) s1 [] r) as [[[[[rk2 m2] s2] D2] o2] v2].
        destruct IH as (I1 & I2 & I3). rewrite Tq_nil in I1. rewrite I1, A, I3. repeat split; auto.
      * rewrite (payload_queued rk m s D c G HT P).
        assert (HD1 : is_prompt s = true -> D ++ [c] = []) by congruence.
        assert (HC1 : Forall cmd_ok (D ++ [c])) by (apply Forall_app; split; [exact HC|repeat constructor; exact Hc]).
        specialize (IH rk m s (D ++ [c]) G HD1 HC1 HV).
        destruct (execp rk m s (D ++ [c]) r) as [[[[[rk2 m2] s2] D2] o2] v2].
        destruct IH as (I1 & I2 & I3). rewrite I1. repeat split; auto.
    + (* the other events *)
      rewrite (pvalid_other s D e r NP) in HV. destruct HV as [Ha HV]. rewrite (execp_other rk m s D e r NP). cbn [C10Proofs.exec].
      rewrite (step_defer_good rk m s D e G Ha HD).
      pose proof (step_ok B BATCH dep rk m s e Ha G) as G1. unfold ok3 in G1.
      destruct (step s e) as [s1 o1]. cbn [fst snd] in G1.
      rewrite (defer_drain rk (mrun mon (mstep dep rk) m o1) s1 o1 D).
      pose proof (drain_good D rk (mrun mon (mstep dep rk) m o1) s1 G1 HC) as DG.
      pose proof (drain_indep RKOk m0 rk (mrun mon (mstep dep rk) m o1) s1 D) as DI.
      destruct (drain RKOk m0 s1 D) as [[[[[rk0 mm0] s20] D20] o20] v20].
      destruct (drain rk (mrun mon (mstep dep rk) m o1) s1 D) as [[[[[rk2 m2] s2] D2] o2] v2].
      destruct DI as (E1 & E2 & E3). subst s20 D20 o20. destruct DG as (DG1 & DG2 & DG3 & DG4).
      specialize (IH rk2 m2 s2 D2 DG1 DG2 DG3 HV).
      destruct (execp rk2 m2 s2 D2 r) as [[[[[rk3 m3] s3] D3] o3] v3].
      destruct IH as (I1 & I2 & I3). rewrite I1, DG4, I3. repeat split; auto. now rewrite app_assoc.
Qed.

(* a connection at its prompt is a good state (for the monitor of a completed command) *)
Lemma prompt_good s : quiescent dep s -> at_prompt s -> good RKOk (mk_mon RDone 0) s.
Proof. intros Q P. unfold good3. rewrite P. cbn [Qs]. auto. Qed.

Corollary pipelined_from_prompt evs s : quiescent dep s -> at_prompt s -> pvalid s [] evs ->
  let '(rk', m', s', D', o, v) := execp RKOk (mk_mon RDone 0) s [] evs in
  exec s evs = (Tq D' s', o) /\ v = true.
Proof.
  intros Q P HV. pose proof (pipelined evs RKOk (mk_mon RDone 0) s [] (prompt_good s Q P) (fun _ => eq_refl) (Forall_nil _) HV) as T.
  destruct (execp RKOk (mk_mon RDone 0) s [] evs) as [[[[[rk2 m2] s2] D2] o2] v2]. rewrite Tq_nil in T. destruct T as (T1 & _ & T3). auto.
Qed.
End Pipeline.
