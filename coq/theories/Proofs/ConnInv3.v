(* Proofs/ConnInv3.v - a third invariant scheme for the connection machine: the invariant is indexed by the state of a
   MONITOR that reads the machine's outputs (a deterministic automaton over `out`), so that statements about the whole
   output sequence - "what the client has been sent so far is a prefix of a response of the protocol grammar" - can be
   carried through every micro-step, suspension and exception of the machine. *)
From Coq Require Import List NArith Lia Bool.
From MM Require Import Lib.Bytes Model.Conn Proofs.C10Proofs.
Import ListNotations.
Open Scope N_scope.

Section Scheme3.
Variable B BATCH : N.
Notation run := (run B BATCH).
Notation go := (go B BATCH).
Notation raise_at := (raise_at B BATCH).

Variable M : Type.
Variable mstep : M -> out -> M.
Definition mrun (m : M) (o : list out) : M := fold_left mstep o m.

Variable Qr : M -> plan -> frame -> st -> Prop.          (* the task is running with this plan left *)
Variable Qs : M -> why -> plan -> frame -> st -> Prop.   (* the task is suspended (why), with this plan left *)
Variable R : M -> exn -> frame -> st -> Prop.            (* an exception is about to be thrown in this frame *)
Variable Qdone : M -> st -> Prop.
Variable Qweak : M -> st -> Prop.

Definition good3 (m : M) (s : st) : Prop :=
  match ctl_ s with
  | Susp w k f _ => Qs m w k f s
  | Done => Qdone m s
  | Stuck => Qweak m s
  end.

Hypothesis Qs_ctl : forall m w k f s c, Qs m w k f s -> Qs m w k f (upd_ctl s c).
Hypothesis Qdone_ctl : forall m s c, Qdone m s -> Qdone m (upd_ctl s c).
Hypothesis Qweak_ctl : forall m s c, Qweak m s -> Qweak m (upd_ctl s c).
Hypothesis Qr_weak : forall m k f s, Qr m k f s -> Qweak m s.

Hypothesis op_ok : forall m s op k f, Qr m (op :: k) f s ->
  match exec_op B s op with
  | ActNext s' o => Qr (mrun m o) k f s'
  | ActSuspend s' w ic o => Qs (mrun m o) w k f s'
  | ActRaise s' x ic o => R (mrun m o) x f (kill_cursor s' ic)
  | ActQuit s' => Qweak m s' /\ (f = FHandler -> Qr m [MApp SClose] (FClose false) (inc_closes (set_seq (set_exec s' false) 0)))
  | ActEnter s' f' => Qweak m s' /\ (is_handler f = true -> is_handler f' = true -> Qr m k f' s')
  end.
Hypothesis throw_ok : forall m s x f, R m x f s ->
  match throw s x f with
  | Continue s' k' f' => Qr m k' f' s'
  | ToClose s' re => Qr m [MApp SClose] (FClose re) (inc_closes s')
  | Finished s' _ => Qdone m s'
  end.
Hypothesis end_ok : forall m s f, Qr m [] f s ->
  match end_plan BATCH s f with
  | EFinish s' _ => Qdone m s'
  | EGo s' k' f' => Qr m k' f' s'
  | ESuspRead s' => Qs m WRead [] f s'
  | ERaise s' x => R m x f s'
  end.
Hypothesis m_end : forall m exc, mstep m (OEnd exc) = m.
Hypothesis m_wclose : forall m, mstep m OWriterClose = m.
Hypothesis m_remove : forall m, mstep m OCtlRemove = m.

Definition ok3 (m : M) (r : st * list out) : Prop := good3 (mrun m (snd r)) (fst r).

Lemma mrun_app m a b : mrun m (a ++ b) = mrun (mrun m a) b.
Proof. unfold mrun. apply fold_left_app. Qed.

Lemma finish_ok3 m s exc : Qdone m s -> ok3 m (finish s exc).
Proof.
  intros H. unfold ok3, finish. cbn [fst snd]. unfold mrun. cbn [fold_left]. rewrite m_end, m_wclose, m_remove.
  unfold good3. cbn. now apply Qdone_ctl.
Qed.

Lemma stuck_ok3 m s : Qweak m s -> ok3 m (upd_ctl s Stuck, []).
Proof. intros H. unfold ok3, good3. cbn. now apply Qweak_ctl. Qed.

Lemma prepend_ok3 m o r : ok3 (mrun m o) r -> ok3 m (prepend o r).
Proof. unfold ok3, prepend. cbn [fst snd]. now rewrite mrun_app. Qed.

Lemma raise_ok3 n m s x f
  (IH : forall m s k f, Qr m k f s -> ok3 m (run n s k f)) :
  R m x f s ->
  ok3 m (match throw s x f with
         | Continue s' k' f' => run n s' k' f'
         | ToClose s' re => run n (inc_closes s') [MApp SClose] (FClose re)
         | Finished s' exc => finish s' exc
         end).
Proof.
  intros H. pose proof (throw_ok m _ x f H) as T.
  destruct (throw s x f) as [s' k' f'|s' re|s' exc]; [now apply IH|now apply IH|now apply finish_ok3].
Qed.

Theorem run_ok3 : forall fuel m s k f, Qr m k f s -> ok3 m (run fuel s k f).
Proof.
  induction fuel as [|n IH]; intros m s k f H; [cbn; apply stuck_ok3; eapply Qr_weak; exact H|].
  destruct k as [|op k'].
  - cbn [Conn.run]. pose proof (end_ok m s f H) as E.
    destruct (end_plan BATCH s f) as [s' exc|s' k2 f2|s'|s' x].
    + now apply finish_ok3.
    + now apply IH.
    + unfold ok3, good3. cbn. now apply Qs_ctl.
    + cbn [kill_cursor]. now apply (raise_ok3 n m s' x f IH).
  - cbn [Conn.run]. pose proof (op_ok m s op k' f H) as Op.
    destruct (exec_op B s op) as [s' o|s' w ic o|s' x ic o|s'|s' f'].
    + apply prepend_ok3. now apply IH.
    + unfold ok3, good3. cbn. now apply Qs_ctl.
    + apply prepend_ok3. now apply (raise_ok3 n _ _ x f IH).
    + destruct Op as [O1 O2]. destruct f; try (apply stuck_ok3; exact O1). apply IH. now apply O2.
    + destruct Op as [O1 O2]. destruct (is_handler f) eqn:Hf; cbn [andb]; [|apply stuck_ok3; exact O1].
      destruct (is_handler f') eqn:Hf'; [apply IH; now apply O2|apply stuck_ok3; exact O1].
Qed.

Corollary go_ok3 m s k f : Qr m k f s -> ok3 m (go s k f).
Proof. apply run_ok3. Qed.

Corollary raise_at_ok3 m s x f ic : R m x f (kill_cursor s ic) -> ok3 m (raise_at s x f ic).
Proof.
  intros H. unfold Conn.raise_at. pose proof (throw_ok m _ x f H) as T.
  destruct (throw (kill_cursor s ic) x f) as [s' k' f'|s' re|s' exc]; [now apply go_ok3|now apply go_ok3|now apply finish_ok3].
Qed.

(* lifting a one-step result to event lists whose events all satisfy [allowed] *)
Variable allowed : ev -> Prop.
Hypothesis step_ok3 : forall m s e, allowed e -> good3 m s -> ok3 m (step B BATCH s e).

Theorem exec_ok3 : forall evs m s, Forall allowed evs -> good3 m s -> ok3 m (exec B BATCH s evs).
Proof.
  induction evs as [|e evs IH]; intros m s Ha G; [exact G|].
  inversion Ha as [|? ? A1 A2]; subst. cbn [exec].
  pose proof (step_ok3 m s e A1 G) as G1. destruct (step B BATCH s e) as [s1 o1]. unfold ok3 in G1. cbn [fst snd] in G1.
  pose proof (IH _ s1 A2 G1) as G2. destruct (exec B BATCH s1 evs) as [s2 o2]. unfold ok3 in *. cbn [fst snd] in *.
  now rewrite mrun_app.
Qed.
End Scheme3.
