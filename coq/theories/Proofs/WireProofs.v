(* Proofs/WireProofs.v - framing round trip and segmentation independence. *)
From Coq Require Import List NArith Lia Bool.
From MM Require Import Lib.Bytes Model.Wire.
Import ListNotations.
Open Scope N_scope.

Lemma length_len {A} (l : list A) : N.of_nat (length l) = len l.
Proof. reflexivity. Qed.

Lemma drop_shorter (b : bytes) l : 4 <= len b -> (length (drop l (drop 4 b)) < length b)%nat.
Proof.
  intros H. pose proof (len_drop l (drop 4 b)) as H1. pose proof (len_drop 4 b) as H2.
  unfold len in *. lia.
Qed.

Lemma div_sub M n : 0 < M -> M <= n -> n / M = 1 + (n - M) / M.
Proof.
  intros H0 H. replace n with (1 * M + (n - M)) at 1 by lia. apply N.div_add_l. lia.
Qed.

Lemma mod_sub M n : 0 < M -> M <= n -> n mod M = (n - M) mod M.
Proof.
  intros H0 H. replace n with ((n - M) + 1 * M) at 1 by lia. apply N.mod_add. lia.
Qed.

Section WireProofs.
Variable M : N.
Variable hm : hmode.

Notation pump := (pump M hm).
Notation pumpall := (pumpall M hm).
Notation feed := (feed M hm).
Notation feeds := (feeds M hm).
Notation chunks := (chunks M).
Notation frame := (frame M).

Lemma pump_S f b s a : pump (S f) b s a =
    if len b <? 4 then
      match hm with
      | Exactly => ([], mk_rst b s a false)
      | UpTo => if len b =? 0 then ([], mk_rst b s a false) else ([BadHeader], mk_rst [] s a true)
      end
    else
    let h := take 4 b in let r := drop 4 b in
    let l := le_val (take 3 h) in let q := nth 3 h 0 in
    if negb (q =? s) then ([BadSeq], mk_rst [] s a true) else
    if len r <? l then ([], mk_rst b s a false) else
    let body := take l r in let r' := drop l r in
    if l =? M then pump f r' (next_seq s) (a ++ body)
    else let '(ds, st) := pump f r' (next_seq s) [] in (Payload (a ++ body) :: ds, st).
Proof. reflexivity. Qed.

(* more fuel than needed changes nothing *)
Lemma pump_fuel : forall f1 f2 b s a, (length b < f1)%nat -> (length b < f2)%nat ->
  pump f1 b s a = pump f2 b s a.
Proof.
  induction f1 as [|f1 IH]; intros f2 b s a H1 H2; [lia|]. destruct f2 as [|f2]; [lia|].
  rewrite !pump_S. destruct (N.ltb_spec (len b) 4) as [E4|E4]; [reflexivity|].
  cbv zeta. destruct (negb (nth 3 (take 4 b) 0 =? s)); [reflexivity|].
  destruct (len (drop 4 b) <? le_val (take 3 (take 4 b))); [reflexivity|].
  pose proof (drop_shorter b (le_val (take 3 (take 4 b))) E4) as Hs.
  destruct (le_val (take 3 (take 4 b)) =? M).
  - apply IH; lia.
  - rewrite (IH f2); [reflexivity| lia | lia].
Qed.

Lemma pumpall_fuel f b s a : (length b < f)%nat -> pump f b s a = pumpall b s a.
Proof. intros H. unfold Wire.pumpall. apply pump_fuel; lia. Qed.

End WireProofs.

Opaque Wire.pump.

(* ---- compositionality of the reader over arrivals (readexactly for the header) ----------- *)
Section Exact.
Variable M : N.
Hypothesis Mpos : 0 < M.
Notation hm := Exactly.
Notation pump := (pump M Exactly).
Notation pumpall := (pumpall M Exactly).
Notation feed := (feed M Exactly).
Notation feeds := (feeds M Exactly).
Notation pump_S := (pump_S M Exactly).
Notation pumpall_fuel := (pumpall_fuel M Exactly).

Lemma pump_app : forall f b s a c, (length b < f)%nat ->
  forall d1 st1, pump f b s a = (d1, st1) ->
  pumpall (b ++ c) s a =
    if bad st1 then (d1, st1)
    else let '(d2, st2) := pumpall (buf st1 ++ c) (sq st1) (acc st1) in (d1 ++ d2, st2).
Proof.
  induction f as [|f IH]; intros b s a c Hf d1 st1 P; [lia|].
  rewrite pump_S in P.
  destruct (N.ltb_spec (len b) 4) as [E4|E4].
  { inversion P; subst; cbn. destruct (pumpall (b ++ c) s a); reflexivity. }
  assert (F4 : take 4 (b ++ c) = take 4 b) by (apply take_app_le; lia).
  assert (S4 : drop 4 (b ++ c) = drop 4 b ++ c) by (apply drop_app_le; lia).
  cbv zeta in P.
  unfold Wire.pumpall at 1. rewrite pump_S. cbv zeta.
  assert (L4 : (len (b ++ c) <? 4) = false) by (apply N.ltb_ge; rewrite len_app; lia).
  rewrite L4, F4.
  destruct (negb (nth 3 (take 4 b) 0 =? s)) eqn:Eq.
  { inversion P; subst; cbn. reflexivity. }
  rewrite S4. set (n := le_val (take 3 (take 4 b))) in *.
  destruct (N.ltb_spec (len (drop 4 b)) n) as [El|El].
  { inversion P; subst; cbn [bad buf sq acc].
    unfold Wire.pumpall. rewrite pump_S, L4, F4. cbv zeta. rewrite Eq, S4. fold n.
    destruct (N.ltb_spec (len (drop 4 b ++ c)) n) as [El2|El2]; [reflexivity|].
    destruct (n =? M).
    - destruct (pump (length (b ++ c)) (drop n (drop 4 b ++ c)) (next_seq s)
                  (a ++ take n (drop 4 b ++ c))); reflexivity.
    - destruct (pump (length (b ++ c)) (drop n (drop 4 b ++ c)) (next_seq s) []); reflexivity. }
  assert (Fb : take n (drop 4 b ++ c) = take n (drop 4 b)) by (apply take_app_le; lia).
  assert (Sb : drop n (drop 4 b ++ c) = drop n (drop 4 b) ++ c) by (apply drop_app_le; lia).
  assert (Ll : (len (drop 4 b ++ c) <? n) = false) by (apply N.ltb_ge; rewrite len_app; lia).
  rewrite Ll, Fb, Sb.
  pose proof (drop_shorter b n E4) as Hs.
  assert (Hlen : (length (drop n (drop 4 b) ++ c) < length (b ++ c))%nat)
    by (rewrite !app_length; lia).
  destruct (n =? M) eqn:EM.
  - rewrite pumpall_fuel by lia. eapply IH; [|exact P]. lia.
  - destruct (pump f (drop n (drop 4 b)) (next_seq s) []) as [d1' st1'] eqn:P1.
    inversion P; subst d1 st1.
    rewrite pumpall_fuel by lia.
    rewrite (IH (drop n (drop 4 b)) _ _ c ltac:(lia) _ _ P1).
    destruct (bad st1'); [reflexivity|].
    destruct (pumpall (buf st1' ++ c) (sq st1') (acc st1')); reflexivity.
Qed.

Lemma feed_app st c1 c2 :
  feed st (c1 ++ c2) =
    let '(d1, st1) := feed st c1 in let '(d2, st2) := feed st1 c2 in (d1 ++ d2, st2).
Proof.
  unfold Wire.feed at 1 2. destruct (bad st) eqn:Hb.
  { unfold Wire.feed. rewrite Hb. reflexivity. }
  destruct (pumpall (buf st ++ c1) (sq st) (acc st)) as [d1 st1] eqn:P.
  rewrite app_assoc. unfold Wire.pumpall in P.
  rewrite (pump_app (S (length (buf st ++ c1))) (buf st ++ c1) _ _ c2 ltac:(lia) _ _ P).
  unfold Wire.feed. destruct (bad st1); [now rewrite app_nil_r|reflexivity].
Qed.

Definition settled (st : rst) : Prop := feed st [] = ([], st).

Lemma app_self_nil {A} (a b : list A) : a = a ++ b -> b = [].
Proof.
  intros H. assert (L : length a = length (a ++ b)) by congruence.
  rewrite app_length in L. destruct b; [reflexivity|cbn in L; lia].
Qed.

(* after any arrival the reader has consumed everything it could *)
Lemma feed_settled st c d st1 : feed st c = (d, st1) -> settled st1.
Proof.
  intros H. pose proof (feed_app st c []) as A. rewrite app_nil_r, H in A.
  unfold settled. destruct (feed st1 []) as [d2 st2]. inversion A as [[H1 H2]].
  apply app_self_nil in H1. now subst.
Qed.

Lemma rst0_settled s : settled (rst0 s).
Proof. reflexivity. Qed.

Theorem feeds_concat : forall cs st, settled st -> feeds st cs = feed st (concat cs).
Proof.
  induction cs as [|c cs IH]; intros st Hs.
  - cbn [Wire.feeds concat]. symmetry. exact Hs.
  - cbn [Wire.feeds concat]. rewrite feed_app.
    destruct (feed st c) as [d1 st1] eqn:E1.
    rewrite IH by (eapply feed_settled; exact E1). reflexivity.
Qed.

End Exact.

(* ---- what the writer produces is read back as the identical payload ----------------------- *)
Section RoundTrip.
Variable M : N.
Hypothesis Mpos : 0 < M.
Hypothesis Mfits : M < 2 ^ 24.
Variable hm : hmode.
Notation pump := (pump M hm).
Notation pumpall := (pumpall M hm).
Notation chunks := (chunks M).
Notation frame := (frame M).

Lemma len_hdr l s : len (hdr l s) = 4.
Proof. unfold hdr. rewrite len_app, len_le_bytes. reflexivity. Qed.

Lemma hdr_len_field l s : l < 2 ^ 24 -> le_val (take 3 (hdr l s)) = l.
Proof.
  intros H. unfold hdr. rewrite <- (len_le_bytes 3 l) at 1. rewrite take_app_exact.
  apply le_roundtrip. exact H.
Qed.

Lemma hdr_seq_field l s : s < 256 -> nth 3 (hdr l s) 0 = s.
Proof.
  intros H. unfold hdr. rewrite app_nth2; rewrite le_bytes_length; [|lia].
  cbn. apply N.mod_small. exact H.
Qed.

Lemma next_seq_lt s : next_seq s < 256.
Proof. unfold next_seq. apply N.mod_lt. lia. Qed.

Lemma pump_chunks : forall fuel d s a rest, (length d < fuel)%nat -> s < 256 ->
  pumpall (wire s (chunks fuel d) ++ rest) s a =
    let '(ds, st) := pumpall rest (seq_after s (chunks fuel d)) [] in (Payload (a ++ d) :: ds, st).
Proof.
  induction fuel as [|f IH]; intros d s a rest Hf Hs; [lia|].
  cbn [Wire.chunks]. set (c := take M d).
  assert (Hc : len c <= M) by (unfold c; rewrite len_take; lia).
  assert (Hstep : forall tl,
    pumpall ((hdr (len c) s ++ c ++ tl)) s a =
      if len c =? M then pumpall tl (next_seq s) (a ++ c)
      else let '(ds, st) := pumpall tl (next_seq s) [] in (Payload (a ++ c) :: ds, st)).
  { intros tl. unfold Wire.pumpall at 1. rewrite pump_S.
    assert (L : len (hdr (len c) s ++ c ++ tl) = 4 + len c + len tl)
      by (rewrite !len_app, len_hdr; lia).
    destruct (N.ltb_spec (len (hdr (len c) s ++ c ++ tl)) 4); [lia|].
    assert (T4 : take 4 (hdr (len c) s ++ c ++ tl) = hdr (len c) s)
      by (rewrite <- (len_hdr (len c) s) at 1; apply take_app_exact).
    assert (D4 : drop 4 (hdr (len c) s ++ c ++ tl) = c ++ tl)
      by (rewrite <- (len_hdr (len c) s) at 1; apply drop_app_exact).
    cbv zeta. rewrite T4, D4, hdr_len_field, hdr_seq_field by lia.
    rewrite N.eqb_refl. cbn [negb].
    destruct (N.ltb_spec (len (c ++ tl)) (len c)) as [X|X]; [rewrite len_app in X; lia|].
    rewrite take_app_exact, drop_app_exact.
    assert (Hl : (length tl < length (hdr (len c) s ++ c ++ tl))%nat).
    { rewrite !app_length. pose proof (len_hdr (len c) s) as Hh. unfold len in Hh at 1. lia. }
    rewrite !pumpall_fuel by exact Hl. reflexivity. }
  destruct (N.eqb_spec (len c) M) as [E|E].
  - cbn [wire seq_after]. rewrite <- !app_assoc, Hstep.
    destruct (N.eqb_spec (len c) M); [|contradiction].
    assert (Hd : (length (drop M d) < f)%nat).
    { pose proof (len_drop M d) as H1. unfold c in E. rewrite len_take in E. unfold len in *. lia. }
    rewrite (IH (drop M d) (next_seq s) (a ++ c) rest Hd (next_seq_lt s)).
    unfold c. rewrite <- app_assoc, take_drop. reflexivity.
  - cbn [wire seq_after app]. rewrite <- !app_assoc. cbn [app]. rewrite Hstep.
    destruct (N.eqb_spec (len c) M); [contradiction|].
    assert (c = d) as ->; [|reflexivity].
    unfold c. apply take_all. unfold c in E, Hc. rewrite len_take in E. lia.
Qed.

Theorem write_read_roundtrip d s a rest : s < 256 ->
  pumpall (write_bytes M s d ++ rest) s a =
    let '(ds, st) := pumpall rest (seq_after s (frame d)) [] in (Payload (a ++ d) :: ds, st).
Proof. intros Hs. unfold write_bytes, Wire.frame. apply pump_chunks; [lia|exact Hs]. Qed.

Corollary write_read_single d s : s < 256 ->
  pumpall (write_bytes M s d) s [] = ([Payload d], rst0 (seq_after s (frame d))).
Proof.
  intros Hs. rewrite <- (app_nil_r (write_bytes M s d)), write_read_roundtrip by exact Hs.
  unfold Wire.pumpall. cbn [length]. rewrite pump_S. cbn. destruct hm; reflexivity.
Qed.

(* the packets' lengths: full packets of M bytes, then one shorter (possibly empty) packet *)
Lemma chunk_lens : forall fuel d, (length d < fuel)%nat ->
  map len (chunks fuel d) = frame_lens M (len d).
Proof.
  induction fuel as [|f IH]; intros d Hf; [lia|].
  cbn [Wire.chunks]. unfold frame_lens.
  destruct (N.eqb_spec (len (take M d)) M) as [E|E]; rewrite len_take in E.
  - cbn [map]. rewrite IH.
    2:{ pose proof (len_drop M d) as H1. unfold len in *. lia. }
    unfold frame_lens. rewrite len_drop.
    assert (Hge : M <= len d) by lia.
    rewrite (div_sub M (len d)), (mod_sub M (len d)) by lia.
    replace (N.to_nat (1 + (len d - M) / M)) with (S (N.to_nat ((len d - M) / M))) by lia.
    cbn [repeat app]. f_equal. rewrite len_take. lia.
  - assert (Hlt : len d < M) by lia.
    rewrite N.div_small, N.mod_small by exact Hlt. cbn. f_equal. rewrite len_take. lia.
Qed.

Theorem frame_lens_spec d : map len (frame d) = frame_lens M (len d).
Proof. apply chunk_lens. lia. Qed.

Theorem frame_concat d : concat (frame d) = d.
Proof.
  unfold Wire.frame. assert (H : (length d < S (length d))%nat) by lia.
  revert H. generalize (S (length d)) as fuel. intros fuel; revert d.
  induction fuel as [|f IH]; intros d Hf; [lia|].
  cbn [Wire.chunks]. destruct (N.eqb_spec (len (take M d)) M) as [E|E].
  - cbn [concat]. rewrite IH; [apply take_drop|].
    rewrite len_take in E. pose proof (len_drop M d) as H1. unfold len in *. lia.
  - cbn. rewrite app_nil_r. apply take_all. rewrite len_take in E. lia.
Qed.
End RoundTrip.
