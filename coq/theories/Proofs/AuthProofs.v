From Coq Require Import List NArith Lia Bool Arith.
From MM Require Import Lib.Bytes Model.Parse Model.Auth.
Import ListNotations.
Open Scope N_scope.

Lemma xor_bytes_length a b : length (xor_bytes a b) = Nat.min (length a) (length b).
Proof. revert b. induction a as [|x a IH]; intros [|y b]; cbn; auto. Qed.

Lemma lxor_cancel x y : N.lxor (N.lxor x y) y = x.
Proof. rewrite N.lxor_assoc, N.lxor_nilpotent, N.lxor_0_r. reflexivity. Qed.

(* XOR with a fixed operand of the same length is an involution, hence injective *)
Lemma xor_involutive a b : length a = length b -> xor_bytes (xor_bytes a b) b = a.
Proof.
  revert b. induction a as [|x a IH]; intros [|y b] H; cbn in *; try discriminate; [reflexivity|].
  rewrite lxor_cancel, IH by lia. reflexivity.
Qed.

Lemma xor_injective a a' b : length a = length b -> length a' = length b ->
  xor_bytes a b = xor_bytes a' b -> a = a'.
Proof. intros H H' E. rewrite <- (xor_involutive a b H), <- (xor_involutive a' b H'). now rewrite E. Qed.

Lemma xor_firstn a b : xor_bytes a b = xor_bytes (firstn (length b) a) b.
Proof.
  revert b. induction a as [|x a IH]; intros [|y b]; cbn; auto. now rewrite <- IH.
Qed.

Lemma list_eqb_eq a b : list_eqb a b = true <-> a = b.
Proof.
  revert b. induction a as [|x a IH]; intros [|y b]; cbn; split; intros H; try discriminate; auto.
  - apply andb_prop in H. destruct H as [H1 H2]. apply N.eqb_eq in H1. apply IH in H2. now subst.
  - inversion H; subst. rewrite N.eqb_refl. cbn. now apply IH.
Qed.

Section P.
Variable sha1 : bytes -> bytes.
Hypothesis sha1_len : forall m, length (sha1 m) = 20%nat.
Notation scramble := (scramble sha1).
Notation verify_decoded := (verify_decoded sha1).

(* completeness: the scramble of the right password under the issued nonce is accepted, for every nonce *)
Theorem verify_complete pw nonce :
  verify_decoded (Some (stored_of sha1 pw)) (scramble pw nonce) nonce = true.
Proof.
  unfold Auth.verify_decoded, Auth.scramble, stored_of. apply andb_true_iff. split.
  - apply Nat.leb_le. rewrite xor_bytes_length, !sha1_len. reflexivity.
  - apply list_eqb_eq. rewrite xor_involutive by (now rewrite !sha1_len). reflexivity.
Qed.

(* soundness: acceptance means the first 20 bytes of the response are the XOR, under THIS nonce, of a SHA-1
   pre-image of the stored secret; bytes beyond 20 are ignored *)
Theorem verify_sound h2 response nonce : verify_decoded (Some h2) response nonce = true ->
  let d := sha1 (nonce ++ h2) in
  let h := xor_bytes response d in
  sha1 h = h2 /\ h = xor_bytes (firstn 20 response) d /\
  (20 <= length response)%nat -> firstn 20 response = xor_bytes h d.
Proof.
  intros V d h [S1 [S2 L]]. unfold h. rewrite (xor_firstn response d). unfold d. rewrite sha1_len.
  rewrite xor_involutive; [reflexivity|]. rewrite firstn_length, sha1_len. lia.
Qed.

Theorem verify_accepts_iff_preimage h2 response nonce :
  verify_decoded (Some h2) response nonce = true <->
  (20 <= length response)%nat /\ sha1 (xor_bytes (firstn 20 response) (sha1 (nonce ++ h2))) = h2.
Proof.
  unfold Auth.verify_decoded. rewrite andb_true_iff, Nat.leb_le, list_eqb_eq. rewrite (xor_firstn response), sha1_len. reflexivity.
Qed.

Theorem malformed_never_accepts response nonce : verify_decoded None response nonce = false.
Proof. reflexivity. Qed.

(* a response accepted under two different nonces exhibits a SHA-1 collision: "useless elsewhere" holds
   modulo collision resistance, which is stated in the conclusion, not assumed *)
Theorem replay_needs_collision h2 response n1 n2 :
  n1 <> n2 -> length n1 = length n2 ->
  verify_decoded (Some h2) response n1 = true -> verify_decoded (Some h2) response n2 = true ->
  exists a b, a <> b /\ sha1 a = sha1 b.
Proof.
  intros Hn Hl V1 V2. apply verify_accepts_iff_preimage in V1 as [L V1]. apply verify_accepts_iff_preimage in V2 as [_ V2].
  set (d1 := sha1 (n1 ++ h2)) in *. set (d2 := sha1 (n2 ++ h2)) in *. set (r := firstn 20 response) in *.
  assert (Lr : length r = 20%nat) by (unfold r; rewrite firstn_length; lia).
  destruct (list_eq_dec N.eq_dec d1 d2) as [E|E].
  - exists (n1 ++ h2), (n2 ++ h2). split; [|exact E].
    intros A. apply app_inv_tail in A. contradiction.
  - exists (xor_bytes r d1), (xor_bytes r d2). split; [|congruence].
    intros A. apply E.
    (* xor r d1 = xor r d2 with equal lengths -> d1 = d2 *)
    assert (C : forall a b c, length a = length b -> length a = length c -> xor_bytes a b = xor_bytes a c -> b = c).
    { induction a as [|x a IH]; intros [|y b] [|z c] H1 H2 H3; cbn in *; try discriminate; auto.
      inversion H3 as [[Hx Ht]]. f_equal; [|apply (IH b c); auto].
      apply (f_equal (N.lxor x)) in Hx. rewrite <- !N.lxor_assoc, !N.lxor_nilpotent, !N.lxor_0_l in Hx. exact Hx. }
    apply (C r d1 d2); [unfold d1; now rewrite sha1_len|unfold d2; now rewrite sha1_len|exact A].
Qed.

(* the empty response is accepted iff the account has no password *)
Theorem empty_response u nonce :
  (forall a, verify_scramble sha1 a [] nonce = true -> False) ->
  password_matches sha1 u [] nonce = empty_auth (u_auth u).
Proof.
  intros H. unfold password_matches.
  destruct (verify_scramble sha1 (u_auth u) [] nonce) eqn:E1; [exfalso; eapply H; eassumption|].
  destruct (verify_scramble sha1 (u_old u) [] nonce) eqn:E2; [exfalso; eapply H; eassumption|].
  now rewrite !orb_false_r.
Qed.

(* a response shorter than 20 bytes - the empty one included - never verifies, whatever the stored hash *)
Lemma short_never_verifies h2 response nonce : (length response < 20)%nat -> verify_decoded (Some h2) response nonce = false.
Proof. intros L. unfold Auth.verify_decoded. apply andb_false_iff. left. apply Nat.leb_gt. exact L. Qed.

Theorem matches_routes u response nonce : password_matches sha1 u response nonce = true ->
  (response = [] /\ empty_auth (u_auth u) = true) \/
  verify_scramble sha1 (u_auth u) response nonce = true \/ verify_scramble sha1 (u_old u) response nonce = true.
Proof.
  unfold password_matches. intros H. apply orb_prop in H. destruct H as [H|H]; [|auto].
  apply orb_prop in H. destruct H as [H|H]; [|auto].
  left. destruct response; [auto|discriminate].
Qed.
End P.

(* the handshake splits the nonce 8 + 13 and a client reassembles exactly the bytes that were issued *)
Theorem handshake_nonce_roundtrip auth : (8 <= length auth)%nat -> (length auth <= 255)%nat ->
  client_nonce (handshake_auth_parts auth) (len auth) = auth.
Proof.
  intros L1 L2. unfold client_nonce, handshake_auth_parts. cbn [fst snd].
  rewrite app_assoc, take_drop. rewrite take_app_le by lia. apply take_all. lia.
Qed.
