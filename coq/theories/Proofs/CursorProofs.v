(* Proofs/CursorProofs.v - what one lock-step round does to a prepared statement and what it sends, for commands whose
   handler is a straight plan (no application call): the machine executes exactly the operations of that plan, in order,
   through every suspension - or the response contains an ERR.  Instantiated for COM_STMT_FETCH this gives C11 over whole
   conversations: the rows a fetch sends are the next ones of the cursor, the cursor advances by exactly those, and
   nothing else on the connection moves it. *)
From Coq Require Import List NArith Lia Bool.
From MM Require Import Lib.Bytes Model.Conn Model.Resp Proofs.RespProofs Proofs.C10Proofs Proofs.ConnInv3 Proofs.C03Proofs Proofs.FetchProofs.
Import ListNotations.
Open Scope N_scope.

(* ---- the statement table ------------------------------------------------------------------------------------------ *)
Lemma find_put id i v : forall t, find_stmt id (put_stmt i v t) = if i =? id then Some v else find_stmt id t.
Proof.
  induction t as [|[k w] r IH]; cbn [put_stmt find_stmt].
  - destruct (i =? id); reflexivity.
  - destruct (k =? i) eqn:E; cbn [find_stmt].
    + apply N.eqb_eq in E. subst k. destruct (i =? id); reflexivity.
    + destruct (k =? id) eqn:E2; [|exact IH]. apply N.eqb_eq in E2. subst k.
      rewrite N.eqb_sym in E. now rewrite E.
Qed.

Lemma find_del id i : forall t, find_stmt id (del_stmt i t) = if i =? id then None else find_stmt id t.
Proof.
  unfold del_stmt. induction t as [|[k w] r IH]; cbn [filter find_stmt fst].
  - destruct (i =? id); reflexivity.
  - destruct (k =? i) eqn:E; cbn [negb find_stmt].
    + apply N.eqb_eq in E. subst k. rewrite IH. destruct (i =? id); reflexivity.
    + rewrite IH. destruct (k =? id) eqn:E2; [|reflexivity]. apply N.eqb_eq in E2. subst k.
      rewrite N.eqb_sym in E. now rewrite E.
Qed.

Section Track.
Variable B BATCH : N.
Variable id : N.                 (* the statement that is watched *)

(* what one operation does to the watched statement, and what it writes *)
Definition pull1 (v : stmt) : stmt :=
  mk_stmt (match st_cursor v with Some (_ :: r) => Some r | o => o end) (st_inner v + 1).
Definition skip1 (v : stmt) : stmt :=
  mk_stmt (match st_cursor v with Some (ISuspend :: r) => Some r | o => o end) (st_inner v).

Definition apply1 (c : option stmt) (op : mop) : option stmt :=
  match op with
  | MCurPull i => if i =? id then option_map pull1 c else c
  | MRowWait (Some i) => if i =? id then option_map skip1 c else c
  | MSetCursor i items => if i =? id then Some (mk_stmt (Some items) 0) else c
  | MClearStmt i _ => if i =? id then Some (mk_stmt None 0) else c
  | MDropStmt i => if i =? id then None else c
  | _ => c
  end.
Definition applyl (c : option stmt) (ops : plan) : option stmt := fold_left apply1 ops c.

Definition pkt1 (op : mop) : list pkt := match op with MWrite p _ _ => [p] | _ => [] end.
Definition pkts (ops : plan) : list pkt := flat_map pkt1 ops.

Definition simple (op : mop) : Prop :=
  match op with MApp _ | MEnter _ | MQuit | MRead | MCont _ => False | _ => True end.

Definition bufp (s : st) : list pkt := map (fun e => snd (fst e)) (buf s).
Definition is_err (p : pkt) : bool := match p with PErr _ => true | _ => false end.
Definition has_err (l : list pkt) : Prop := existsb is_err l = true.

(* the monitor: every packet handed to the socket so far in this round *)
Definition M := list (N * pkt).
Definition mstep (m : M) (o : out) : M := match o with OWrite ps => m ++ ps | _ => m end.
Notation mrun := (mrun M mstep).

Variable c0 : option stmt.       (* the watched statement when the handler starts *)
Variable plan0 : plan.           (* the handler's plan *)
Hypothesis plan_simple : Forall simple plan0.

Definition tracked (m : M) (done : plan) (s : st) : Prop :=
  find_stmt id (stmts s) = applyl c0 done /\ map snd m ++ bufp s = pkts done.

Definition final (m : M) (s : st) : Prop := has_err (map snd m ++ bufp s) \/ tracked m plan0 s.

Definition Qr (m : M) (k : plan) (f : frame) (s : st) : Prop :=
  match f with
  | FHandler => inq s = [] /\ exists done, done ++ k = plan0 /\ tracked m done s
  | FHandlerErr _ => inq s = [] /\ ((exists c, k = errplan c) \/ (k = [] /\ has_err (map snd m ++ bufp s)))
  | FRead => k = [] /\ inq s = [] /\ final m s
  | FClose _ | FKillErr => True
  | _ => False
  end.

Definition Qs (m : M) (w : why) (k : plan) (f : frame) (s : st) : Prop :=
  match f with
  | FClose _ | FKillErr => True
  | _ => match w with
         | WDrain | WSleep | WRow => Qr m k f s
         | WRead => f = FRead /\ Qr m k f s
         | WApp _ => False
         end
  end.

Definition R (m : M) (x : exn) (f : frame) (s : st) : Prop :=
  match f with
  | FHandler | FHandlerErr _ | FRead => inq s = []
  | FClose _ | FKillErr => True
  | _ => False
  end.

Definition Qdone (m : M) (s : st) : Prop := True.
Definition Qweak (m : M) (s : st) : Prop := True.

(* the invariants look at the statement table, the write buffer and the input queue only *)
Lemma Qr_frame m k f s s' : stmts s' = stmts s -> buf s' = buf s -> inq s' = inq s -> Qr m k f s -> Qr m k f s'.
Proof.
  intros H1 H2 H3. unfold Qr, final, tracked, bufp. rewrite H1, H2, H3. auto.
Qed.
Lemma Qs_frame m w k f s s' : stmts s' = stmts s -> buf s' = buf s -> inq s' = inq s -> Qs m w k f s -> Qs m w k f s'.
Proof.
  intros H1 H2 H3. unfold Qs. destruct f; auto; destruct w; auto; try (apply Qr_frame; assumption).
  all: intros [E Q]; split; [exact E|eapply Qr_frame; eassumption].
Qed.

Lemma Qs_ctl m w k f s c : Qs m w k f s -> Qs m w k f (upd_ctl s c).
Proof. apply Qs_frame; reflexivity. Qed.

Lemma mrun_nil m : mrun m [] = m. Proof. reflexivity. Qed.
Lemma mrun_write m ps : mrun m [OWrite ps] = m ++ ps. Proof. reflexivity. Qed.

(* ---- one operation --------------------------------------------------------------------------------------------- *)
Definition eff (m : M) (s : st) (op : mop) (s' : st) (o : list out) : Prop :=
  inq s' = inq s /\ find_stmt id (stmts s') = apply1 (find_stmt id (stmts s)) op /\
  map snd (mrun m o) ++ bufp s' = map snd m ++ bufp s ++ pkt1 op.

Lemma flush_eff m s : let '(s1, o1) := flush s in
  inq s1 = inq s /\ stmts s1 = stmts s /\ map snd (mrun m o1) ++ bufp s1 = map snd m ++ bufp s.
Proof.
  unfold flush. destruct (buf s) as [|e b] eqn:E.
  - repeat split.
  - cbn [inq stmts set_buf]. repeat split. rewrite mrun_write. unfold bufp. cbn [buf set_buf]. rewrite E.
    rewrite map_app, map_map, app_nil_r. reflexivity.
Qed.

Lemma drain_eff m s : match do_drain s with
  | ActNext s' o | ActSuspend s' _ _ o | ActRaise s' _ _ o =>
      inq s' = inq s /\ stmts s' = stmts s /\ map snd (mrun m o) ++ bufp s' = map snd m ++ bufp s
  | _ => False
  end.
Proof.
  unfold do_drain. pose proof (flush_eff m s) as F. destruct (flush s) as [s1 o1].
  destruct (dead s1); [exact F|]. destruct (paused s1); exact F.
Qed.

Lemma drain_shape s : match do_drain s with
  | ActNext _ _ => True | ActSuspend _ w ic _ => w = WDrain /\ ic = None | ActRaise _ _ ic _ => ic = None | _ => False end.
Proof. unfold do_drain. destruct (flush s) as [s1 o1]. destruct (dead s1); [reflexivity|]. destruct (paused s1); auto. Qed.

Lemma cur_pull_same s i : buf (cur_pull s i) = buf s /\ inq (cur_pull s i) = inq s.
Proof. unfold cur_pull. destruct (find_stmt i (stmts s)); split; reflexivity. Qed.
Lemma cur_skip_same s ic : buf (cur_skip_suspend s ic) = buf s /\ inq (cur_skip_suspend s ic) = inq s.
Proof. unfold cur_skip_suspend. destruct ic as [i|]; [|split; reflexivity]. destruct (find_stmt i (stmts s)); split; reflexivity. Qed.

Lemma op_eff m s op : simple op ->
  match exec_op B s op with
  | ActNext s' o => eff m s op s' o
  | ActSuspend s' w ic o => eff m s op s' o /\ (w = WDrain \/ w = WSleep \/ w = WRow)
  | ActRaise s' x ic o => inq (kill_cursor s' ic) = inq s
  | _ => False
  end.
Proof.
  intros Hs. destruct op as [p sz d| |c| |i|ic|ic|x ic|i items|i ct|i| | | |f'|q|]; cbn [simple] in Hs; try contradiction; cbn [exec_op].
  - (* MWrite *)
    set (s1 := set_seq (set_buf s (buf s ++ [(seq s, p, sz)]) (handed s)) ((seq s + 1) mod 256)).
    assert (B1 : bufp s1 = bufp s ++ [p]) by (unfold bufp, s1; cbn [buf set_seq set_buf]; rewrite map_app; reflexivity).
    destruct (d || (B <=? buf_bytes (buf s1))).
    + pose proof (drain_eff m s1) as D. pose proof (drain_shape s1) as Sh.
      destruct (do_drain s1) as [s' o|s' w ic o|s' x ic o|s'|s' f']; try contradiction.
      * destruct D as (D1 & D2 & D3). unfold eff. rewrite D1, D2, D3, B1. cbn [pkt1 apply1]. repeat split; try reflexivity; try (now rewrite app_assoc).
      * destruct D as (D1 & D2 & D3). destruct Sh as [-> ->]. split; [|now left].
        unfold eff. rewrite D1, D2, D3, B1. cbn [pkt1 apply1]. repeat split; try reflexivity; try (now rewrite app_assoc).
      * destruct D as (D1 & _). subst ic. cbn [kill_cursor]. exact D1.
    + unfold eff. rewrite mrun_nil, B1. cbn [pkt1 apply1]. repeat split; try reflexivity; try (now rewrite app_assoc).
  - (* MDrain *)
    pose proof (drain_eff m s) as D. pose proof (drain_shape s) as Sh.
    destruct (do_drain s) as [s' o|s' w ic o|s' x ic o|s'|s' f']; try contradiction.
    + destruct D as (D1 & D2 & D3). unfold eff. rewrite D1, D2, D3. cbn [pkt1 apply1]. rewrite app_nil_r. auto.
    + destruct D as (D1 & D2 & D3). destruct Sh as [-> ->]. split; [|now left].
      unfold eff. rewrite D1, D2, D3. cbn [pkt1 apply1]. rewrite app_nil_r. auto.
    + destruct D as (D1 & _). subst ic. exact D1.
  - (* MPull *) unfold eff. rewrite mrun_nil. cbn [pkt1 apply1]. rewrite app_nil_r. auto.
  - (* MCurPull *)
    unfold eff. rewrite mrun_nil. cbn [pkt1 apply1]. rewrite app_nil_r.
    split; [|split; [|unfold bufp; cbn [buf inc_pulled]; now rewrite (proj1 (cur_pull_same s i))]].
    + cbn [inq inc_pulled]. apply cur_pull_same.
    + unfold cur_pull. destruct (N.eqb_spec i id) as [->|Hne].
      * destruct (find_stmt id (stmts s)) as [v|] eqn:F; cbn [stmts inc_pulled set_stmts option_map].
        -- rewrite find_put, N.eqb_refl. reflexivity.
        -- exact F.
      * destruct (find_stmt i (stmts s)) as [v|]; cbn [stmts inc_pulled set_stmts]; [|reflexivity].
        rewrite find_put. destruct (N.eqb_spec i id); [contradiction|reflexivity].
  - (* MSleep *) split; [|now right; left]. unfold eff. rewrite mrun_nil. cbn [pkt1 apply1]. rewrite app_nil_r. auto.
  - (* MRowWait *)
    split; [|now right; right]. unfold eff. rewrite mrun_nil. cbn [pkt1 apply1]. rewrite app_nil_r.
    split; [|split; [|unfold bufp; now rewrite (proj1 (cur_skip_same s ic))]].
    + apply cur_skip_same.
    + unfold cur_skip_suspend. destruct ic as [i|]; [|reflexivity]. destruct (N.eqb_spec i id) as [->|Hne].
      * destruct (find_stmt id (stmts s)) as [v|] eqn:F; cbn [stmts set_stmts option_map].
        -- rewrite find_put, N.eqb_refl. reflexivity.
        -- exact F.
      * destruct (find_stmt i (stmts s)) as [v|]; cbn [stmts set_stmts]; [|reflexivity].
        rewrite find_put. destruct (N.eqb_spec i id); [contradiction|reflexivity].
  - (* MRaise *) unfold kill_cursor. destruct ic as [i|]; [|reflexivity]. destruct (find_stmt i (stmts s)); reflexivity.
  - (* MSetCursor *) unfold eff. rewrite mrun_nil. cbn [pkt1 apply1 stmts set_stmts inq]. rewrite app_nil_r, find_put. auto.
  - (* MClearStmt *) unfold eff. rewrite mrun_nil. cbn [pkt1 apply1 stmts set_stmts inq]. rewrite app_nil_r, find_put. auto.
  - (* MDropStmt *) unfold eff. rewrite mrun_nil. cbn [pkt1 apply1 stmts set_stmts inq]. rewrite app_nil_r, find_del. auto.
  - (* MAuthed *) unfold eff. rewrite mrun_nil. cbn [pkt1 apply1]. rewrite app_nil_r. auto.
  - (* MResetSeq *) unfold eff. rewrite mrun_nil. cbn [pkt1 apply1]. rewrite app_nil_r. auto.
Qed.

Lemma has_err_snoc l c : has_err (l ++ [PErr c]).
Proof. unfold has_err. rewrite existsb_app. cbn. now rewrite orb_true_r. Qed.

Lemma simple_err c : simple (MWrite (PErr c) SZ_ERR true). Proof. exact I. Qed.

Lemma op_ok m s op k f : Qr m (op :: k) f s ->
  match exec_op B s op with
  | ActNext s' o => Qr (mrun m o) k f s'
  | ActSuspend s' w ic o => Qs (mrun m o) w k f s'
  | ActRaise s' x ic o => R (mrun m o) x f (kill_cursor s' ic)
  | ActQuit s' => Qweak m s' /\ (f = FHandler -> Qr m [MApp SClose] (FClose false) (inc_closes (set_seq (set_exec s' false) 0)))
  | ActEnter s' f' => Qweak m s' /\ (is_handler f = true -> is_handler f' = true -> Qr m k f' s')
  end.
Proof.
  intros Q. destruct f as [| | | | | |wk| |re]; cbn [Qr] in Q; try contradiction.
  - (* FRead *) destruct Q as [Q _]. discriminate.
  - (* FHandler *)
    destruct Q as (Hi & done & Hd & Ht & Hp).
    assert (Hs : simple op).
    { rewrite Forall_forall in plan_simple. apply plan_simple. rewrite <- Hd. apply in_or_app. right. now left. }
    pose proof (op_eff m s op Hs) as E.
    assert (Hd' : (done ++ [op]) ++ k = plan0) by (rewrite <- app_assoc; exact Hd).
    destruct (exec_op B s op) as [s' o|s' w ic o|s' x ic o|s'|s' f']; try contradiction.
    + destruct E as (E1 & E2 & E3). cbn [Qr]. split; [congruence|]. exists (done ++ [op]). split; [exact Hd'|].
      split; [rewrite E2, Ht; unfold applyl; now rewrite fold_left_app|].
      rewrite E3, app_assoc, Hp. unfold pkts. rewrite flat_map_app. cbn. now rewrite app_nil_r.
    + destruct E as [(E1 & E2 & E3) Hw].
      assert (QQ : Qr (mrun m o) k FHandler s').
      { cbn [Qr]. split; [congruence|]. exists (done ++ [op]). split; [exact Hd'|].
        split; [rewrite E2, Ht; unfold applyl; now rewrite fold_left_app|].
        rewrite E3, app_assoc, Hp. unfold pkts. rewrite flat_map_app. cbn. now rewrite app_nil_r. }
      unfold Qs. destruct Hw as [-> | [-> | ->]]; exact QQ.
    + cbn [R]. congruence.
  - (* FHandlerErr *)
    destruct Q as (Hi & [[c Hk] | [Hk _]]); [|discriminate].
    unfold errplan in Hk. inversion Hk; subst op k.
    pose proof (op_eff m s _ (simple_err c)) as E.
    destruct (exec_op B s (MWrite (PErr c) SZ_ERR true)) as [s' o|s' w ic o|s' x ic o|s'|s' f']; try contradiction.
    + destruct E as (E1 & E2 & E3). cbn [Qr]. split; [congruence|]. right. split; [reflexivity|].
      rewrite E3. cbn [pkt1]. rewrite app_assoc. apply has_err_snoc.
    + destruct E as [(E1 & E2 & E3) Hw].
      assert (QQ : Qr (mrun m o) [] (FHandlerErr wk) s').
      { cbn [Qr]. split; [congruence|]. right. split; [reflexivity|]. rewrite E3. cbn [pkt1]. rewrite app_assoc. apply has_err_snoc. }
      unfold Qs. destruct Hw as [-> | [-> | ->]]; exact QQ.
    + cbn [R]. congruence.
  - (* FKillErr *)
    destruct (exec_op B s op) as [s' o|s' w ic o|s' x ic o|s'|s' f']; cbn; auto. split; [exact I|discriminate].
  - (* FClose *)
    destruct (exec_op B s op) as [s' o|s' w ic o|s' x ic o|s'|s' f']; cbn; auto. split; [exact I|discriminate].
Qed.

Lemma throw_ok m s x f : R m x f s ->
  match throw s x f with
  | Continue s' k' f' => Qr m k' f' s'
  | ToClose s' re => Qr m [MApp SClose] (FClose re) (inc_closes s')
  | Finished s' _ => Qdone m s'
  end.
Proof.
  intros H. destruct f as [| | | | | |wk| |re]; cbn [R] in H; try contradiction; cbn [throw].
  - (* FRead *) destruct x; destruct (kill s) as [[|]|]; exact I.
  - (* FHandler *)
    destruct x as [c| | | |]; cbn [kill set_exec]; destruct (kill s) as [[|]|]; cbn [Qr]; auto;
      (split; [exact H|left; eexists; reflexivity]).
  - (* FHandlerErr *) cbn [kill set_seq]. destruct x; destruct (kill s) as [[|]|]; exact I.
  - (* FKillErr *) exact I.
  - (* FClose *) exact I.
Qed.

Lemma end_ok m s f : Qr m [] f s ->
  match end_plan BATCH s f with
  | EFinish s' _ => Qdone m s'
  | EGo s' k' f' => Qr m k' f' s'
  | ESuspRead s' => Qs m WRead [] f s'
  | ERaise s' x => R m x f s'
  end.
Proof.
  intros Q. destruct f as [| | | | | |wk| |re]; cbn [Qr] in Q; try contradiction; cbn [end_plan].
  - (* FRead *) destruct Q as (_ & Hi & Hf). rewrite Hi. destruct (eof s); [exact Hi|].
    unfold Qs. split; [reflexivity|]. cbn [Qr]. auto.
  - (* FHandler *)
    destruct Q as (Hi & done & Hd & Ht). rewrite app_nil_r in Hd. subst done.
    cbn [Qr]. split; [reflexivity|]. split; [exact Hi|]. right. exact Ht.
  - (* FHandlerErr *)
    destruct Q as (Hi & [[c Hk] | [_ He]]); [discriminate|].
    cbn [Qr]. split; [reflexivity|]. split; [destruct wk; exact Hi|]. left. destruct wk; exact He.
  - exact I.
  - exact I.
Qed.

Lemma Qr_weak m k f s : Qr m k f s -> Qweak m s. Proof. intros _. exact I. Qed.

Definition run_okc := run_ok3 B BATCH M mstep Qr Qs R Qdone Qweak Qs_ctl (fun m s c H => H) (fun m s c H => H) Qr_weak op_ok throw_ok end_ok
  (fun m exc => eq_refl) (fun m => eq_refl) (fun m => eq_refl).
Definition go_okc := go_ok3 B BATCH M mstep Qr Qs R Qdone Qweak Qs_ctl (fun m s c H => H) (fun m s c H => H) Qr_weak op_ok throw_ok end_ok
  (fun m exc => eq_refl) (fun m => eq_refl) (fun m => eq_refl).
Definition raise_at_okc := raise_at_ok3 B BATCH M mstep Qr Qs R Qdone Qweak Qs_ctl (fun m s c H => H) (fun m s c H => H) Qr_weak op_ok throw_ok end_ok
  (fun m exc => eq_refl) (fun m => eq_refl) (fun m => eq_refl).

Notation goodc := (good3 M Qs Qdone Qweak).
Notation okc := (ok3 M mstep Qs Qdone Qweak).

Lemma Qs_to_Qr m w k f s : w = WDrain \/ w = WSleep \/ w = WRow -> Qs m w k f s -> Qr m k f s.
Proof.
  intros Hw H. unfold Qs in H. destruct f; try exact I; destruct Hw as [-> | [-> | ->]]; exact H.
Qed.

Lemma step_okc m s e : allowed e -> goodc m s -> okc m (step B BATCH s e).
Proof.
  intros Ha G. pose proof G as G0. unfold good3 in G. destruct (ctl_ s) as [w k f ic| |] eqn:Ec.
  2,3: (unfold step; rewrite Ec; exact G0).
  unfold step. rewrite Ec. destruct e; cbn [allowed] in Ha; try contradiction.
  - (* EvAuthReply *)
    destruct (phase s); try exact G0; destruct w; try exact G0; destruct f; try exact G0; unfold Qs in G; cbn [Qr] in G;
      try contradiction; destruct G as [G1 G2]; try discriminate; contradiction.
  - (* EvDecide *)
    destruct w; try exact G0. destruct c; try exact G0.
    apply go_okc. unfold Qs in G. destruct f; try contradiction; exact I.
  - (* EvApp *)
    destruct w; try exact G0. destruct c; try exact G0;
      (unfold Qs in G; destruct f; try contradiction;
       (destruct o as [|sz items|[cd|]|]; [| |apply raise_at_okc; exact I|apply raise_at_okc; exact I|];
        (destruct k as [|[] k1]; apply go_okc; exact I))).
  - (* EvRowReady *) destruct w; try exact G0. apply go_okc. now apply (Qs_to_Qr m WRow); auto.
  - (* EvTick *) destruct w; try exact G0. apply go_okc. now apply (Qs_to_Qr m WSleep); auto.
  - (* EvPause *) unfold ok3, good3. cbn [fst snd ctl_ set_paused]. rewrite Ec. eapply Qs_frame; [| | |exact G]; reflexivity.
  - (* EvResume *)
    destruct w.
    1,2,4,5: (unfold ok3, good3; cbn [fst snd ctl_ set_paused]; rewrite Ec; eapply Qs_frame; [| | |exact G]; reflexivity).
    apply go_okc. eapply Qr_frame; [| | |apply (Qs_to_Qr m WDrain); [now left|exact G]]; reflexivity.
Qed.

Definition exec_okc := exec_ok3 B BATCH M mstep Qs Qdone Qweak allowed step_okc.
End Track.

(* ---- one round ------------------------------------------------------------------------------------------------------ *)
Section Round.
Variable B BATCH : N.
Variable dep : bool.
Variable id : N.

Lemma mrun_pkts : forall o m, mrun M mstep m o = m ++ pkts_out o.
Proof.
  induction o as [|a o IH]; intros m; [cbn; now rewrite app_nil_r|].
  unfold mrun in *. cbn [fold_left pkts_out flat_map]. rewrite IH. destruct a; cbn [mstep]; try reflexivity.
  now rewrite app_assoc.
Qed.

(* A command arrives at the prompt of a lock-step connection; its handler is a straight plan (no application call, no
   change of frame); the events allowed to a lock-step client follow, in any number and order; the server is back at its
   prompt.  Then either the client was sent an ERR, or the machine executed exactly the operations of that plan: the
   watched statement is what those operations make of it, and the packets sent are those the plan writes, in order. *)
Theorem round_executes_plan c evs s :
  quiescent dep s -> at_prompt s -> Forall allowed evs ->
  let h := handler BATCH (set_exec (set_seq (set_inq (set_inq s [c]) []) ((seq (set_inq s [c]) + 1) mod 256)) true) c in
  Forall simple (snd h) ->
  let r := exec B BATCH s (EvPayload c :: evs) in
  at_prompt (fst r) ->
  has_err (map snd (pkts_out (snd r)) ++ bufp (fst r)) \/
  (find_stmt id (stmts (fst r)) = applyl id (find_stmt id (stmts (fst h))) (snd h) /\
   map snd (pkts_out (snd r)) ++ bufp (fst r) = pkts (snd h)).
Proof.
  intros Q P Ha h Hs r P'.
  set (c0 := find_stmt id (stmts (fst h))).
  destruct (step_payload_prompt B BATCH dep c s None Q P) as [n E].
  assert (S1 : ok3 M mstep (Qs id c0 (snd h)) Qdone Qweak [] (step B BATCH s (EvPayload c))).
  { rewrite E. apply (run_okc B BATCH id c0 (snd h) Hs). cbn [Qr].
    pose proof (handler_fields BATCH (set_exec (set_seq (set_inq (set_inq s [c]) []) ((seq (set_inq s [c]) + 1) mod 256)) true) c) as HF.
    fold h in HF. cbn [fst] in HF. destruct HF as (_ & _ & _ & _ & _ & F6 & _ & F8). cbn [inq buf set_exec set_seq set_inq] in F6, F8.
    split; [exact F6|]. exists []. split; [reflexivity|]. split; [reflexivity|].
    fold h. unfold bufp. rewrite F8. destruct Q as (_ & _ & _ & _ & _ & _ & Qb & _). rewrite Qb. reflexivity. }
  revert P'. unfold r. cbn [exec]. destruct (step B BATCH s (EvPayload c)) as [s1 o1]. unfold ok3 in S1. cbn [fst snd] in S1.
  pose proof (exec_okc B BATCH id c0 (snd h) Hs evs _ s1 Ha S1) as S2.
  destruct (exec B BATCH s1 evs) as [s2 o2]. unfold ok3 in S2. cbn [fst snd] in *. intros P'.
  unfold good3, at_prompt in *. rewrite P' in S2. unfold Qs in S2. destruct S2 as [_ S2]. cbn [Qr] in S2. destruct S2 as (_ & _ & F).
  rewrite <- (mrun_app M mstep) in F. rewrite mrun_pkts in F. cbn [app] in F.
  unfold final, tracked in F. exact F.
Qed.
End Round.

(* ---- COM_STMT_FETCH ------------------------------------------------------------------------------------------------- *)
Section FetchInst.
Variable BATCH : N.
Variable id : N.

(* what is left of the cursor after a fetch that wants `want` rows and has written c of them so far *)
Fixpoint rest (items : list item) (c want : N) : list item :=
  match items with
  | [] => []
  | IRow _ :: r => if want <=? c then items else rest r (c + 1) want
  | ISuspend :: r => if want <=? c then items else rest r c want
  | IRaise _ :: _ => items
  end.

Lemma applyl_app i c0 a b : applyl i c0 (a ++ b) = applyl i (applyl i c0 a) b.
Proof. unfold applyl. apply fold_left_app. Qed.
Lemma pkts_app a b : pkts (a ++ b) = pkts a ++ pkts b.
Proof. unfold pkts. apply flat_map_app. Qed.

Lemma sleeps_neutral (l : plan) : (forall m, In m l -> match m with MSleep _ => True | _ => False end) ->
  Forall simple l /\ pkts l = [] /\ forall i c0, applyl i c0 l = c0.
Proof.
  induction l as [|m l IH]; intros H; [repeat split; constructor|].
  pose proof (H m (or_introl eq_refl)) as Hm. destruct m; try contradiction.
  destruct (IH (fun m' Hin => H m' (or_intror Hin))) as (I1 & I2 & I3).
  split; [constructor; [exact I|exact I1]|]. split; [exact I2|]. intros i c0. cbn. apply I3.
Qed.

Theorem fetch_all : forall items fuel j c want i0, (length items < fuel)%nat -> c <= want -> has_raise items = false ->
  let '(k, c') := fetch_plan BATCH fuel id items j c want i0 in
  c <= c' /\ c' = N.min want (c + N.of_nat (nrows items)) /\
  Forall simple k /\
  pkts k = row_pkts (seqN (i0 + c) (N.to_nat (c' - c))) /\
  applyl id (Some (mk_stmt (Some items) j)) k = Some (mk_stmt (Some (rest items c want)) (j + (c' - c))) /\
  (forall i c0, i <> id -> applyl i c0 k = c0).
Proof.
  induction items as [|it items IH]; intros fuel j c want i0 Hf Hc Hr.
  - destruct fuel as [|f]; [lia|]. cbn [fetch_plan nrows rest].
    destruct (N.leb_spec want c); cbn [fst snd]; (split; [lia|]); (split; [lia|]); (split; [constructor|]);
      replace (c - c) with 0 by lia; rewrite N.add_0_r; cbn; repeat split; auto.
  - destruct fuel as [|f]; [cbn in Hf; lia|]. cbn [fetch_plan].
    destruct (N.leb_spec want c) as [L|L].
    { assert (want = c) by lia. subst. split; [lia|]. split; [cbn; lia|]. split; [constructor|].
      replace (c - c) with 0 by lia. rewrite N.add_0_r. cbn [N.to_nat seqN row_pkts map pkts flat_map applyl fold_left].
      split; [reflexivity|]. split; [|auto].
      destruct it; cbn [rest]; rewrite ?N.leb_refl; reflexivity. }
    destruct it as [sz| |m]; cbn [has_raise] in Hr; [| |discriminate].
    + specialize (IH f (j + 1) (c + 1) want i0 ltac:(cbn in Hf; lia) ltac:(lia) Hr).
      destruct (fetch_plan BATCH f id items (j + 1) (c + 1) want i0) as [k c'] eqn:E.
      destruct IH as (I0 & I1 & I2 & I3 & I4 & I5). cbn [nrows].
      set (inner := if negb (j =? 0) && (j mod BATCH =? 0) then [MSleep (Some id)] else []).
      set (outer := if negb (c =? 0) && (c mod BATCH =? 0) then [MSleep None] else []).
      assert (Hi : forall m, In m inner -> match m with MSleep _ => True | _ => False end).
      { unfold inner. destruct (negb (j =? 0) && (j mod BATCH =? 0)); cbn; intros m Hin; [destruct Hin as [<-|[]]; exact I|contradiction]. }
      assert (Ho : forall m, In m outer -> match m with MSleep _ => True | _ => False end).
      { unfold outer. destruct (negb (c =? 0) && (c mod BATCH =? 0)); cbn; intros m Hin; [destruct Hin as [<-|[]]; exact I|contradiction]. }
      destruct (sleeps_neutral inner Hi) as (Si1 & Si2 & Si3). destruct (sleeps_neutral outer Ho) as (So1 & So2 & So3).
      split; [lia|]. split; [lia|].
      split.
      { constructor; [exact I|]. apply Forall_app. split; [exact Si1|]. apply Forall_app. split; [exact So1|]. constructor; [exact I|exact I2]. }
      split.
      { change (MCurPull id :: inner ++ outer ++ MWrite (PRow (i0 + c)) sz false :: k)
          with ([MCurPull id] ++ inner ++ outer ++ [MWrite (PRow (i0 + c)) sz false] ++ k).
        rewrite !pkts_app, Si2, So2, I3. cbn [pkts flat_map pkt1 app].
        replace (N.to_nat (c' - c)) with (S (N.to_nat (c' - (c + 1)))) by lia.
        cbn [seqN row_pkts map]. replace (i0 + c + 1) with (i0 + (c + 1)) by lia. reflexivity. }
      split.
      { change (MCurPull id :: inner ++ outer ++ MWrite (PRow (i0 + c)) sz false :: k)
          with ([MCurPull id] ++ inner ++ outer ++ [MWrite (PRow (i0 + c)) sz false] ++ k).
        rewrite !applyl_app, Si3, So3. cbn [applyl fold_left apply1]. rewrite N.eqb_refl. cbn [option_map].
        change (pull1 (mk_stmt (Some (IRow sz :: items)) j)) with (mk_stmt (Some items) (j + 1)).
        fold (applyl id (Some (mk_stmt (Some items) (j + 1))) k). rewrite I4. cbn [rest].
        destruct (N.leb_spec want c); [lia|]. f_equal. f_equal. lia. }
      intros i c0 Hne.
      change (MCurPull id :: inner ++ outer ++ MWrite (PRow (i0 + c)) sz false :: k)
        with ([MCurPull id] ++ inner ++ outer ++ [MWrite (PRow (i0 + c)) sz false] ++ k).
      rewrite !applyl_app, Si3, So3. cbn [applyl fold_left apply1].
      destruct (N.eqb_spec id i); [congruence|]. fold (applyl i c0 k). now apply I5.
    + specialize (IH f j c want i0 ltac:(cbn in Hf; lia) Hc Hr).
      destruct (fetch_plan BATCH f id items j c want i0) as [k c'] eqn:E.
      destruct IH as (I0 & I1 & I2 & I3 & I4 & I5). cbn [nrows].
      split; [exact I0|]. split; [exact I1|]. split; [constructor; [exact I|exact I2]|].
      split; [exact I3|]. split.
      { cbn [applyl fold_left apply1]. rewrite N.eqb_refl. cbn [option_map].
        change (skip1 (mk_stmt (Some (ISuspend :: items)) j)) with (mk_stmt (Some items) j).
        fold (applyl id (Some (mk_stmt (Some items) j)) k). rewrite I4. cbn [rest]. destruct (N.leb_spec want c); [lia|reflexivity]. }
      intros i c0 Hne. cbn [applyl fold_left apply1]. destruct (N.eqb_spec id i); [congruence|]. fold (applyl i c0 k). now apply I5.
Qed.

Lemma rest_rows : forall items c want, has_raise items = false ->
  nrows (rest items c want) = (nrows items - N.to_nat (N.min want (c + N.of_nat (nrows items)) - c))%nat /\ has_raise (rest items c want) = false.
Proof.
  induction items as [|it items IH]; intros c want H; [cbn; split; [lia|reflexivity]|].
  destruct it as [sz| |m]; cbn [rest nrows has_raise] in *; [| |discriminate].
  - destruct (N.leb_spec want c); [cbn [nrows has_raise]; split; [lia|exact H]|].
    destruct (IH (c + 1) want H) as [I1 I2]. split; [rewrite I1; lia|exact I2].
  - destruct (N.leb_spec want c); [cbn [nrows has_raise]; split; [lia|exact H]|].
    destruct (IH c want H) as [I1 I2]. split; [rewrite I1; reflexivity|exact I2].
Qed.
End FetchInst.

Lemma existsb_map_false {A} (f : A -> pkt) (l : list A) : (forall a, is_err (f a) = false) -> existsb is_err (map f l) = false.
Proof. intros H. induction l as [|a l IH]; [reflexivity|]. cbn. now rewrite H, IH. Qed.

(* ---- one COM_STMT_FETCH round of a lock-step conversation -------------------------------------------------------------- *)
Section FetchRound.
Variable B BATCH : N.
Variable dep : bool.

Definition term_pkt (flags : N) : pkt := if dep then POk true flags else PEof flags.

(* The server waits at its prompt with a cursor open on statement id: `items` still to come, j rows already fetched.  The
   client sends COM_STMT_FETCH id n; whatever a lock-step client may see happen follows (rows becoming ready, the loop's
   turns, the socket pausing and resuming), in any number and order; the server is back at its prompt.  Then either the
   client was sent an ERR, or it was sent exactly the rows j .. j+m-1 (m = min(n, rows left)), in order, followed by the
   terminator carrying last-row-sent iff the fetch could not be filled; the cursor has advanced by exactly those rows; and
   no other statement of the connection has changed. *)
Theorem fetch_round id n szf evs s items j :
  quiescent dep s -> at_prompt s -> Forall allowed evs ->
  find_stmt id (stmts s) = Some (mk_stmt (Some items) j) -> has_raise items = false ->
  let r := exec B BATCH s (EvPayload (CFetch id n szf) :: evs) in
  at_prompt (fst r) ->
  let sent := map snd (pkts_out (snd r)) in
  let m := N.min n (N.of_nat (nrows items)) in
  has_err sent \/
  (sent = row_pkts (seqN j (N.to_nat m)) ++ [term_pkt (if m <? n then FL_LAST_ROW_SENT else FL_CURSOR_EXISTS)] /\
   find_stmt id (stmts (fst r)) = Some (mk_stmt (Some (rest items 0 n)) (j + m)) /\
   forall i, i <> id -> find_stmt i (stmts (fst r)) = find_stmt i (stmts s)).
Proof.
  intros Q P Ha Hf Hr r P' sent m.
  (* the write buffer is empty at the next prompt (C03) *)
  pose proof (round_ok B BATCH dep (rkind_of (CFetch id n szf)) (CFetch id n szf) evs s eq_refl I Q P Ha) as Rd.
  fold r in Rd. unfold ok3 in Rd. destruct (good_prompt BATCH dep _ _ _ Rd P') as [_ Q'].
  assert (Hb : bufp (fst r) = []) by (unfold bufp; destruct Q' as (_ & _ & _ & _ & _ & _ & Qb & _); now rewrite Qb).
  set (s1 := set_exec (set_seq (set_inq (set_inq s [CFetch id n szf]) []) ((seq (set_inq s [CFetch id n szf]) + 1) mod 256)) true).
  assert (Hd : deprecate_eof s1 = dep) by (destruct Q as (Qd & _); exact Qd).
  pose proof (fetch_all BATCH id items (S (length items)) j 0 n j ltac:(lia) ltac:(lia) Hr) as FA.
  assert (Hh : handler BATCH s1 (CFetch id n szf) =
               (s1, fst (fetch_plan BATCH (S (length items)) id items j 0 n j) ++
                    [MDrain; MWrite (ok_or_eof s1 (if snd (fetch_plan BATCH (S (length items)) id items j 0 n j) <? n
                                                    then FL_LAST_ROW_SENT else FL_CURSOR_EXISTS)) szf true])).
  { cbn [handler]. change (stmts s1) with (stmts s). rewrite Hf. cbn [st_cursor st_inner].
    destruct (fetch_plan BATCH (S (length items)) id items j 0 n j) as [k c']. reflexivity. }
  destruct (fetch_plan BATCH (S (length items)) id items j 0 n j) as [k c'] eqn:E. cbn [fst snd] in Hh.
  destruct FA as (F0 & F1 & F2 & F3 & F4 & F5).
  rewrite N.add_0_l in F1. rewrite N.sub_0_r in F3, F4. rewrite N.add_0_r in F3. fold m in F1. subst c'.
  set (tail := [MDrain; MWrite (ok_or_eof s1 (if m <? n then FL_LAST_ROW_SENT else FL_CURSOR_EXISTS)) szf true]) in *.
  assert (Hs : Forall simple (snd (handler BATCH s1 (CFetch id n szf)))).
  { rewrite Hh. cbn [snd]. apply Forall_app. split; [exact F2|]. unfold tail. repeat constructor. }
  assert (Hstm : stmts (fst (handler BATCH s1 (CFetch id n szf))) = stmts s) by (rewrite Hh; reflexivity).
  pose proof (round_executes_plan B BATCH dep id (CFetch id n szf) evs s Q P Ha Hs P') as RP.
  fold s1 in RP. fold r in RP. rewrite Hb, app_nil_r in RP. fold sent in RP.
  destruct RP as [RE | [R1 R2]]; [now left|]. right.
  rewrite Hstm, Hf in R1. rewrite Hh in R1, R2. cbn [snd] in R1, R2.
  split; [|split].
  - rewrite R2, pkts_app, F3. unfold tail. cbn [pkts flat_map pkt1 app]. unfold ok_or_eof, term_pkt. now rewrite Hd.
  - rewrite R1, applyl_app, F4. unfold tail. reflexivity.
  - intros i Hne.
    assert (Hs' : Forall simple (snd (handler BATCH s1 (CFetch id n szf)))) by exact Hs.
    pose proof (round_executes_plan B BATCH dep i (CFetch id n szf) evs s Q P Ha Hs' P') as RPi.
    fold s1 in RPi. fold r in RPi. rewrite Hb, app_nil_r in RPi. fold sent in RPi.
    destruct RPi as [REi | [Ri _]].
    + (* an ERR among what was sent contradicts the packets just established *)
      exfalso. unfold has_err in REi. rewrite R2, pkts_app, F3 in REi. unfold tail in REi. cbn [pkts flat_map pkt1 app] in REi.
      rewrite existsb_app in REi. unfold row_pkts in REi. rewrite existsb_map_false in REi by (intros; reflexivity).
      cbn in REi. unfold ok_or_eof in REi. destruct (deprecate_eof s1); discriminate.
    + rewrite Hstm in Ri. rewrite Hh in Ri. cbn [snd] in Ri. rewrite Ri, applyl_app, (F5 i _ Hne). reflexivity.
Qed.
End FetchRound.

(* ---- what does not move a cursor: every round of a command that addresses another statement, or none ----------------------- *)
Section Frame.
Variable B BATCH : N.
Variable id : N.

Definition touches (op : mop) : bool :=
  match op with
  | MCurPull i | MSetCursor i _ | MClearStmt i _ | MDropStmt i => i =? id
  | MRowWait (Some i) | MSleep (Some i) | MRaise _ (Some i) => i =? id
  | MCont (QExec i _) => i =? id
  | _ => false
  end.
Definition quietp (k : plan) : Prop := forallb (fun op => negb (touches op)) k = true.

Lemma quietp_app a b : quietp a -> quietp b -> quietp (a ++ b).
Proof. unfold quietp. rewrite forallb_app. intros -> ->. reflexivity. Qed.
Lemma quietp_cons op k : quietp (op :: k) <-> touches op = false /\ quietp k.
Proof. unfold quietp. cbn [forallb]. rewrite andb_true_iff, negb_true_iff. tauto. Qed.

Lemma quiet_map_write (f : N -> pkt) d l : quietp (map (fun z => MWrite (f z) z d) l).
Proof. induction l; [reflexivity|]. cbn [map]. apply quietp_cons. now split. Qed.
Lemma quiet_rows : forall items i, quietp (rows_plan BATCH items i).
Proof.
  induction items as [|it items IH]; intros i; [reflexivity|]. destruct it as [sz| |m]; cbn [rows_plan].
  - apply quietp_cons. split; [reflexivity|]. apply quietp_app; [destruct (negb (i =? 0) && (i mod BATCH =? 0)); reflexivity|].
    apply quietp_cons. split; [reflexivity|apply IH].
  - apply quietp_cons. split; [reflexivity|apply IH].
  - reflexivity.
Qed.
Lemma quiet_bin_rows : forall items i, quietp (bin_rows_plan BATCH items i).
Proof.
  induction items as [|it items IH]; intros i; [reflexivity|]. destruct it as [sz| |m]; cbn [bin_rows_plan].
  - apply quietp_cons. split; [reflexivity|]. apply quietp_app; [destruct (negb (i =? 0) && (i mod BATCH =? 0)); reflexivity|].
    apply quietp_cons. split; [reflexivity|apply IH].
  - apply quietp_cons. split; [reflexivity|apply IH].
  - reflexivity.
Qed.
Lemma quiet_consume : forall items, quietp (consume_plan items).
Proof.
  induction items as [|it items IH]; [reflexivity|]. destruct it as [sz| |m]; cbn [consume_plan].
  - apply quietp_cons. now split.
  - apply quietp_cons. now split.
  - reflexivity.
Qed.

Lemma quiet_continuation s q o : touches (MCont q) = false -> quietp (continuation BATCH s q o).
Proof.
  intros Hq. destruct q as [|i cur|]; destruct o as [|sz items|mm|]; cbn [continuation]; try reflexivity.
  - unfold text_plan. apply quietp_cons. split; [reflexivity|]. apply quietp_app; [apply (quiet_map_write (fun _ => PColDef))|].
    apply quietp_app; [destruct (deprecate_eof s); reflexivity|]. apply quietp_app; [apply quiet_rows|reflexivity].
  - unfold exec_plan. apply quietp_cons. split; [reflexivity|]. apply quietp_app; [apply (quiet_map_write (fun _ => PColDef))|].
    destruct cur.
    + apply quietp_cons. split; [exact Hq|reflexivity].
    + apply quietp_app; [destruct (deprecate_eof s); reflexivity|]. apply quietp_app; [apply quiet_bin_rows|reflexivity].
  - unfold fieldlist_plan. apply quietp_app; [apply quiet_consume|]. apply quietp_app; [apply (quiet_map_write (fun _ => PFieldList 1))|reflexivity].
Qed.

Lemma quiet_auth d b : quietp (auth_plan d b).
Proof. destruct d, b; reflexivity. Qed.

Lemma quiet_fetch i : i <> id -> forall fuel items j c want i0, quietp (fst (fetch_plan BATCH fuel i items j c want i0)).
Proof.
  intros Hne. assert (E : (i =? id) = false) by now apply N.eqb_neq.
  induction fuel as [|f IH]; intros items j c want i0; cbn [fetch_plan]; [destruct (want <=? c); reflexivity|].
  destruct (want <=? c); [reflexivity|]. destruct items as [|[sz| |m] r]; [reflexivity| | |].
  - specialize (IH r (j + 1) (c + 1) want i0). destruct (fetch_plan BATCH f i r (j + 1) (c + 1) want i0) as [k c']. cbn [fst] in *.
    apply quietp_cons. split; [exact E|]. apply quietp_app; [destruct (negb (j =? 0) && (j mod BATCH =? 0)); [apply quietp_cons; split; [exact E|reflexivity]|reflexivity]|].
    apply quietp_app; [destruct (negb (c =? 0) && (c mod BATCH =? 0)); reflexivity|]. apply quietp_cons. split; [reflexivity|exact IH].
  - specialize (IH r j c want i0). destruct (fetch_plan BATCH f i r j c want i0) as [k c']. cbn [fst] in *.
    apply quietp_cons. split; [exact E|exact IH].
  - cbn [fst]. apply quietp_cons. split; [exact E|reflexivity].
Qed.

(* one operation that does not touch the watched statement *)
Lemma op_untouched s op : touches op = false ->
  match exec_op B s op with
  | ActNext s' _ | ActSuspend s' _ _ _ | ActQuit s' | ActEnter s' _ => inq s' = inq s /\ find_stmt id (stmts s') = find_stmt id (stmts s)
  | ActRaise s' _ ic _ => inq (kill_cursor s' ic) = inq s /\ find_stmt id (stmts (kill_cursor s' ic)) = find_stmt id (stmts s)
  end.
Proof.
  intros Ht. destruct op as [p sz d| |c| |i|ic|ic|x ic|i items|i ct|i| | | |f'|q|]; cbn [exec_op]; try (split; reflexivity).
  - set (s1 := set_seq (set_buf s (buf s ++ [(seq s, p, sz)]) (handed s)) ((seq s + 1) mod 256)).
    destruct (d || (B <=? buf_bytes (buf s1))); [|split; reflexivity].
    pose proof (drain_eff [] s1) as D. pose proof (drain_shape s1) as Sh.
    destruct (do_drain s1) as [s' o|s' w ic o|s' x ic o|s'|s' f']; try contradiction; destruct D as (D1 & D2 & _).
    + split; [exact D1|now rewrite D2].
    + split; [exact D1|now rewrite D2].
    + subst ic. cbn [kill_cursor]. split; [exact D1|now rewrite D2].
  - pose proof (drain_eff [] s) as D. pose proof (drain_shape s) as Sh.
    destruct (do_drain s) as [s' o|s' w ic o|s' x ic o|s'|s' f']; try contradiction; destruct D as (D1 & D2 & _).
    + split; [exact D1|now rewrite D2].
    + split; [exact D1|now rewrite D2].
    + subst ic. cbn [kill_cursor]. split; [exact D1|now rewrite D2].
  - cbn [touches] in Ht. apply N.eqb_neq in Ht. cbn [inq inc_pulled stmts]. split; [apply cur_pull_same|].
    unfold cur_pull. destruct (find_stmt i (stmts s)); cbn [stmts set_stmts]; [|reflexivity].
    rewrite find_put. destruct (N.eqb_spec i id); [contradiction|reflexivity].
  - split; [apply cur_skip_same|]. unfold cur_skip_suspend. destruct ic as [i|]; [|reflexivity].
    cbn [touches] in Ht. apply N.eqb_neq in Ht. destruct (find_stmt i (stmts s)); cbn [stmts set_stmts]; [|reflexivity].
    rewrite find_put. destruct (N.eqb_spec i id); [contradiction|reflexivity].
  - unfold kill_cursor. destruct ic as [i|]; [|split; reflexivity]. cbn [touches] in Ht. apply N.eqb_neq in Ht.
    destruct (find_stmt i (stmts s)); cbn [stmts set_stmts inq]; [|split; reflexivity].
    split; [reflexivity|]. rewrite find_put. destruct (N.eqb_spec i id); [contradiction|reflexivity].
  - cbn [touches] in Ht. cbn [stmts set_stmts inq]. split; [reflexivity|]. rewrite find_put, Ht. reflexivity.
  - cbn [touches] in Ht. cbn [stmts set_stmts inq]. split; [reflexivity|]. rewrite find_put, Ht. reflexivity.
  - cbn [touches] in Ht. cbn [stmts set_stmts inq]. split; [reflexivity|]. rewrite find_del, Ht. reflexivity.
  - destruct (eof s); split; reflexivity.
Qed.

Variable c0 : option stmt.
Definition QrF (m : unit) (k : plan) (f : frame) (s : st) : Prop := inq s = [] /\ find_stmt id (stmts s) = c0 /\ quietp k.
Definition QsF (m : unit) (w : why) (k : plan) (f : frame) (s : st) : Prop := QrF m k f s.
Definition RF (m : unit) (x : exn) (f : frame) (s : st) : Prop := inq s = [] /\ find_stmt id (stmts s) = c0.
Definition QT (m : unit) (s : st) : Prop := True.
Definition ustep (m : unit) (o : out) : unit := m.

Lemma QrF_frame m k f s s' : stmts s' = stmts s -> inq s' = inq s -> QrF m k f s -> QrF m k f s'.
Proof. intros H1 H2. unfold QrF. rewrite H1, H2. auto. Qed.

Lemma op_okF m s op k f : QrF m (op :: k) f s ->
  match exec_op B s op with
  | ActNext s' o => QrF (mrun unit ustep m o) k f s'
  | ActSuspend s' w ic o => QsF (mrun unit ustep m o) w k f s'
  | ActRaise s' x ic o => RF (mrun unit ustep m o) x f (kill_cursor s' ic)
  | ActQuit s' => QT m s' /\ (f = FHandler -> QrF m [MApp SClose] (FClose false) (inc_closes (set_seq (set_exec s' false) 0)))
  | ActEnter s' f' => QT m s' /\ (is_handler f = true -> is_handler f' = true -> QrF m k f' s')
  end.
Proof.
  intros (Hi & Hf & Hq). apply quietp_cons in Hq as [Ht Hk]. pose proof (op_untouched s op Ht) as U.
  destruct (exec_op B s op) as [s' o|s' w ic o|s' x ic o|s'|s' f']; destruct U as [U1 U2].
  - repeat split; congruence.
  - repeat split; congruence.
  - split; congruence.
  - split; [exact I|]. intros _. unfold QrF. cbn [inq stmts inc_closes set_seq set_exec]. repeat split; congruence.
  - split; [exact I|]. intros _ _. repeat split; congruence.
Qed.

Lemma throw_okF m s x f : RF m x f s ->
  match throw s x f with
  | Continue s' k' f' => QrF m k' f' s'
  | ToClose s' re => QrF m [MApp SClose] (FClose re) (inc_closes s')
  | Finished s' _ => QT m s'
  end.
Proof.
  intros [Hi Hf]. unfold throw.
  destruct f as [| | | | | |wk| |re]; destruct x as [c| | | |]; cbn [kill set_exec set_seq]; destruct (kill s) as [[|]|];
    try exact I; unfold QrF; cbn [inq stmts inc_closes set_exec set_seq]; repeat split; assumption.
Qed.

Lemma end_okF m s f : QrF m [] f s ->
  match end_plan BATCH s f with
  | EFinish s' _ => QT m s'
  | EGo s' k' f' => QrF m k' f' s'
  | ESuspRead s' => QsF m WRead [] f s'
  | ERaise s' x => RF m x f s'
  end.
Proof.
  intros (Hi & Hf & _). destruct f as [| | | | | |wk| |re]; cbn [end_plan]; try exact I.
  - unfold QrF. cbn [inq stmts set_phase set_inited]. repeat split; assumption.
  - rewrite Hi. destruct (eof s); [split; assumption|]. repeat split; assumption.
  - unfold QrF. cbn [inq stmts set_seq set_exec]. repeat split; assumption.
  - unfold QrF. cbn [inq stmts set_seq set_exec]. repeat split; assumption.
  - unfold QrF. cbn [inq stmts set_seq set_exec]. repeat split; assumption.
  - unfold QrF. destruct wk; cbn [inq stmts set_seq set_kill]; repeat split; assumption.
  - unfold QrF. cbn [inq stmts inc_closes set_kill]. repeat split; assumption.
Qed.

Definition run_okF := run_ok3 B BATCH unit ustep QrF QsF RF QT QT (fun m w k f s c H => H) (fun m s c H => H) (fun m s c H => H)
  (fun m k f s H => I) op_okF throw_okF end_okF (fun m exc => eq_refl) (fun m => eq_refl) (fun m => eq_refl).
Definition go_okF := go_ok3 B BATCH unit ustep QrF QsF RF QT QT (fun m w k f s c H => H) (fun m s c H => H) (fun m s c H => H)
  (fun m k f s H => I) op_okF throw_okF end_okF (fun m exc => eq_refl) (fun m => eq_refl) (fun m => eq_refl).
Definition raise_at_okF := raise_at_ok3 B BATCH unit ustep QrF QsF RF QT QT (fun m w k f s c H => H) (fun m s c H => H) (fun m s c H => H)
  (fun m k f s H => I) op_okF throw_okF end_okF (fun m exc => eq_refl) (fun m => eq_refl) (fun m => eq_refl).

Notation goodF := (good3 unit QsF QT QT).
Notation okF := (ok3 unit ustep QsF QT QT).

Lemma step_okF m s e : allowed e -> goodF m s -> okF m (step B BATCH s e).
Proof.
  intros Ha G. pose proof G as G0. unfold good3 in G. destruct (ctl_ s) as [w k f ic| |] eqn:Ec.
  2,3: (unfold step; rewrite Ec; exact G0).
  unfold step. rewrite Ec. unfold QsF in G. pose proof G as (Hi & Hf & Hq).
  destruct e; cbn [allowed] in Ha; try contradiction.
  - (* EvAuthReply *)
    destruct (phase s); try exact G0; destruct w; try exact G0; destruct f; try exact G0;
      apply go_okF; (split; [exact Hi|split; [exact Hf|apply quietp_app; [apply quiet_auth|exact Hq]]]).
  - (* EvDecide *)
    destruct w; try exact G0. destruct c; try exact G0.
    apply go_okF. split; [exact Hi|split; [exact Hf|apply quietp_app; [apply quiet_auth|exact Hq]]].
  - (* EvApp *)
    destruct w; try exact G0. destruct c; try exact G0;
      (destruct o as [|sz items|[cd|]|];
       [| |apply raise_at_okF; split; assumption|apply raise_at_okF; split; assumption|];
       (destruct k as [|op k1]; [apply go_okF; exact G|];
        destruct op; try (apply go_okF; exact G);
        apply quietp_cons in Hq as [Ht Hk]; apply go_okF; (split; [exact Hi|split; [exact Hf|apply quietp_app; [now apply quiet_continuation|exact Hk]]]))).
  - destruct w; try exact G0. apply go_okF. exact G.
  - destruct w; try exact G0. apply go_okF. exact G.
  - unfold ok3, good3. cbn [fst snd ctl_ set_paused]. rewrite Ec. exact G.
  - destruct w.
    1,2,4,5: (unfold ok3, good3; cbn [fst snd ctl_ set_paused]; rewrite Ec; exact G).
    apply go_okF. exact G.
Qed.

Definition exec_okF := exec_ok3 B BATCH unit ustep QsF QT QT allowed step_okF.
End Frame.

Section FrameRound.
Variable B BATCH : N.
Variable dep : bool.
Variable id : N.

Definition addresses (c : cmd) : bool :=
  match c with CExecute i _ | CFetch i _ _ | CReset i | CClose i => i =? id | _ => false end.

Lemma handler_quiet s c : addresses c = false -> quietp id (snd (handler BATCH s c)).
Proof.
  intros Ha. destruct c as [| | | | | | |n sz|i|i cur|i n szf|i|i| | |m]; cbn [handler snd]; try reflexivity.
  - (* CPrepare *)
    apply quietp_cons. split; [reflexivity|]. apply quietp_app; [|reflexivity].
    destruct (0 <? n); [|reflexivity]. apply quietp_app; [apply (quiet_map_write id (fun _ => PColDef))|destruct (deprecate_eof s); reflexivity].
  - (* CExecute *) cbn [addresses] in Ha. destruct (find_stmt i (stmts s)); cbn [snd]; [|reflexivity].
    apply quietp_cons. split; [reflexivity|]. apply quietp_cons. split; [exact Ha|reflexivity].
  - (* CFetch *) cbn [addresses] in Ha. apply N.eqb_neq in Ha. destruct (find_stmt i (stmts s)) as [v|]; [|reflexivity].
    destruct (st_cursor v) as [items|]; [|reflexivity].
    pose proof (quiet_fetch BATCH id i Ha (S (length items)) items (st_inner v) 0 n (st_inner v)) as QF.
    destruct (fetch_plan BATCH (S (length items)) i items (st_inner v) 0 n (st_inner v)) as [k c']. cbn [fst snd] in *.
    apply quietp_app; [exact QF|reflexivity].
  - (* CReset *) cbn [addresses] in Ha. destruct (find_stmt i (stmts s)); cbn [snd]; [|reflexivity].
    apply quietp_cons. split; [exact Ha|reflexivity].
  - (* CClose *) cbn [addresses] in Ha. apply quietp_cons. split; [exact Ha|reflexivity].
Qed.

Lemma handler_keeps s c : addresses c = false -> (match c with CPrepare _ _ => next_stmt s <> id | _ => True end) ->
  find_stmt id (stmts (fst (handler BATCH s c))) = find_stmt id (stmts s).
Proof.
  intros Ha Hn. destruct c as [| | | | | | |n sz|i|i cur|i n szf|i|i| | |m]; cbn [handler fst]; try reflexivity.
  - cbn [stmts set_stmts]. rewrite find_put. destruct (N.eqb_spec (next_stmt s) id); [contradiction|reflexivity].
  - cbn [addresses] in Ha. destruct (find_stmt i (stmts s)); cbn [fst stmts set_stmts]; [|reflexivity].
    rewrite find_put, Ha. reflexivity.
  - destruct (find_stmt i (stmts s)) as [v|]; [|reflexivity]. destruct (st_cursor v) as [items|]; [|reflexivity].
    destruct (fetch_plan BATCH (S (length items)) i items (st_inner v) 0 n (st_inner v)). reflexivity.
  - destruct (find_stmt i (stmts s)); reflexivity.
Qed.

(* A round of any command that does not address statement id - queries, pings, executions, fetches, resets and closes of
   OTHER statements, PREPAREs (of a new id), COM_CHANGE_USER with its whole exchange ... - with whatever a lock-step client may
   see happen: wherever the connection is suspended afterwards, statement id is exactly as it was: same cursor, same
   position, or still absent. *)
Theorem other_round_keeps_statement c evs s :
  quiescent dep s -> at_prompt s -> Forall allowed evs -> addresses c = false ->
  (match c with CPrepare _ _ => next_stmt s <> id | _ => True end) ->
  let r := exec B BATCH s (EvPayload c :: evs) in
  forall w k f ic, ctl_ (fst r) = Susp w k f ic -> find_stmt id (stmts (fst r)) = find_stmt id (stmts s).
Proof.
  intros Q P Ha Hadr Hn r.
  set (c0 := find_stmt id (stmts s)).
  destruct (step_payload_prompt B BATCH dep c s None Q P) as [n E].
  set (s1 := set_exec (set_seq (set_inq (set_inq s [c]) []) ((seq (set_inq s [c]) + 1) mod 256)) true) in *.
  assert (S1 : ok3 unit (ustep) (QsF id c0) (QT) (QT) tt (step B BATCH s (EvPayload c))).
  { rewrite E. apply (run_okF B BATCH id c0). unfold QrF.
    pose proof (handler_fields BATCH s1 c) as HF. cbn [fst] in HF. destruct HF as (_ & _ & _ & _ & _ & F6 & _).
    split; [exact F6|]. split; [|now apply handler_quiet].
    rewrite (handler_keeps s1 c Hadr); [reflexivity|]. destruct c; auto. }
  unfold r. cbn [exec]. destruct (step B BATCH s (EvPayload c)) as [s2 o1]. unfold ok3 in S1. cbn [fst snd] in S1.
  pose proof (exec_okF B BATCH id c0 evs _ s2 Ha S1) as S2.
  destruct (exec B BATCH s2 evs) as [s3 o2]. unfold ok3 in S2. cbn [fst snd] in *.
  intros w k f ic Hc. unfold good3 in S2. rewrite Hc in S2. destruct S2 as (_ & F & _). exact F.
Qed.
End FrameRound.

(* ---- two fetches with anything in between ------------------------------------------------------------------------------ *)
Section TwoFetches.
Variable B BATCH : N.
Variable dep : bool.

Lemma prompt_quiescent c evs s : cmd_ok c -> quiescent dep s -> at_prompt s -> Forall allowed evs ->
  at_prompt (fst (exec B BATCH s (EvPayload c :: evs))) -> quiescent dep (fst (exec B BATCH s (EvPayload c :: evs))).
Proof.
  intros Hc Q P Ha P'. pose proof (round_ok B BATCH dep (rkind_of c) c evs s eq_refl Hc Q P Ha) as Rd. unfold ok3 in Rd.
  now destruct (good_prompt BATCH dep _ _ _ Rd P').
Qed.

(* a fetch, then a round of any command that does not address the statement, then another fetch: the second fetch
   continues exactly where the first one stopped - no row twice, none skipped *)
Theorem two_fetches id n1 n2 z1 z2 evs1 c evs2 evs3 s items j :
  quiescent dep s -> at_prompt s -> find_stmt id (stmts s) = Some (mk_stmt (Some items) j) -> has_raise items = false ->
  Forall allowed evs1 -> Forall allowed evs2 -> Forall allowed evs3 -> cmd_ok c -> addresses id c = false ->
  let r1 := exec B BATCH s (EvPayload (CFetch id n1 z1) :: evs1) in
  let r2 := exec B BATCH (fst r1) (EvPayload c :: evs2) in
  let r3 := exec B BATCH (fst r2) (EvPayload (CFetch id n2 z2) :: evs3) in
  (match c with CPrepare _ _ => next_stmt (fst r1) <> id | _ => True end) ->
  at_prompt (fst r1) -> at_prompt (fst r2) -> at_prompt (fst r3) ->
  let sent1 := map snd (pkts_out (snd r1)) in let sent3 := map snd (pkts_out (snd r3)) in
  ~ has_err sent1 -> ~ has_err sent3 ->
  let m1 := N.min n1 (N.of_nat (nrows items)) in
  let m2 := N.min n2 (N.of_nat (nrows items) - m1) in
  sent1 = row_pkts (seqN j (N.to_nat m1)) ++ [term_pkt dep (if m1 <? n1 then FL_LAST_ROW_SENT else FL_CURSOR_EXISTS)] /\
  sent3 = row_pkts (seqN (j + m1) (N.to_nat m2)) ++ [term_pkt dep (if m2 <? n2 then FL_LAST_ROW_SENT else FL_CURSOR_EXISTS)].
Proof.
  intros Q P Hf Hr A1 A2 A3 Hc Hadr r1 r2 r3 Hn P1 P2 P3 sent1 sent3 E1 E3 m1 m2.
  pose proof (fetch_round B BATCH dep id n1 z1 evs1 s items j Q P A1 Hf Hr P1) as F1. fold r1 in F1. fold sent1 in F1. fold m1 in F1.
  destruct F1 as [F1|(S1 & C1 & _)]; [contradiction|].
  assert (Q1 : quiescent dep (fst r1)) by (apply prompt_quiescent; auto; exact I).
  pose proof (other_round_keeps_statement B BATCH dep id c evs2 (fst r1) Q1 P1 A2 Hadr Hn) as K. fold r2 in K.
  unfold at_prompt in P2. specialize (K _ _ _ _ P2). rewrite C1 in K.
  assert (Q2 : quiescent dep (fst r2)) by (apply prompt_quiescent; auto).
  destruct (rest_rows items 0 n1 Hr) as [RR1 RR2]. rewrite N.add_0_l, N.sub_0_r in RR1. fold m1 in RR1.
  pose proof (fetch_round B BATCH dep id n2 z2 evs3 (fst r2) (rest items 0 n1) (j + m1) Q2 P2 A3 K RR2 P3) as F3.
  fold r3 in F3. fold sent3 in F3. destruct F3 as [F3|(S3 & _ & _)]; [contradiction|].
  split; [exact S1|]. rewrite S3. rewrite RR1.
  replace (N.of_nat (nrows items - N.to_nat m1)) with (N.of_nat (nrows items) - m1) by lia. reflexivity.
Qed.
End TwoFetches.
