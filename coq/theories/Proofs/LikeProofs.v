From Coq Require Import List NArith Lia Bool.
From MM Require Import Model.Like.
Import ListNotations.
Open Scope N_scope.

Lemma star_any_all s : matches (Star Any) s.
Proof.
  induction s as [|c s IH]; [constructor|]. change (c :: s) with ([c] ++ s). constructor; [constructor|exact IH].
Qed.

Lemma like_pct_unfold p s : like (PCT :: p) s = like p s || match s with [] => false | _ :: s' => like (PCT :: p) s' end.
Proof. destruct s; reflexivity. Qed.

Lemma like_pct_skip p : forall a b, like p b = true -> like (PCT :: p) (a ++ b) = true.
Proof.
  induction a as [|x a IH]; intros b H; rewrite like_pct_unfold; cbn [app].
  - rewrite H. reflexivity.
  - rewrite (IH b H). apply orb_true_r.
Qed.

Lemma like_pct_split p : forall s, like (PCT :: p) s = true -> exists a b, s = a ++ b /\ like p b = true.
Proof.
  induction s as [|x s IH]; intros H; rewrite like_pct_unfold in H.
  - rewrite orb_false_r in H. exists [], []. auto.
  - apply orb_prop in H. destruct H as [H|H].
    + exists [], (x :: s). auto.
    + destruct (IH H) as [a [b [E L]]]. exists (x :: a), b. split; [now rewrite E|exact L].
Qed.

Theorem like_sound : forall p s, like p s = true -> matches (to_re p) s.
Proof.
  induction p as [|c p IH]; intros s H.
  - destruct s; [constructor|discriminate].
  - cbn [to_re]. destruct (N.eqb_spec c PCT) as [->|Hc].
    + destruct (like_pct_split p s H) as [a [b [-> L]]]. constructor; [apply star_any_all|now apply IH].
    + cbn [like] in H. destruct (N.eqb_spec c PCT); [contradiction|].
      destruct s as [|x s]; [discriminate|]. apply andb_prop in H. destruct H as [H1 H2].
      change (x :: s) with ([x] ++ s). constructor; [|now apply IH].
      destruct (N.eqb_spec c USC); [constructor|]. cbn in H1. apply N.eqb_eq in H1. subst. constructor.
Qed.

Theorem like_complete : forall p s, matches (to_re p) s -> like p s = true.
Proof.
  induction p as [|c p IH]; intros s H; cbn [to_re] in H.
  - inversion H. reflexivity.
  - inversion H as [| | |a b s1 s2 H1 H2| |]; subst. apply IH in H2.
    destruct (N.eqb_spec c PCT) as [->|Hc].
    + now apply like_pct_skip.
    + cbn [like]. destruct (N.eqb_spec c PCT); [contradiction|].
      destruct (N.eqb_spec c USC) as [->|Hu].
      * inversion H1; subst. cbn [app]. now rewrite H2.
      * inversion H1; subst. cbn [app]. rewrite N.eqb_refl, H2. now rewrite orb_true_r.
Qed.

Theorem like_regex_correct p s : like p s = true <-> matches (to_re p) s.
Proof. split; [apply like_sound|apply like_complete]. Qed.

(* whole-string: a pattern without wildcards matches exactly itself *)
Theorem like_literal_exact p : forallb (fun c => negb (c =? PCT) && negb (c =? USC)) p = true ->
  forall s, like p s = true <-> s = p.
Proof.
  induction p as [|c p IH]; intros H s.
  - destruct s; cbn; split; intros; try reflexivity; discriminate.
  - cbn [forallb] in H. apply andb_prop in H. destruct H as [Hc Hp]. apply andb_prop in Hc. destruct Hc as [H1 H2].
    apply negb_true_iff in H1, H2. cbn [like]. rewrite H1. destruct s as [|x s]; [split; discriminate|].
    rewrite H2. cbn [orb]. split.
    + intros H. apply andb_prop in H. destruct H as [E L]. apply N.eqb_eq in E. subst. f_equal. now apply IH.
    + intros E. inversion E; subst. rewrite N.eqb_refl. cbn. now apply IH.
Qed.
