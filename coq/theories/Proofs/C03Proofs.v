(* Proofs/C03Proofs.v - response discipline of the command phase, for every lock-step conversation.
   A monitor reads what the machine hands to the socket: packet by packet it runs the protocol grammar of the command being
   answered (Model/Resp.v) and checks the sequence numbers.  For every command, every application outcome and every
   schedule of the remaining events the monitor never rejects, and when the machine is back at its prompt the monitor is in
   an accepting state: exactly one complete response, nothing after it. *)
From Coq Require Import List NArith Lia Bool.
From MM Require Import Lib.Bytes Model.Conn Model.Resp Proofs.RespProofs Proofs.C10Proofs Proofs.ConnInv3.
Import ListNotations.
Open Scope N_scope.

Record mon := mk_mon { m_rs : rstate; m_seq : N }.

Definition is_authreq (p : pkt) : bool := match p with PAuthSwitch | PAuthMore => true | _ => false end.
Definition head_is_read (k : plan) : bool := match k with MRead :: _ => true | _ => false end.
Definition head_is_cont (k : plan) : bool := match k with MCont _ :: _ => true | _ => false end.
Definition out_ok (o : outcome) : Prop := match o with OSet sz _ => sz_coldef sz <> [] | _ => True end.
Definition is_raise (o : outcome) : bool := match o with ORaise _ => true | _ => false end.

Section Resp.
Variable dep : bool.
Variable BATCH : N.

(* the client's view of one packet: its sequence number must be the expected one (the client's own reply to an
   authentication request takes one number) and the grammar must allow it *)
Definition mfeed (rk : rkind) (m : mon) (qp : N * pkt) : mon :=
  if fst qp =? m_seq m
  then mk_mon (rstep dep rk (m_rs m) (snd qp)) ((m_seq m + (if is_authreq (snd qp) then 2 else 1)) mod 256)
  else mk_mon RBad (m_seq m).
Definition mstep (rk : rkind) (m : mon) (o : out) : mon :=
  match o with OWrite ps => fold_left (mfeed rk) ps m | _ => m end.

Lemma mfeed_bad rk q qp : m_rs (mfeed rk (mk_mon RBad q) qp) = RBad.
Proof. unfold mfeed. cbn. destruct (fst qp =? q); reflexivity. Qed.

Lemma feed_bad rk ps : forall m, m_rs m = RBad -> m_rs (fold_left (mfeed rk) ps m) = RBad.
Proof.
  induction ps as [|qp ps IH]; intros m H; [exact H|]. cbn [fold_left]. apply IH.
  destruct m as [rs q]. cbn in H. subst. apply mfeed_bad.
Qed.

Lemma feed_nb rk ps m : m_rs (fold_left (mfeed rk) ps m) <> RBad -> m_rs m <> RBad.
Proof. intros H E. apply H. now apply feed_bad. Qed.

Definition canfail (rk : rkind) (rs : rstate) : Prop := live rs = true /\ rk <> RKNone.

Definition sd : st := set_depeof st0 dep.

(* plans whose packets, from grammar state rs on, complete a response; b: the write buffer may be non-empty *)
Inductive wf (rk : rkind) : rstate -> bool -> plan -> Prop :=
| wf_nil rs : accepting rk rs = true -> wf rk rs false []
| wf_write rs b p z d k : rstep dep rk rs p <> RBad -> is_authreq p = head_is_read k ->
    wf rk (rstep dep rk rs p) (negb d) k -> wf rk rs b (MWrite p z d :: k)
| wf_drain rs b k : head_is_read k = false -> wf rk rs false k -> wf rk rs b (MDrain :: k)
| wf_app_cont rs b c q k : c <> SGetUser -> canfail rk rs ->
    (forall o, out_ok o -> is_raise o = false -> wf rk rs b (continuation BATCH sd q o ++ k)) -> wf rk rs b (MApp c :: MCont q :: k)
| wf_app rs b c k : c <> SGetUser -> canfail rk rs -> head_is_cont k = false -> head_is_read k = false ->
    wf rk rs b k -> wf rk rs b (MApp c :: k)
| wf_getuser : rk = RKAuth -> wf rk RStart false [MApp SGetUser]
| wf_pull rs b k : head_is_read k = false -> wf rk rs b k -> wf rk rs b (MPull :: k)
| wf_curpull rs b id k : head_is_read k = false -> wf rk rs b k -> wf rk rs b (MCurPull id :: k)
| wf_sleep rs b ic k : head_is_read k = false -> wf rk rs b k -> wf rk rs b (MSleep ic :: k)
| wf_rowwait rs b ic k : head_is_read k = false -> wf rk rs b k -> wf rk rs b (MRowWait ic :: k)
| wf_setcursor rs b id items k : head_is_read k = false -> wf rk rs b k -> wf rk rs b (MSetCursor id items :: k)
| wf_clear rs b id c k : head_is_read k = false -> wf rk rs b k -> wf rk rs b (MClearStmt id c :: k)
| wf_drop rs b id k : head_is_read k = false -> wf rk rs b k -> wf rk rs b (MDropStmt id :: k)
| wf_authed rs b k : head_is_read k = false -> wf rk rs b k -> wf rk rs b (MAuthed :: k)
| wf_raise_auth rs b ic k : rs <> RBad -> wf rk rs b (MRaise XAuthFailed ic :: k)
| wf_raise rs b x ic k : x <> XAuthFailed -> x <> XCancel -> canfail rk rs -> wf rk rs b (MRaise x ic :: k)
| wf_read : rk = RKAuth -> wf rk RStart false [MRead]
| wf_enter_cu rs b k : head_is_read k = false -> wf rk rs b k -> wf rk rs b (MEnter FChangeUser :: k)
| wf_enter_reset rs : accepting rk rs = true -> wf rk rs false [MEnter FChangeUserReset; MApp SReset]
| wf_quit rs b k : rs <> RBad -> wf rk rs b (MQuit :: k).

Lemma wf_nb rk rs b k : wf rk rs b k -> rs <> RBad.
Proof.
  induction 1; try assumption; try discriminate;
  try (match goal with H : canfail _ _ |- _ => destruct H as [L _]; intros ->; discriminate L end);
  try (match goal with H : accepting _ _ = true |- _ => intros ->; destruct rk; discriminate H end);
  try (match goal with H : rstep _ _ _ _ <> RBad |- _ => intros ->; apply H; reflexivity end).
Qed.

(* ---- the plans of the handlers ---------------------------------------------------------------------------- *)
Lemma nonempty_len {A} (l : list A) : l <> [] -> len l <> 0.
Proof. destruct l; [congruence|]. intros _. rewrite len_cons. lia. Qed.

Lemma wf_coldefs rk (d : bool) (after : rstate) : forall (l : list N) rest b,
  l <> [] ->
  (forall n, n <> 0 -> rstep dep rk (RCols n) PColDef = if n =? 1 then after else RCols (N.pred n)) ->
  after <> RBad -> head_is_read rest = false -> wf rk after (negb d) rest ->
  wf rk (RCols (len l)) b (map (fun z => MWrite PColDef z d) l ++ rest).
Proof.
  induction l as [|z l IH]; intros rest b Hne Hs Ha Hr Hw; [congruence|].
  cbn [map app]. destruct l as [|z2 l].
  - cbn [map app]. apply wf_write.
    + rewrite Hs by (cbn; lia). cbn. exact Ha.
    + cbn. now rewrite Hr.
    + rewrite Hs by (cbn; lia). cbn. exact Hw.
  - assert (E : rstep dep rk (RCols (len (z :: z2 :: l))) PColDef = RCols (len (z2 :: l))).
    { rewrite Hs by (rewrite len_cons; lia). rewrite (len_cons z).
      destruct (N.eqb_spec (1 + len (z2 :: l)) 1) as [E|E]; [rewrite len_cons in E; lia|]. f_equal. lia. }
    apply wf_write.
    + rewrite E. discriminate.
    + reflexivity.
    + rewrite E. apply IH; auto. discriminate.
Qed.

Lemma hir_rows items i rest : head_is_read rest = false -> head_is_read (rows_plan BATCH items i ++ rest) = false.
Proof. intros H. destruct items as [|[sz| |m] r]; cbn; auto. Qed.

Lemma wf_rows rk : rk = RKQuery \/ rk = RKExecute false -> forall items i rest,
  (forall b, wf rk RRows b rest) -> head_is_read rest = false ->
  forall b, wf rk RRows b (rows_plan BATCH items i ++ rest).
Proof.
  intros Hrk. induction items as [|[sz| |m] r IH]; intros i rest Hw Hr b; cbn [rows_plan app].
  - apply Hw.
  - assert (W : forall b, wf rk RRows b (MWrite (PRow i) sz false :: rows_plan BATCH r (i + 1) ++ rest)).
    { intros b'. assert (E : rstep dep rk RRows (PRow i) = RRows) by (destruct Hrk as [-> | ->]; reflexivity).
      apply wf_write; [rewrite E; discriminate|cbn; now rewrite hir_rows|rewrite E; now apply IH]. }
    apply wf_pull.
    + destruct (negb (i =? 0) && (i mod BATCH =? 0)); reflexivity.
    + rewrite <- app_assoc. destruct (negb (i =? 0) && (i mod BATCH =? 0)); cbn [app]; [apply wf_sleep; [reflexivity|]|]; apply W.
  - apply wf_rowwait; [now apply hir_rows|now apply IH].
  - apply wf_raise; [destruct m; discriminate|destruct m; discriminate|].
    split; [reflexivity|destruct Hrk as [-> | ->]; discriminate].
Qed.

Lemma hir_bin_rows items i rest : head_is_read rest = false -> head_is_read (bin_rows_plan BATCH items i ++ rest) = false.
Proof. intros H. destruct items as [|[sz| |m] r]; cbn; auto. Qed.

Lemma wf_bin_rows rk : rk = RKQuery \/ rk = RKExecute false -> forall items i rest,
  (forall b, wf rk RRows b rest) -> head_is_read rest = false ->
  forall b, wf rk RRows b (bin_rows_plan BATCH items i ++ rest).
Proof.
  intros Hrk. induction items as [|[sz| |m] r IH]; intros i rest Hw Hr b; cbn [bin_rows_plan app].
  - apply Hw.
  - assert (W : forall b, wf rk RRows b (MWrite (PRow i) sz true :: bin_rows_plan BATCH r (i + 1) ++ rest)).
    { intros b'. assert (E : rstep dep rk RRows (PRow i) = RRows) by (destruct Hrk as [-> | ->]; reflexivity).
      apply wf_write; [rewrite E; discriminate|cbn; now rewrite hir_bin_rows|rewrite E; now apply IH]. }
    apply wf_pull.
    + destruct (negb (i =? 0) && (i mod BATCH =? 0)); reflexivity.
    + rewrite <- app_assoc. destruct (negb (i =? 0) && (i mod BATCH =? 0)); cbn [app]; [apply wf_sleep; [reflexivity|]|]; apply W.
  - apply wf_rowwait; [now apply hir_bin_rows|now apply IH].
  - apply wf_raise; [destruct m; discriminate|destruct m; discriminate|].
    split; [reflexivity|destruct Hrk as [-> | ->]; discriminate].
Qed.

Lemma hir_consume items rest : head_is_read rest = false -> head_is_read (consume_plan items ++ rest) = false.
Proof. intros H. destruct items as [|[sz| |m] r]; cbn; auto. Qed.

Lemma wf_consume rk rs : canfail rk rs -> forall items rest b,
  head_is_read rest = false -> wf rk rs b rest -> wf rk rs b (consume_plan items ++ rest).
Proof.
  intros Hc. induction items as [|[sz| |m] r IH]; intros rest b Hr Hw; cbn [consume_plan app].
  - exact Hw.
  - apply wf_pull; [now apply hir_consume|now apply IH].
  - apply wf_rowwait; [now apply hir_consume|now apply IH].
  - apply wf_raise; [destruct m; discriminate|destruct m; discriminate|exact Hc].
Qed.

Definition term_of (flags : N) : pkt := if dep then POk true flags else PEof flags.

Lemma ok_or_eof_sd fl : ok_or_eof sd fl = term_of fl.
Proof. reflexivity. Qed.

Lemma term_rows rk fl : rk = RKQuery \/ rk = RKExecute false -> rstep dep rk RRows (term_of fl) = RDone.
Proof. intros [-> | ->]; unfold term_of; destruct dep; reflexivity. Qed.

Lemma not_authreq_term fl : is_authreq (term_of fl) = false.
Proof. unfold term_of. destruct dep; reflexivity. Qed.

Lemma acc_done rk : accepting rk RDone = true.
Proof. reflexivity. Qed.

Lemma wf_meta_eof rk z d rest : rk = RKQuery \/ rk = RKExecute false ->
  head_is_read rest = false -> (forall b, wf rk RRows b rest) ->
  forall b, wf rk (if dep then RRows else RMetaEof) b ((if dep then [] else [MWrite (PEof 0) z d]) ++ rest).
Proof.
  intros Hrk Hr Hw b. destruct dep eqn:Ed; cbn [app]; [apply Hw|].
  assert (E : rstep dep rk RMetaEof (PEof 0) = RRows) by (destruct Hrk as [-> | ->]; reflexivity).
  rewrite Ed in E. apply wf_write; [rewrite Ed, E; discriminate|cbn; now rewrite Hr|rewrite Ed, E; apply Hw].
Qed.

Lemma hir_meta_eof z d rest : head_is_read rest = false ->
  head_is_read ((if deprecate_eof sd then [] else [MWrite (PEof 0) z d]) ++ rest) = false.
Proof. intros H. destruct (deprecate_eof sd); cbn; auto. Qed.

(* COM_QUERY answered with a result set *)
Lemma wf_text_plan sz items b : sz_coldef sz <> [] -> wf RKQuery RStart b (text_plan BATCH sd sz items).
Proof.
  intros Hc. unfold text_plan.
  assert (E0 : rstep dep RKQuery RStart (PColCount (len (sz_coldef sz))) = RCols (len (sz_coldef sz))).
  { cbn. destruct (N.eqb_spec (len (sz_coldef sz)) 0) as [E|E]; [now apply nonempty_len in E|reflexivity]. }
  apply wf_write; [rewrite E0; discriminate|destruct (sz_coldef sz); [congruence|reflexivity]|rewrite E0].
  apply (wf_coldefs RKQuery false (if dep then RRows else RMetaEof)); [exact Hc|intros n Hn; reflexivity|destruct dep; discriminate| |].
  - apply hir_meta_eof. apply hir_rows. reflexivity.
  - change (deprecate_eof sd) with dep. apply wf_meta_eof; [now left|apply hir_rows; reflexivity|].
    intros b'. apply wf_rows; [now left| |reflexivity].
    intros b2. rewrite ok_or_eof_sd. apply wf_write.
    + rewrite term_rows by (now left). discriminate.
    + apply not_authreq_term.
    + rewrite term_rows by (now left). apply wf_drain; [reflexivity|]. apply wf_nil. reflexivity.
Qed.

(* COM_STMT_EXECUTE answered with a result set, with and without a cursor *)
Lemma wf_exec_plan id cursor sz items b : sz_coldef sz <> [] ->
  wf (RKExecute cursor) RStart b (exec_plan BATCH sd id cursor sz items).
Proof.
  intros Hc. unfold exec_plan.
  assert (E0 : rstep dep (RKExecute cursor) RStart (PColCount (len (sz_coldef sz))) = RCols (len (sz_coldef sz))).
  { cbn. destruct (N.eqb_spec (len (sz_coldef sz)) 0) as [E|E]; [now apply nonempty_len in E|reflexivity]. }
  apply wf_write; [rewrite E0; discriminate|destruct (sz_coldef sz); [congruence|reflexivity]|rewrite E0].
  destruct cursor.
  - apply (wf_coldefs (RKExecute true) true RCursorOk); [exact Hc|intros n Hn; reflexivity|discriminate|reflexivity|].
    + apply wf_setcursor; [reflexivity|]. rewrite ok_or_eof_sd.
      assert (E : rstep dep (RKExecute true) RCursorOk (term_of FL_CURSOR_EXISTS) = RDone) by (unfold term_of; destruct dep; reflexivity).
      apply wf_write; [rewrite E; discriminate|apply not_authreq_term|rewrite E; apply wf_nil; reflexivity].
  - apply (wf_coldefs (RKExecute false) true (if dep then RRows else RMetaEof)); [exact Hc|intros n Hn; reflexivity|destruct dep; discriminate| |].
    + apply hir_meta_eof. apply hir_bin_rows. reflexivity.
    + change (deprecate_eof sd) with dep. apply wf_meta_eof; [now right|apply hir_bin_rows; reflexivity|].
      intros b'. apply wf_bin_rows; [now right| |reflexivity].
      intros b2. rewrite ok_or_eof_sd. apply wf_write.
      * rewrite term_rows by (now right). discriminate.
      * apply not_authreq_term.
      * rewrite term_rows by (now right). apply wf_nil. reflexivity.
Qed.

(* COM_FIELD_LIST *)
Lemma wf_fieldlist_tail zf : forall (l : list N) rs b, rs = RStart \/ rs = RRows ->
  wf RKFieldList rs b (map (fun z => MWrite (PFieldList 1) z false) l ++ [MWrite (term_of 0) zf true]).
Proof.
  induction l as [|z l IH]; intros rs b Hrs; cbn [map app].
  - assert (E : rstep dep RKFieldList rs (term_of 0) = RDone) by (destruct Hrs as [-> | ->]; unfold term_of; destruct dep; reflexivity).
    apply wf_write; [rewrite E; discriminate|apply not_authreq_term|rewrite E; apply wf_nil; reflexivity].
  - assert (E : rstep dep RKFieldList rs (PFieldList 1) = RRows) by (destruct Hrs as [-> | ->]; reflexivity).
    apply wf_write; [rewrite E; discriminate|destruct l; reflexivity|rewrite E; apply IH; now right].
Qed.

Lemma canfail_start rk : rk <> RKNone -> canfail rk RStart.
Proof. intros H. split; [reflexivity|exact H]. Qed.

Lemma wf_fieldlist_plan sz items b : wf RKFieldList RStart b (fieldlist_plan sd sz items).
Proof.
  unfold fieldlist_plan. rewrite ok_or_eof_sd. apply wf_consume.
  - apply canfail_start. discriminate.
  - destruct (sz_coldef sz); reflexivity.
  - apply wf_fieldlist_tail. now left.
Qed.

(* what follows the application's answer to self.query(), for every outcome that is not an exception *)
Definition rk_of_q (q : qctx) : rkind :=
  match q with QText => RKQuery | QExec _ cur => RKExecute cur | QFieldList => RKFieldList end.

Lemma wf_continuation q o b : out_ok o -> is_raise o = false -> wf (rk_of_q q) RStart b (continuation BATCH sd q o ++ []).
Proof.
  intros Ho Hr. rewrite app_nil_r. destruct q as [|id cur|]; destruct o as [|sz items|m|]; try discriminate Hr; cbn [continuation rk_of_q out_ok] in *.
  all: try (apply wf_write; [discriminate|reflexivity|apply wf_nil; reflexivity]).
  - now apply wf_text_plan.
  - now apply wf_exec_plan.
  - rewrite ok_or_eof_sd. assert (E : rstep dep RKFieldList RStart (term_of 0) = RDone) by (unfold term_of; destruct dep; reflexivity).
    apply wf_write; [rewrite E; discriminate|apply not_authreq_term|rewrite E; apply wf_nil; reflexivity].
  - apply wf_fieldlist_plan.
  - rewrite ok_or_eof_sd. assert (E : rstep dep RKFieldList RStart (term_of 0) = RDone) by (unfold term_of; destruct dep; reflexivity).
    apply wf_write; [rewrite E; discriminate|apply not_authreq_term|rewrite E; apply wf_nil; reflexivity].
Qed.

(* COM_STMT_FETCH: rows through the cursor, then the terminator with one of the two cursor flags *)
Lemma hir_fetch : forall fuel id items j c want i0 rest, head_is_read rest = false ->
  head_is_read (fst (fetch_plan BATCH fuel id items j c want i0) ++ rest) = false.
Proof.
  intros fuel id items j c want i0 rest H. destruct fuel as [|f]; cbn [fetch_plan]; destruct (want <=? c); cbn; auto.
  destruct items as [|[sz| |m] r]; cbn; auto.
  - destruct (fetch_plan BATCH f id r (j + 1) (c + 1) want i0). reflexivity.
  - destruct (fetch_plan BATCH f id r j c want i0). reflexivity.
Qed.

Lemma wf_fetch_rows : forall fuel id items j c want i0 rest,
  (forall b, wf RKFetch RStart b rest) -> head_is_read rest = false ->
  forall b, wf RKFetch RStart b (fst (fetch_plan BATCH fuel id items j c want i0) ++ rest).
Proof.
  induction fuel as [|f IH]; intros id items j c want i0 rest Hw Hr b; cbn [fetch_plan]; destruct (want <=? c); cbn [fst app]; try apply Hw.
  destruct items as [|[sz| |m] r]; cbn [fst app]; try apply Hw.
  - pose proof (IH id r (j + 1) (c + 1) want i0 rest Hw Hr) as W. pose proof (hir_fetch f id r (j + 1) (c + 1) want i0 rest Hr) as HR.
    destruct (fetch_plan BATCH f id r (j + 1) (c + 1) want i0) as [k c']. cbn [fst] in *.
    assert (E : rstep dep RKFetch RStart (PRow (i0 + c)) = RStart) by (cbn; destruct dep; reflexivity).
    assert (W2 : forall b, wf RKFetch RStart b (MWrite (PRow (i0 + c)) sz false :: k ++ rest)).
    { intros b'. apply wf_write; [rewrite E; discriminate|cbn; now rewrite HR|rewrite E; apply W]. }
    cbn [app]. apply wf_curpull.
    + destruct (negb (j =? 0) && (j mod BATCH =? 0)); [reflexivity|]. destruct (negb (c =? 0) && (c mod BATCH =? 0)); reflexivity.
    + rewrite <- !app_assoc.
      destruct (negb (j =? 0) && (j mod BATCH =? 0)); cbn [app]; [apply wf_sleep; [destruct (negb (c =? 0) && (c mod BATCH =? 0)); reflexivity|]|];
      (destruct (negb (c =? 0) && (c mod BATCH =? 0)); cbn [app]; [apply wf_sleep; [reflexivity|]|]; apply W2).
  - pose proof (IH id r j c want i0 rest Hw Hr) as W. pose proof (hir_fetch f id r j c want i0 rest Hr) as HR.
    destruct (fetch_plan BATCH f id r j c want i0) as [k c']. cbn [fst app] in *.
    apply wf_rowwait; [exact HR|apply W].
  - cbn [app]. apply wf_raise; [destruct m; discriminate|destruct m; discriminate|split; [reflexivity|discriminate]].
Qed.

Lemma wf_fetch_tail szf (last : bool) b :
  wf RKFetch RStart b [MDrain; MWrite (term_of (if last then FL_LAST_ROW_SENT else FL_CURSOR_EXISTS)) szf true].
Proof.
  assert (E : rstep dep RKFetch RStart (term_of (if last then FL_LAST_ROW_SENT else FL_CURSOR_EXISTS)) = RDone)
    by (unfold term_of; destruct dep, last; reflexivity).
  apply wf_drain; [reflexivity|]. apply wf_write; [rewrite E; discriminate|apply not_authreq_term|rewrite E; apply wf_nil; reflexivity].
Qed.

(* COM_STMT_PREPARE *)
Lemma wf_params (after : rstate) : forall (l : list N) rest b,
  l <> [] -> after = (if dep then RDone else RParamsEof) -> head_is_read rest = false -> wf RKPrepare after true rest ->
  wf RKPrepare (RParams (len l)) b (map (fun z => MWrite PColDef z false) l ++ rest).
Proof.
  induction l as [|z l IH]; intros rest b Hne Ha Hr Hw; [congruence|].
  cbn [map app]. destruct l as [|z2 l].
  - cbn [map app]. assert (E : rstep dep RKPrepare (RParams (len [z])) PColDef = after) by (rewrite Ha; cbn; destruct dep; reflexivity).
    apply wf_write; [rewrite E, Ha; destruct dep; discriminate|cbn; now rewrite Hr|rewrite E; exact Hw].
  - assert (E : rstep dep RKPrepare (RParams (len (z :: z2 :: l))) PColDef = RParams (len (z2 :: l))).
    { rewrite (len_cons z). cbn [rstep]. destruct (N.eqb_spec (1 + len (z2 :: l)) 1) as [E|E]; [rewrite len_cons in E; lia|]. f_equal. lia. }
    apply wf_write; [rewrite E; discriminate|reflexivity|rewrite E; apply IH; auto; discriminate].
Qed.

Lemma wf_prepare_plan id sz b :
  wf RKPrepare RStart b (MWrite (PPrepOk id (len (sz_coldef sz))) (sz_head sz) false ::
    (if 0 <? len (sz_coldef sz) then map (fun z => MWrite PColDef z false) (sz_coldef sz) ++
                                       (if deprecate_eof sd then [] else [MWrite (PEof 0) (sz_eof sz) false])
     else []) ++ [MDrain]).
Proof.
  change (deprecate_eof sd) with dep. destruct (sz_coldef sz) as [|z l] eqn:El.
  - cbn. apply wf_write; [discriminate|reflexivity|]. cbn. apply wf_drain; [reflexivity|]. apply wf_nil. reflexivity.
  - assert (L : 0 <? len (z :: l) = true) by (rewrite len_cons; apply N.ltb_lt; lia). rewrite L.
    assert (E : rstep dep RKPrepare RStart (PPrepOk id (len (z :: l))) = RParams (len (z :: l))).
    { cbn [rstep]. destruct (N.eqb_spec (len (z :: l)) 0) as [E|E]; [rewrite len_cons in E; lia|reflexivity]. }
    apply wf_write; [rewrite E; discriminate|reflexivity|rewrite E].
    rewrite <- app_assoc. apply (wf_params (if dep then RDone else RParamsEof)); [discriminate|reflexivity|destruct dep; reflexivity|].
    destruct dep eqn:Ed; cbn [app].
    + apply wf_drain; [reflexivity|]. apply wf_nil. reflexivity.
    + apply wf_write; [rewrite Ed; discriminate|reflexivity|]. rewrite Ed. cbn. apply wf_drain; [reflexivity|]. apply wf_nil. reflexivity.
Qed.

(* COM_CHANGE_USER: what follows the identity provider's / the plugin's verdict *)
Lemma wf_auth_plan d : wf RKAuth RStart false (auth_plan d true).
Proof.
  destruct d; cbn [auth_plan].
  - apply wf_write; [discriminate|reflexivity|]. cbn. apply wf_raise_auth. discriminate.
  - apply wf_write; [discriminate|reflexivity|]. cbn. apply wf_raise_auth. discriminate.
  - apply wf_authed; [reflexivity|]. apply wf_write; [discriminate|reflexivity|]. cbn. apply wf_enter_reset. reflexivity.
  - apply wf_write; [discriminate|reflexivity|]. cbn. apply wf_read. reflexivity.
  - apply wf_write; [discriminate|reflexivity|]. cbn. apply wf_read. reflexivity.
  - apply wf_raise; [discriminate|discriminate|split; [reflexivity|discriminate]].
Qed.

(* every command's handler *)
Definition cmd_ok (c : cmd) : Prop :=
  match c with CPrepare n sz => n = len (sz_coldef sz) | _ => True end.

Definition appk (rk : rkind) (rs : rstate) (b : bool) (k : plan) : Prop :=
  match k with
  | MCont q :: k' => forall o, out_ok o -> is_raise o = false -> wf rk rs b (continuation BATCH sd q o ++ k')
  | _ => head_is_read k = false /\ wf rk rs b k
  end.

Lemma handler_wf s c : cmd_ok c -> deprecate_eof s = dep -> wf (rkind_of c) RStart false (snd (handler BATCH s c)).
Proof.
  intros Hc Hd. destruct c; cbn [handler rkind_of cmd_ok] in *.
  - (* CQuery *) cbn [snd]. apply wf_app_cont; [discriminate|apply canfail_start; discriminate|]. intros o Ho Hr. apply (wf_continuation QText); assumption.
  - cbn [snd]. apply wf_write; [discriminate|reflexivity|]. apply wf_nil. reflexivity.
  - cbn [snd]. apply wf_write; [discriminate|reflexivity|]. apply wf_nil. reflexivity.
  - cbn [snd]. apply wf_write; [discriminate|reflexivity|]. apply wf_nil. reflexivity.
  - cbn [snd]. apply wf_quit. discriminate.
  - cbn [snd]. apply wf_app; [discriminate|apply canfail_start; discriminate|reflexivity|reflexivity|].
    apply wf_write; [discriminate|reflexivity|]. apply wf_nil. reflexivity.
  - cbn [snd]. apply wf_app_cont; [discriminate|apply canfail_start; discriminate|]. intros o Ho Hr. apply (wf_continuation QFieldList); assumption.
  - (* CPrepare *) cbn [snd]. subst nparams. rewrite Hd. apply wf_prepare_plan.
  - cbn [snd]. apply wf_nil. reflexivity.
  - (* CExecute *) destruct (find_stmt id (stmts s)); cbn [snd].
    + apply wf_app_cont; [discriminate|apply canfail_start; discriminate|]. intros o Ho Hr. apply (wf_continuation (QExec id cursor)); assumption.
    + apply wf_raise; [discriminate|discriminate|apply canfail_start; discriminate].
  - (* CFetch *) destruct (find_stmt id (stmts s)) as [v|]; cbn [snd].
    + destruct (st_cursor v) as [items|]; cbn [snd].
      * pose proof (wf_fetch_rows (S (length items)) id items (st_inner v) 0 n (st_inner v)) as W.
        destruct (fetch_plan BATCH (S (length items)) id items (st_inner v) 0 n (st_inner v)) as [k c]. cbn [fst snd] in *.
        unfold ok_or_eof. rewrite Hd. apply W; [|reflexivity]. intros b.
        apply (wf_fetch_tail sz_final (c <? n) b).
      * apply wf_raise; [discriminate|discriminate|apply canfail_start; discriminate].
    + apply wf_raise; [discriminate|discriminate|apply canfail_start; discriminate].
  - (* CReset *) destruct (find_stmt id (stmts s)); cbn [snd].
    + apply wf_clear; [reflexivity|]. apply wf_app; [discriminate|apply canfail_start; discriminate|reflexivity|reflexivity|].
      apply wf_write; [discriminate|reflexivity|]. apply wf_nil. reflexivity.
    + apply wf_raise; [discriminate|discriminate|apply canfail_start; discriminate].
  - cbn [snd]. apply wf_drop; [reflexivity|]. apply wf_nil. reflexivity.
  - (* CChangeUser *) cbn [snd]. apply wf_enter_cu; [reflexivity|]. apply wf_getuser. reflexivity.
  - cbn [snd]. apply wf_raise; [discriminate|discriminate|apply canfail_start; discriminate].
  - cbn [snd]. apply wf_raise; [destruct mysql; discriminate|destruct mysql; discriminate|apply canfail_start; discriminate].
Qed.
End Resp.

(* ---- the invariant ---------------------------------------------------------------------------------------- *)
Section Inv.
Variable B BATCH : N.
Variable dep : bool.
Variable rk : rkind.
Notation mfeed := (mfeed dep rk).
Notation mstep := (mstep dep rk).
Notation wf := (wf dep BATCH rk).
Notation mrun := (mrun mon mstep).

(* the monitor after everything that is still in the write buffer *)
Definition menq (m : mon) (s : st) : mon := fold_left mfeed (map fst (buf s)) m.
Definition rsq (m : mon) (s : st) : rstate := m_rs (menq m s).

Definition core (m : mon) (o : N) (s : st) : Prop :=
  deprecate_eof s = dep /\ dead s = false /\ eof s = false /\ kill s = None /\ phase s = Command /\ inq s = [] /\
  seq s < 256 /\ m_seq (menq m s) = (seq s + o) mod 256 /\ rsq m s <> RBad.

Definition quiescent (s : st) : Prop :=
  deprecate_eof s = dep /\ dead s = false /\ eof s = false /\ kill s = None /\ phase s = Command /\ inq s = [] /\
  buf s = [] /\ seq s = 0.

Definition off (k : plan) : N := if head_is_read k then 1 else 0.

(* what is known while the connection is being closed *)
Definition nbk (m : mon) (s : st) : Prop := rsq m s <> RBad /\ phase s = Command /\ eof s = false.

Lemma core_nbk m o s : core m o s -> nbk m s.
Proof. intros (C1 & C2 & C3 & C4 & C5 & C6 & C7 & C8 & C9). repeat split; assumption. Qed.

Definition QH (m : mon) (k : plan) (s : st) : Prop :=
  core m (off k) s /\ exists b, (buf s = [] \/ b = true) /\ wf (rsq m s) b k.

Definition Qr (m : mon) (k : plan) (f : frame) (s : st) : Prop :=
  match f with
  | FHandler | FChangeUser => QH m k s
  | FChangeUserReset => core m 0 s /\ buf s = [] /\ accepting rk (m_rs m) = true /\ (k = [MApp SReset] \/ k = [])
  | FHandlerErr false => core m 0 s /\ ((k = [] /\ buf s = [] /\ accepting rk (m_rs m) = true) \/
                                        (exists c, k = errplan c /\ canfail rk (rsq m s)))
  | FClose _ => nbk m s /\ (k = [MApp SClose] \/ k = [])
  | FRead => k = [] /\ quiescent s /\ accepting rk (m_rs m) = true
  | _ => False
  end.

Definition Qs (m : mon) (w : why) (k : plan) (f : frame) (s : st) : Prop :=
  match w with
  | WDrain | WSleep | WRow => f <> FRead /\ Qr m k f s
  | WApp c =>
      match f with
      | FClose _ => c = SClose /\ k = [] /\ nbk m s
      | FChangeUserReset => c = SReset /\ k = [] /\ core m 0 s /\ buf s = [] /\ accepting rk (m_rs m) = true
      | FHandler | FChangeUser =>
          core m 0 s /\
          match c with
          | SGetUser => k = [] /\ buf s = [] /\ m_rs m = RStart /\ rk = RKAuth
          | _ => canfail rk (rsq m s) /\ exists b, (buf s = [] \/ b = true) /\ appk dep BATCH rk (rsq m s) b k
          end
      | _ => False
      end
  | WRead =>
      match f with
      | FRead => k = [] /\ quiescent s /\ accepting rk (m_rs m) = true
      | FHandler | FChangeUser => k = [] /\ core m 1 s /\ buf s = [] /\ m_rs m = RStart /\ rk = RKAuth
      | _ => False
      end
  end.

Definition R (m : mon) (x : exn) (f : frame) (s : st) : Prop :=
  match f with
  | FHandler | FChangeUser => core m 0 s /\ x <> XCancel /\ (x = XAuthFailed \/ canfail rk (rsq m s))
  | FChangeUserReset => core m 0 s /\ x <> XCancel
  | FClose _ => nbk m s
  | _ => False
  end.

Definition Qdone (m : mon) (s : st) : Prop := m_rs m <> RBad.
Definition Qweak (m : mon) (s : st) : Prop := m_rs m <> RBad.

Lemma rsq_nb m s : rsq m s <> RBad -> m_rs m <> RBad.
Proof. unfold rsq, menq. apply feed_nb. Qed.

Lemma rsq_empty m s : buf s = [] -> rsq m s = m_rs m.
Proof. unfold rsq, menq. intros ->. reflexivity. Qed.

Lemma menq_empty m s : buf s = [] -> menq m s = m.
Proof. unfold menq. intros ->. reflexivity. Qed.

Lemma core_nb m o s : core m o s -> rsq m s <> RBad.
Proof. intros H. apply H. Qed.

Lemma acc_nb rs : accepting rk rs = true -> rs <> RBad.
Proof. intros H ->. destruct rk; discriminate. Qed.

Lemma Qr_weak m k f s : Qr m k f s -> Qweak m s.
Proof.
  unfold Qweak. destruct f as [| | | | | |wk| |re]; cbn [Qr]; try contradiction.
  - intros (_ & _ & A). now apply acc_nb.
  - intros [C _]. apply (rsq_nb m s), C.
  - intros [C _]. apply (rsq_nb m s), C.
  - intros [C _]. apply (rsq_nb m s), C.
  - destruct wk; [contradiction|]. intros [C _]. apply (rsq_nb m s), C.
  - intros [C _]. apply (rsq_nb m s), C.
Qed.

Lemma R_weak m x f s : R m x f s -> Qweak m s.
Proof.
  unfold Qweak. destruct f as [| | | | | |wk| |re]; cbn [R]; try contradiction.
  - intros [C _]. apply (rsq_nb m s), C.
  - intros [C _]. apply (rsq_nb m s), C.
  - intros [C _]. apply (rsq_nb m s), C.
  - intros C. apply (rsq_nb m s), C.
Qed.

(* ---- arithmetic of sequence numbers ---------------------------------------------------------------------- *)
Lemma seq_next a o : ((a + 1) mod 256 + o) mod 256 = (a + (1 + o)) mod 256.
Proof. rewrite N.add_mod_idemp_l by lia. f_equal. lia. Qed.

(* ---- one write ------------------------------------------------------------------------------------------- *)
Definition wpost (m : mon) (s : st) (p : pkt) (k' : plan) (m' : mon) (s' : st) : Prop :=
  core m' (off k') s' /\ rsq m' s' = rstep dep rk (rsq m s) p.

Lemma write_step m s p z d k' : core m 0 s -> rstep dep rk (rsq m s) p <> RBad -> is_authreq p = head_is_read k' ->
  match exec_op B s (MWrite p z d) with
  | ActNext s' o => wpost m s p k' (mrun m o) s' /\ (d = true -> buf s' = [])
  | ActSuspend s' w ic o => w = WDrain /\ wpost m s p k' (mrun m o) s' /\ buf s' = []
  | _ => False
  end.
Proof.
  intros (C1 & C2 & C3 & C4 & C5 & C6 & C7 & C8 & C9) Hnb Ha. cbn [exec_op].
  set (s1 := set_seq (set_buf s (buf s ++ [(seq s, p, z)]) (handed s)) ((seq s + 1) mod 256)).
  assert (E1 : menq m s1 = mk_mon (rstep dep rk (rsq m s) p) ((seq s + (1 + off k')) mod 256)).
  { unfold menq, s1. cbn [buf set_seq set_buf]. rewrite map_app, fold_left_app. cbn [map fold_left fst].
    fold (menq m s). unfold C03Proofs.mfeed at 1. cbn [fst snd].
    rewrite C8. rewrite N.add_0_r, (N.mod_small (seq s)) by exact C7. rewrite N.eqb_refl.
    unfold rsq. f_equal. f_equal. unfold off. rewrite <- Ha. destruct (is_authreq p); reflexivity. }
  assert (P1 : forall m', menq m' s1 = menq m s1 -> core m' (off k') s1 /\ rsq m' s1 = rstep dep rk (rsq m s) p).
  { intros m' Em. unfold core, rsq. rewrite Em, E1. cbn [m_rs m_seq]. repeat split; try assumption.
    - unfold s1. cbn. apply N.mod_lt. lia.
    - unfold s1. cbn [seq set_seq]. now rewrite seq_next. }
  destruct (d || (B <=? buf_bytes (buf s1))) eqn:Ed.
  - unfold do_drain, flush. destruct (buf s1) as [|e b] eqn:Eb.
    { exfalso. unfold s1 in Eb. cbn in Eb. destruct (buf s); discriminate. }
    set (s2 := set_buf s1 [] (handed s1 + count_rows (e :: b))).
    assert (D2 : dead s2 = false) by exact C2. rewrite D2.
    assert (M2 : mrun m [OWrite (map fst (e :: b))] = menq m s1).
    { unfold ConnInv3.mrun. cbn [fold_left C03Proofs.mstep]. unfold menq. now rewrite Eb. }
    assert (P2 : wpost m s p k' (menq m s1) s2).
    { destruct (P1 m eq_refl) as [Q1 Q2]. unfold wpost.
      assert (Eq : menq (menq m s1) s2 = menq m s1) by reflexivity.
      unfold core, rsq in *. rewrite Eq. exact (conj Q1 Q2). }
    destruct (paused s2); rewrite M2; [split; [reflexivity|split; [exact P2|reflexivity]]|split; [exact P2|reflexivity]].
  - apply orb_false_iff in Ed. destruct Ed as [-> _]. split; [|discriminate]. unfold wpost. cbn [fold_left ConnInv3.mrun]. now apply P1.
Qed.

Lemma drain_step m s o : core m o s ->
  match do_drain s with
  | ActNext s' o' => core (mrun m o') o s' /\ rsq (mrun m o') s' = rsq m s /\ buf s' = []
  | ActSuspend s' w ic o' => w = WDrain /\ core (mrun m o') o s' /\ rsq (mrun m o') s' = rsq m s /\ buf s' = []
  | _ => False
  end.
Proof.
  intros C. unfold do_drain, flush. destruct (buf s) as [|e b] eqn:Eb.
  - assert (D : dead s = false) by apply C. rewrite D.
    destruct (paused s); cbn [fold_left ConnInv3.mrun]; [split; [reflexivity|]|]; (split; [exact C|split; [reflexivity|exact Eb]]).
  - set (s2 := set_buf s [] (handed s + count_rows (e :: b))).
    assert (D2 : dead s2 = false) by apply C. rewrite D2.
    assert (M2 : mrun m [OWrite (map fst (e :: b))] = menq m s).
    { unfold ConnInv3.mrun. cbn [fold_left C03Proofs.mstep]. unfold menq. now rewrite Eb. }
    assert (Eq : menq (menq m s) s2 = menq m s) by reflexivity.
    assert (C2 : core (menq m s) o s2) by (unfold core, rsq in *; rewrite Eq; exact C).
    assert (R2 : rsq (menq m s) s2 = rsq m s) by (unfold rsq; now rewrite Eq).
    destruct (paused s2); rewrite M2; [split; [reflexivity|]|]; (split; [exact C2|split; [exact R2|reflexivity]]).
Qed.

Lemma off0 k : head_is_read k = false -> off k = 0.
Proof. unfold off. now intros ->. Qed.

Lemma mrun_nil m : mrun m [] = m.
Proof. reflexivity. Qed.

Lemma mrun_sess m c : mrun m [OSess c] = m.
Proof. reflexivity. Qed.

Lemma kc_core m o s ic : core m o s -> core m o (kill_cursor s ic).
Proof. intros H. destruct ic as [id|]; cbn [kill_cursor]; [|exact H]. destruct (find_stmt id (stmts s)); exact H. Qed.

Lemma kc_rsq m s ic : rsq m (kill_cursor s ic) = rsq m s.
Proof. destruct ic as [id|]; cbn [kill_cursor]; [|reflexivity]. destruct (find_stmt id (stmts s)); reflexivity. Qed.

(* one micro-operation inside a handler *)
Lemma opH m s op k f : f = FHandler \/ f = FChangeUser -> QH m (op :: k) s ->
  match exec_op B s op with
  | ActNext s' o => QH (mrun m o) k s'
  | ActSuspend s' w ic o => Qs (mrun m o) w k f s'
  | ActRaise s' x ic o => R (mrun m o) x f (kill_cursor s' ic)
  | ActQuit s' => Qweak m s' /\ (f = FHandler -> Qr m [MApp SClose] (FClose false) (inc_closes (set_seq (set_exec s' false) 0)))
  | ActEnter s' f' => Qweak m s' /\ (is_handler f = true -> is_handler f' = true -> Qr m k f' s')
  end.
Proof.
  intros Hf [C [b [Hb W]]].
  assert (QrH : forall m' k' s', QH m' k' s' -> f <> FRead /\ Qr m' k' f s') by (intros; destruct Hf as [-> | ->]; (split; [discriminate|assumption])).
  assert (QrH0 : forall m' k' s', QH m' k' s' -> Qr m' k' f s') by (intros; destruct Hf as [-> | ->]; assumption).
  inversion W as [ | rs0 b0 p z d k0 Hnb Hauth Hw | rs0 b0 k0 Hnr Hw | rs0 b0 c q k0 Hc Hcf Hw | rs0 b0 c k0 Hc Hcf Hnc Hnr Hw | Hrk
                 | rs0 b0 k0 Hnr Hw | rs0 b0 id k0 Hnr Hw | rs0 b0 ic k0 Hnr Hw | rs0 b0 ic k0 Hnr Hw | rs0 b0 id items k0 Hnr Hw
                 | rs0 b0 id c k0 Hnr Hw | rs0 b0 id k0 Hnr Hw | rs0 b0 k0 Hnr Hw | rs0 b0 ic k0 Hnb | rs0 b0 x ic k0 Hx1 Hx2 Hcf
                 | Hrk | rs0 b0 k0 Hnr Hw | rs0 Hacc | rs0 b0 k0 Hnb ]; subst.
  - (* MWrite *)
    pose proof (write_step m s p z d k C Hnb Hauth) as WS.
    destruct (exec_op B s (MWrite p z d)) as [s' o|s' w ic o|s' x ic o|s'|s' f']; try contradiction.
    + destruct WS as [[C' E'] Hd]. split; [exact C'|]. exists (negb d). split; [destruct d; [left; now apply Hd|now right]|]. rewrite E'. exact Hw.
    + destruct WS as [-> [[C' E'] Hbuf]]. cbn [Qs]. apply QrH. split; [exact C'|]. exists (negb d). split; [now left|]. rewrite E'. exact Hw.
  - (* MDrain *)
    cbn [exec_op]. assert (C0 : core m (off k) s) by (rewrite (off0 _ Hnr); exact C). pose proof (drain_step m s (off k) C0) as DS.
    destruct (do_drain s) as [s' o|s' w ic o|s' x ic o|s'|s' f']; try contradiction.
    + destruct DS as (C' & E' & Hbuf). split; [exact C'|]. exists false. split; [now left|]. rewrite E'. exact Hw.
    + destruct DS as (-> & C' & E' & Hbuf). cbn [Qs]. apply QrH. split; [exact C'|]. exists false. split; [now left|]. rewrite E'. exact Hw.
  - (* MApp c; MCont q *)
    cbn [exec_op]. rewrite mrun_sess.
    assert (G : core m 0 s /\ canfail rk (rsq m s) /\ exists b, (buf s = [] \/ b = true) /\ appk dep BATCH rk (rsq m s) b (MCont q :: k0)).
    { split; [exact C|]. split; [exact Hcf|]. exists b. split; [exact Hb|]. exact Hw. }
    destruct Hf as [-> | ->]; cbn [Qs]; destruct c; try contradiction; exact G.
  - (* MApp c *)
    cbn [exec_op]. rewrite mrun_sess.
    assert (G : core m 0 s /\ canfail rk (rsq m s) /\ exists b, (buf s = [] \/ b = true) /\ appk dep BATCH rk (rsq m s) b k).
    { split; [exact C|]. split; [exact Hcf|]. exists b. split; [exact Hb|].
      destruct k as [|op0 k1]; [cbn; split; [reflexivity|exact Hw]|]. destruct op0; try discriminate Hnc; cbn [appk]; (split; [exact Hnr|exact Hw]). }
    destruct Hf as [-> | ->]; cbn [Qs]; destruct c; try contradiction; exact G.
  - (* MApp SGetUser *)
    cbn [exec_op]. rewrite mrun_sess.
    assert (Hbuf : buf s = []) by (destruct Hb as [Hb|Hb]; [exact Hb|discriminate Hb]).
    assert (G : core m 0 s /\ @nil mop = [] /\ buf s = [] /\ m_rs m = RStart /\ rk = RKAuth).
    { split; [exact C|]. repeat split; auto. rewrite <- (rsq_empty m s Hbuf). congruence. }
    destruct Hf as [-> | ->]; cbn [Qs]; exact G.
  - (* MPull *) cbn [exec_op]. rewrite mrun_nil. split; [rewrite (off0 _ Hnr); exact C|]. exists b. split; [exact Hb|exact Hw].
  - (* MCurPull *) cbn [exec_op]. rewrite mrun_nil. unfold cur_pull.
    destruct (find_stmt id (stmts s)); (split; [rewrite (off0 _ Hnr); exact C|]; exists b; split; [exact Hb|exact Hw]).
  - (* MSleep *) cbn [exec_op]. rewrite mrun_nil. cbn [Qs]. apply QrH. split; [rewrite (off0 _ Hnr); exact C|]. exists b. split; [exact Hb|exact Hw].
  - (* MRowWait *) cbn [exec_op]. rewrite mrun_nil. cbn [Qs]. apply QrH. unfold cur_skip_suspend.
    destruct ic as [id|]; [destruct (find_stmt id (stmts s))|]; (split; [rewrite (off0 _ Hnr); exact C|]; exists b; split; [exact Hb|exact Hw]).
  - (* MSetCursor *) cbn [exec_op]. rewrite mrun_nil. split; [rewrite (off0 _ Hnr); exact C|]. exists b. split; [exact Hb|exact Hw].
  - (* MClearStmt *) cbn [exec_op]. rewrite mrun_nil. split; [rewrite (off0 _ Hnr); exact C|]. exists b. split; [exact Hb|exact Hw].
  - (* MDropStmt *) cbn [exec_op]. rewrite mrun_nil. split; [rewrite (off0 _ Hnr); exact C|]. exists b. split; [exact Hb|exact Hw].
  - (* MAuthed *) cbn [exec_op]. rewrite mrun_nil. split; [rewrite (off0 _ Hnr); exact C|]. exists b. split; [exact Hb|exact Hw].
  - (* MRaise XAuthFailed *)
    cbn [exec_op]. rewrite mrun_nil.
    assert (G : core m 0 (kill_cursor s ic) /\ XAuthFailed <> XCancel /\ (XAuthFailed = XAuthFailed \/ canfail rk (rsq m (kill_cursor s ic)))).
    { split; [apply kc_core; exact C|]. split; [discriminate|now left]. }
    destruct Hf as [-> | ->]; exact G.
  - (* MRaise x *)
    cbn [exec_op]. rewrite mrun_nil.
    assert (G : core m 0 (kill_cursor s ic) /\ x <> XCancel /\ (x = XAuthFailed \/ canfail rk (rsq m (kill_cursor s ic)))).
    { split; [apply kc_core; exact C|]. split; [exact Hx2|right; rewrite kc_rsq; exact Hcf]. }
    destruct Hf as [-> | ->]; exact G.
  - (* MRead *)
    cbn [exec_op]. assert (E : eof s = false) by apply C. rewrite E. rewrite mrun_nil.
    assert (Hbuf : buf s = []) by (destruct Hb as [Hb|Hb]; [exact Hb|discriminate Hb]).
    assert (G : @nil mop = [] /\ core m 1 s /\ buf s = [] /\ m_rs m = RStart /\ rk = RKAuth).
    { split; [reflexivity|]. split; [exact C|]. repeat split; auto. rewrite <- (rsq_empty m s Hbuf). congruence. }
    destruct Hf as [-> | ->]; cbn [Qs]; exact G.
  - (* MEnter FChangeUser *)
    cbn [exec_op]. split; [apply (rsq_nb m s), C|]. intros _ _. cbn [Qr]. split; [rewrite (off0 _ Hnr); exact C|]. exists b. split; [exact Hb|exact Hw].
  - (* MEnter FChangeUserReset *)
    cbn [exec_op]. split; [apply (rsq_nb m s), C|]. intros _ _. cbn [Qr].
    assert (Hbuf : buf s = []) by (destruct Hb as [Hb|Hb]; [exact Hb|discriminate Hb]).
    split; [exact C|]. split; [exact Hbuf|]. split; [rewrite <- (rsq_empty m s Hbuf); exact Hacc|now left].
  - (* MQuit *)
    cbn [exec_op]. split; [apply (rsq_nb m s), C|]. intros _. cbn [Qr]. split; [exact (core_nbk _ _ _ C)|now left].
Qed.

Lemma op_ok3 m s op k f : Qr m (op :: k) f s ->
  match exec_op B s op with
  | ActNext s' o => Qr (mrun m o) k f s'
  | ActSuspend s' w ic o => Qs (mrun m o) w k f s'
  | ActRaise s' x ic o => R (mrun m o) x f (kill_cursor s' ic)
  | ActQuit s' => Qweak m s' /\ (f = FHandler -> Qr m [MApp SClose] (FClose false) (inc_closes (set_seq (set_exec s' false) 0)))
  | ActEnter s' f' => Qweak m s' /\ (is_handler f = true -> is_handler f' = true -> Qr m k f' s')
  end.
Proof.
  intros H. destruct f as [| | | | | |wk| |re]; cbn [Qr] in H; try contradiction.
  - destruct H as [H _]. discriminate H.
  - pose proof (opH m s op k FHandler (or_introl eq_refl) H) as O.
    destruct (exec_op B s op); exact O.
  - pose proof (opH m s op k FChangeUser (or_intror eq_refl) H) as O.
    destruct (exec_op B s op); exact O.
  - destruct H as (C & Hbuf & Hacc & [Hk|Hk]); [|discriminate Hk]. inversion Hk; subst. cbn [exec_op]. rewrite mrun_sess.
    cbn [Qs]. repeat split; auto; apply C.
  - destruct wk; [contradiction|]. destruct H as [C [[Hk _]|[c [Hk Hcf]]]]; [discriminate Hk|]. inversion Hk; subst.
    destruct Hcf as [L Hn].
    assert (E : rstep dep rk (rsq m s) (PErr c) = RDone) by (apply live_err; assumption).
    assert (Hnb : rstep dep rk (rsq m s) (PErr c) <> RBad) by (rewrite E; discriminate).
    pose proof (write_step m s (PErr c) SZ_ERR true [] C Hnb eq_refl) as WS.
    destruct (exec_op B s (MWrite (PErr c) SZ_ERR true)) as [s' o|s' w ic o|s' x ic o|s'|s' f']; try contradiction.
    + destruct WS as [[C' E'] Hd]. specialize (Hd eq_refl). cbn [Qr]. split; [exact C'|]. left. split; [reflexivity|]. split; [exact Hd|].
      rewrite <- (rsq_empty _ _ Hd), E', E. reflexivity.
    + destruct WS as [-> [[C' E'] Hd]]. cbn [Qs Qr]. split; [discriminate|]. split; [exact C'|]. left. split; [reflexivity|]. split; [exact Hd|].
      rewrite <- (rsq_empty _ _ Hd), E', E. reflexivity.
  - destruct H as [Hnb [Hk|Hk]]; [|discriminate Hk]. inversion Hk; subst. cbn [exec_op]. rewrite mrun_sess. cbn [Qs]. auto.
Qed.

Lemma throw_ok3 m s x f : R m x f s ->
  match throw s x f with
  | Continue s' k' f' => Qr m k' f' s'
  | ToClose s' re => Qr m [MApp SClose] (FClose re) (inc_closes s')
  | Finished s' _ => Qdone m s'
  end.
Proof.
  intros H. destruct f as [| | | | | |wk| |re]; cbn [R] in H; try contradiction; cbn [throw].
  - (* FHandler *)
    destruct H as (C & Hx & Hc). assert (K : kill s = None) by apply C. cbn [kill set_exec]. rewrite K.
    assert (QE : forall c, canfail rk (rsq m s) -> Qr m (errplan c) (FHandlerErr false) (set_exec s false)).
    { intros c Hcf. cbn [Qr]. split; [exact C|]. right. exists c. split; [reflexivity|exact Hcf]. }
    assert (QC : Qr m [MApp SClose] (FClose false) (inc_closes (set_exec s false))) by (cbn [Qr]; split; [exact (core_nbk _ _ _ C)|now left]).
    destruct x as [|c| | |]; [congruence|destruct Hc as [Hc|Hc]; [discriminate Hc|]; now apply QE|destruct Hc as [Hc|Hc]; [discriminate Hc|]; now apply QE|destruct Hc as [Hc|Hc]; [discriminate Hc|]; now apply QE|exact QC].
  - (* FChangeUser *)
    destruct H as (C & Hx & Hc). assert (K : kill s = None) by apply C. rewrite K.
    assert (QE : canfail rk (rsq m s) -> Qr m [MWrite (PErr E_UNKNOWN_ERROR) SZ_ERR true; MRaise XAuthFailed None] FHandler s).
    { intros [L Hn]. cbn [Qr]. split; [exact C|]. exists true. split; [now right|].
      assert (E : rstep dep rk (rsq m s) (PErr E_UNKNOWN_ERROR) = RDone) by (apply live_err; assumption).
      apply wf_write; [rewrite E; discriminate|reflexivity|]. rewrite E. apply wf_raise_auth. discriminate. }
    assert (QC : Qr m [MApp SClose] (FClose false) (inc_closes (set_exec s false))) by (cbn [Qr]; split; [exact (core_nbk _ _ _ C)|now left]).
    destruct x as [|c| | |]; [congruence|destruct Hc as [Hc|Hc]; [discriminate Hc|]; now apply QE|destruct Hc as [Hc|Hc]; [discriminate Hc|]; now apply QE|destruct Hc as [Hc|Hc]; [discriminate Hc|]; now apply QE|exact QC].
  - (* FChangeUserReset *)
    destruct H as (C & Hx). assert (K : kill s = None) by apply C. rewrite K.
    assert (QC : Qr m [MApp SClose] (FClose false) (inc_closes (set_exec s false))) by (cbn [Qr]; split; [exact (core_nbk _ _ _ C)|now left]).
    destruct x as [|c| | |]; [congruence|exact QC|exact QC|exact QC|exact QC].
  - (* FClose *) unfold Qdone. apply (rsq_nb m s), H.
Qed.

Lemma core_quiescent m o s s' : core m o s -> buf s = [] ->
  deprecate_eof s' = deprecate_eof s -> dead s' = dead s -> eof s' = eof s -> kill s' = kill s -> phase s' = phase s ->
  inq s' = inq s -> buf s' = buf s -> seq s' = 0 -> quiescent s'.
Proof.
  intros (C1 & C2 & C3 & C4 & C5 & C6 & _) Hb E1 E2 E3 E4 E5 E6 E7 E8. unfold quiescent.
  rewrite E1, E2, E3, E4, E5, E6, E7, E8. repeat split; assumption.
Qed.

Lemma end_ok3 m s f : Qr m [] f s ->
  match end_plan BATCH s f with
  | EFinish s' _ => Qdone m s'
  | EGo s' k' f' => Qr m k' f' s'
  | ESuspRead s' => Qs m WRead [] f s'
  | ERaise s' x => R m x f s'
  end.
Proof.
  intros H. destruct f as [| | | | | |wk| |re]; cbn [Qr] in H; try contradiction; cbn [end_plan].
  - (* FRead *)
    destruct H as (_ & Q & A). assert (I : inq s = []) by apply Q. assert (E : eof s = false) by apply Q. rewrite I, E. cbn [Qs]. auto.
  - (* FHandler *)
    destruct H as [C [b [Hb W]]]. inversion W as [rs0 Hacc| | | | | | | | | | | | | | | | | | | ]; subst.
    assert (Hbuf : buf s = []) by (destruct Hb as [Hb|Hb]; [exact Hb|discriminate Hb]).
    cbn [Qr]. split; [reflexivity|]. split; [eapply core_quiescent; try exact C; try exact Hbuf; reflexivity|].
    rewrite <- (rsq_empty m s Hbuf). exact Hacc.
  - (* FChangeUser *)
    destruct H as [C [b [Hb W]]]. inversion W as [rs0 Hacc| | | | | | | | | | | | | | | | | | | ]; subst.
    assert (Hbuf : buf s = []) by (destruct Hb as [Hb|Hb]; [exact Hb|discriminate Hb]).
    cbn [Qr]. split; [reflexivity|]. split; [eapply core_quiescent; try exact C; try exact Hbuf; reflexivity|].
    rewrite <- (rsq_empty m s Hbuf). exact Hacc.
  - (* FChangeUserReset *)
    destruct H as (C & Hbuf & Hacc & _).
    cbn [Qr]. split; [reflexivity|]. split; [eapply core_quiescent; try exact C; try exact Hbuf; reflexivity|exact Hacc].
  - (* FHandlerErr *)
    destruct wk; [contradiction|]. destruct H as [C [(_ & Hbuf & Hacc)|[c [Hk _]]]]; [|discriminate Hk].
    cbn [Qr]. split; [reflexivity|]. split; [eapply core_quiescent; try exact C; try exact Hbuf; reflexivity|exact Hacc].
  - (* FClose *) unfold Qdone. apply (rsq_nb m s), H.
Qed.

Lemma Qs_ctl m w k f s c : Qs m w k f s -> Qs m w k f (upd_ctl s c).
Proof. intros H. exact H. Qed.
Lemma Qdone_ctl m s c : Qdone m s -> Qdone m (upd_ctl s c).
Proof. intros H. exact H. Qed.
Lemma Qweak_ctl m s c : Qweak m s -> Qweak m (upd_ctl s c).
Proof. intros H. exact H. Qed.

Definition run_ok := run_ok3 B BATCH mon mstep Qr Qs R Qdone Qweak Qs_ctl Qdone_ctl Qweak_ctl Qr_weak op_ok3 throw_ok3 end_ok3
  (fun m exc => eq_refl) (fun m => eq_refl) (fun m => eq_refl).
Definition go_ok := go_ok3 B BATCH mon mstep Qr Qs R Qdone Qweak Qs_ctl Qdone_ctl Qweak_ctl Qr_weak op_ok3 throw_ok3 end_ok3
  (fun m exc => eq_refl) (fun m => eq_refl) (fun m => eq_refl).
Definition raise_at_ok := raise_at_ok3 B BATCH mon mstep Qr Qs R Qdone Qweak Qs_ctl Qdone_ctl Qweak_ctl Qr_weak op_ok3 throw_ok3 end_ok3
  (fun m exc => eq_refl) (fun m => eq_refl) (fun m => eq_refl).

(* ---- events ------------------------------------------------------------------------------------------------ *)
(* what may happen while a lock-step client waits for its response: the application answers (result sets have at least one
   column), rows become available, the loop gives the task its turn, the socket stops / resumes accepting data, and the
   authentication exchange of COM_CHANGE_USER proceeds.  Kills are C09's subject, a client that goes away or sends
   malformed frames C07's / C10's. *)
Definition allowed (e : ev) : Prop :=
  match e with
  | EvApp o => out_ok o
  | EvDecide _ | EvAuthReply _ | EvRowReady | EvTick | EvPause | EvResume => True
  | _ => False
  end.

Notation good := (good3 mon Qs Qdone Qweak).
Notation ok := (ok3 mon mstep Qs Qdone Qweak).

Lemma continuation_dep s q o : deprecate_eof s = dep -> continuation BATCH s q o = continuation BATCH (sd dep) q o.
Proof. intros H. unfold continuation, text_plan, exec_plan, fieldlist_plan, ok_or_eof. rewrite H. reflexivity. Qed.

Lemma hir_cont s q o k' : head_is_read (continuation BATCH s q o ++ k') = false.
Proof.
  destruct q as [|id cur|]; destruct o as [|sz items|mm|]; try reflexivity.
  cbn [continuation]. unfold fieldlist_plan. rewrite <- app_assoc. apply hir_consume. destruct (sz_coldef sz); reflexivity.
Qed.

Lemma off_auth d : off (auth_plan d true ++ []) = 0.
Proof. destruct d; reflexivity. Qed.

Lemma stay m s : good m s -> ok m (s, []).
Proof. intros H. exact H. Qed.

Lemma stay_paused m s b : good m s -> ok m (set_paused s b, []).
Proof. intros H. unfold ok3, good3 in *. cbn [fst snd ctl_ set_paused]. destruct (ctl_ s); exact H. Qed.

Lemma auth_go m s d f : f = FHandler \/ f = FChangeUser -> core m 0 s -> buf s = [] -> m_rs m = RStart -> rk = RKAuth ->
  ok m (go B BATCH s (auth_plan d true ++ []) f).
Proof.
  intros Hf C Hbuf Hm Hrk. apply go_ok.
  assert (G : QH m (auth_plan d true ++ []) s).
  { split; [rewrite off_auth; exact C|]. exists false. split; [now left|]. rewrite (rsq_empty m s Hbuf), Hm, app_nil_r, Hrk. apply wf_auth_plan. }
  destruct Hf as [-> | ->]; exact G.
Qed.

Lemma appH m s c k f o : f = FHandler \/ f = FChangeUser -> c <> SGetUser -> out_ok o -> is_raise o = false ->
  Qs m (WApp c) k f s ->
  Qr m (match k with MCont q :: k' => continuation BATCH s q o ++ k' | _ => k end) f s.
Proof.
  intros Hf Hc Ho Hr G.
  assert (G' : core m 0 s /\ canfail rk (rsq m s) /\ exists b, (buf s = [] \/ b = true) /\ appk dep BATCH rk (rsq m s) b k).
  { destruct Hf as [-> | ->]; cbn [Qs] in G; destruct c; try congruence; exact G. }
  destruct G' as (C & _ & b & Hb & A).
  assert (D : deprecate_eof s = dep) by apply C.
  assert (QrH : forall k', QH m k' s -> Qr m k' f s) by (intros; destruct Hf as [-> | ->]; assumption).
  destruct k as [|op0 k1]; [apply QrH; destruct A as [A1 A2]; split; [exact C|exists b; auto]|].
  destruct op0; try (apply QrH; destruct A as [A1 A2]; split; [rewrite (off0 _ A1); exact C|exists b; auto]).
  cbn [appk] in A. apply QrH. split; [rewrite (off0 _ (hir_cont s c0 o k1)); exact C|]. exists b. split; [exact Hb|].
  rewrite (continuation_dep s c0 o D). now apply A.
Qed.

Lemma app_event m s c k f o : c <> SGetUser -> out_ok o -> Qs m (WApp c) k f s ->
  ok m (match o with
        | ORaise (Some cd) => raise_at B BATCH s (XMysql cd) f None
        | ORaise None => raise_at B BATCH s XOther f None
        | _ => match k with
               | MCont q :: k' => go B BATCH s (continuation BATCH s q o ++ k') f
               | _ => go B BATCH s k f
               end
        end).
Proof.
  intros Hc Ho G.
  assert (RA : forall x, x <> XCancel -> x <> XAuthFailed -> ok m (raise_at B BATCH s x f None)).
  { intros x Hx1 Hx2. apply raise_at_ok. cbn [kill_cursor].
    destruct f as [| | | | | |wk| |re]; cbn [Qs] in G; try contradiction; cbn [R].
    - destruct G as [C G]. split; [exact C|]. split; [exact Hx1|]. right. destruct c; try congruence; apply G.
    - destruct G as [C G]. split; [exact C|]. split; [exact Hx1|]. right. destruct c; try congruence; apply G.
    - destruct G as (_ & _ & C & _). split; [exact C|exact Hx1].
    - apply G. }
  assert (GO : forall o', out_ok o' -> is_raise o' = false ->
               ok m (match k with MCont q :: k' => go B BATCH s (continuation BATCH s q o' ++ k') f | _ => go B BATCH s k f end)).
  { intros o' Ho' Hr'.
    assert (Q : Qr m (match k with MCont q :: k' => continuation BATCH s q o' ++ k' | _ => k end) f s).
    { destruct f as [| | | | | |wk| |re]; cbn [Qs] in G; try contradiction.
      - apply (appH m s c k FHandler o'); auto.
      - apply (appH m s c k FChangeUser o'); auto.
      - destruct G as (_ & -> & C & Hbuf & Hacc). cbn [Qr]. auto.
      - destruct G as (_ & -> & Hnb). cbn [Qr]. auto. }
    destruct k as [|op0 k1]; [now apply go_ok|]. destruct op0; now apply go_ok. }
  destruct o as [|sz items|mm|]; [apply GO; auto|apply GO; auto| |apply GO; auto].
  destruct mm; apply RA; discriminate.
Qed.

(* what one allowed event does, as a shape: nothing, a pause flag, or a run / an exception from a state and a plan that satisfy
   the invariant (used again by Proofs/LazyProofs.v) *)
Inductive sc (m : mon) (s : st) (w : why) (k : plan) (f : frame) : st * list out -> Prop :=
| sc_stay : sc m s w k f (s, [])
| sc_pause b : sc m s w k f (set_paused s b, [])
| sc_resume s' : s' = s \/ s' = set_paused s false -> w = WDrain \/ w = WSleep \/ w = WRow -> Qr m k f s' ->
    sc m s w k f (go B BATCH s' k f)
| sc_auth d s' : f = FHandler \/ f = FChangeUser -> k = [] ->
    (s' = s /\ w = WApp SGetUser) \/ (s' = set_seq s ((seq s + 1) mod 256) /\ w = WRead) ->
    Qr m (auth_plan d true ++ []) f s' -> sc m s w k f (go B BATCH s' (auth_plan d true ++ []) f)
| sc_app c o : w = WApp c -> c <> SGetUser -> out_ok o -> is_raise o = false ->
    Qr m (match k with MCont q :: k1 => continuation BATCH s q o ++ k1 | _ => k end) f s ->
    sc m s w k f (match k with MCont q :: k1 => go B BATCH s (continuation BATCH s q o ++ k1) f | _ => go B BATCH s k f end)
| sc_raise c x : w = WApp c -> c <> SGetUser -> x <> XCancel -> x <> XAuthFailed -> R m x f s ->
    sc m s w k f (raise_at B BATCH s x f None).

Lemma auth_Qr m s d f : f = FHandler \/ f = FChangeUser -> core m 0 s -> buf s = [] -> m_rs m = RStart -> rk = RKAuth ->
  Qr m (auth_plan d true ++ []) f s.
Proof.
  intros Hf C Hbuf Hm Hrk.
  assert (G : QH m (auth_plan d true ++ []) s).
  { split; [rewrite off_auth; exact C|]. exists false. split; [now left|]. rewrite (rsq_empty m s Hbuf), Hm, app_nil_r, Hrk. apply wf_auth_plan. }
  destruct Hf as [-> | ->]; exact G.
Qed.

Lemma step_cases m s e w k f ic : allowed e -> ctl_ s = Susp w k f ic -> Qs m w k f s -> sc m s w k f (step B BATCH s e).
Proof.
  intros Ha Ec G. unfold step. rewrite Ec.
  destruct e; cbn [allowed] in Ha; try contradiction.
  - (* EvAuthReply *)
    destruct w; try (destruct (phase s); apply sc_stay).
    destruct f as [| | | | | |wk| |re]; cbn [Qs] in G; try contradiction.
    + destruct G as (_ & Q & _). assert (P : phase s = Command) by apply Q. rewrite P. apply sc_stay.
    + destruct G as (_ & C & _). assert (P : phase s = Command) by apply C. rewrite P. apply sc_stay.
    + destruct G as (-> & C & Hbuf & Hm & Hrk). assert (P : phase s = Command) by apply C. rewrite P.
      apply sc_auth; [now right|reflexivity|right; now split|].
      apply auth_Qr; auto.
      destruct C as (C1 & C2 & C3 & C4 & C5 & C6 & C7 & C8 & C9). unfold core. cbn [deprecate_eof dead eof kill phase inq seq set_seq].
      repeat split; auto.
      * apply N.mod_lt. lia.
      * change (menq m (set_seq s ((seq s + 1) mod 256))) with (menq m s). rewrite C8, N.add_0_r, N.mod_mod by lia. reflexivity.
  - (* EvDecide *)
    destruct w; try apply sc_stay. destruct c; try apply sc_stay.
    destruct f as [| | | | | |wk| |re]; cbn [Qs] in G; try contradiction.
    + destruct G as (C & -> & Hbuf & Hm & Hrk). cbn [is_handler]. apply sc_auth; [now left|reflexivity|left; now split|apply auth_Qr; auto].
    + destruct G as (C & -> & Hbuf & Hm & Hrk). cbn [is_handler]. apply sc_auth; [now right|reflexivity|left; now split|apply auth_Qr; auto].
    + destruct G as [G _]. discriminate G.
    + destruct G as [G _]. discriminate G.
  - (* EvApp *)
    destruct w; try apply sc_stay.
    assert (NG : c = SGetUser \/ c <> SGetUser) by (destruct c; auto; right; discriminate).
    destruct NG as [->|NG]; [apply sc_stay|].
    assert (E : (match c with SGetUser => (s, []) | _ =>
                  match o with
                  | ORaise (Some cd) => raise_at B BATCH s (XMysql cd) f None
                  | ORaise None => raise_at B BATCH s XOther f None
                  | _ => match k with MCont q :: k' => go B BATCH s (continuation BATCH s q o ++ k') f | _ => go B BATCH s k f end
                  end end) =
                 match o with
                  | ORaise (Some cd) => raise_at B BATCH s (XMysql cd) f None
                  | ORaise None => raise_at B BATCH s XOther f None
                  | _ => match k with MCont q :: k' => go B BATCH s (continuation BATCH s q o ++ k') f | _ => go B BATCH s k f end
                  end) by (destruct c; try reflexivity; congruence).
    rewrite E.
    assert (RA : forall x, x <> XCancel -> x <> XAuthFailed -> R m x f s).
    { intros x Hx1 Hx2.
      destruct f as [| | | | | |wk| |re]; cbn [Qs] in G; try contradiction; cbn [R].
      - destruct G as [C G]. split; [exact C|]. split; [exact Hx1|]. right. destruct c; try congruence; apply G.
      - destruct G as [C G]. split; [exact C|]. split; [exact Hx1|]. right. destruct c; try congruence; apply G.
      - destruct G as (_ & _ & C & _). split; [exact C|exact Hx1].
      - apply G. }
    assert (GO : is_raise o = false -> Qr m (match k with MCont q :: k' => continuation BATCH s q o ++ k' | _ => k end) f s).
    { intros Hr. destruct f as [| | | | | |wk| |re]; cbn [Qs] in G; try contradiction.
      - apply (appH m s c k FHandler o); auto.
      - apply (appH m s c k FChangeUser o); auto.
      - destruct G as (_ & -> & C & Hbuf & Hacc). cbn [Qr]. auto.
      - destruct G as (_ & -> & Hnb). cbn [Qr]. auto. }
    destruct o as [|sz items|mm|].
    + apply (sc_app m s (WApp c) k f c ONone); auto.
    + apply (sc_app m s (WApp c) k f c (OSet sz items)); auto.
    + destruct mm as [cd|]; (apply (sc_raise m s (WApp c) k f c); [reflexivity|exact NG|discriminate|discriminate|apply RA; discriminate]).
    + apply (sc_app m s (WApp c) k f c OVoid); auto.
  - (* EvRowReady *) destruct w; try apply sc_stay. apply sc_resume; [now left|auto|apply G].
  - (* EvTick *) destruct w; try apply sc_stay. apply sc_resume; [now left|auto|apply G].
  - (* EvPause *) apply sc_pause.
  - (* EvResume *) destruct w; try apply sc_pause. apply sc_resume; [now right|auto|apply G].
Qed.

Lemma step_ok m s e : allowed e -> good m s -> ok m (step B BATCH s e).
Proof.
  intros Ha G. unfold step. pose proof G as G0. unfold good3 in G. destruct (ctl_ s) as [w k f ic| |] eqn:Ec; [|now apply stay|now apply stay].
  assert (ST : ok m (s, [])) by now apply stay.
  destruct e; cbn [allowed] in Ha; try contradiction.
  - (* EvAuthReply *)
    destruct w; try (destruct (phase s); exact ST).
    destruct f as [| | | | | |wk| |re]; cbn [Qs] in G; try contradiction.
    + destruct G as (_ & Q & _). assert (P : phase s = Command) by apply Q. rewrite P. exact ST.
    + destruct G as (_ & C & _). assert (P : phase s = Command) by apply C. rewrite P. exact ST.
    + destruct G as (-> & C & Hbuf & Hm & Hrk). assert (P : phase s = Command) by apply C. rewrite P.
      apply auth_go; auto.
      destruct C as (C1 & C2 & C3 & C4 & C5 & C6 & C7 & C8 & C9). unfold core. cbn [deprecate_eof dead eof kill phase inq seq set_seq].
      repeat split; auto.
      * apply N.mod_lt. lia.
      * change (menq m (set_seq s ((seq s + 1) mod 256))) with (menq m s). rewrite C8, N.add_0_r, N.mod_mod by lia. reflexivity.
  - (* EvDecide *)
    destruct w; try exact ST. destruct c; try exact ST.
    destruct f as [| | | | | |wk| |re]; cbn [Qs] in G; try contradiction.
    + destruct G as (C & -> & Hbuf & Hm & Hrk). cbn [is_handler]. apply auth_go; auto.
    + destruct G as (C & -> & Hbuf & Hm & Hrk). cbn [is_handler]. apply auth_go; auto.
    + destruct G as [G _]. discriminate G.
    + destruct G as [G _]. discriminate G.
  - (* EvApp *)
    destruct w; try exact ST. destruct c; try exact ST;
    match goal with G1 : Qs _ (WApp ?c1) _ _ _ |- _ => apply (app_event m s c1 k f o); [discriminate|exact Ha|exact G1] end.
  - (* EvRowReady *) destruct w; try exact ST. apply go_ok. apply G.
  - (* EvTick *) destruct w; try exact ST. apply go_ok. apply G.
  - (* EvPause *) now apply stay_paused.
  - (* EvResume *) destruct w; try (now apply stay_paused). apply go_ok. apply G.
Qed.

Definition exec_ok := exec_ok3 B BATCH mon mstep Qs Qdone Qweak allowed step_ok.

(* ---- one round: a command sent to a server waiting at its prompt ----------------------------------------------- *)
Definition m0 : mon := mk_mon RStart 1.
Definition at_prompt (s : st) : Prop := ctl_ s = Susp WRead [] FRead None.

Lemma handler_fields s c : let s' := fst (handler BATCH s c) in
  deprecate_eof s' = deprecate_eof s /\ dead s' = dead s /\ eof s' = eof s /\ kill s' = kill s /\ phase s' = phase s /\
  inq s' = inq s /\ seq s' = seq s /\ buf s' = buf s.
Proof.
  destruct c; cbn [handler];
  repeat match goal with
  | |- context [match find_stmt ?i ?t with _ => _ end] => destruct (find_stmt i t)
  | |- context [match st_cursor ?v with _ => _ end] => destruct (st_cursor v)
  | |- context [fetch_plan ?a ?b ?c ?d ?e ?f ?g ?h] => destruct (fetch_plan a b c d e f g h)
  end; cbn; repeat split; reflexivity.
Qed.

Lemma handler_hir s c : head_is_read (snd (handler BATCH s c)) = false.
Proof.
  destruct c; cbn [handler]; try reflexivity.
  - destruct (find_stmt id (stmts s)); reflexivity.
  - destruct (find_stmt id (stmts s)) as [v|]; [|reflexivity]. destruct (st_cursor v) as [items|]; [|reflexivity].
    pose proof (hir_fetch BATCH (S (length items)) id items (st_inner v) 0 n (st_inner v)
                  [MDrain; MWrite (ok_or_eof s (if snd (fetch_plan BATCH (S (length items)) id items (st_inner v) 0 n (st_inner v)) <? n
                                                then FL_LAST_ROW_SENT else FL_CURSOR_EXISTS)) sz_final true] eq_refl) as H.
    destruct (fetch_plan BATCH (S (length items)) id items (st_inner v) 0 n (st_inner v)) as [k c]. exact H.
  - destruct (find_stmt id (stmts s)); reflexivity.
Qed.

Lemma dispatch_Qr c s : rk = rkind_of c -> cmd_ok c -> quiescent s ->
  Qr m0 (snd (handler BATCH (set_exec (set_seq (set_inq (set_inq s [c]) []) ((seq (set_inq s [c]) + 1) mod 256)) true) c)) FHandler
        (fst (handler BATCH (set_exec (set_seq (set_inq (set_inq s [c]) []) ((seq (set_inq s [c]) + 1) mod 256)) true) c)).
Proof.
  intros Hrk Hc Q. destruct Q as (Q1 & Q2 & Q3 & Q4 & Q5 & Q6 & Q7 & Q8).
  pose proof (handler_fields (set_exec (set_seq (set_inq (set_inq s [c]) []) ((seq (set_inq s [c]) + 1) mod 256)) true) c) as HF.
  pose proof (handler_hir (set_exec (set_seq (set_inq (set_inq s [c]) []) ((seq (set_inq s [c]) + 1) mod 256)) true) c) as HH.
  pose proof (handler_wf dep BATCH (set_exec (set_seq (set_inq (set_inq s [c]) []) ((seq (set_inq s [c]) + 1) mod 256)) true) c Hc Q1) as HW.
  destruct (handler BATCH (set_exec (set_seq (set_inq (set_inq s [c]) []) ((seq (set_inq s [c]) + 1) mod 256)) true) c) as [s2 k2].
  cbn [fst snd] in *. cbn [deprecate_eof dead eof kill phase inq seq buf set_exec set_seq set_inq] in HF.
  destruct HF as (F1 & F2 & F3 & F4 & F5 & F6 & F7 & F8).
  cbn [Qr].
  assert (Hb : buf s2 = []) by congruence.
  assert (Hs : seq s2 = 1) by (rewrite F7, Q8; reflexivity).
  split.
  - unfold core. rewrite (menq_empty m0 s2 Hb), (off0 _ HH). unfold rsq. rewrite (menq_empty m0 s2 Hb). cbn [m_seq m_rs m0].
    rewrite F1, F2, F3, F4, F5, F6, Hs. repeat split; auto; try lia; discriminate.
  - exists false. split; [now left|]. rewrite (rsq_empty m0 s2 Hb). cbn [m_rs m0]. rewrite Hrk. exact HW.
Qed.

Lemma step_payload_prompt c s ic : quiescent s -> ctl_ s = Susp WRead [] FRead ic ->
  exists n, step B BATCH s (EvPayload c) =
    run B BATCH n (fst (handler BATCH (set_exec (set_seq (set_inq (set_inq s [c]) []) ((seq (set_inq s [c]) + 1) mod 256)) true) c))
                  (snd (handler BATCH (set_exec (set_seq (set_inq (set_inq s [c]) []) ((seq (set_inq s [c]) + 1) mod 256)) true) c)) FHandler.
Proof.
  intros Q P. unfold step. rewrite P. destruct Q as (Q1 & Q2 & Q3 & Q4 & Q5 & Q6 & Q7 & Q8). rewrite Q5, Q6. cbn [app].
  unfold go. destruct (FUEL (set_inq s [c]) []) as [|n] eqn:EF; [unfold FUEL in EF; lia|]. exists n.
  cbn [Conn.run end_plan inq set_inq].
  destruct (handler BATCH (set_exec (set_seq (set_inq (set_inq s [c]) []) ((seq (set_inq s [c]) + 1) mod 256)) true) c) as [s2 k2]. reflexivity.
Qed.

Lemma round_start c s ic : rk = rkind_of c -> cmd_ok c -> quiescent s -> ctl_ s = Susp WRead [] FRead ic -> ok m0 (step B BATCH s (EvPayload c)).
Proof.
  intros Hrk Hc Q P. destruct (step_payload_prompt c s ic Q P) as [n ->]. apply run_ok. now apply dispatch_Qr.
Qed.

Theorem round_ok c evs s : rk = rkind_of c -> cmd_ok c -> quiescent s -> at_prompt s -> Forall allowed evs ->
  ok m0 (exec B BATCH s (EvPayload c :: evs)).
Proof.
  intros Hrk Hc Q P Ha. pose proof (round_start c s None Hrk Hc Q P) as S1.
  cbn [exec]. destruct (step B BATCH s (EvPayload c)) as [s1 o1]. unfold ok3 in S1. cbn [fst snd] in S1.
  pose proof (exec_ok evs _ s1 Ha S1) as S2. destruct (exec B BATCH s1 evs) as [s2 o2]. unfold ok3 in *. cbn [fst snd] in *.
  now rewrite mrun_app.
Qed.

(* every suspended state of a lock-step conversation: command phase, the client's side open, FRead only as the prompt *)
Lemma Qr_ik m k f s : Qr m k f s -> phase s = Command /\ eof s = false.
Proof.
  destruct f as [| | | | | |wk| |re]; cbn [Qr]; try contradiction.
  - intros (_ & Q & _). split; apply Q.
  - intros [C _]. split; apply C.
  - intros [C _]. split; apply C.
  - intros [C _]. split; apply C.
  - destruct wk; [contradiction|]. intros [C _]. split; apply C.
  - intros [C _]. split; apply C.
Qed.

Lemma good_shape m s : good m s ->
  match ctl_ s with
  | Susp w k f _ => (phase s = Command /\ eof s = false) /\ (f = FRead -> w = WRead /\ k = [])
  | _ => True
  end.
Proof.
  unfold good3. destruct (ctl_ s) as [w k f ic| |]; auto. intros G.
  destruct w; cbn [Qs] in G.
  - destruct f as [| | | | | |wk| |re]; try contradiction.
    + destruct G as (-> & Q & _). split; [split; apply Q|auto].
    + destruct G as (_ & C & _). split; [split; apply C|discriminate].
    + destruct G as (_ & C & _). split; [split; apply C|discriminate].
  - destruct f as [| | | | | |wk| |re]; try contradiction.
    + destruct G as [C _]. split; [split; apply C|discriminate].
    + destruct G as [C _]. split; [split; apply C|discriminate].
    + destruct G as (_ & _ & C & _). split; [split; apply C|discriminate].
    + destruct G as (_ & _ & C). split; [split; apply C|discriminate].
  - destruct G as [Hn G]. split; [exact (Qr_ik _ _ _ _ G)|]. intros E. congruence.
  - destruct G as [Hn G]. split; [exact (Qr_ik _ _ _ _ G)|]. intros E. congruence.
  - destruct G as [Hn G]. split; [exact (Qr_ik _ _ _ _ G)|]. intros E. congruence.
Qed.

(* what the verdict means *)
Lemma Qs_nb m w k f s : Qs m w k f s -> m_rs m <> RBad.
Proof.
  destruct w; cbn [Qs]; try (intros [_ H]; revert H; apply Qr_weak).
  - destruct f as [| | | | | |wk| |re]; try contradiction.
    + intros (_ & _ & A). now apply acc_nb.
    + intros (_ & _ & _ & -> & _). discriminate.
    + intros (_ & _ & _ & -> & _). discriminate.
  - destruct f as [| | | | | |wk| |re]; try contradiction.
    + intros [C _]. apply (rsq_nb m s), C.
    + intros [C _]. apply (rsq_nb m s), C.
    + intros (_ & _ & C & _). apply (rsq_nb m s), C.
    + intros (_ & _ & H). apply (rsq_nb m s), H.
Qed.

Lemma good_nb m s : good m s -> m_rs m <> RBad.
Proof. unfold good3. destruct (ctl_ s); [apply Qs_nb|auto|auto]. Qed.

Lemma good_prompt m s : good m s -> at_prompt s -> accepting rk (m_rs m) = true /\ quiescent s.
Proof. unfold good3, at_prompt. intros G P. rewrite P in G. cbn [Qs] in G. split; apply G. Qed.
End Inv.

(* ---- the verdict in terms of the packets the client receives ------------------------------------------------------ *)
Definition pkts_out (o : list out) : list (N * pkt) := flat_map (fun x => match x with OWrite ps => ps | _ => [] end) o.
Definition observe (dep : bool) (rk : rkind) (o : list out) : mon := fold_left (mfeed dep rk) (pkts_out o) m0.

Lemma mrun_observe dep rk o : forall m, mrun mon (mstep dep rk) m o = fold_left (mfeed dep rk) (pkts_out o) m.
Proof.
  induction o as [|a o IH]; intros m; [reflexivity|].
  unfold mrun in *. cbn [fold_left pkts_out flat_map]. rewrite fold_left_app. rewrite IH. destruct a; reflexivity.
Qed.

Section Lockstep.
Variable B BATCH : N.
Variable dep : bool.

(* a lock-step conversation: each round is a command and the events that follow it; the client sends the next command
   only when the server is back at its prompt *)
Fixpoint lockstep (s : st) (rounds : list (cmd * list ev)) : Prop :=
  match rounds with
  | [] => True
  | (c, evs) :: rest =>
      let r := exec B BATCH s (EvPayload c :: evs) in
      let v := observe dep (rkind_of c) (snd r) in
      m_rs v <> RBad /\
      (at_prompt (fst r) -> accepting (rkind_of c) (m_rs v) = true /\ quiescent dep (fst r) /\ lockstep (fst r) rest)
  end.

Theorem lockstep_ok : forall rounds s, quiescent dep s -> at_prompt s ->
  Forall (fun r => cmd_ok (fst r) /\ Forall allowed (snd r)) rounds -> lockstep s rounds.
Proof.
  induction rounds as [|[c evs] rest IH]; intros s Q P Hall; [exact I|].
  inversion Hall as [|? ? [Hc Ha] Hrest]; subst. cbn [fst snd] in *. cbn [lockstep].
  pose proof (round_ok B BATCH dep (rkind_of c) c evs s eq_refl Hc Q P Ha) as Rd. unfold ok3 in Rd.
  rewrite mrun_observe in Rd. fold (observe dep (rkind_of c) (snd (exec B BATCH s (EvPayload c :: evs)))) in Rd.
  split; [eapply good_nb; exact Rd|].
  intros P'. destruct (good_prompt _ _ _ _ _ Rd P') as [A Q'].
  split; [exact A|]. split; [exact Q'|]. now apply IH.
Qed.

(* a connection that completed the handshake, authenticated and whose session was initialised waits at its prompt *)
Lemma session_at_prompt hs :
  let s := fst (exec B BATCH (fst (boot B BATCH hs)) [EvHandshake true dep; EvDecide ASuccess; EvApp OVoid]) in
  quiescent dep s /\ at_prompt s.
Proof.
  destruct dep; vm_compute; repeat split; reflexivity.
Qed.
End Lockstep.
