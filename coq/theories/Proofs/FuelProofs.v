(* Proofs/FuelProofs.v - the fuel of the connection machine suffices: running a plan with the fuel FUEL computes, or with
   any larger amount, gives the same result.  So `Stuck` is never the result of running out of fuel, and `go` is the
   fuel-independent semantics of the machine. *)
From Coq Require Import List Arith NArith Lia Bool.
From MM Require Import Lib.Bytes Model.Conn.
Import ListNotations.

Section Fuel.
Variable B BATCH : N.

(* ---- weights ------------------------------------------------------------------------------------------------------ *)
Definition w1 (v : stmt) : nat := match st_cursor v with Some l => length l | None => O end.
Fixpoint sw (t : list (N * stmt)) : nat := match t with [] => O | (_, v) :: r => (w1 v + sw r)%nat end.

Lemma fold_sw t : forall a, fold_left (fun a kv => a + match st_cursor (snd kv) with Some l => length l | None => O end)%nat t a = (a + sw t)%nat.
Proof.
  induction t as [|[k v] t IH]; intros a; cbn [fold_left sw]; [lia|]. rewrite IH. unfold w1. cbn [snd]. lia.
Qed.

Lemma stmts_weight_sw s : stmts_weight s = sw (stmts s).
Proof. unfold stmts_weight. rewrite fold_sw. lia. Qed.

Lemma sw_put_le id v : forall t, (sw (put_stmt id v t) <= sw t + w1 v)%nat.
Proof.
  induction t as [|[k x] t IH]; cbn [put_stmt sw]; [lia|]. destruct (N.eqb k id); cbn [sw]; lia.
Qed.

Lemma sw_put_repl id v v0 : forall t, find_stmt id t = Some v0 -> (w1 v <= w1 v0)%nat -> (sw (put_stmt id v t) <= sw t)%nat.
Proof.
  induction t as [|[k x] t IH]; cbn [put_stmt find_stmt sw]; [discriminate|]. destruct (N.eqb k id); intros H Hw.
  - inversion H; subst. cbn [sw]. lia.
  - cbn [sw]. specialize (IH H Hw). lia.
Qed.

Lemma sw_find id : forall t v, find_stmt id t = Some v -> (w1 v <= sw t)%nat.
Proof.
  induction t as [|[k x] t IH]; cbn [find_stmt sw]; [discriminate|]. intros v. destruct (N.eqb k id); intros H.
  - inversion H; subst. lia.
  - specialize (IH v H). lia.
Qed.

Lemma sw_del id : forall t, (sw (del_stmt id t) <= sw t)%nat.
Proof.
  unfold del_stmt. induction t as [|[k x] t IH]; cbn [filter sw]; [lia|]. cbn [fst]. destruct (negb (N.eqb k id)); cbn [sw]; lia.
Qed.

Definition wt (s : st) (k : plan) : nat := (sw (stmts s) + plan_weight k)%nat.

(* ---- cost of the queued commands ---------------------------------------------------------------------------------------- *)
Fixpoint Q (W : nat) (q : list cmd) : nat := match q with [] => O | c :: r => (cmd_cost_w W c + Q W r)%nat end.

Lemma fold_Q W q : forall a, fold_left (fun a c => a + cmd_cost_w W c)%nat q a = (a + Q W q)%nat.
Proof. induction q as [|c q IH]; intros a; cbn [fold_left Q]; [lia|]. rewrite IH. lia. Qed.

Lemma FUEL_eq s k : FUEL s k = (4 * (length k + Q (wt s k) (inq s)) + 64)%nat.
Proof. unfold FUEL, wt. rewrite fold_Q, stmts_weight_sw. reflexivity. Qed.

Lemma cost_mono W W' c : (W <= W')%nat -> (cmd_cost_w W c <= cmd_cost_w W' c)%nat.
Proof. intros H. destruct c; cbn; lia. Qed.

Lemma Q_mono W W' q : (W <= W')%nat -> (Q W q <= Q W' q)%nat.
Proof. intros H. induction q as [|c q IH]; cbn [Q]; [lia|]. pose proof (cost_mono W W' c H). lia. Qed.

(* ---- handler plans: length and weight ---------------------------------------------------------------------------------- *)
Lemma fetch_plan_len : forall fuel id items j c want i0,
  (length (fst (fetch_plan BATCH fuel id items j c want i0)) <= 4 * length items)%nat /\
  plan_weight (fst (fetch_plan BATCH fuel id items j c want i0)) = O.
Proof.
  induction fuel as [|f IH]; intros id items j c want i0; cbn [fetch_plan]; destruct (want <=? c)%N; cbn [fst length plan_weight]; try (split; [lia|reflexivity]).
  destruct items as [|[sz| |m] r]; cbn [fst length plan_weight]; try (split; [lia|reflexivity]).
  - specialize (IH id r (j + 1)%N (c + 1)%N want i0). destruct (fetch_plan BATCH f id r (j + 1) (c + 1) want i0) as [k c']. cbn [fst] in *.
    destruct IH as [L Wt]. cbn [length plan_weight].
    destruct (negb (j =? 0)%N && (j mod BATCH =? 0)%N); destruct (negb (c =? 0)%N && (c mod BATCH =? 0)%N); cbn [app length plan_weight]; split; try lia; exact Wt.
  - specialize (IH id r j c want i0). destruct (fetch_plan BATCH f id r j c want i0) as [k c']. cbn [fst length plan_weight] in *.
    destruct IH as [L Wt]. split; [lia|exact Wt].
Qed.

Lemma plan_weight_app a b : plan_weight (a ++ b) = (plan_weight a + plan_weight b)%nat.
Proof. induction a as [|m a IH]; [reflexivity|]. destruct m; cbn [app plan_weight]; rewrite ?IH; lia. Qed.

Lemma plan_weight_map_write (f : N -> mop) l : (forall z, plan_weight [f z] = O) -> plan_weight (map f l) = O.
Proof.
  intros H. induction l as [|z l IH]; [reflexivity|]. cbn [map]. change (f z :: map f l) with ([f z] ++ map f l).
  rewrite plan_weight_app, H, IH. reflexivity.
Qed.

Lemma handler_bounds s c W : (sw (stmts s) <= W)%nat ->
  let r := handler BATCH s c in
  (length (snd r) + 7 <= cmd_cost_w W c)%nat /\ plan_weight (snd r) = O /\ (sw (stmts (fst r)) <= sw (stmts s))%nat /\ inq (fst r) = inq s.
Proof.
  intros HW. destruct c; cbn [handler cmd_cost_w]; cbn [fst snd length plan_weight stmts inq set_exec set_authed]; try (repeat split; lia).
  - (* CPrepare *) cbn [stmts set_stmts inq]. split; [|split; [|split; [|reflexivity]]].
    + rewrite app_length. cbn [length]. destruct (0 <? nparams)%N; [|cbn [length]; lia].
      rewrite app_length, map_length. destruct (deprecate_eof s); cbn [length]; lia.
    + rewrite plan_weight_app. cbn [plan_weight]. destruct (0 <? nparams)%N; [|reflexivity].
      rewrite plan_weight_app, plan_weight_map_write by reflexivity. destruct (deprecate_eof s); reflexivity.
    + pose proof (sw_put_le (next_stmt s) (mk_stmt None 0) (stmts s)). cbn [w1 st_cursor] in H. lia.
  - (* CExecute *) destruct (find_stmt id (stmts s)); cbn [fst snd length plan_weight stmts set_stmts inq]; [|repeat split; lia].
    pose proof (sw_put_le id (mk_stmt None 0) (stmts s)) as Hp. cbn [w1 st_cursor] in Hp. repeat split; lia.
  - (* CFetch *) destruct (find_stmt id (stmts s)) as [v|] eqn:Ef; cbn [fst snd length plan_weight]; try (repeat split; lia).
    destruct (st_cursor v) as [items|] eqn:Ec; cbn [fst snd length plan_weight]; try (repeat split; lia).
    pose proof (fetch_plan_len (S (length items)) id items (st_inner v) 0%N n (st_inner v)) as [L Wt].
    destruct (fetch_plan BATCH (S (length items)) id items (st_inner v) 0 n (st_inner v)) as [k c]. cbn [fst snd] in *.
    pose proof (sw_find id (stmts s) v Ef) as Hf. unfold w1 in Hf. rewrite Ec in Hf.
    rewrite app_length, plan_weight_app, Wt. cbn [length plan_weight]. repeat split; lia.
  - (* CReset *) destruct (find_stmt id (stmts s)); cbn [fst snd length plan_weight]; repeat split; lia.
Qed.

(* ---- the potential --------------------------------------------------------------------------------------------------------- *)
(* the plan that follows a failed COM_CHANGE_USER exchange, run in FHandler after FChangeUser *)
Definition post (k : plan) : bool :=
  match k with
  | [MWrite _ _ _; MRaise XAuthFailed _] | [MRaise XAuthFailed _] => true
  | _ => false
  end.

Definition phi (f : frame) (k : plan) : nat :=
  match f with
  | FClose _ => 1
  | FConnErr => 1
  | FKillErr => 6
  | FRead => 7
  | FHandlerErr _ => 8
  | FConn => 8
  | FHandler => if post k then 9 else 14
  | FChangeUser => 14
  | FChangeUserReset => 14
  end%nat.

Definition Phi (W : nat) (s : st) (k : plan) (f : frame) : nat := (4 * (length k + Q W (inq s)) + phi f k)%nat.

Lemma phi_pos f k : (1 <= phi f k)%nat.
Proof. destruct f; cbn; try lia. destruct (post k); lia. Qed.
Lemma phi_le f k : (phi f k <= 64)%nat.
Proof. destruct f; cbn; try lia. destruct (post k); lia. Qed.

(* ---- what one micro-operation does to the measure ---------------------------------------------------------------------- *)
Lemma kc_sw s ic : (sw (stmts (kill_cursor s ic)) <= sw (stmts s))%nat /\ inq (kill_cursor s ic) = inq s.
Proof.
  unfold kill_cursor. destruct ic as [id|]; [|split; [lia|reflexivity]].
  destruct (find_stmt id (stmts s)) as [v|] eqn:Ef; [|split; [lia|reflexivity]].
  cbn [stmts set_stmts inq]. split; [|reflexivity]. apply (sw_put_repl id _ v); [exact Ef|]. cbn. lia.
Qed.

Lemma drain_meas s :
  match do_drain s with
  | ActNext s' _ => inq s' = inq s /\ stmts s' = stmts s
  | ActRaise s' _ ic _ => inq s' = inq s /\ stmts s' = stmts s /\ ic = None
  | ActSuspend _ _ _ _ => True
  | _ => False
  end.
Proof.
  unfold do_drain, flush. destruct (buf s); cbn;
  match goal with |- context [if dead ?x then _ else _] => destruct (dead x) eqn:?; cbn end; auto;
  match goal with |- context [if paused ?x then _ else _] => destruct (paused x) eqn:?; cbn end; auto.
Qed.

Lemma op_meas s m k' :
  match exec_op B s m with
  | ActNext s' _ => inq s' = inq s /\ (sw (stmts s') + plan_weight k' <= sw (stmts s) + plan_weight (m :: k'))%nat
  | ActRaise s' _ ic _ => inq (kill_cursor s' ic) = inq s /\ (sw (stmts (kill_cursor s' ic)) <= sw (stmts s))%nat
  | ActEnter s' _ => s' = s
  | ActQuit s' => s' = s
  | ActSuspend _ _ _ _ => True
  end.
Proof.
  destruct m; cbn [exec_op plan_weight]; try (split; [reflexivity|cbn [stmts]; lia]); auto.
  - (* MWrite *)
    match goal with |- context [if ?c then _ else _] => destruct c end; [|split; [reflexivity|cbn; lia]].
    match goal with |- context [do_drain ?x] => pose proof (drain_meas x) as D; destruct (do_drain x) end; try contradiction; auto.
    + destruct D as [D1 D2]. rewrite D1, D2. cbn. split; [reflexivity|lia].
    + destruct D as (D1 & D2 & ->). cbn [kill_cursor]. rewrite D1, D2. cbn. split; [reflexivity|lia].
  - (* MDrain *)
    pose proof (drain_meas s) as D. destruct (do_drain s); try contradiction; auto.
    + destruct D as [D1 D2]. rewrite D1, D2. split; [reflexivity|lia].
    + destruct D as (D1 & D2 & ->). cbn [kill_cursor]. rewrite D1, D2. split; [reflexivity|lia].
  - (* MCurPull *)
    unfold cur_pull. destruct (find_stmt id (stmts s)) as [v|] eqn:Ef; cbn [inq stmts inc_pulled set_stmts]; (split; [reflexivity|]); [|lia].
    assert (H : (sw (put_stmt id (mk_stmt match st_cursor v with Some (_ :: r) => Some r | o => o end (st_inner v + 1)) (stmts s)) <= sw (stmts s))%nat).
    { apply (sw_put_repl id _ v); [exact Ef|]. unfold w1. cbn [st_cursor]. destruct (st_cursor v) as [[|x r]|]; cbn; lia. }
    lia.
  - (* MRaise *) destruct (kc_sw s incur) as [K1 K2]. split; [exact K2|exact K1].
  - (* MSetCursor *)
    cbn [inq stmts set_stmts]. split; [reflexivity|]. pose proof (sw_put_le id (mk_stmt (Some items) 0) (stmts s)) as H. cbn [w1 st_cursor] in H. lia.
  - (* MClearStmt *)
    cbn [inq stmts set_stmts]. split; [reflexivity|]. pose proof (sw_put_le id (mk_stmt None 0) (stmts s)) as H. cbn [w1 st_cursor] in H. lia.
  - (* MDropStmt *)
    cbn [inq stmts set_stmts]. split; [reflexivity|]. pose proof (sw_del id (stmts s)). lia.
  - (* MRead *) destruct (eof s); [|exact I]. cbn [kill_cursor]. split; [reflexivity|lia].
Qed.

(* ---- exceptions ------------------------------------------------------------------------------------------------------------ *)
(* after an exception in frame f (current plan k, at least as much potential as an empty plan has), the machine goes on
   with strictly less potential *)
Definition tb (f : frame) : nat :=
  match f with
  | FConn => 5 | FConnErr => 0 | FRead => 10 | FHandler => 12 | FChangeUser => 17 | FChangeUserReset => 12
  | FHandlerErr _ => 10 | FKillErr => 5 | FClose _ => 0
  end%nat.

Lemma throw_meas s x f :
  match throw s x f with
  | Continue s' k' f' => inq s' = inq s /\ stmts s' = stmts s /\ plan_weight k' = O /\ (4 * length k' + phi f' k' <= tb f)%nat
  | ToClose s' re => inq s' = inq s /\ stmts s' = stmts s /\ (5 <= tb f)%nat
  | Finished _ _ => True
  end.
Proof.
  destruct f; cbn [throw tb].
  - destruct x; cbn; auto; repeat split; lia.
  - exact I.
  - destruct x; destruct (kill s) as [[|]|]; cbn; repeat split; lia.
  - destruct x; cbn [kill set_exec]; destruct (kill s) as [[|]|]; cbn; repeat split; lia.
  - destruct x; destruct (kill s) as [[|]|]; cbn; repeat split; lia.
  - destruct x; destruct (kill s) as [[|]|]; cbn; repeat split; lia.
  - destruct x; cbn [kill set_seq]; destruct (kill s) as [[|]|]; cbn; repeat split; lia.
  - cbn. repeat split; lia.
  - exact I.
Qed.

(* the margins: an exception raised while an operation of plan (m :: k) runs, or at the end of a plan in FRead *)
Lemma tb_op f m k : (tb f + 1 <= 4 + phi f (m :: k))%nat.
Proof. destruct f; cbn [tb phi]; try lia. destruct (post (m :: k)); lia. Qed.

Lemma post_next m k : post (m :: k) = true -> (exists ic, k = [MRaise XAuthFailed ic]) \/ (k = [] /\ exists ic, m = MRaise XAuthFailed ic).
Proof.
  destruct m; cbn [post]; try discriminate.
  - destruct k as [|m2 k2]; [discriminate|]. destruct m2; try discriminate. destruct x; try discriminate. destruct k2; [|discriminate]. intros _. left. eauto.
  - destruct x; try discriminate. destruct k; [|discriminate]. intros _. right. split; eauto.
Qed.

(* ---- the main lemma ------------------------------------------------------------------------------------------------------------ *)
Lemma Phi_raise W s x f P :
  (4 * Q W (inq s) + tb f + 1 <= P)%nat -> (sw (stmts s) <= W)%nat ->
  match throw s x f with
  | Continue s' k' f' => (wt s' k' <= W)%nat /\ (Phi W s' k' f' + 1 <= P)%nat
  | ToClose s' re => (wt (inc_closes s') [MApp SClose] <= W)%nat /\ (Phi W (inc_closes s') [MApp SClose] (FClose re) + 1 <= P)%nat
  | Finished _ _ => True
  end.
Proof.
  intros HP HW. pose proof (throw_meas s x f) as T. destruct (throw s x f) as [s' k' f'|s' re|s' exc]; [| |exact I].
  - destruct T as (T1 & T2 & T3 & T4). unfold wt, Phi. rewrite T1, T2, T3. split; lia.
  - destruct T as (T1 & T2 & T3). unfold wt, Phi. cbn [inq stmts inc_closes length plan_weight phi]. rewrite T1, T2. split; lia.
Qed.

Theorem run_stable : forall n s k f W, (wt s k <= W)%nat -> (Phi W s k f <= n)%nat ->
  forall n', (n <= n')%nat -> run B BATCH n' s k f = run B BATCH n s k f.
Proof.
  induction n as [|n IH]; intros s k f W HW HP n' Hn.
  { exfalso. unfold Phi in HP. pose proof (phi_pos f k). lia. }
  destruct n' as [|n']; [lia|]. assert (Hn' : (n <= n')%nat) by lia.
  assert (RAISE : forall s1 x ic P, (4 * Q W (inq (kill_cursor s1 ic)) + tb f + 1 <= P)%nat -> (P <= S n)%nat ->
            (sw (stmts (kill_cursor s1 ic)) <= W)%nat ->
            match throw (kill_cursor s1 ic) x f with
            | Continue s' k' f' => run B BATCH n' s' k' f'
            | ToClose s' re => run B BATCH n' (inc_closes s') [MApp SClose] (FClose re)
            | Finished s' exc => finish s' exc
            end =
            match throw (kill_cursor s1 ic) x f with
            | Continue s' k' f' => run B BATCH n s' k' f'
            | ToClose s' re => run B BATCH n (inc_closes s') [MApp SClose] (FClose re)
            | Finished s' exc => finish s' exc
            end).
  { intros s1 x ic P H1 H2 H3. pose proof (Phi_raise W (kill_cursor s1 ic) x f P H1 H3) as T.
    destruct (throw (kill_cursor s1 ic) x f) as [s' k' f'|s' re|s' exc]; [| |reflexivity].
    - destruct T as [T1 T2]. apply (IH _ _ _ W); [exact T1|lia|exact Hn'].
    - destruct T as [T1 T2]. apply (IH _ _ _ W); [exact T1|lia|exact Hn']. }
  destruct k as [|m k'].
  - (* the plan is exhausted *)
    cbn [Conn.run]. unfold wt in HW. cbn [plan_weight] in HW. unfold Phi in HP. cbn [length] in HP.
    destruct f; cbn [end_plan]; try reflexivity.
    + (* FConn -> FRead *) apply (IH _ _ _ W); [unfold wt; cbn; lia|unfold Phi; cbn [length inq set_phase set_inited phi] in *; lia|exact Hn'].
    + (* FRead *)
      destruct (inq s) as [|c q] eqn:Eq.
      * destruct (eof s); [|reflexivity]. cbn [kill_cursor throw].
        apply (IH _ _ _ W); [unfold wt; cbn; lia|unfold Phi; cbn [length inq inc_closes phi] in *; rewrite Eq in *; cbn [Q] in *; lia|exact Hn'].
      * match goal with |- context [handler BATCH ?x c] => pose proof (handler_bounds x c W) as HB; destruct (handler BATCH x c) as [s2 k2] end.
        cbn [fst snd stmts inq set_exec set_seq set_inq] in HB. specialize (HB ltac:(lia)). destruct HB as (B1 & B2 & B3 & B4).
        cbn [Q] in HP. apply (IH _ _ _ W); [unfold wt; lia|unfold Phi; rewrite B4; cbn [phi]; destruct (post k2); lia|exact Hn'].
    + (* FHandler -> FRead *) apply (IH _ _ _ W); [unfold wt; cbn; lia|unfold Phi; cbn [length inq set_seq set_exec phi post] in *; lia|exact Hn'].
    + apply (IH _ _ _ W); [unfold wt; cbn; lia|unfold Phi; cbn [length inq set_seq set_exec phi] in *; lia|exact Hn'].
    + apply (IH _ _ _ W); [unfold wt; cbn; lia|unfold Phi; cbn [length inq set_seq set_exec phi] in *; lia|exact Hn'].
    + (* FHandlerErr -> FRead *) apply (IH _ _ _ W); [unfold wt; destruct waskill; cbn; lia|unfold Phi; destruct waskill; cbn [length inq set_seq set_kill phi] in *; lia|exact Hn'].
    + (* FKillErr -> FClose *) apply (IH _ _ _ W); [unfold wt; cbn; lia|unfold Phi; cbn [length inq inc_closes set_kill phi] in *; lia|exact Hn'].
  - (* one micro-operation *)
    cbn [Conn.run]. pose proof (op_meas s m k') as OM. unfold wt in HW. unfold Phi in HP. cbn [length] in HP.
    destruct (exec_op B s m) as [s' o|s' w ic o|s' x ic o|s'|s' f'] eqn:Eo.
    + destruct OM as [O1 O2]. f_equal. apply (IH _ _ _ W); [unfold wt; lia| |exact Hn'].
      unfold Phi. rewrite O1.
      assert (PH : (phi f k' <= phi f (m :: k') + 3)%nat).
      { destruct f; cbn [phi]; try lia. destruct (post (m :: k')) eqn:Ep; [|destruct (post k'); lia].
        destruct (post_next m k' Ep) as [[ic ->]|[-> [ic ->]]]; [cbn; lia|]. cbn [exec_op] in Eo. discriminate Eo. }
      lia.
    + reflexivity.
    + destruct OM as [O1 O2]. f_equal.
      apply (RAISE s' x ic (4 * (1 + Q W (inq s)) + phi f (m :: k'))%nat); [rewrite O1; pose proof (tb_op f m k'); lia|lia|lia].
    + subst s'. destruct f; try reflexivity.
      apply (IH _ _ _ W); [unfold wt; cbn [stmts inc_closes set_seq set_exec plan_weight]; lia| |exact Hn'].
      unfold Phi. cbn [length inq inc_closes set_seq set_exec phi] in *. destruct (post (m :: k')); lia.
    + subst s'. destruct (is_handler f && is_handler f') eqn:Eh; [|reflexivity].
      apply andb_true_iff in Eh. destruct Eh as [H1 H2].
      assert (M : m = MEnter f') by (destruct m; cbn [exec_op] in Eo; try discriminate Eo;
        repeat match type of Eo with context [if ?c then _ else _] => destruct c end; try discriminate Eo;
        try (unfold do_drain in Eo; destruct (flush _); repeat match type of Eo with context [if ?c then _ else _] => destruct c end; discriminate Eo);
        inversion Eo; reflexivity).
      subst m. cbn [plan_weight] in HW.
      apply (IH _ _ _ W); [unfold wt; lia| |exact Hn'].
      unfold Phi. assert (PH : (phi f' k' <= phi f (MEnter f' :: k') + 3)%nat).
      { destruct f; try discriminate H1; destruct f'; try discriminate H2; cbn [phi post]; try lia; destruct (post k'); lia. }
      lia.
Qed.

(* the fuel FUEL computes is enough: any larger amount gives the same result *)
Corollary go_stable s k f n : (FUEL s k <= n)%nat -> run B BATCH n s k f = go B BATCH s k f.
Proof.
  intros H. unfold go. apply (run_stable (FUEL s k) s k f (wt s k)); [lia| |exact H].
  rewrite FUEL_eq. unfold Phi. pose proof (phi_le f k). lia.
Qed.
End Fuel.
