(* Proofs/PacketProofs.v - what the server encodes, a client decodes: OK / EOF / ERR / column definitions / handshake. *)
From Coq Require Import List NArith Bool Lia.
From MM Require Import Lib.Bytes Model.Packets.
Import ListNotations.
Open Scope N_scope.

Lemma read_uint_le' k n r : n < 256 ^ N.of_nat k -> read_uint k (le_bytes k n ++ r) = Some (n, r).
Proof. apply read_uint_le. Qed.

Theorem ok_roundtrip c eof aff last status warn rest :
  protocol_41 c = true -> aff < 2 ^ 64 -> last < 2 ^ 64 -> status < 65536 -> warn < 65536 ->
  dec_ok (enc_ok c eof aff last status warn ++ rest) = Some (eof, aff, last, status, warn, rest).
Proof.
  intros Hp Ha Hl Hs Hw. unfold enc_ok. rewrite Hp. cbn [app].
  unfold dec_ok. assert (E : (((if eof then 254 else 0) =? 0) || ((if eof then 254 else 0) =? 254)) = true) by (destruct eof; reflexivity).
  rewrite E. rewrite <- !app_assoc.
  rewrite uint_len_roundtrip by exact Ha. rewrite uint_len_roundtrip by exact Hl.
  rewrite (read_uint_le' 2) by (cbn; lia). rewrite (read_uint_le' 2) by (cbn; lia).
  destruct eof; reflexivity.
Qed.

Theorem eof_roundtrip c warn status : protocol_41 c = true -> warn < 65536 -> status < 65536 ->
  dec_eof (enc_eof c warn status) = Some (warn, status).
Proof.
  intros Hp Hw Hs. unfold enc_eof. rewrite Hp. cbn [app le_bytes dec_eof].
  pose proof (le_roundtrip 2 warn ltac:(cbn; lia)) as R1. pose proof (le_roundtrip 2 status ltac:(cbn; lia)) as R2.
  cbn [le_bytes] in R1, R2. rewrite R1, R2. reflexivity.
Qed.

Theorem err_roundtrip c code sqlstate msg : protocol_41 c = true -> code < 65536 -> len sqlstate = 5 ->
  dec_err (enc_err c code sqlstate msg) = Some (code, sqlstate, msg).
Proof.
  intros Hp Hc Hs. unfold enc_err. rewrite Hp. cbn [app le_bytes dec_err N.eqb Pos.eqb andb].
  rewrite len_app, Hs. destruct (N.ltb_spec (5 + len msg) 5) as [L|L]; [lia|].
  pose proof (le_roundtrip 2 code ltac:(cbn; lia)) as R1. cbn [le_bytes] in R1. rewrite R1.
  rewrite <- Hs. rewrite take_app_exact, drop_app_exact. reflexivity.
Qed.

Definition coldef_wf (cd : coldef) : Prop :=
  len (cd_schema cd) < 2 ^ 64 /\ len (cd_table cd) < 2 ^ 64 /\ len (cd_org_table cd) < 2 ^ 64 /\ len (cd_name cd) < 2 ^ 64 /\
  len (cd_org_name cd) < 2 ^ 64 /\ cd_charset cd < 65536 /\ cd_length cd < 2 ^ 32 /\ cd_type cd < 256 /\ cd_flags cd < 65536 /\
  cd_decimals cd < 256.

Lemma coldef_core cd tail : coldef_wf cd ->
  dec_coldef (str_len [100; 101; 102] ++ str_len (cd_schema cd) ++ str_len (cd_table cd) ++ str_len (cd_org_table cd) ++
              str_len (cd_name cd) ++ str_len (cd_org_name cd) ++ uint_len 12 ++
              le_bytes 2 (cd_charset cd) ++ le_bytes 4 (cd_length cd) ++ le_bytes 1 (cd_type cd) ++ le_bytes 2 (cd_flags cd) ++
              le_bytes 1 (cd_decimals cd) ++ le_bytes 2 0 ++ tail) = Some (cd, tail).
Proof.
  intros [H1 [H2 [H3 [H4 [H5 [H6 [H7 [H8 [H9 H10]]]]]]]]]. unfold dec_coldef, rd_str.
  rewrite str_len_roundtrip by (cbn; lia). rewrite !str_len_roundtrip by assumption.
  rewrite uint_len_roundtrip by lia. cbn [N.eqb Pos.eqb negb orb].
  assert (L : (len (le_bytes 2 (cd_charset cd) ++ le_bytes 4 (cd_length cd) ++ le_bytes 1 (cd_type cd) ++ le_bytes 2 (cd_flags cd) ++
                     le_bytes 1 (cd_decimals cd) ++ le_bytes 2 0 ++ tail) <? 12) = false).
  { rewrite !len_app, !len_le_bytes. apply N.ltb_ge. lia. }
  rewrite L. change (len [100; 101; 102] =? 3) with true. cbn [negb orb].
  rewrite (read_uint_le' 2) by (cbn; lia). rewrite (read_uint_le' 4) by (change (256 ^ N.of_nat 4) with (2 ^ 32); lia).
  rewrite (read_uint_le' 1) by (cbn; lia). rewrite (read_uint_le' 2) by (cbn; lia). rewrite (read_uint_le' 1) by (cbn; lia).
  assert (D : drop 2 (le_bytes 2 0 ++ tail) = tail).
  { change 2 with (N.of_nat 2) at 1. rewrite <- (len_le_bytes 2 0). apply drop_app_exact. }
  rewrite D. destruct cd; reflexivity.
Qed.

Theorem coldef_roundtrip cd rest : coldef_wf cd -> dec_coldef (enc_coldef cd None ++ rest) = Some (cd, rest).
Proof.
  intros W. unfold enc_coldef. rewrite <- !app_assoc. cbn [app]. apply coldef_core. exact W.
Qed.

(* COM_FIELD_LIST: the same definition followed by the default-value suffix *)
Theorem field_list_coldef_roundtrip cd dflt : coldef_wf cd ->
  dec_coldef (enc_coldef cd (Some dflt)) =
  Some (cd, match dflt with None => uint_len 0 | Some v => str_len v end).
Proof.
  intros W. unfold enc_coldef. apply coldef_core. exact W.
Qed.

(* ... and what follows the definition is ONE length-encoded string holding the default value (none: the empty string) *)
Theorem field_list_default_roundtrip dflt : match dflt with Some v => len v < 2 ^ 64 | None => True end ->
  read_str_len (match dflt with None => uint_len 0 | Some v => str_len v end) =
  Some (match dflt with None => [] | Some v => v end, []).
Proof.
  destruct dflt as [v|]; intros H.
  - rewrite <- (app_nil_r (str_len v)). now apply str_len_roundtrip.
  - vm_compute. reflexivity.
Qed.

Theorem colcount_roundtrip c n rest : optional_metadata c = false -> n < 2 ^ 64 ->
  read_uint_len (enc_colcount c n ++ rest) = Some (n, rest).
Proof. intros Ho Hn. unfold enc_colcount. rewrite Ho. cbn [app]. apply uint_len_roundtrip. exact Hn. Qed.

Lemma len_pad_to k : forall s, len (pad_to k s) = N.of_nat k.
Proof.
  induction k as [|k IH]; intros s; [reflexivity|]. cbn [pad_to].
  destruct s; rewrite len_cons, IH; lia.
Qed.

(* the greeting: a client reads back the version, the connection id, the first 8 nonce bytes, the whole capability word,
   the character set, the status and the announced nonce length *)
Theorem handshake_roundtrip c capsw cs version cid auth status plugin :
  no_nul version -> cid < 2 ^ 32 -> capsw < 2 ^ 32 -> cs < 256 -> status < 65536 -> 8 <= len auth -> len auth < 256 ->
  let alen := if plugin_auth c then len auth else 0 in
  dec_handshake (enc_handshake c capsw cs version cid auth status plugin) =
  Some (version, cid, take 8 auth, capsw, cs, status, alen,
        pad_to (N.to_nat (N.max 13 (alen - 8))) (drop 8 auth) ++ (if plugin_auth c then str_null plugin else [])).
Proof.
  intros Hv Hc Hw Hcs Hs Ha1 Ha2 alen. unfold enc_handshake. fold alen. cbn [app]. unfold dec_handshake.
  rewrite ?app_assoc_reverse. rewrite split_nul_roundtrip by exact Hv.
  rewrite (read_uint_le' 4) by (change (256 ^ N.of_nat 4) with (2 ^ 32); lia).
  assert (L8 : len (take 8 auth) = 8) by (rewrite len_take; lia).
  assert (Hal : alen < 256) by (unfold alen; destruct (plugin_auth c); lia).
  set (tail := pad_to (N.to_nat (N.max 13 (alen - 8))) (drop 8 auth) ++ (if plugin_auth c then str_null plugin else [])).
  match goal with |- context [len ?X <? _] => assert (LX : (len X <? 9 + 2 + 1 + 2 + 2 + 1 + 10) = false) end.
  { apply N.ltb_ge. unfold str_null. rewrite !len_app, !len_le_bytes, len_pad_to, L8. change (len [0]) with 1. lia. }
  rewrite LX. unfold str_null. rewrite <- !app_assoc.
  assert (T8 : forall X, take 8 (take 8 auth ++ X) = take 8 auth).
  { intros X. pose proof (take_app_exact (take 8 auth) X) as T. rewrite L8 in T. exact T. }
  rewrite T8.
  assert (D9 : forall X, drop 9 (take 8 auth ++ [0] ++ X) = X).
  { intros X. replace 9 with (len (take 8 auth ++ [0])) by (rewrite len_app, L8; reflexivity). rewrite app_assoc. apply drop_app_exact. }
  rewrite D9.
  rewrite (read_uint_le' 2) by (cbn; apply N.mod_lt; lia). rewrite (read_uint_le' 1) by (cbn; lia).
  rewrite (read_uint_le' 2) by (cbn; lia).
  rewrite (read_uint_le' 2) by (cbn; apply N.div_lt_upper_bound; lia).
  rewrite (read_uint_le' 1) by (cbn; lia).
  assert (D10 : forall X, drop 10 (pad_to 10 [] ++ X) = X).
  { intros X. replace 10 with (len (pad_to 10 [])) at 1 by (rewrite len_pad_to; reflexivity). apply drop_app_exact. }
  rewrite D10. pose proof (N.div_mod capsw 65536 ltac:(lia)) as DM.
  replace (capsw mod 65536 + 65536 * (capsw / 65536)) with capsw by lia. reflexivity.
Qed.
