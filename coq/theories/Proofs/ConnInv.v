(* Proofs/ConnInv.v - a scheme for invariants of the connection machine that hold for every event list.
   A per-frame invariant over a projection of the state is lifted through [throw] (exceptions),
   [exec_op] (one micro-operation) and [end_plan] to [run] by induction on fuel; instances then prove
   [step] by case analysis and conclude by induction over the event list. *)
From Coq Require Import List NArith Lia Bool.
From MM Require Import Lib.Bytes Model.Conn.
Import ListNotations.
Open Scope N_scope.

Section Scheme.
Variable B BATCH : N.
Notation run := (run B BATCH).
Notation go := (go B BATCH).
Notation raise_at := (raise_at B BATCH).

Variable P : frame -> st -> Prop.     (* holds whenever the task is inside frame f *)
Variable Pdone : st -> Prop.          (* holds once the connection has finished *)
Variable Pweak : st -> Prop.          (* implied by every P f; all that is known if the fuel ran out *)

Definition good (s : st) : Prop :=
  match ctl_ s with
  | Susp _ _ f _ => P f s
  | Done => Pdone s
  | Stuck => Pweak s
  end.

Hypothesis P_ctl : forall f s c, P f s -> P f (upd_ctl s c).
Hypothesis Pdone_ctl : forall s c, Pdone s -> Pdone (upd_ctl s c).
Hypothesis Pweak_ctl : forall s c, Pweak s -> Pweak (upd_ctl s c).
Hypothesis P_weak : forall f s, P f s -> Pweak s.
Hypothesis op_ok : forall s m f, P f s ->
  match exec_op B s m with
  | ActNext s' _ | ActSuspend s' _ _ _ => P f s'
  | ActRaise s' x ic _ => P f (kill_cursor s' ic)
  | ActQuit s' => P f s' /\ (f = FHandler -> P (FClose false) (inc_closes (set_seq (set_exec s' false) 0)))
  | ActEnter s' f' => P f s' /\ (is_handler f = true -> is_handler f' = true -> P f' s')
  end.
Hypothesis throw_ok : forall s x f, P f s ->
  match throw s x f with
  | Continue s' _ f' => P f' s'
  | ToClose s' re => P (FClose re) (inc_closes s')
  | Finished s' _ => Pdone s'
  end.
Hypothesis end_ok : forall s f, P f s ->
  match end_plan BATCH s f with
  | EFinish s' _ => Pdone s'
  | EGo s' _ f' => P f' s'
  | ESuspRead s' => P f s'
  | ERaise s' _ => P f s'
  end.
Hypothesis kc_none : forall f s, P f s -> P f (kill_cursor s None).

Lemma finish_good s exc : Pdone s -> good (fst (finish s exc)).
Proof. intros H. unfold finish, good. cbn. now apply Pdone_ctl. Qed.

Lemma susp_good s w k f ic : P f s -> good (upd_ctl s (Susp w k f ic)).
Proof. intros H. unfold good. cbn. now apply P_ctl. Qed.

Lemma raise_good n s x ic f
  (IH : forall s k f, P f s -> good (fst (run n s k f))) :
  P f (kill_cursor s ic) ->
  good (fst (match throw (kill_cursor s ic) x f with
             | Continue s' k' f' => run n s' k' f'
             | ToClose s' re => run n (inc_closes s') [MApp SClose] (FClose re)
             | Finished s' exc => finish s' exc
             end)).
Proof.
  intros H. pose proof (throw_ok _ x f H) as T.
  destruct (throw (kill_cursor s ic) x f) as [s' k' f'|s' re|s' exc].
  - now apply IH.
  - now apply IH.
  - now apply finish_good.
Qed.

Theorem run_good : forall fuel s k f, P f s -> good (fst (run fuel s k f)).
Proof.
  induction fuel as [|n IH]; intros s k f H; [cbn; unfold good; cbn; apply Pweak_ctl; eapply P_weak; exact H|].
  destruct k as [|m k'].
  - cbn [Conn.run]. pose proof (end_ok s f H) as E.
    destruct (end_plan BATCH s f) as [s' exc|s' k2 f2|s'|s' x].
    + now apply finish_good.
    + now apply IH.
    + now apply susp_good.
    + apply (raise_good n s' x None f IH). now apply kc_none.
  - cbn [Conn.run]. pose proof (op_ok s m f H) as O.
    destruct (exec_op B s m) as [s' o|s' w ic o|s' x ic o|s'|s' f'].
    + unfold prepend. cbn [fst]. now apply IH.
    + now apply susp_good.
    + unfold prepend. cbn [fst]. now apply (raise_good n s' x ic f IH).
    + destruct O as [O1 O2]. destruct f; try (unfold good; cbn; apply Pweak_ctl; eapply P_weak; exact O1). apply IH. now apply O2.
    + destruct O as [O1 O2]. destruct (is_handler f) eqn:Hf; cbn [andb].
      * destruct (is_handler f') eqn:Hf'; [apply IH; now apply O2|unfold good; cbn; apply Pweak_ctl; eapply P_weak; exact O1].
      * unfold good; cbn; apply Pweak_ctl; eapply P_weak; exact O1.
Qed.

Corollary go_good s k f : P f s -> good (fst (go s k f)).
Proof. apply run_good. Qed.

Corollary raise_at_good s x f ic : P f (kill_cursor s ic) -> good (fst (raise_at s x f ic)).
Proof.
  intros H. unfold Conn.raise_at. pose proof (throw_ok _ x f H) as T.
  destruct (throw (kill_cursor s ic) x f) as [s' k' f'|s' re|s' exc].
  - now apply go_good.
  - now apply go_good.
  - now apply finish_good.
Qed.

(* lifting a one-step result to every event list *)
Hypothesis step_good : forall s e, good s -> good (fst (step B BATCH s e)).

Theorem runs_good : forall evs s, good s -> good (fold_left (fun s e => fst (step B BATCH s e)) evs s).
Proof.
  induction evs as [|e evs IH]; intros s G; [exact G|]. cbn [fold_left]. apply IH. now apply step_good.
Qed.
End Scheme.
