From Coq Require Import List Arith NArith ZArith Lia Bool.
From MM Require Import Lib.Bytes Lib.Bitmap Lib.Decimal Model.Values.
Import ListNotations.
Open Scope N_scope.

(* ---- durations: the field decomposition is lossless for every timedelta (negative, >= 24 h, fractional) ----- *)
Theorem dur_roundtrip us : let '(neg, h, mi, s, f) := dur_parts us in dur_of_parts neg h mi s f = us.
Proof.
  unfold dur_parts, dur_of_parts.
  set (a := Z.to_N (Z.abs us)). set (t := a / 1000000).
  assert (Ea : Z.of_N a = Z.abs us) by (unfold a; rewrite Z2N.id; lia).
  pose proof (N.div_mod a 1000000 ltac:(lia)) as D1. fold t in D1.
  pose proof (N.div_mod t 3600 ltac:(lia)) as D2.
  pose proof (N.div_mod t 60 ltac:(lia)) as D3.
  pose proof (N.div_mod (t / 60) 60 ltac:(lia)) as D4.
  assert (E60 : t / 60 / 60 = t / 3600) by (rewrite N.div_div by lia; reflexivity).
  rewrite E60 in D4.
  set (q1 := a mod 1000000) in *. set (h := t / 3600) in *. set (m := (t / 60) mod 60) in *. set (s := t mod 60) in *.
  set (tm := t / 60) in *.
  assert (Tot : ((h * 60 + m) * 60 + s) * 1000000 + q1 = a) by lia.
  rewrite Tot. destruct (Z.ltb_spec us 0); lia.
Qed.

Lemma dur_parts_bounds us : let '(neg, h, mi, s, f) := dur_parts us in mi < 60 /\ s < 60 /\ f < 1000000.
Proof.
  unfold dur_parts. repeat split; apply N.mod_lt; lia.
Qed.

Lemma take_le_bytes k n X : take (N.of_nat k) (le_bytes k n ++ X) = le_bytes k n.
Proof. rewrite <- (len_le_bytes k n). apply take_app_exact. Qed.
Lemma drop_le_bytes k n X : drop (N.of_nat k) (le_bytes k n ++ X) = X.
Proof. rewrite <- (len_le_bytes k n). apply drop_app_exact. Qed.

(* ---- dates: binary and text, every field ------------------------------------------------------------------------ *)
Lemma le_bytes_2 y : le_bytes 2 y = [y mod 256; y / 256 mod 256].
Proof. reflexivity. Qed.

Theorem bin_datetime_roundtrip y m d h mi s us rest : y < 65536 -> us < 2 ^ 32 ->
  dec_bin_datetime (bin_datetime y m d h mi s us ++ rest) = Some ((y, m, d, h, mi, s, us), rest).
Proof.
  intros Hy Hus. unfold bin_datetime.
  assert (Y : le_val [y mod 256; y / 256 mod 256] = y).
  { cbn [le_val]. pose proof (N.div_mod y 256 ltac:(lia)) as D. rewrite (N.mod_small (y / 256)) by (apply N.div_lt_upper_bound; lia). lia. }
  destruct (N.eqb_spec us 0) as [->|Hu].
  - destruct (N.eqb_spec h 0) as [->|Hh]; [destruct (N.eqb_spec mi 0) as [->|Hm]; [destruct (N.eqb_spec s 0) as [->|Hs]|]|]; cbn [andb].
    + destruct (N.eqb_spec y 0) as [->|Hy0]; [destruct (N.eqb_spec m 0) as [->|Hm0]; [destruct (N.eqb_spec d 0) as [->|Hd0]|]|]; cbn [andb];
        try reflexivity; rewrite le_bytes_2; cbn [app dec_bin_datetime]; rewrite Y; reflexivity.
    + rewrite le_bytes_2. cbn [app dec_bin_datetime]. rewrite Y. reflexivity.
    + rewrite le_bytes_2. cbn [app dec_bin_datetime]. rewrite Y. reflexivity.
    + rewrite le_bytes_2. cbn [app dec_bin_datetime]. rewrite Y. reflexivity.
  - rewrite le_bytes_2. cbn [app dec_bin_datetime].
    change 4 with (N.of_nat 4). rewrite take_le_bytes, drop_le_bytes.
    rewrite len_app, len_le_bytes. destruct (N.ltb_spec (N.of_nat 4 + len rest) (N.of_nat 4)) as [L|L]; [lia|].
    rewrite Y, le_roundtrip by (change (256 ^ N.of_nat 4) with (2 ^ 32); lia). reflexivity.
Qed.

Lemma digit_val n : is_digit (digit n) = true /\ digit n - 48 = n mod 10.
Proof. unfold digit. split; [apply digit_ok|]. set (x := n mod 10). lia. Qed.

Lemma undec_pad2 n : n < 100 -> undec_N (pad2 n) = Some n.
Proof.
  intros H. unfold pad2, undec_N. cbn [undec_go].
  destruct (digit_val (n / 10)) as [A1 A2], (digit_val n) as [B1 B2]. rewrite A1, B1, A2, B2. f_equal.
  pose proof (N.div_mod n 10 ltac:(lia)) as D. rewrite (N.mod_small (n / 10)) by (apply N.div_lt_upper_bound; lia). lia.
Qed.

Lemma undec_pad4 n : n < 10000 -> undec_N (pad4 n) = Some n.
Proof.
  intros H. unfold pad4, undec_N. cbn [undec_go].
  destruct (digit_val (n / 1000)) as [A1 A2], (digit_val (n / 100)) as [B1 B2], (digit_val (n / 10)) as [C1 C2], (digit_val n) as [D1 D2].
  rewrite A1, B1, C1, D1, A2, B2, C2, D2. f_equal.
  pose proof (N.div_mod n 10 ltac:(lia)). pose proof (N.div_mod (n / 10) 10 ltac:(lia)). pose proof (N.div_mod (n / 100) 10 ltac:(lia)).
  assert (n / 10 / 10 = n / 100) by (rewrite N.div_div by lia; reflexivity).
  assert (n / 100 / 10 = n / 1000) by (rewrite N.div_div by lia; reflexivity).
  rewrite (N.mod_small (n / 1000)) by (apply N.div_lt_upper_bound; lia).
  set (a := n / 1000) in *. set (b := n / 100) in *. set (c := n / 10) in *.
  set (b' := b mod 10) in *. set (c' := c mod 10) in *. set (d' := n mod 10) in *. lia.
Qed.

Lemma undec_pad6 n : n < 1000000 -> undec_N (pad6 n) = Some n.
Proof.
  intros H. unfold pad6, undec_N. cbn [undec_go].
  destruct (digit_val (n / 100000)) as [A1 A2], (digit_val (n / 10000)) as [B1 B2], (digit_val (n / 1000)) as [C1 C2],
           (digit_val (n / 100)) as [D1 D2], (digit_val (n / 10)) as [E1 E2], (digit_val n) as [F1 F2].
  rewrite A1, B1, C1, D1, E1, F1, A2, B2, C2, D2, E2, F2. f_equal.
  pose proof (N.div_mod n 10 ltac:(lia)). pose proof (N.div_mod (n / 10) 10 ltac:(lia)). pose proof (N.div_mod (n / 100) 10 ltac:(lia)).
  pose proof (N.div_mod (n / 1000) 10 ltac:(lia)). pose proof (N.div_mod (n / 10000) 10 ltac:(lia)).
  assert (n / 10 / 10 = n / 100) by (rewrite N.div_div by lia; reflexivity).
  assert (n / 100 / 10 = n / 1000) by (rewrite N.div_div by lia; reflexivity).
  assert (n / 1000 / 10 = n / 10000) by (rewrite N.div_div by lia; reflexivity).
  assert (n / 10000 / 10 = n / 100000) by (rewrite N.div_div by lia; reflexivity).
  rewrite (N.mod_small (n / 100000)) by (apply N.div_lt_upper_bound; lia).
  set (a := n / 100000) in *. set (b := n / 10000) in *. set (c := n / 1000) in *. set (d := n / 100) in *. set (e := n / 10) in *.
  set (b' := b mod 10) in *. set (c' := c mod 10) in *. set (d' := d mod 10) in *. set (e' := e mod 10) in *. set (f' := n mod 10) in *. lia.
Qed.

Theorem text_date_roundtrip y m d : y < 10000 -> m < 100 -> d < 100 -> dec_text_date (text_date y m d) = Some (y, m, d).
Proof.
  intros Hy Hm Hd. pose proof (undec_pad4 y Hy) as Y. pose proof (undec_pad2 m Hm) as M. pose proof (undec_pad2 d Hd) as D.
  unfold text_date, pad4, pad2 in *. cbn [app dec_text_date]. rewrite Y, M, D. reflexivity.
Qed.

Theorem text_datetime_roundtrip y m d h mi s us : y < 10000 -> m < 100 -> d < 100 -> h < 100 -> mi < 100 -> s < 100 -> us < 1000000 ->
  dec_text_datetime (text_datetime y m d h mi s us) = Some (y, m, d, h, mi, s, us).
Proof.
  intros Hy Hm Hd Hh Hmi Hs Hus. pose proof (text_date_roundtrip y m d Hy Hm Hd) as TD.
  pose proof (undec_pad2 h Hh) as H1. pose proof (undec_pad2 mi Hmi) as H2. pose proof (undec_pad2 s Hs) as H3. pose proof (undec_pad6 us Hus) as H6.
  unfold dec_text_datetime, text_datetime.
  assert (L : len (text_date y m d) = 10) by reflexivity.
  rewrite <- L at 1. rewrite take_app_exact. rewrite <- L. rewrite drop_app_exact. rewrite TD.
  unfold pad2 in *. cbn [app]. rewrite H1, H2, H3.
  destruct (N.eqb_spec us 0) as [->|Hu]; [reflexivity|].
  unfold pad6 in *. cbn [length Nat.eqb]. rewrite H6. reflexivity.
Qed.

(* ---- binary TIME: what a client decodes is the application's duration, sign and days included --------------- *)
Theorem bin_time_roundtrip us r : (Z.abs us < 2 ^ 32 * 86400000000)%Z ->
  dec_bin_time (bin_time us ++ r) = Some (us, r).
Proof.
  intros Hb. pose proof (dur_roundtrip us) as R. pose proof (dur_parts_bounds us) as Bd.
  unfold bin_time. destruct (dur_parts us) as [[[[neg h] mi] s] f] eqn:E. destruct Bd as [Bm [Bs Bf]].
  assert (Hh : h / 24 < 2 ^ 32).
  { unfold dur_parts in E. inversion E as [[E1 E2 E3 E4 E5]]. clear E.
    set (a := Z.to_N (Z.abs us)) in *.
    assert (a < 2 ^ 32 * 86400000000) by (unfold a; lia).
    apply N.div_lt_upper_bound; [lia|]. apply N.div_lt_upper_bound; [lia|]. apply N.div_lt_upper_bound; lia. }
  destruct ((h =? 0) && (mi =? 0) && (s =? 0) && (f =? 0)) eqn:Z0.
  - apply andb_prop in Z0. destruct Z0 as [Z0 Zf]. apply andb_prop in Z0. destruct Z0 as [Z0 Zs]. apply andb_prop in Z0. destruct Z0 as [Zh Zm].
    apply N.eqb_eq in Zh, Zm, Zs, Zf. rewrite Zh, Zm, Zs, Zf in R. cbn [app dec_bin_time]. f_equal. f_equal.
    unfold dur_of_parts in R. cbn in R. destruct neg; lia.
  - pose proof (N.div_mod h 24 ltac:(lia)) as Dh. pose proof (N.mod_lt h 24 ltac:(lia)) as Lh.
    remember (h / 24) as hq eqn:Ehq. remember (h mod 24) as hr eqn:Ehr.
    destruct (N.eqb_spec f 0) as [->|Hf].
    + cbn [app dec_bin_time]. rewrite <- app_assoc. cbn [app].
      assert (L : (len (le_bytes 4 hq ++ hr :: mi :: s :: r) <? 7) = false).
      { apply N.ltb_ge. rewrite len_app, len_le_bytes, !len_cons. lia. }
      rewrite L. rewrite (take_le_bytes 4 hq), (drop_le_bytes 4 hq).
      rewrite le_roundtrip by exact Hh. f_equal. f_equal.
      replace (hq * 24 + hr) with h by lia.
      destruct neg; cbn [N.eqb negb]; exact R.
    + cbn [app dec_bin_time]. rewrite <- !app_assoc. cbn [app].
      assert (L : (len (le_bytes 4 hq ++ hr :: mi :: s :: le_bytes 4 f ++ r) <? 11) = false).
      { apply N.ltb_ge. rewrite len_app, len_le_bytes, !len_cons, len_app, len_le_bytes. lia. }
      rewrite L. rewrite (take_le_bytes 4 hq), (drop_le_bytes 4 hq).
      rewrite le_roundtrip by exact Hh.
      rewrite (take_le_bytes 4 f), (drop_le_bytes 4 f).
      rewrite le_roundtrip by (cbn; lia). f_equal. f_equal.
      replace (hq * 24 + hr) with h by lia.
      destruct neg; cbn [N.eqb negb]; exact R.
Qed.

(* ---- integers: binary (two's complement, every width) and text (decimal) --------------------------------------- *)
Theorem bin_int_roundtrip k z : (0 < k)%nat ->
  (- (256 ^ Z.of_nat k) / 2 <= z < 256 ^ Z.of_nat k / 2)%Z ->
  to_signed k (le_val (le_bytes k (of_signed k z))) = z.
Proof.
  intros Hk Hz. rewrite le_roundtrip.
  - now apply signed_roundtrip.
  - unfold of_signed. assert (P : (0 < 256 ^ Z.of_nat k)%Z) by (apply Z.pow_pos_nonneg; lia).
    pose proof (Z.mod_pos_bound z _ P). apply N2Z.inj_lt. rewrite Z2N.id by lia. rewrite N2Z.inj_pow, nat_N_Z. cbn. lia.
Qed.

Theorem text_int_roundtrip z : undec_Z (dec_Z z) = Some z.
Proof. apply undec_dec_Z. Qed.

(* ---- text rows: for every pattern of NULLs and every cell contents ------------------------------------------------ *)
Definition enc_cells (cells : list (option bytes)) : bytes :=
  flat_map (fun c => match c with None => [251] | Some b => str_len b end) cells.

Lemma str_len_head b rest : exists x t, str_len b ++ rest = x :: t /\ x <> 251.
Proof.
  unfold str_len, uint_len.
  destruct (N.ltb_spec (len b) 251).
  - exists (len b), (b ++ rest). split; [reflexivity|lia].
  - destruct (len b <? 65536); [eexists; eexists; split; [reflexivity|discriminate]|].
    destruct (len b <? 16777216); eexists; eexists; split; try reflexivity; discriminate.
Qed.

Theorem text_row_roundtrip : forall cells rest, Forall (fun c => match c with Some b => len b < 2 ^ 64 | None => True end) cells ->
  dec_text_row (length cells) (enc_cells cells ++ rest) = Some (cells, rest).
Proof.
  induction cells as [|c cells IH]; intros rest H; [reflexivity|].
  inversion H as [|? ? Hc Hr]; subst. cbn [length dec_text_row enc_cells flat_map]. fold (enc_cells cells).
  destruct c as [b|].
  - rewrite <- app_assoc. destruct (str_len_head b (enc_cells cells ++ rest)) as [x [t [E Hx]]].
    rewrite E. destruct (N.eqb_spec x 251); [contradiction|]. rewrite <- E.
    rewrite str_len_roundtrip by exact Hc. rewrite IH by assumption. reflexivity.
  - cbn [app]. rewrite N.eqb_refl. rewrite IH by assumption. reflexivity.
Qed.

(* ---- binary rows: the NULL bitmap (offset 2) for every column count ------------------------------------------------- *)
Theorem bin_row_null_bitmap nulls : read_bitmap 2 (length nulls) (bitmap 2 nulls) = nulls.
Proof. apply bitmap_roundtrip. Qed.

Theorem bin_row_bitmap_size (n : nat) : length (bitmap 2 (repeat false n)) = ((n + 9) / 8)%nat.
Proof. rewrite bitmap_length, repeat_length. unfold nbytes. f_equal. lia. Qed.

(* ---- type inference by peeking never drops, duplicates or reorders a row --------------------------------------------- *)
Theorem ensure_preserves_rows cols rows : snd (ensure_cols cols rows) = rows.
Proof. unfold ensure_cols. cbn [snd]. apply firstn_skipn. Qed.

Theorem ensure_column_count cols rows : length (fst (ensure_cols cols rows)) = length cols.
Proof. unfold ensure_cols. cbn [fst]. now rewrite map_length, seq_length. Qed.

Theorem explicit_columns_peek_nothing rows : peek [] rows = O.
Proof. destruct rows; reflexivity. Qed.

Lemma peek_le_rows : forall rows remaining, (peek remaining rows <= length rows)%nat.
Proof.
  induction rows as [|r rows IH]; intros remaining; destruct remaining; cbn; try lia.
  specialize (IH (filter (fun i => negb (seen r i)) (n :: remaining))). cbn in IH. lia.
Qed.

(* the peek stops as soon as every bare column has shown a value: if that happens within the first p rows,
   at most p rows are taken before anything is sent *)
Theorem peek_bounded_by_first_values : forall rows p remaining,
  (forall i, In i remaining -> exists r, In r (firstn p rows) /\ seen r i = true) ->
  (peek remaining rows <= p)%nat.
Proof.
  induction rows as [|r rows IH]; intros p remaining H.
  - destruct remaining; cbn; lia.
  - destruct remaining as [|i0 rem]; [cbn; lia|].
    destruct p as [|p].
    + exfalso. destruct (H i0 (or_introl eq_refl)) as [x [Hin _]]. cbn in Hin. exact Hin.
    + cbn [peek]. apply le_n_S. apply IH. intros i Hi. apply filter_In in Hi. destruct Hi as [Hi Hs].
      destruct (H i Hi) as [x [Hin Hx]]. cbn [firstn] in Hin. destruct Hin as [<-|Hin].
      * rewrite Hx in Hs. discriminate.
      * exists x. auto.
Qed.

(* ... and without such a row the whole source is consumed: the recorded open finding of C12 *)
Theorem peek_unbounded : forall n, peek [1%nat] (repeat [VInt 0; VNull] n) = n.
Proof. induction n as [|n IH]; [reflexivity|]. cbn [repeat peek]. cbn [filter seen nth is_null negb]. now rewrite IH. Qed.
