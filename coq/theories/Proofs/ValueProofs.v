From Coq Require Import List Arith NArith ZArith Lia Bool.
From MM Require Import Lib.Bytes Lib.Bitmap Lib.Decimal Model.Values.
Import ListNotations.
Open Scope N_scope.

(* ---- durations: the field decomposition is lossless for every timedelta (negative, >= 24 h, fractional) ----- *)
Theorem dur_roundtrip us : let '(neg, h, mi, s, f) := dur_parts us in dur_of_parts neg h mi s f = us.
Proof.
  unfold dur_parts, dur_of_parts.
  set (a := Z.to_N (Z.abs us)). set (t := a / 1000000).
  assert (Ea : Z.of_N a = Z.abs us) by (unfold a; rewrite Z2N.id; lia).
  pose proof (N.div_mod a 1000000 ltac:(lia)) as D1. fold t in D1.
  pose proof (N.div_mod t 3600 ltac:(lia)) as D2.
  pose proof (N.div_mod t 60 ltac:(lia)) as D3.
  pose proof (N.div_mod (t / 60) 60 ltac:(lia)) as D4.
  assert (E60 : t / 60 / 60 = t / 3600) by (rewrite N.div_div by lia; reflexivity).
  rewrite E60 in D4.
  set (q1 := a mod 1000000) in *. set (h := t / 3600) in *. set (m := (t / 60) mod 60) in *. set (s := t mod 60) in *.
  set (tm := t / 60) in *.
  assert (Tot : ((h * 60 + m) * 60 + s) * 1000000 + q1 = a) by lia.
  rewrite Tot. destruct (Z.ltb_spec us 0); lia.
Qed.

Lemma dur_parts_bounds us : let '(neg, h, mi, s, f) := dur_parts us in mi < 60 /\ s < 60 /\ f < 1000000.
Proof.
  unfold dur_parts. repeat split; apply N.mod_lt; lia.
Qed.

Lemma take_le_bytes k n X : take (N.of_nat k) (le_bytes k n ++ X) = le_bytes k n.
Proof. rewrite <- (len_le_bytes k n). apply take_app_exact. Qed.
Lemma drop_le_bytes k n X : drop (N.of_nat k) (le_bytes k n ++ X) = X.
Proof. rewrite <- (len_le_bytes k n). apply drop_app_exact. Qed.

(* ---- binary TIME: what a client decodes is the application's duration, sign and days included --------------- *)
Theorem bin_time_roundtrip us r : (Z.abs us < 2 ^ 32 * 86400000000)%Z ->
  dec_bin_time (bin_time us ++ r) = Some (us, r).
Proof.
  intros Hb. pose proof (dur_roundtrip us) as R. pose proof (dur_parts_bounds us) as Bd.
  unfold bin_time. destruct (dur_parts us) as [[[[neg h] mi] s] f] eqn:E. destruct Bd as [Bm [Bs Bf]].
  assert (Hh : h / 24 < 2 ^ 32).
  { unfold dur_parts in E. inversion E as [[E1 E2 E3 E4 E5]]. clear E.
    set (a := Z.to_N (Z.abs us)) in *.
    assert (a < 2 ^ 32 * 86400000000) by (unfold a; lia).
    apply N.div_lt_upper_bound; [lia|]. apply N.div_lt_upper_bound; [lia|]. apply N.div_lt_upper_bound; lia. }
  destruct ((h =? 0) && (mi =? 0) && (s =? 0) && (f =? 0)) eqn:Z0.
  - apply andb_prop in Z0. destruct Z0 as [Z0 Zf]. apply andb_prop in Z0. destruct Z0 as [Z0 Zs]. apply andb_prop in Z0. destruct Z0 as [Zh Zm].
    apply N.eqb_eq in Zh, Zm, Zs, Zf. rewrite Zh, Zm, Zs, Zf in R. cbn [app dec_bin_time]. f_equal. f_equal.
    unfold dur_of_parts in R. cbn in R. destruct neg; lia.
  - pose proof (N.div_mod h 24 ltac:(lia)) as Dh. pose proof (N.mod_lt h 24 ltac:(lia)) as Lh.
    remember (h / 24) as hq eqn:Ehq. remember (h mod 24) as hr eqn:Ehr.
    destruct (N.eqb_spec f 0) as [->|Hf].
    + cbn [app dec_bin_time]. rewrite <- app_assoc. cbn [app].
      assert (L : (len (le_bytes 4 hq ++ hr :: mi :: s :: r) <? 7) = false).
      { apply N.ltb_ge. rewrite len_app, len_le_bytes, !len_cons. lia. }
      rewrite L. rewrite (take_le_bytes 4 hq), (drop_le_bytes 4 hq).
      rewrite le_roundtrip by exact Hh. f_equal. f_equal.
      replace (hq * 24 + hr) with h by lia.
      destruct neg; cbn [N.eqb negb]; exact R.
    + cbn [app dec_bin_time]. rewrite <- !app_assoc. cbn [app].
      assert (L : (len (le_bytes 4 hq ++ hr :: mi :: s :: le_bytes 4 f ++ r) <? 11) = false).
      { apply N.ltb_ge. rewrite len_app, len_le_bytes, !len_cons, len_app, len_le_bytes. lia. }
      rewrite L. rewrite (take_le_bytes 4 hq), (drop_le_bytes 4 hq).
      rewrite le_roundtrip by exact Hh.
      rewrite (take_le_bytes 4 f), (drop_le_bytes 4 f).
      rewrite le_roundtrip by (cbn; lia). f_equal. f_equal.
      replace (hq * 24 + hr) with h by lia.
      destruct neg; cbn [N.eqb negb]; exact R.
Qed.

(* ---- integers: binary (two's complement, every width) and text (decimal) --------------------------------------- *)
Theorem bin_int_roundtrip k z : (0 < k)%nat ->
  (- (256 ^ Z.of_nat k) / 2 <= z < 256 ^ Z.of_nat k / 2)%Z ->
  to_signed k (le_val (le_bytes k (of_signed k z))) = z.
Proof.
  intros Hk Hz. rewrite le_roundtrip.
  - now apply signed_roundtrip.
  - unfold of_signed. assert (P : (0 < 256 ^ Z.of_nat k)%Z) by (apply Z.pow_pos_nonneg; lia).
    pose proof (Z.mod_pos_bound z _ P). apply N2Z.inj_lt. rewrite Z2N.id by lia. rewrite N2Z.inj_pow, nat_N_Z. cbn. lia.
Qed.

Theorem text_int_roundtrip z : undec_Z (dec_Z z) = Some z.
Proof. apply undec_dec_Z. Qed.

(* ---- text rows: for every pattern of NULLs and every cell contents ------------------------------------------------ *)
Definition enc_cells (cells : list (option bytes)) : bytes :=
  flat_map (fun c => match c with None => [251] | Some b => str_len b end) cells.

Lemma str_len_head b rest : exists x t, str_len b ++ rest = x :: t /\ x <> 251.
Proof.
  unfold str_len, uint_len.
  destruct (N.ltb_spec (len b) 251).
  - exists (len b), (b ++ rest). split; [reflexivity|lia].
  - destruct (len b <? 65536); [eexists; eexists; split; [reflexivity|discriminate]|].
    destruct (len b <? 16777216); eexists; eexists; split; try reflexivity; discriminate.
Qed.

Theorem text_row_roundtrip : forall cells rest, Forall (fun c => match c with Some b => len b < 2 ^ 64 | None => True end) cells ->
  dec_text_row (length cells) (enc_cells cells ++ rest) = Some (cells, rest).
Proof.
  induction cells as [|c cells IH]; intros rest H; [reflexivity|].
  inversion H as [|? ? Hc Hr]; subst. cbn [length dec_text_row enc_cells flat_map]. fold (enc_cells cells).
  destruct c as [b|].
  - rewrite <- app_assoc. destruct (str_len_head b (enc_cells cells ++ rest)) as [x [t [E Hx]]].
    rewrite E. destruct (N.eqb_spec x 251); [contradiction|]. rewrite <- E.
    rewrite str_len_roundtrip by exact Hc. rewrite IH by assumption. reflexivity.
  - cbn [app]. rewrite N.eqb_refl. rewrite IH by assumption. reflexivity.
Qed.

(* ---- binary rows: the NULL bitmap (offset 2) for every column count ------------------------------------------------- *)
Theorem bin_row_null_bitmap nulls : read_bitmap 2 (length nulls) (bitmap 2 nulls) = nulls.
Proof. apply bitmap_roundtrip. Qed.

Theorem bin_row_bitmap_size (n : nat) : length (bitmap 2 (repeat false n)) = ((n + 9) / 8)%nat.
Proof. rewrite bitmap_length, repeat_length. unfold nbytes. f_equal. lia. Qed.

(* ---- type inference by peeking never drops, duplicates or reorders a row --------------------------------------------- *)
Theorem ensure_preserves_rows cols rows : snd (ensure_cols cols rows) = rows.
Proof. unfold ensure_cols. cbn [snd]. apply firstn_skipn. Qed.

Theorem ensure_column_count cols rows : length (fst (ensure_cols cols rows)) = length cols.
Proof. unfold ensure_cols. cbn [fst]. now rewrite map_length, seq_length. Qed.

Theorem explicit_columns_peek_nothing rows : peek [] rows = O.
Proof. destruct rows; reflexivity. Qed.

Lemma peek_le_rows : forall rows remaining, (peek remaining rows <= length rows)%nat.
Proof.
  induction rows as [|r rows IH]; intros remaining; destruct remaining; cbn; try lia.
  specialize (IH (filter (fun i => negb (seen r i)) (n :: remaining))). cbn in IH. lia.
Qed.

(* the peek stops as soon as every bare column has shown a value: if that happens within the first p rows,
   at most p rows are taken before anything is sent *)
Theorem peek_bounded_by_first_values : forall rows p remaining,
  (forall i, In i remaining -> exists r, In r (firstn p rows) /\ seen r i = true) ->
  (peek remaining rows <= p)%nat.
Proof.
  induction rows as [|r rows IH]; intros p remaining H.
  - destruct remaining; cbn; lia.
  - destruct remaining as [|i0 rem]; [cbn; lia|].
    destruct p as [|p].
    + exfalso. destruct (H i0 (or_introl eq_refl)) as [x [Hin _]]. cbn in Hin. exact Hin.
    + cbn [peek]. apply le_n_S. apply IH. intros i Hi. apply filter_In in Hi. destruct Hi as [Hi Hs].
      destruct (H i Hi) as [x [Hin Hx]]. cbn [firstn] in Hin. destruct Hin as [<-|Hin].
      * rewrite Hx in Hs. discriminate.
      * exists x. auto.
Qed.

(* ... and without such a row the whole source is consumed: the recorded open finding of C12 *)
Theorem peek_unbounded : forall n, peek [1%nat] (repeat [VInt 0; VNull] n) = n.
Proof. induction n as [|n IH]; [reflexivity|]. cbn [repeat peek]. cbn [filter seen nth is_null negb]. now rewrite IH. Qed.
