(* Proofs/StmtProofs.v - the prepared-statement table over whole histories (Model/Stmts.v): the long data an execution
   binds is exactly what was sent for that statement since it was last prepared, executed or reset - whatever else
   happened on the connection in between. *)
From Coq Require Import List NArith ZArith Lia Bool.
From MM Require Import Lib.Bytes Model.Parse Model.Placeholders Model.Exec Model.Stmts.
Import ListNotations.
Open Scope N_scope.

(* ---- the association list ------------------------------------------------------------------------------------ *)
Lemma assoc_del_same id : forall l, assoc_N id (del id l) = None.
Proof.
  induction l as [|[k v] r IH]; cbn; [reflexivity|].
  destruct (k =? id) eqn:E; [exact IH|]. cbn. rewrite N.eqb_sym, E. exact IH.
Qed.

Lemma assoc_del_other id j : j <> id -> forall l, assoc_N j (del id l) = assoc_N j l.
Proof.
  intros Hne. induction l as [|[k v] r IH]; cbn; [reflexivity|].
  destruct (k =? id) eqn:E.
  - apply N.eqb_eq in E. subst k. destruct (j =? id) eqn:E2; [apply N.eqb_eq in E2; contradiction|exact IH].
  - cbn. destruct (j =? k); [reflexivity|exact IH].
Qed.

Lemma assoc_put_same id v l : assoc_N id (put id v l) = Some v.
Proof. unfold put. cbn. now rewrite N.eqb_refl. Qed.

Lemma assoc_put_other id j v l : j <> id -> assoc_N j (put id v l) = assoc_N j l.
Proof.
  intros Hne. unfold put. cbn. destruct (j =? id) eqn:E; [apply N.eqb_eq in E; contradiction|].
  now apply assoc_del_other.
Qed.

Lemma assoc_In {A} id : forall (l : list (N * A)) v, assoc_N id l = Some v -> In (id, v) l.
Proof.
  induction l as [|[k w] r IH]; cbn; intros v H; [discriminate|].
  destruct (id =? k) eqn:E.
  - apply N.eqb_eq in E. subst k. inversion H. now left.
  - right. now apply IH.
Qed.

Lemma Forall_del (P : N * stmt -> Prop) id : forall l, Forall P l -> Forall P (del id l).
Proof.
  induction l as [|[k v] r IH]; cbn; intros H; [constructor|].
  inversion H as [|? ? H1 H2]; subst. destruct (k =? id); [now apply IH|constructor; [exact H1|now apply IH]].
Qed.

(* ---- ids are not reused while the counter has not wrapped ------------------------------------------------------- *)
Definition inv (s : store) : Prop := Forall (fun kv => fst kv < next_id s) (tbl s).

Lemma inv_lookup s id st : inv s -> lookup s id = Some st -> id < next_id s.
Proof.
  intros I L. unfold lookup in L. apply assoc_In in L. unfold inv in I. rewrite Forall_forall in I.
  exact (I _ L).
Qed.

Lemma inv_put s id v : inv s -> id < next_id s -> inv (mk_store (next_id s) (put id v (tbl s))).
Proof.
  intros I H. unfold inv, put. cbn. constructor; [exact H|]. now apply Forall_del.
Qed.

Lemma target_stmt_id d i : parse_stmt_id d = Ok i -> target d = Some i.
Proof.
  unfold parse_stmt_id, target, bind. destruct (rd_uint 4 d) as [[x r]|e]; [|discriminate]. intros H. now inversion H.
Qed.

Lemma execute_ok_target qa lk tb d sql attrs cur :
  execute_sql qa lk tb d = Ok (sql, attrs, cur) ->
  exists id r st, rd_uint 4 d = Ok (id, r) /\ lk id = Some st.
Proof.
  unfold execute_sql, parse_com_stmt_execute, bind. destruct (rd_uint 4 d) as [[id r]|e]; [|discriminate].
  destruct (lk id) as [st|] eqn:L; [|discriminate]. intros _. now exists id, r, st.
Qed.

Section Hist.
Variable qa : bool.
Variable ftab : list (bytes * text).
Notation sstep := (sstep qa ftab).
Notation srun := (srun qa ftab).

Lemma srun_cons s o r : srun s (o :: r) = let '(s1, x) := sstep s o in let '(s2, xs) := srun s1 r in (s2, x :: xs).
Proof. reflexivity. Qed.

Lemma srun_app : forall a s b, fst (srun s (a ++ b)) = fst (srun (fst (srun s a)) b).
Proof.
  induction a as [|o a IH]; intros s b; [reflexivity|].
  cbn [app]. rewrite !srun_cons. destruct (sstep s o) as [s1 x] eqn:E. specialize (IH s1 b).
  destruct (srun s1 (a ++ b)) as [s2 xs] eqn:E2. destruct (srun s1 a) as [s3 ys] eqn:E3. cbn [fst] in *. exact IH.
Qed.

(* the counter moves by one per operation at most *)
Lemma step_counter s o : next_id s + 1 < SEQ_SIZE -> inv s ->
  let s' := fst (sstep s o) in inv s' /\ next_id s <= next_id s' <= next_id s + 1.
Proof.
  intros Hb I. destruct o as [sql|d|d|d|d]; cbn [Stmts.sstep].
  - cbn [fst next_id tbl]. rewrite N.mod_small by exact Hb. split; [|lia].
    destruct (count_params sql <? 65536); cbn [fst]; unfold inv, put; cbn [next_id tbl];
      (constructor; [cbn; lia|apply Forall_del; unfold inv in I; eapply Forall_impl; [|exact I]; cbn; intros; lia]).
  - destruct (parse_send_long_data d) as [[[i pid] data]|e]; cbn [fst]; [|split; [exact I|lia]].
    destruct (lookup s i) as [st|] eqn:L; cbn [fst]; [|split; [exact I|lia]].
    split; [apply inv_put; [exact I|eapply inv_lookup; eauto]|cbn; lia].
  - destruct (execute_sql qa (lookup s) ftab d) as [[[sql attrs] cur]|e]; cbn [fst].
    + destruct (rd_uint 4 d) as [[i r]|e]; cbn [fst]; [|split; [exact I|lia]].
      destruct (lookup s i) as [st|] eqn:L; cbn [fst]; [|split; [exact I|lia]].
      split; [apply inv_put; [exact I|eapply inv_lookup; eauto]|cbn; lia].
    + destruct (target d) as [i|]; [|split; [exact I|lia]].
      destruct (lookup s i) as [st|] eqn:L; [|split; [exact I|lia]].
      split; [apply inv_put; [exact I|eapply inv_lookup; eauto]|cbn; lia].
  - destruct (parse_stmt_id d) as [i|e]; cbn [fst]; [|split; [exact I|lia]].
    destruct (lookup s i) as [st|] eqn:L; cbn [fst]; [|split; [exact I|lia]].
    split; [apply inv_put; [exact I|eapply inv_lookup; eauto]|cbn; lia].
  - destruct (parse_stmt_id d) as [i|e]; cbn [fst]; [|split; [exact I|lia]].
    split; [|cbn; lia]. unfold inv. cbn [next_id tbl]. now apply Forall_del.
Qed.

Lemma run_counter : forall ops s, next_id s + N.of_nat (length ops) < SEQ_SIZE -> inv s ->
  let s' := fst (srun s ops) in inv s' /\ next_id s <= next_id s' <= next_id s + N.of_nat (length ops).
Proof.
  induction ops as [|o r IH]; intros s Hb I; [cbn; split; [exact I|lia]|].
  rewrite srun_cons. cbn [length] in Hb. rewrite Nat2N.inj_succ in Hb.
  pose proof (step_counter s o ltac:(lia) I) as [I1 C1]. destruct (sstep s o) as [s1 x]. cbn [fst] in I1, C1.
  pose proof (IH s1 ltac:(lia) I1) as [I2 C2]. destruct (srun s1 r) as [s2 xs]. cbn [fst] in *.
  split; [exact I2|]. cbn [length]. rewrite Nat2N.inj_succ. lia.
Qed.

(* ---- one quiet operation: the statement stays, its text stays, its long data grows by what was sent for it -------- *)
Lemma quiet_step s o id st : inv s -> lookup s id = Some st -> quiet id o = true ->
  exists st', lookup (fst (sstep s o)) id = Some st' /\ st_sql st' = st_sql st /\ st_nparams st' = st_nparams st /\
              st_buffers st' = collect1 id (st_buffers st) o.
Proof.
  intros I L Q. pose proof (inv_lookup s id st I L) as Hid.
  destruct o as [sql|d|d|d|d]; cbn [Stmts.sstep collect1].
  - exists st. split; [|repeat split].
    destruct (count_params sql <? 65536); cbn [fst]; unfold lookup; cbn [tbl];
      (rewrite assoc_put_other by lia; exact L).
  - destruct (parse_send_long_data d) as [[[i pid] data]|e]; cbn [fst]; [|now exists st].
    destruct (N.eqb_spec i id) as [->|Hne].
    + rewrite L. cbn [fst]. eexists. split; [unfold lookup; cbn [tbl]; apply assoc_put_same|]. now repeat split.
    + destruct (lookup s i) as [sti|]; cbn [fst]; [|now exists st].
      exists st. split; [unfold lookup; cbn [tbl]; rewrite assoc_put_other by congruence; exact L|now repeat split].
  - cbn [quiet] in Q.
    destruct (execute_sql qa (lookup s) ftab d) as [[[sql attrs] cur]|e] eqn:E; cbn [fst].
    + unfold target in Q. destruct (rd_uint 4 d) as [[i r]|e]; cbn [fst]; [|now exists st].
      apply negb_true_iff, N.eqb_neq in Q.
      destruct (lookup s i) as [sti|]; cbn [fst]; [|now exists st].
      exists st. split; [unfold lookup; cbn [tbl]; rewrite assoc_put_other by congruence; exact L|now repeat split].
    + destruct (target d) as [i|]; [|now exists st]. apply negb_true_iff, N.eqb_neq in Q.
      destruct (lookup s i) as [sti|]; [|now exists st].
      exists st. split; [unfold lookup; cbn [tbl fst]; rewrite assoc_put_other by congruence; exact L|now repeat split].
  - cbn [quiet] in Q. destruct (parse_stmt_id d) as [i|e] eqn:P; cbn [fst]; [|now exists st].
    rewrite (target_stmt_id _ _ P) in Q. apply negb_true_iff, N.eqb_neq in Q.
    destruct (lookup s i) as [sti|]; cbn [fst]; [|now exists st].
    exists st. split; [unfold lookup; cbn [tbl]; rewrite assoc_put_other by congruence; exact L|now repeat split].
  - cbn [quiet] in Q. destruct (parse_stmt_id d) as [i|e] eqn:P; cbn [fst]; [|now exists st].
    rewrite (target_stmt_id _ _ P) in Q. apply negb_true_iff, N.eqb_neq in Q.
    exists st. split; [unfold lookup; cbn [tbl]; rewrite assoc_del_other by congruence; exact L|now repeat split].
Qed.

Lemma quiet_run : forall mid s id st, inv s -> next_id s + N.of_nat (length mid) < SEQ_SIZE ->
  lookup s id = Some st -> forallb (quiet id) mid = true ->
  exists st', lookup (fst (srun s mid)) id = Some st' /\ st_sql st' = st_sql st /\ st_nparams st' = st_nparams st /\
              st_buffers st' = fold_left (collect1 id) mid (st_buffers st).
Proof.
  induction mid as [|o r IH]; intros s id st I Hb L Q; [now exists st|].
  cbn [forallb] in Q. apply andb_true_iff in Q as [Q1 Q2]. cbn [length] in Hb. rewrite Nat2N.inj_succ in Hb.
  destruct (quiet_step s o id st I L Q1) as (st1 & L1 & S1 & N1 & B1).
  pose proof (step_counter s o ltac:(lia) I) as [I1 C1].
  rewrite srun_cons. destruct (sstep s o) as [s1 x]. cbn [fst] in *.
  destruct (IH s1 id st1 I1 ltac:(lia) L1 Q2) as (st2 & L2 & S2 & N2 & B2).
  destruct (srun s1 r) as [s2 xs]. cbn [fst] in *.
  exists st2. split; [exact L2|]. cbn [fold_left]. rewrite <- B1. repeat split; congruence.
Qed.

(* ---- the operations that use up a statement's long data -------------------------------------------------------------- *)
Definition is_unknown (e : err) : bool := match e with MysqlErr c => c =? ERR_UNKNOWN_PROCEDURE | _ => false end.

Definition consumes (id : N) (o : sop) (x : sout) : bool :=
  match o, x with
  | SPrepare _, RPrepared i _ => i =? id
  | SExecute d, RExec _ _ _ => match target d with Some i => i =? id | None => false end
  (* a refused execution of a KNOWN statement uses its long data up as well *)
  | SExecute d, RErr e => negb (is_unknown e) && match target d with Some i => i =? id | None => false end
  | SReset d, ROk => match target d with Some i => i =? id | None => false end
  | _, _ => false
  end.

Lemma consumes_empties s o id : inv s -> consumes id o (snd (sstep s o)) = true ->
  exists st, lookup (fst (sstep s o)) id = Some st /\ st_buffers st = [].
Proof.
  intros I C. destruct o as [sql|d|d|d|d]; cbn [Stmts.sstep] in *.
  - destruct (count_params sql <? 65536); cbn [snd fst consumes] in *; [|discriminate].
    apply N.eqb_eq in C. subst id. eexists. split; [unfold lookup; cbn [tbl]; apply assoc_put_same|reflexivity].
  - destruct (parse_send_long_data d) as [[[i pid] data]|e]; cbn in C; [|discriminate].
    destruct (lookup s i); cbn in C; discriminate.
  - destruct (execute_sql qa (lookup s) ftab d) as [[[sql attrs] cur]|e] eqn:E; cbn [snd fst consumes] in *.
    + destruct (execute_ok_target _ _ _ _ _ _ _ E) as (i & r & st & R & L).
      unfold target in C. rewrite R in *. rewrite L in *. cbn [snd fst consumes] in *. apply N.eqb_eq in C. subst i.
      eexists. split; [unfold lookup; cbn [tbl]; apply assoc_put_same|reflexivity].
    + destruct (target d) as [i|] eqn:T; [|rewrite andb_false_r in C; discriminate].
      apply andb_true_iff in C as [C1 C2]. apply N.eqb_eq in C2. subst i.
      destruct (lookup s id) as [st|] eqn:L.
      * eexists. split; [unfold lookup; cbn [tbl fst]; apply assoc_put_same|reflexivity].
      * exfalso. unfold execute_sql, parse_com_stmt_execute, bind, target in *.
        destruct (rd_uint 4 d) as [[i r]|e0]; [|discriminate]. inversion T; subst i. rewrite L in E. inversion E; subst e.
        cbn in C1. discriminate.
  - destruct (parse_stmt_id d) as [i|e] eqn:P; cbn [snd fst consumes] in *; [|discriminate].
    destruct (lookup s i) as [st|] eqn:L; cbn [snd fst consumes] in *; [|discriminate].
    rewrite (target_stmt_id _ _ P) in C. apply N.eqb_eq in C. subst i.
    eexists. split; [unfold lookup; cbn [tbl]; apply assoc_put_same|reflexivity].
  - destruct (parse_stmt_id d) as [i|e]; cbn in C; discriminate.
Qed.

(* THE HISTORY THEOREM.  Any history of fewer than 2^32 operations on a fresh connection; somewhere in it an operation
   that uses up the long data of statement id (its PREPARE, a successful EXECUTE - whatever the application then
   answers -, a RESET); after it any operations that do not address id except by sending long data.  Then the
   statement exists and its buffers hold exactly what those long-data commands sent for it, per parameter, in order:
   nothing from before the consuming operation, nothing sent for another statement. *)
Theorem long_data_since_last_use pre o mid id :
  N.of_nat (length (pre ++ o :: mid)) < SEQ_SIZE ->
  let s1 := fst (srun store0 pre) in
  consumes id o (snd (sstep s1 o)) = true ->
  forallb (quiet id) mid = true ->
  exists st, lookup (fst (srun (fst (sstep s1 o)) mid)) id = Some st /\ st_buffers st = collect id mid.
Proof.
  intros Hlen s1 C Q. rewrite app_length in Hlen. cbn [length] in Hlen.
  assert (I0 : inv store0) by constructor.
  pose proof (run_counter pre store0 ltac:(cbn [next_id store0]; lia) I0) as [I1 C1]. fold s1 in I1, C1.
  cbn [next_id store0] in C1.
  pose proof (step_counter s1 o ltac:(lia) I1) as [I2 C2].
  destruct (consumes_empties s1 o id I1 C) as (st & L & B).
  destruct (quiet_run mid (fst (sstep s1 o)) id st I2 ltac:(lia) L Q) as (st' & L' & _ & _ & B').
  exists st'. split; [exact L'|]. rewrite B' , B. reflexivity.
Qed.

(* other statements are not touched by what is done to one of them: text, parameter count and long data of every
   statement an operation does not address stay as they are (LONG DATA included: it only extends its own target) *)
Theorem other_statements_untouched s o j st : inv s -> lookup s j = Some st ->
  quiet j o = true -> collect1 j (st_buffers st) o = st_buffers st ->
  lookup (fst (sstep s o)) j = Some st.
Proof.
  intros I L Q K. destruct (quiet_step s o j st I L Q) as (st' & L' & S' & N' & B').
  rewrite L'. f_equal. destruct st', st. cbn in *. congruence.
Qed.

(* a closed statement is gone: every later command that addresses it is refused (or, for long data, ignored) *)
Theorem closed_is_unknown s d id : parse_stmt_id d = Ok id -> lookup (fst (sstep s (SClose d))) id = None.
Proof.
  intros P. cbn [Stmts.sstep]. rewrite P. cbn [fst]. unfold lookup. cbn [tbl]. apply assoc_del_same.
Qed.
End Hist.

(* ---- what an execution binds for a parameter that has long data ---------------------------------------------------- *)
Lemma rd_values_long bm bufs : forall tys i d vs r, rd_values bm bufs i tys d = Ok (vs, r) ->
  forall j name v x, nth_error vs j = Some (name, v) -> assoc_N (i + N.of_nat j) bufs = Some x -> v = PNull \/ v = PStr x.
Proof.
  induction tys as [|[[nm t] u] rest IH]; intros i d vs r H j name v x Hn Ha; cbn [rd_values] in H.
  - inversion H; subst. destruct j; discriminate.
  - unfold bind in H. destruct (testbit_at bm i 0) as [isnull|e]; [|discriminate].
    destruct (if isnull then Ok (PNull, d) else match assoc_N i bufs with Some b => Ok (PStr b, d) | None => rd_param_value t u d end)
      as [[v0 r0]|e] eqn:E; [|discriminate].
    destruct (rd_values bm bufs (i + 1) rest r0) as [[vs' r']|e] eqn:E2; [|discriminate].
    inversion H; subst. destruct j as [|j'].
    + cbn in Hn. inversion Hn; subst. rewrite N.add_0_r in Ha. destruct isnull; [inversion E; now left|].
      rewrite Ha in E. inversion E. now right.
    + cbn in Hn. eapply (IH _ _ _ _ E2 j'); [exact Hn|]. rewrite <- Ha. f_equal. lia.
Qed.

Lemma nth_error_firstn_some {A} : forall (l : list A) n j x, nth_error (firstn n l) j = Some x -> nth_error l j = Some x.
Proof.
  induction l as [|a l IH]; intros n j x; destruct n, j; cbn; try discriminate; auto. apply IH.
Qed.

Theorem execute_binds_long_data qa lk d st ex : parse_com_stmt_execute qa lk d = Ok (st, ex) ->
  forall j name v x, nth_error (ex_params ex) j = Some (name, v) -> assoc_N (N.of_nat j) (st_buffers st) = Some x ->
  v = PNull \/ v = PStr x.
Proof.
  unfold parse_com_stmt_execute, bind. destruct (rd_uint 4 d) as [[id r]|e]; [|discriminate].
  destruct (lk id) as [st0|]; [|discriminate].
  destruct (rd_cursor_flags r) as [[[uc pca] r2]|e]; [|discriminate].
  destruct (rd_uint 4 r2) as [[x0 r3]|e]; [|discriminate].
  destruct (if ((0 <? st_nparams st0) || qa && pca) && qa then rd_uint_len r3 else Ok (st_nparams st0, r3)) as [[count r4]|e]; [|discriminate].
  destruct (0 <? count).
  - destruct (rd_params qa count (st_buffers st0) r4) as [[ps r5]|e] eqn:P; [|discriminate].
    intros H. inversion H; subst. cbn [ex_params]. intros j name v x Hn Ha.
    assert (Hn' : nth_error ps j = Some (name, v)) by (eapply nth_error_firstn_some; exact Hn).
    unfold rd_params in P. destruct (count =? 0); [inversion P; subst; destruct j; discriminate|].
    destruct (rd_fixed (bitmap_bytes count 0) r4) as [bm r6]. unfold bind in P.
    destruct (rd_uint 1 r6) as [[flag r7]|e]; [|discriminate]. destruct (flag =? 0); [discriminate|].
    destruct (rd_types (S (length r7)) qa count r7) as [[tys r8]|e]; [|discriminate].
    eapply (rd_values_long _ _ _ 0 _ _ _ P j); [exact Hn'|exact Ha].
  - intros H. inversion H; subst. cbn [ex_params]. intros j; destruct j; discriminate.
Qed.
