(* Proofs/DeferProofs.v - a command that reaches the server while it is busy waits in the queue; the outputs are those of
   the conversation in which the client had waited for the prompt before sending it. *)
From Coq Require Import List Arith NArith Lia Bool.
From MM Require Import Lib.Bytes Model.Conn Proofs.C10Proofs Proofs.FuelProofs.
Import ListNotations.

Section Defer.
Variable B BATCH : N.

(* ---- maps over the results of the machine's components --------------------------------------------------------------- *)
Definition act_map (T : st -> st) (a : action) : action :=
  match a with
  | ActNext s o => ActNext (T s) o
  | ActSuspend s w ic o => ActSuspend (T s) w ic o
  | ActRaise s x ic o => ActRaise (T s) x ic o
  | ActQuit s => ActQuit (T s)
  | ActEnter s f => ActEnter (T s) f
  end.
Definition thrown_map (T : st -> st) (t : thrown) : thrown :=
  match t with
  | Continue s k f => Continue (T s) k f
  | ToClose s re => ToClose (T s) re
  | Finished s e => Finished (T s) e
  end.

(* ---- the control field is write-only ------------------------------------------------------------------------------------- *)
Section Ctl.
Variable c : ctl.
Definition Tc (s : st) : st := upd_ctl s c.

Lemma drain_Tc s : do_drain (Tc s) = act_map Tc (do_drain s).
Proof. unfold do_drain, flush, Tc. cbn [buf upd_ctl]. destruct (buf s); cbn; destruct (dead s); cbn; try reflexivity; destruct (paused s); reflexivity. Qed.

Lemma op_Tc s m : exec_op B (Tc s) m = act_map Tc (exec_op B s m).
Proof.
  destruct m; cbn [exec_op]; try reflexivity.
  - unfold Tc at 1. cbn [buf seq handed upd_ctl].
    match goal with |- (if ?a then _ else _) = act_map _ (if ?b then _ else _) => change a with b; destruct b end; [|reflexivity].
    match goal with |- do_drain ?x = act_map Tc (do_drain ?y) => change x with (Tc y) end. apply drain_Tc.
  - apply drain_Tc.
  - unfold cur_pull, Tc. cbn [stmts upd_ctl]. destruct (find_stmt id (stmts s)); reflexivity.
  - unfold cur_skip_suspend, Tc. destruct incur as [id|]; [|reflexivity]. cbn [stmts upd_ctl]. destruct (find_stmt id (stmts s)); reflexivity.
  - unfold Tc. cbn [eof upd_ctl]. destruct (eof s); reflexivity.
Qed.

Lemma kc_Tc s ic : kill_cursor (Tc s) ic = Tc (kill_cursor s ic).
Proof. unfold kill_cursor, Tc. destruct ic as [id|]; [|reflexivity]. cbn [stmts upd_ctl]. destruct (find_stmt id (stmts s)); reflexivity. Qed.

Lemma throw_Tc s x f : throw (Tc s) x f = thrown_map Tc (throw s x f).
Proof. unfold Tc. destruct f; cbn [throw]; try reflexivity; destruct x; cbn [kill upd_ctl set_exec set_seq]; try reflexivity; destruct (kill s) as [[|]|]; reflexivity. Qed.

Definition endact_map (T : st -> st) (e : endact) : endact :=
  match e with
  | EFinish s x => EFinish (T s) x
  | EGo s k f => EGo (T s) k f
  | ESuspRead s => ESuspRead (T s)
  | ERaise s x => ERaise (T s) x
  end.

Lemma handler_Tc s cm : handler BATCH (Tc s) cm = (Tc (fst (handler BATCH s cm)), snd (handler BATCH s cm)).
Proof.
  unfold Tc. destruct cm; cbn [handler]; cbn [stmts next_stmt deprecate_eof upd_ctl]; try reflexivity.
  - destruct (find_stmt id (stmts s)); reflexivity.
  - destruct (find_stmt id (stmts s)) as [v|]; [|reflexivity]. destruct (st_cursor v) as [items|]; [|reflexivity].
    destruct (fetch_plan BATCH (S (length items)) id items (st_inner v) 0 n (st_inner v)). reflexivity.
  - destruct (find_stmt id (stmts s)); reflexivity.
Qed.

Lemma end_Tc s f : end_plan BATCH (Tc s) f = endact_map Tc (end_plan BATCH s f).
Proof.
  destruct f; cbn [end_plan]; try reflexivity.
  - unfold Tc at 1 2. cbn [inq eof upd_ctl]. destruct (inq s) as [|cm q]; [destruct (eof s); reflexivity|].
    match goal with |- context [handler BATCH ?x cm] =>
      change x with (Tc (set_exec (set_seq (set_inq s q) ((seq s + 1) mod 256)) true)) end.
    rewrite handler_Tc. destruct (handler BATCH (set_exec (set_seq (set_inq s q) ((seq s + 1) mod 256)) true) cm). reflexivity.
  - destruct waskill; reflexivity.
Qed.

Lemma run_Tc : forall n s k f, run B BATCH n (Tc s) k f = run B BATCH n s k f.
Proof.
  induction n as [|n IH]; intros s k f; [reflexivity|].
  assert (RAISE : forall s1 x,
            match throw (Tc s1) x f with
            | Continue s' k' f' => run B BATCH n s' k' f'
            | ToClose s' re => run B BATCH n (inc_closes s') [MApp SClose] (FClose re)
            | Finished s' exc => finish s' exc
            end =
            match throw s1 x f with
            | Continue s' k' f' => run B BATCH n s' k' f'
            | ToClose s' re => run B BATCH n (inc_closes s') [MApp SClose] (FClose re)
            | Finished s' exc => finish s' exc
            end).
  { intros s1 x. rewrite throw_Tc. destruct (throw s1 x f) as [s' k' f'|s' re|s' exc]; cbn [thrown_map].
    - apply IH.
    - change (inc_closes (Tc s')) with (Tc (inc_closes s')). apply IH.
    - reflexivity. }
  destruct k as [|m k'].
  - cbn [Conn.run]. rewrite end_Tc. destruct (end_plan BATCH s f) as [s' exc|s' k2 f2|s'|s' x]; cbn [endact_map].
    + reflexivity.
    + apply IH.
    + reflexivity.
    + cbn [kill_cursor]. apply RAISE.
  - cbn [Conn.run]. rewrite op_Tc. destruct (exec_op B s m) as [s' o|s' w ic o|s' x ic o|s'|s' f']; cbn [act_map].
    + f_equal. apply IH.
    + reflexivity.
    + f_equal. rewrite kc_Tc. apply RAISE.
    + destruct f; try reflexivity. change (inc_closes (set_seq (set_exec (Tc s') false) 0)) with (Tc (inc_closes (set_seq (set_exec s' false) 0))). apply IH.
    + destruct (is_handler f && is_handler f'); [apply IH|reflexivity].
Qed.
End Ctl.

(* ---- commands waiting in the queue are not looked at until the plan is exhausted in FRead ------------------------------ *)
Section Queue.
Variable D : list cmd.
Definition Tq (s : st) : st := set_inq s (inq s ++ D).

Lemma drain_Tq s : do_drain (Tq s) = act_map Tq (do_drain s).
Proof. unfold do_drain, flush, Tq. cbn [buf set_inq]. destruct (buf s); cbn; destruct (dead s); cbn; try reflexivity; destruct (paused s); reflexivity. Qed.

Lemma op_Tq s m : exec_op B (Tq s) m = act_map Tq (exec_op B s m).
Proof.
  destruct m; cbn [exec_op]; try reflexivity.
  - unfold Tq at 1. cbn [buf seq handed set_inq].
    match goal with |- (if ?a then _ else _) = act_map _ (if ?b then _ else _) => change a with b; destruct b end; [|reflexivity].
    match goal with |- do_drain ?x = act_map Tq (do_drain ?y) => change x with (Tq y) end. apply drain_Tq.
  - apply drain_Tq.
  - unfold cur_pull, Tq. cbn [stmts set_inq]. destruct (find_stmt id (stmts s)); reflexivity.
  - unfold cur_skip_suspend, Tq. destruct incur as [id|]; [|reflexivity]. cbn [stmts set_inq]. destruct (find_stmt id (stmts s)); reflexivity.
  - unfold Tq. cbn [eof set_inq]. destruct (eof s); reflexivity.
Qed.

Lemma kc_Tq s ic : kill_cursor (Tq s) ic = Tq (kill_cursor s ic).
Proof. unfold kill_cursor, Tq. destruct ic as [id|]; [|reflexivity]. cbn [stmts set_inq]. destruct (find_stmt id (stmts s)); reflexivity. Qed.

Lemma throw_Tq s x f : throw (Tq s) x f = thrown_map Tq (throw s x f).
Proof. unfold Tq. destruct f; cbn [throw]; try reflexivity; destruct x; cbn [kill set_inq set_exec set_seq]; try reflexivity; destruct (kill s) as [[|]|]; reflexivity. Qed.

Lemma handler_Tq s cm : handler BATCH (Tq s) cm = (Tq (fst (handler BATCH s cm)), snd (handler BATCH s cm)).
Proof.
  unfold Tq. destruct cm; cbn [handler]; cbn [stmts next_stmt deprecate_eof set_inq]; try reflexivity.
  - destruct (find_stmt id (stmts s)); reflexivity.
  - destruct (find_stmt id (stmts s)) as [v|]; [|reflexivity]. destruct (st_cursor v) as [items|]; [|reflexivity].
    destruct (fetch_plan BATCH (S (length items)) id items (st_inner v) 0 n (st_inner v)). reflexivity.
  - destruct (find_stmt id (stmts s)); reflexivity.
Qed.

Lemma end_Tq s f : (f = FRead -> inq s <> []) -> end_plan BATCH (Tq s) f = endact_map Tq (end_plan BATCH s f).
Proof.
  intros H. destruct f; cbn [end_plan]; try reflexivity.
  - unfold Tq at 1 2. cbn [inq eof set_inq]. destruct (inq s) as [|cm q]; [exfalso; now apply H|]. cbn [app].
    match goal with |- context [handler BATCH ?x cm] =>
      change x with (Tq (set_exec (set_seq (set_inq s q) ((seq s + 1) mod 256)) true)) end.
    rewrite handler_Tq. destruct (handler BATCH (set_exec (set_seq (set_inq s q) ((seq s + 1) mod 256)) true) cm). reflexivity.
  - destruct waskill; reflexivity.
Qed.
End Queue.

Lemma Tq_nil s : Tq [] s = s.
Proof. unfold Tq. destruct s. cbn. now rewrite app_nil_r. Qed.

(* ---- invariants the deferral needs: command phase, the client has not closed its side ------------------------------------- *)
Definition Ik (s : st) : Prop := phase s = Command /\ eof s = false.

Lemma drain_keep s :
  match do_drain s with
  | ActNext s' _ | ActSuspend s' _ _ _ | ActQuit s' | ActEnter s' _ => phase s' = phase s /\ eof s' = eof s
  | ActRaise s' _ ic _ => phase (kill_cursor s' ic) = phase s /\ eof (kill_cursor s' ic) = eof s
  end.
Proof.
  unfold do_drain, flush. destruct (buf s); cbn; destruct (dead s); cbn; auto; destruct (paused s); cbn; auto.
Qed.

Lemma kc_keep s ic : phase (kill_cursor s ic) = phase s /\ eof (kill_cursor s ic) = eof s.
Proof. unfold kill_cursor. destruct ic as [id|]; [|auto]. destruct (find_stmt id (stmts s)); auto. Qed.

Lemma op_keep s m :
  match exec_op B s m with
  | ActNext s' _ | ActSuspend s' _ _ _ | ActQuit s' | ActEnter s' _ => phase s' = phase s /\ eof s' = eof s
  | ActRaise s' _ ic _ => phase (kill_cursor s' ic) = phase s /\ eof (kill_cursor s' ic) = eof s
  end.
Proof.
  destruct m; cbn [exec_op]; auto.
  - match goal with |- context [if ?c then _ else _] => destruct c end; [|auto].
    match goal with |- context [do_drain ?x] => pose proof (drain_keep x) as K; destruct (do_drain x) end; exact K.
  - apply drain_keep.
  - unfold cur_pull. destruct (find_stmt id (stmts s)); auto.
  - unfold cur_skip_suspend. destruct incur as [id|]; [|auto]. destruct (find_stmt id (stmts s)); auto.
  - apply kc_keep.
  - destruct (eof s) eqn:E; cbn [kill_cursor]; auto.
Qed.

Lemma throw_keep s x f :
  match throw s x f with
  | Continue s' _ f' => phase s' = phase s /\ eof s' = eof s /\ f' <> FRead
  | ToClose s' _ => phase s' = phase s /\ eof s' = eof s
  | Finished _ _ => True
  end.
Proof.
  destruct f; cbn [throw]; auto; destruct x; cbn [kill set_exec set_seq]; auto; try (destruct (kill s) as [[|]|]; cbn; repeat split; auto; discriminate).
  all: cbn; repeat split; auto; discriminate.
Qed.

Lemma handler_keep s cm : phase (fst (handler BATCH s cm)) = phase s /\ eof (fst (handler BATCH s cm)) = eof s.
Proof.
  destruct cm; cbn [handler]; auto.
  - destruct (find_stmt id (stmts s)); auto.
  - destruct (find_stmt id (stmts s)) as [v|]; [|auto]. destruct (st_cursor v) as [items|]; [|auto].
    destruct (fetch_plan BATCH (S (length items)) id items (st_inner v) 0 n (st_inner v)). auto.
  - destruct (find_stmt id (stmts s)); auto.
Qed.

(* ---- the deferred conversation ---------------------------------------------------------------------------------------------- *)
Definition is_prompt (s : st) : bool :=
  match ctl_ s, inq s with
  | Susp WRead [] FRead _, [] => true
  | _, _ => false
  end.

Fixpoint drainq (s : st) (D : list cmd) : st * list out :=
  match D with
  | [] => (s, [])
  | d :: D' =>
      let '(s1, o1) := step B BATCH s (EvPayload d) in
      if is_prompt s1 then let '(s2, o2) := drainq s1 D' in (s2, o1 ++ o2) else (Tq D' s1, o1)
  end.

Definition defer (r : st * list out) (D : list cmd) : st * list out :=
  if is_prompt (fst r) then let '(s2, o2) := drainq (fst r) D in (s2, snd r ++ o2) else (Tq D (fst r), snd r).

Lemma defer_nil r : defer r [] = r.
Proof. unfold defer. destruct r as [s o]. cbn [fst snd drainq]. destruct (is_prompt s); [now rewrite app_nil_r|now rewrite Tq_nil]. Qed.

Lemma defer_prepend o r D : defer (prepend o r) D = prepend o (defer r D).
Proof.
  unfold defer, prepend. cbn [fst snd]. destruct (is_prompt (fst r)); [|reflexivity].
  destruct (drainq (fst r) D) as [s2 o2]. cbn [fst snd]. now rewrite app_assoc.
Qed.

Lemma defer_np s o D : is_prompt s = false -> defer (s, o) D = (Tq D s, o).
Proof. unfold defer. cbn [fst snd]. now intros ->. Qed.

Lemma run_stable2 a b s k f W : (wt s k <= W)%nat -> (Phi W s k f <= a)%nat -> (Phi W s k f <= b)%nat ->
  run B BATCH a s k f = run B BATCH b s k f.
Proof.
  intros HW Ha Hb. rewrite (run_stable B BATCH (Phi W s k f) s k f W HW (le_n _) a Ha).
  now rewrite (run_stable B BATCH (Phi W s k f) s k f W HW (le_n _) b Hb).
Qed.

Lemma Q_app W a b : Q W (a ++ b) = (Q W a + Q W b)%nat.
Proof. induction a as [|c a IH]; cbn [app Q]; [reflexivity|]. rewrite IH. lia. Qed.

Lemma frame_eq_read f : f = FRead \/ f <> FRead.
Proof. destruct f; auto; right; discriminate. Qed.

(* the run that stops at the prompt: handing over the first deferred command *)
Lemma defer_prompt_first s d D' : phase s = Command -> inq s = [] ->
  defer (upd_ctl s (Susp WRead [] FRead None), []) (d :: D') =
  defer (step B BATCH (upd_ctl s (Susp WRead [] FRead None)) (EvPayload d)) D'.
Proof.
  intros H1 H2. unfold defer at 1. cbn [fst snd]. unfold is_prompt at 1. cbn [ctl_ inq upd_ctl]. rewrite H2.
  cbn [drainq]. destruct (step B BATCH (upd_ctl s (Susp WRead [] FRead None)) (EvPayload d)) as [s1 o1].
  unfold defer. cbn [fst snd app]. destruct (is_prompt s1); [destruct (drainq s1 D'); reflexivity|reflexivity].
Qed.

Lemma Phi_Tq W D s k f : Phi W (Tq D s) k f = (Phi W s k f + 4 * Q W D)%nat.
Proof. unfold Phi, Tq. cbn [inq set_inq]. rewrite Q_app. lia. Qed.

Lemma wt_Tq D s k : wt (Tq D s) k = wt s k.
Proof. reflexivity. Qed.

Lemma np_susp s w k f ic : f <> FRead -> is_prompt (upd_ctl s (Susp w k f ic)) = false.
Proof. intros H. unfold is_prompt. cbn [ctl_ upd_ctl]. destruct w; try reflexivity. destruct k; try reflexivity. destruct f; try reflexivity. congruence. Qed.

(* the main lemma: running with commands appended to the queue = running without them and, if that ends at the prompt,
   handing them over one by one *)
Theorem run_defer : forall n s k f W D,
  (wt s k <= W)%nat -> (Phi W (Tq D s) k f <= n)%nat -> Ik s -> (f = FRead -> k = []) ->
  run B BATCH n (Tq D s) k f = defer (run B BATCH n s k f) D.
Proof.
  induction n as [|n IH]; intros s k f W D HW HP HI HF.
  { exfalso. unfold Phi in HP. pose proof (phi_pos f k). lia. }
  destruct D as [|d D']; [now rewrite Tq_nil, defer_nil|]. set (D := d :: D') in *.
  rewrite Phi_Tq in HP.
  assert (RAISE : forall s1 x P, Ik s1 -> (4 * Q W (inq s1) + tb f + 1 <= P)%nat -> (P + 4 * Q W D <= S n)%nat -> (sw (stmts s1) <= W)%nat ->
            match throw (Tq D s1) x f with
            | Continue s' k' f' => run B BATCH n s' k' f'
            | ToClose s' re => run B BATCH n (inc_closes s') [MApp SClose] (FClose re)
            | Finished s' exc => finish s' exc
            end =
            defer match throw s1 x f with
                  | Continue s' k' f' => run B BATCH n s' k' f'
                  | ToClose s' re => run B BATCH n (inc_closes s') [MApp SClose] (FClose re)
                  | Finished s' exc => finish s' exc
                  end D).
  { intros s1 x P [I1 I2] H1 H2 H3. rewrite throw_Tq. pose proof (Phi_raise W s1 x f P H1 H3) as T. pose proof (throw_keep s1 x f) as K.
    destruct (throw s1 x f) as [s' k' f'|s' re|s' exc]; cbn [thrown_map].
    - destruct T as [T1 T2]. destruct K as (K1 & K2 & K3). apply (IH _ _ _ W); [exact T1|rewrite Phi_Tq; lia|split; congruence|intros E; congruence].
    - destruct T as [T1 T2]. destruct K as (K1 & K2). change (inc_closes (Tq D s')) with (Tq D (inc_closes s')).
      apply (IH _ _ _ W); [exact T1|rewrite Phi_Tq; lia|split; cbn; congruence|discriminate].
    - unfold finish. rewrite defer_np by reflexivity. reflexivity. }
  destruct HI as [I1 I2].
  destruct k as [|m k'].
  - (* the plan is exhausted *)
    cbn [Conn.run]. unfold wt in HW. cbn [plan_weight] in HW. unfold Phi in HP. cbn [length] in HP.
    destruct (frame_eq_read f) as [->|Hf].
    + (* FRead *)
      cbn [end_plan]. unfold Tq at 1 2. cbn [inq eof set_inq]. destruct (inq s) as [|c0 q] eqn:Eq; cbn [app].
      * (* the queue was empty: the first deferred command is dispatched now *)
        rewrite I2. cbn [phi] in HP. unfold D at 1.
        match goal with |- context [handler BATCH ?x d] =>
          change x with (Tq D' (set_exec (set_seq (set_inq s []) ((seq s + 1) mod 256)) true)) end.
        rewrite handler_Tq.
        pose proof (handler_bounds BATCH (set_exec (set_seq (set_inq s []) ((seq s + 1) mod 256)) true) d W) as HB.
        pose proof (handler_bounds BATCH (set_exec (set_seq (set_inq s []) ((seq s + 1) mod 256)) true) d (sw (stmts s))) as HB0.
        pose proof (handler_keep (set_exec (set_seq (set_inq s []) ((seq s + 1) mod 256)) true) d) as HK.
        destruct (handler BATCH (set_exec (set_seq (set_inq s []) ((seq s + 1) mod 256)) true) d) as [s2 k2] eqn:Eh.
        cbn [fst snd stmts inq phase eof set_exec set_seq set_inq] in HB, HB0, HK. cbn [fst snd].
        specialize (HB ltac:(lia)). specialize (HB0 (le_n _)). destruct HB as (B1 & B2 & B3 & B4). destruct HB0 as (C1 & _). destruct HK as [K1 K2].
        unfold D in HP. cbn [Q] in HP. cbn [Q] in *.
        rewrite (IH s2 k2 FHandler W D'); [|unfold wt; lia|rewrite Phi_Tq; unfold Phi; rewrite B4; cbn [Q phi]; destruct (post k2); lia|split; congruence|discriminate].
        (* the other side: the prompt, then the command handed over *)
        unfold D. rewrite defer_prompt_first; [|exact I1|exact Eq].
        f_equal. symmetry.
        (* step at the prompt = the same handler run *)
        unfold step. cbn [ctl_ upd_ctl phase]. rewrite I1. cbn [inq upd_ctl]. rewrite Eq. cbn [app].
        unfold go. destruct (FUEL (set_inq (upd_ctl s (Susp WRead [] FRead None)) [d]) []) as [|m] eqn:EF; [rewrite FUEL_eq in EF; lia|].
        cbn [Conn.run end_plan inq set_inq].
        match goal with |- context [handler BATCH ?x d] =>
          change x with (Tc (Susp WRead [] FRead None) (set_exec (set_seq (set_inq s []) ((seq s + 1) mod 256)) true)) end.
        rewrite handler_Tc, Eh. cbn [fst snd]. rewrite run_Tc.
        apply (run_stable2 m n s2 k2 FHandler (sw (stmts s))); [unfold wt; lia| |].
        -- rewrite FUEL_eq in EF. unfold wt in EF. cbn [stmts inq length plan_weight upd_ctl set_inq Q] in EF. rewrite !Nat.add_0_r in EF.
           unfold Phi. rewrite B4. cbn [Q phi]. destruct (post k2); lia.
        -- unfold Phi. rewrite B4. cbn [Q phi]. destruct (post k2); lia.
      * (* the queue was not empty: its head is dispatched, the deferred commands stay behind it *)
        match goal with |- context [handler BATCH ?x c0] =>
          change x with (Tq D (set_exec (set_seq (set_inq s q) ((seq s + 1) mod 256)) true)) end.
        rewrite handler_Tq.
        pose proof (handler_bounds BATCH (set_exec (set_seq (set_inq s q) ((seq s + 1) mod 256)) true) c0 W) as HB.
        pose proof (handler_keep (set_exec (set_seq (set_inq s q) ((seq s + 1) mod 256)) true) c0) as HK.
        destruct (handler BATCH (set_exec (set_seq (set_inq s q) ((seq s + 1) mod 256)) true) c0) as [s2 k2].
        cbn [fst snd stmts inq phase eof set_exec set_seq set_inq] in HB, HK. cbn [fst snd].
        specialize (HB ltac:(lia)). destruct HB as (B1 & B2 & B3 & B4). destruct HK as [K1 K2]. cbn [Q phi] in HP.
        apply (IH _ _ _ W); [unfold wt; lia|rewrite Phi_Tq; unfold Phi; rewrite B4; cbn [phi]; destruct (post k2); lia|split; congruence|discriminate].
    + rewrite end_Tq by (intros E; congruence).
      destruct f; try congruence; cbn [end_plan endact_map].
      * (* FConn *) apply (IH _ _ _ W); [unfold wt; cbn; lia|rewrite Phi_Tq; unfold Phi; cbn [length inq set_phase set_inited phi] in *; lia|split; [reflexivity|exact I2]|reflexivity].
      * unfold finish. rewrite defer_np by reflexivity. reflexivity.
      * apply (IH _ _ _ W); [unfold wt; cbn; lia|rewrite Phi_Tq; unfold Phi; cbn [length inq set_seq set_exec phi post] in *; lia|split; assumption|reflexivity].
      * apply (IH _ _ _ W); [unfold wt; cbn; lia|rewrite Phi_Tq; unfold Phi; cbn [length inq set_seq set_exec phi] in *; lia|split; assumption|reflexivity].
      * apply (IH _ _ _ W); [unfold wt; cbn; lia|rewrite Phi_Tq; unfold Phi; cbn [length inq set_seq set_exec phi] in *; lia|split; assumption|reflexivity].
      * apply (IH _ _ _ W); [unfold wt; destruct waskill; cbn; lia|rewrite Phi_Tq; unfold Phi; destruct waskill; cbn [length inq set_seq set_kill phi] in *; lia|split; destruct waskill; assumption|reflexivity].
      * change (inc_closes (set_kill (Tq D s) None)) with (Tq D (inc_closes (set_kill s None))).
        apply (IH _ _ _ W); [unfold wt; cbn; lia|rewrite Phi_Tq; unfold Phi; cbn [length inq inc_closes set_kill phi] in *; lia|split; assumption|discriminate].
      * unfold finish. rewrite defer_np by reflexivity. reflexivity.
  - (* one micro-operation *)
    assert (Hf : f <> FRead) by (intros E; specialize (HF E); discriminate).
    cbn [Conn.run]. rewrite op_Tq. pose proof (op_meas B s m k') as OM. pose proof (op_keep s m) as OK.
    unfold wt in HW. unfold Phi in HP. cbn [length] in HP.
    destruct (exec_op B s m) as [s' o|s' w ic o|s' x ic o|s'|s' f'] eqn:Eo; cbn [act_map].
    + destruct OM as [O1 O2]. destruct OK as [K1 K2]. rewrite defer_prepend. f_equal.
      apply (IH _ _ _ W); [unfold wt; lia| |split; congruence|intros E; congruence].
      rewrite Phi_Tq. unfold Phi. rewrite O1.
      assert (PH : (phi f k' <= phi f (m :: k') + 3)%nat).
      { destruct f; cbn [phi]; try lia. destruct (post (m :: k')) eqn:Ep; [|destruct (post k'); lia].
        destruct (post_next m k' Ep) as [[ic ->]|[-> [ic ->]]]; [cbn; lia|]. cbn [exec_op] in Eo. discriminate Eo. }
      lia.
    + rewrite defer_np by (now apply np_susp). reflexivity.
    + destruct OM as [O1 O2]. destruct OK as [K1 K2]. rewrite defer_prepend. f_equal. rewrite kc_Tq.
      apply (RAISE (kill_cursor s' ic) x (4 * (1 + Q W (inq s)) + phi f (m :: k'))%nat); [split; congruence|rewrite O1; pose proof (tb_op f m k'); lia|lia|lia].
    + subst s'. destruct OK as [K1 K2]. destruct f; try (rewrite defer_np by reflexivity; reflexivity).
      change (inc_closes (set_seq (set_exec (Tq D s) false) 0)) with (Tq D (inc_closes (set_seq (set_exec s false) 0))).
      apply (IH _ _ _ W); [unfold wt; cbn [stmts inc_closes set_seq set_exec plan_weight]; lia| |split; assumption|discriminate].
      rewrite Phi_Tq. unfold Phi. cbn [length inq inc_closes set_seq set_exec phi] in *. destruct (post (m :: k')); lia.
    + subst s'. destruct (is_handler f && is_handler f') eqn:Eh; [|rewrite defer_np by reflexivity; reflexivity].
      apply andb_true_iff in Eh. destruct Eh as [H1 H2].
      assert (M : m = MEnter f') by (destruct m; cbn [exec_op] in Eo; try discriminate Eo;
        repeat match type of Eo with context [if ?c then _ else _] => destruct c end; try discriminate Eo;
        try (unfold do_drain in Eo; destruct (flush _); repeat match type of Eo with context [if ?c then _ else _] => destruct c end; discriminate Eo);
        inversion Eo; reflexivity).
      subst m. cbn [plan_weight] in HW.
      apply (IH _ _ _ W); [unfold wt; lia| |split; assumption|intros E; subst f'; discriminate H2].
      rewrite Phi_Tq. unfold Phi. assert (PH : (phi f' k' <= phi f (MEnter f' :: k') + 3)%nat).
      { destruct f; try discriminate H1; destruct f'; try discriminate H2; cbn [phi post]; try lia; destruct (post k'); lia. }
      lia.
Qed.

(* ---- lifted to go / raise_at / step ------------------------------------------------------------------------------------------ *)
Lemma FUEL_Tq D s k : (FUEL s k <= FUEL (Tq D s) k)%nat.
Proof. rewrite !FUEL_eq. rewrite wt_Tq. unfold Tq. cbn [inq set_inq]. rewrite Q_app. lia. Qed.

Lemma go_defer D s k f : Ik s -> (f = FRead -> k = []) -> go B BATCH (Tq D s) k f = defer (go B BATCH s k f) D.
Proof.
  intros HI HF. unfold go at 1.
  rewrite (run_defer (FUEL (Tq D s) k) s k f (wt s k) D); [|lia| |exact HI|exact HF].
  - now rewrite (go_stable B BATCH s k f _ (FUEL_Tq D s k)).
  - rewrite FUEL_eq, wt_Tq. unfold Phi. pose proof (phi_le f k). lia.
Qed.

Lemma raise_at_defer D s x f ic : Ik s -> raise_at B BATCH (Tq D s) x f ic = defer (raise_at B BATCH s x f ic) D.
Proof.
  intros [I1 I2]. unfold raise_at. rewrite kc_Tq, throw_Tq. pose proof (throw_keep (kill_cursor s ic) x f) as K.
  destruct (kc_keep s ic) as [C1 C2].
  destruct (throw (kill_cursor s ic) x f) as [s' k' f'|s' re|s' exc]; cbn [thrown_map].
  - destruct K as (K1 & K2 & K3). apply go_defer; [split; congruence|intros E; congruence].
  - destruct K as (K1 & K2). change (inc_closes (Tq D s')) with (Tq D (inc_closes s')). apply go_defer; [split; cbn; congruence|discriminate].
  - unfold finish. rewrite defer_np by reflexivity. reflexivity.
Qed.

(* events that do not look at the queue *)
Definition quiet (e : ev) : Prop :=
  match e with
  | EvApp _ | EvDecide _ | EvAuthReply _ | EvRowReady | EvTick | EvPause | EvResume => True
  | _ => False
  end.

(* a suspended state is either the prompt shape or outside FRead *)
Definition shaped (s : st) : Prop :=
  match ctl_ s with
  | Susp w k f _ => f = FRead -> w = WRead /\ k = []
  | _ => True
  end.

Lemma np_keep s s' : ctl_ s' = ctl_ s -> inq s' = inq s -> is_prompt s' = is_prompt s.
Proof. unfold is_prompt. now intros -> ->. Qed.

Lemma step_defer D s e : quiet e -> Ik s -> shaped s -> is_prompt s = false ->
  step B BATCH (Tq D s) e = defer (step B BATCH s e) D.
Proof.
  intros Hq HI HS HN. unfold step. cbn [ctl_ Tq set_inq]. unfold shaped in HS.
  destruct (ctl_ s) as [w k f ic| |] eqn:Ec.
  2,3: (rewrite defer_np by exact HN; reflexivity).
  assert (STAY : forall s', ctl_ s' = ctl_ s -> inq s' = inq s -> defer (s', []) D = (Tq D s', [])).
  { intros s' E1 E2. apply defer_np. rewrite (np_keep s s' E1 E2). exact HN. }
  destruct e; cbn [quiet] in Hq; try contradiction.
  - (* EvAuthReply *)
    cbn [phase Tq set_inq]. destruct (phase s) eqn:Ep; try (rewrite STAY by reflexivity; reflexivity);
    destruct w; try (rewrite STAY by reflexivity; reflexivity);
    destruct f; try (rewrite STAY by reflexivity; reflexivity).
    + destruct HI as [I1 _]. congruence.
    + change (set_seq (Tq D s) ((seq (Tq D s) + 1) mod 256)) with (Tq D (set_seq s ((seq s + 1) mod 256))).
      apply go_defer; [exact HI|discriminate].
  - (* EvDecide *)
    destruct w; try (rewrite STAY by reflexivity; reflexivity). destruct c; try (rewrite STAY by reflexivity; reflexivity).
    apply go_defer; [exact HI|]. intros E. destruct (HS E) as [E2 _]. discriminate E2.
  - (* EvApp *)
    destruct w; try (rewrite STAY by reflexivity; reflexivity). destruct c; try (rewrite STAY by reflexivity; reflexivity);
    (assert (NF : f <> FRead) by (intros E; destruct (HS E) as [E2 _]; discriminate E2);
     destruct o as [|sz items|[cd|]|]; try (apply raise_at_defer; exact HI);
     destruct k as [|[] k']; (apply go_defer; [exact HI|intros E; congruence])).
  - (* EvRowReady *) destruct w; try (rewrite STAY by reflexivity; reflexivity). apply go_defer; [exact HI|]. intros E. destruct (HS E) as [E2 _]. discriminate E2.
  - (* EvTick *) destruct w; try (rewrite STAY by reflexivity; reflexivity). apply go_defer; [exact HI|]. intros E. destruct (HS E) as [E2 _]. discriminate E2.
  - (* EvPause *) rewrite STAY by reflexivity. reflexivity.
  - (* EvResume *)
    destruct w; try (rewrite STAY by reflexivity; reflexivity).
    change (set_paused (Tq D s) false) with (Tq D (set_paused s false)). apply go_defer; [exact HI|]. intros E. destruct (HS E) as [E2 _]. discriminate E2.
Qed.
End Defer.
