(* Proofs/KillProofs.v - facts about kills and refusals that hold in every state of the machine. *)
From Coq Require Import List Arith NArith Lia Bool.
From MM Require Import Lib.Bytes Model.Conn Proofs.ConnInv Proofs.C10Proofs.
Import ListNotations.
Open Scope N_scope.

Section Kill.
Variable B BATCH : N.
Notation step := (step B BATCH).

(* KILL QUERY while no command is being handled changes nothing, writes nothing *)
Theorem kq_ignored_when_not_executing s : executing s = false -> step s (EvKill KQ) = (s, []).
Proof.
  intros H. unfold Conn.step. destruct (ctl_ s); try reflexivity.
  unfold kill_accepted. rewrite H. reflexivity.
Qed.

(* ... in particular on an idle connection, whatever it did before *)
(* a pending KILL CONNECTION is never downgraded by a later KILL QUERY *)
Theorem kq_after_kc_ignored s : kill s = Some KC -> step s (EvKill KQ) = (s, []).
Proof.
  intros H. unfold Conn.step. destruct (ctl_ s); try reflexivity.
  unfold kill_accepted. rewrite H. destruct (executing s); reflexivity.
Qed.

(* a KILL QUERY issued by the connection's own callback is ignored *)
Theorem kq_self_ignored s : step s (EvKillSelf KQ) = (s, []).
Proof.
  unfold Conn.step. destruct (ctl_ s) as [w k f ic| |]; try reflexivity.
  destruct w; try reflexivity. unfold kill_accepted. cbn. now rewrite andb_false_r.
Qed.

(* kills (and everything else) on a finished connection: identity *)
Theorem any_event_when_done s e : ctl_ s = Done -> step s e = (s, []).
Proof. apply step_done. Qed.

End Kill.
