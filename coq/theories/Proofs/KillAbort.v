(* Proofs/KillAbort.v - what a KILL QUERY does, for EVERY state of the machine: where no statement executes it is a no-op
   (KillProofs.v); where one executes it aborts it with exactly one ERR behind whatever was still buffered and takes the
   connection back to its prompt; and in every REACHABLE state a statement executes only inside a handler frame - so the
   `except` clauses that would end the connection are never entered by a KILL QUERY. *)
From Coq Require Import List Arith NArith Lia Bool.
From MM Require Import Lib.Bytes Model.Conn Proofs.ConnInv Proofs.C10Proofs.
Import ListNotations.
Open Scope N_scope.

Section KillAbort.
Variable B BATCH : N.

Lemma kc_fields s ic :
  buf (kill_cursor s ic) = buf s /\ seq (kill_cursor s ic) = seq s /\ kill (kill_cursor s ic) = kill s /\
  dead (kill_cursor s ic) = dead s /\ paused (kill_cursor s ic) = paused s /\ inq (kill_cursor s ic) = inq s /\
  eof (kill_cursor s ic) = eof s /\ closes (kill_cursor s ic) = closes s /\ handed (kill_cursor s ic) = handed s.
Proof.
  destruct ic as [id|]; cbn [kill_cursor]; [destruct (find_stmt id (stmts s))|]; repeat split; reflexivity.
Qed.

Theorem kq_aborts_statement s w k f ic :
  ctl_ s = Susp w k f ic -> is_handler f = true -> executing s = true -> kill s = None -> dead s = false -> eof s = false -> inq s = [] ->
  let r := step B BATCH s (EvKill KQ) in
  snd r = [OWrite (map fst (buf s) ++ [(seq s, PErr E_SESSION_WAS_KILLED)])] /\
  closes (fst r) = closes s /\ executing (fst r) = false /\ buf (fst r) = [] /\
  (if paused s then ctl_ (fst r) = Susp WDrain [] (FHandlerErr true) None /\ kill (fst r) = Some KQ
   else ctl_ (fst r) = Susp WRead [] FRead None /\ kill (fst r) = None /\ seq (fst r) = 0).
Proof.
  intros Hc Hf He Hk Hd Heof Hq. unfold step. rewrite Hc. unfold kill_accepted. rewrite He, Hk. cbn [andb negb].
  unfold raise_at. set (s1 := kill_cursor (set_kill s (Some KQ)) ic).
  destruct (kc_fields (set_kill s (Some KQ)) ic) as (F1 & F2 & F3 & F4 & F5 & F6 & F7 & F8 & F9). fold s1 in F1, F2, F3, F4, F5, F6, F7, F8, F9.
  cbn [buf seq kill dead paused inq eof closes handed set_kill] in F1, F2, F3, F4, F5, F6, F7, F8, F9.
  assert (T : throw s1 XCancel f = Continue (set_exec s1 false) (errplan E_SESSION_WAS_KILLED) (FHandlerErr true)).
  { destruct f; try discriminate Hf; cbn [throw kill set_exec]; rewrite F3; reflexivity. }
  rewrite T.
  unfold go. destruct (FUEL (set_exec s1 false) (errplan E_SESSION_WAS_KILLED)) as [|[|[|n]]] eqn:EF; try (unfold FUEL in EF; lia).
  unfold errplan. cbn [Conn.run exec_op orb]. unfold do_drain, flush.
  cbn [buf set_seq set_buf set_exec seq handed]. rewrite F1.
  destruct (buf s ++ [(seq s1, PErr E_SESSION_WAS_KILLED, SZ_ERR)]) as [|e b] eqn:Eb; [destruct (buf s); discriminate Eb|].
  rewrite <- Eb. cbn [dead set_buf set_seq set_exec]. rewrite F4, Hd. cbn [paused set_buf set_seq set_exec]. rewrite F5.
  destruct (paused s).
  - cbn [fst snd upd_ctl ctl_ closes executing buf kill set_buf set_seq set_exec].
    split; [rewrite map_app, F2; reflexivity|]. repeat split; auto.
  - cbn [prepend Conn.run end_plan]. cbn [inq set_seq set_kill set_buf set_exec]. rewrite F6, Hq.
    cbn [eof set_seq set_kill set_buf set_exec]. rewrite F7, Heof.
    cbn [fst snd upd_ctl ctl_ closes executing buf kill seq set_kill set_buf set_seq set_exec].
    unfold prepend. cbn [fst snd app upd_ctl ctl_ closes executing buf kill seq set_kill set_buf set_seq set_exec].
    split; [rewrite map_app, F2; reflexivity|]. repeat split; auto.
Qed.

(* the socket accepts data again: the ERR is out, the connection is back at its prompt *)
Theorem kq_abort_resumes s :
  ctl_ s = Susp WDrain [] (FHandlerErr true) None -> eof s = false -> inq s = [] ->
  let r := step B BATCH s EvResume in
  snd r = [] /\ ctl_ (fst r) = Susp WRead [] FRead None /\ kill (fst r) = None /\ seq (fst r) = 0 /\ closes (fst r) = closes s /\
  buf (fst r) = buf s.
Proof.
  intros Hc Heof Hq. unfold step. rewrite Hc. unfold go.
  destruct (FUEL (set_paused s false) []) as [|[|n]] eqn:EF; try (unfold FUEL in EF; lia).
  cbn [Conn.run end_plan]. cbn [inq set_seq set_kill set_paused]. rewrite Hq. cbn [eof set_seq set_kill set_paused]. rewrite Heof.
  cbn [fst snd upd_ctl ctl_ kill seq closes buf set_seq set_kill set_paused]. repeat split; reflexivity.
Qed.

(* ---- in every reachable state, a statement executes only inside a handler frame ------------------------------------- *)
Definition PE (f : frame) (s : st) : Prop := is_handler f = true \/ executing s = false.
Definition sameE (s s' : st) : Prop := executing s' = executing s.

Lemma PE_same f s s' : sameE s s' -> PE f s -> PE f s'.
Proof. unfold PE, sameE. intros -> H. exact H. Qed.

Lemma kcE s ic : sameE s (kill_cursor s ic).
Proof. unfold sameE, kill_cursor. destruct ic as [id|]; [|reflexivity]. destruct (find_stmt id (stmts s)); reflexivity. Qed.

Lemma do_drainE s :
  match do_drain s with
  | ActNext s' _ | ActSuspend s' _ _ _ | ActQuit s' | ActEnter s' _ => sameE s s'
  | ActRaise s' _ ic _ => sameE s (kill_cursor s' ic)
  end.
Proof.
  unfold do_drain, flush, sameE. destruct (buf s); cbn;
  match goal with |- context [if dead ?x then _ else _] => destruct (dead x) eqn:?; cbn end; try reflexivity;
  match goal with |- context [if paused ?x then _ else _] => destruct (paused x) eqn:?; cbn end; reflexivity.
Qed.

Lemma opE s m :
  match exec_op B s m with
  | ActNext s' _ | ActSuspend s' _ _ _ | ActQuit s' | ActEnter s' _ => sameE s s'
  | ActRaise s' _ ic _ => sameE s (kill_cursor s' ic)
  end.
Proof.
  destruct m; cbn [exec_op]; try reflexivity.
  - match goal with |- context [if ?c then _ else _] => destruct c end; [|reflexivity].
    match goal with |- context [do_drain ?x] => pose proof (do_drainE x) as D; destruct (do_drain x) end; exact D.
  - apply do_drainE.
  - unfold sameE, cur_pull. destruct (find_stmt id (stmts s)); reflexivity.
  - unfold sameE, cur_skip_suspend. destruct incur as [id|]; [|reflexivity]. destruct (find_stmt id (stmts s)); reflexivity.
  - unfold sameE. rewrite (kcE s incur). reflexivity.
  - destruct (eof s); reflexivity.
Qed.

Lemma PE_ctl f s c : PE f s -> PE f (upd_ctl s c).
Proof. intros H. exact H. Qed.

Lemma op_okE s m f : PE f s ->
  match exec_op B s m with
  | ActNext s' _ | ActSuspend s' _ _ _ => PE f s'
  | ActRaise s' x ic _ => PE f (kill_cursor s' ic)
  | ActQuit s' => PE f s' /\ (f = FHandler -> PE (FClose false) (inc_closes (set_seq (set_exec s' false) 0)))
  | ActEnter s' f' => PE f s' /\ (is_handler f = true -> is_handler f' = true -> PE f' s')
  end.
Proof.
  intros H. pose proof (opE s m) as S. destruct (exec_op B s m); try (eapply PE_same; eassumption).
  - split; [eapply PE_same; eassumption|]. intros _. right. reflexivity.
  - split; [eapply PE_same; eassumption|]. intros _ Hf'. now left.
Qed.

Lemma throw_okE s x f : PE f s ->
  match throw s x f with
  | Continue s' _ f' => PE f' s'
  | ToClose s' re => PE (FClose re) (inc_closes s')
  | Finished s' _ => True
  end.
Proof.
  intros H. unfold PE in *.
  destruct f; cbn [throw]; cbn [is_handler] in H.
  - destruct H as [H|H]; [discriminate|]. destruct x; auto.
  - auto.
  - destruct H as [H|H]; [discriminate|]. destruct x; destruct (kill s) as [[|]|]; auto.
  - destruct x; cbn [kill set_exec]; destruct (kill s) as [[|]|]; cbn [is_handler executing set_exec set_seq inc_closes]; auto.
  - destruct x; destruct (kill s) as [[|]|]; cbn [is_handler executing set_exec set_seq inc_closes]; auto.
  - destruct x; destruct (kill s) as [[|]|]; cbn [is_handler executing set_exec set_seq inc_closes]; auto.
  - destruct H as [H|H]; [discriminate|]. destruct x; cbn [kill set_seq]; destruct (kill s) as [[|]|]; cbn [is_handler executing set_seq inc_closes]; auto.
  - destruct H as [H|H]; [discriminate|]. auto.
  - auto.
Qed.

Lemma end_okE s f : PE f s ->
  match end_plan BATCH s f with
  | EFinish s' _ => True
  | EGo s' _ f' => PE f' s'
  | ESuspRead s' => PE f s'
  | ERaise s' _ => PE f s'
  end.
Proof.
  intros H. unfold PE in *. destruct f as [| | | | | |wk| |re]; cbn [end_plan]; cbn [is_handler] in H.
  - (* FConn *) destruct H as [H|H]; [discriminate|]. right. exact H.
  - (* FConnErr *) exact I.
  - (* FRead *) destruct (inq s) as [|c q].
    + destruct (eof s); exact H.
    + destruct (handler BATCH _ c) as [s2 k2]. now left.
  - right. reflexivity.
  - right. reflexivity.
  - right. reflexivity.
  - (* FHandlerErr *) destruct H as [H|H]; [discriminate|]. right. destruct wk; exact H.
  - (* FKillErr *) destruct H as [H|H]; [discriminate|]. right. exact H.
  - exact I.
Qed.

Lemma kc_noneE f s : PE f s -> PE f (kill_cursor s None).
Proof. auto. Qed.

Definition goodE := good PE (fun _ => True) (fun _ => True).

Lemma go_goodE s k f : PE f s -> goodE (fst (go B BATCH s k f)).
Proof. apply (go_good B BATCH PE (fun _ => True) (fun _ => True) PE_ctl (fun _ _ H => H) (fun _ _ H => H) (fun _ _ _ => I) op_okE throw_okE end_okE kc_noneE). Qed.
Lemma raise_goodE s x f ic : PE f (kill_cursor s ic) -> goodE (fst (raise_at B BATCH s x f ic)).
Proof. apply (raise_at_good B BATCH PE (fun _ => True) (fun _ => True) PE_ctl (fun _ _ H => H) (fun _ _ H => H) (fun _ _ _ => I) op_okE throw_okE end_okE kc_noneE). Qed.

Ltac closeE H :=
  first [ apply go_goodE | apply raise_goodE | idtac ];
  try (eapply PE_same; [|exact H]; unfold sameE; try (rewrite kcE); reflexivity).

Lemma step_goodE s e : goodE s -> goodE (fst (step B BATCH s e)).
Proof.
  intros G. unfold step. unfold goodE, good in G.
  destruct (ctl_ s) as [w k f ic| |] eqn:Ec;
    [|cbn [fst]; unfold goodE, good; rewrite Ec; exact G|cbn [fst]; unfold goodE, good; rewrite Ec; exact G].
  assert (Keep : forall s', sameE s s' -> ctl_ s' = ctl_ s -> goodE s').
  { intros s' Hs Hc. unfold goodE, good. rewrite Hc, Ec. eapply PE_same; eassumption. }
  destruct e.
  - destruct (phase s); try (apply Keep; reflexivity).
    destruct w; try (apply Keep; reflexivity).
    destruct f; try (apply Keep; reflexivity). closeE G.
  - destruct (phase s); try (apply Keep; reflexivity).
    destruct w; try (apply Keep; reflexivity).
    destruct f; try (apply Keep; reflexivity).
    destruct ok; closeE G.
  - destruct (phase s); try (apply Keep; reflexivity);
    destruct w; try (apply Keep; reflexivity);
    destruct f; try (apply Keep; reflexivity); closeE G.
  - destruct w; try (apply Keep; reflexivity).
    destruct c; try (apply Keep; reflexivity). closeE G.
  - destruct w; try (apply Keep; reflexivity). closeE G.
  - destruct w; try (apply Keep; reflexivity). destruct header_read; closeE G.
  - destruct w; try (apply Keep; reflexivity). closeE G.
  - destruct w; try (apply Keep; reflexivity).
    destruct c; try (apply Keep; reflexivity);
    (destruct o as [|sz items|[cd|]|]; try (closeE G; fail);
     destruct k as [|[] k']; closeE G).
  - destruct w; try (apply Keep; reflexivity). closeE G.
  - destruct w; try (apply Keep; reflexivity). closeE G.
  - apply Keep; reflexivity.
  - destruct w; try (apply Keep; reflexivity). closeE G.
  - destruct w; try (apply Keep; reflexivity). closeE G.
  - destruct (kill_accepted s k0 false); [|apply Keep; reflexivity]. closeE G.
  - destruct w; try (apply Keep; reflexivity).
    destruct (kill_accepted s k0 true); [|apply Keep; reflexivity]. closeE G.
Qed.

Lemma boot_goodE hs : goodE (fst (boot B BATCH hs)).
Proof. unfold boot. apply go_goodE. right. reflexivity. Qed.

Theorem reachable_goodE hs evs :
  goodE (fold_left (fun s e => fst (step B BATCH s e)) evs (fst (boot B BATCH hs))).
Proof. apply (runs_good B BATCH PE (fun _ => True) (fun _ => True) step_goodE). apply boot_goodE. Qed.

(* for every reachable state: a KILL QUERY either changes nothing, or it finds the task suspended inside a handler frame *)
Theorem kq_reachable hs evs :
  let s := fold_left (fun s e => fst (step B BATCH s e)) evs (fst (boot B BATCH hs)) in
  step B BATCH s (EvKill KQ) = (s, []) \/
  exists w k f ic, ctl_ s = Susp w k f ic /\ is_handler f = true /\ executing s = true.
Proof.
  intros s. pose proof (reachable_goodE hs evs) as G. fold s in G. unfold goodE, good in G.
  destruct (ctl_ s) as [w k f ic| |] eqn:Ec.
  - destruct (executing s) eqn:Ee.
    + destruct G as [G|G]; [|congruence]. right. exists w, k, f, ic. auto.
    + left. unfold step. rewrite Ec. unfold kill_accepted. rewrite Ee. reflexivity.
  - left. unfold step. now rewrite Ec.
  - left. unfold step. now rewrite Ec.
Qed.

(* ---- KILL CONNECTION, for every state of the command phase ---------------------------------------------------------------------- *)
Definition cmd_frame (f : frame) : bool :=
  match f with FRead | FHandler | FChangeUser | FChangeUserReset | FHandlerErr _ => true | _ => false end.

(* the sequence number the ERR of the kill is written with: the current one at the prompt, a fresh sequence inside a command *)
Definition kc_seq (s : st) (f : frame) : N := match f with FRead => seq s | _ => 0%N end.

Theorem kc_terminates s w k f ic :
  ctl_ s = Susp w k f ic -> cmd_frame f = true -> dead s = false ->
  let r := step B BATCH s (EvKill KC) in
  closes (fst r) = (if paused s then closes s else S (closes s)) /\ buf (fst r) = [] /\
  (if paused s
   then snd r = [OWrite (map fst (buf s) ++ [(kc_seq s f, PErr E_SESSION_WAS_KILLED)])] /\
        ctl_ (fst r) = Susp WDrain [] FKillErr None /\ kill (fst r) = Some KC
   else snd r = [OWrite (map fst (buf s) ++ [(kc_seq s f, PErr E_SESSION_WAS_KILLED)]); OSess SClose] /\
        ctl_ (fst r) = Susp (WApp SClose) [] (FClose false) None).
Proof.
  intros Hc Hf Hd. unfold step. rewrite Hc. unfold kill_accepted.
  unfold raise_at. set (s1 := kill_cursor (set_kill s (Some KC)) ic).
  destruct (kc_fields (set_kill s (Some KC)) ic) as (F1 & F2 & F3 & F4 & F5 & F6 & F7 & F8 & F9). fold s1 in F1, F2, F3, F4, F5, F6, F7, F8, F9.
  cbn [buf seq kill dead paused inq eof closes handed set_kill] in F1, F2, F3, F4, F5, F6, F7, F8, F9.
  assert (T : exists s2, throw s1 XCancel f = Continue s2 (errplan E_SESSION_WAS_KILLED) FKillErr /\
              buf s2 = buf s /\ seq s2 = kc_seq s f /\ dead s2 = false /\ paused s2 = paused s /\ closes s2 = closes s /\ kill s2 = Some KC).
  { destruct f; try discriminate Hf; cbn [throw kill set_exec set_seq]; rewrite F3;
    eexists; (split; [reflexivity|]); cbn [buf seq dead paused closes kill set_exec set_seq kc_seq]; repeat split; congruence. }
  destruct T as (s2 & -> & G1 & G2 & G3 & G4 & G5 & G6).
  unfold go. destruct (FUEL s2 (errplan E_SESSION_WAS_KILLED)) as [|[|[|n]]] eqn:EF; try (unfold FUEL in EF; lia).
  unfold errplan. cbn [Conn.run exec_op orb]. unfold do_drain, flush.
  cbn [buf set_seq set_buf seq handed]. rewrite G1.
  destruct (buf s ++ [(seq s2, PErr E_SESSION_WAS_KILLED, SZ_ERR)]) as [|e b] eqn:Eb; [destruct (buf s); discriminate Eb|].
  rewrite <- Eb. cbn [dead set_buf set_seq]. rewrite G3. cbn [paused set_buf set_seq]. rewrite G4.
  destruct (paused s).
  - cbn [fst snd upd_ctl ctl_ closes buf kill set_buf set_seq]. rewrite G5, G6, G2, map_app. cbn [map fst]. repeat split; reflexivity.
  - cbn [prepend Conn.run end_plan exec_op]. unfold prepend.
    cbn [fst snd app upd_ctl ctl_ closes buf inc_closes set_kill set_buf set_seq]. rewrite G5, G2, map_app. cbn [map fst]. repeat split; reflexivity.
Qed.

(* the socket accepts data again: the session is closed, once *)
Theorem kc_resumes s :
  ctl_ s = Susp WDrain [] FKillErr None ->
  let r := step B BATCH s EvResume in
  snd r = [OSess SClose] /\ ctl_ (fst r) = Susp (WApp SClose) [] (FClose false) None /\ closes (fst r) = S (closes s).
Proof.
  intros Hc. unfold step. rewrite Hc. unfold go.
  destruct (FUEL (set_paused s false) []) as [|[|n]] eqn:EF; try (unfold FUEL in EF; lia).
  cbn [Conn.run end_plan exec_op]. unfold prepend. cbn [fst snd app upd_ctl ctl_ closes inc_closes set_kill set_paused]. repeat split; reflexivity.
Qed.

(* session.close() returned (or raised): the task ends, the socket is closed and the registry entry removed - once *)
Theorem kc_finishes s o re :
  ctl_ s = Susp (WApp SClose) [] (FClose re) None ->
  let r := step B BATCH s (EvApp o) in
  ctl_ (fst r) = Done /\ closes (fst r) = closes s /\
  exists exc, snd r = [OEnd exc; OWriterClose; OCtlRemove].
Proof.
  intros Hc. unfold step. rewrite Hc.
  destruct o as [|sz items|[cd|]|]; unfold raise_at, go; cbn [kill_cursor throw];
    try (destruct (FUEL s []) as [|n] eqn:EF; [unfold FUEL in EF; lia|]; cbn [Conn.run end_plan]);
    unfold finish; cbn [fst snd upd_ctl ctl_ closes]; repeat split; eauto.
Qed.
End KillAbort.
