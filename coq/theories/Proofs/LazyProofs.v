(* Proofs/LazyProofs.v - laziness of result streaming over whole conversations (C12).
   In every state of every lock-step conversation (Proofs/C03Proofs.v: any commands except COM_FIELD_LIST - whose handler
   consumes the library's own catalogue result completely -, any application outcomes, any schedule) the rows pulled from the
   application's sources are exactly: the rows handed to the socket, plus the rows in the write buffer, plus at most ONE row
   in flight; and the write buffer stays below its limit.  So the server is never more than one buffer and one row ahead of
   the socket. *)
From Coq Require Import List NArith Lia Bool.
From MM Require Import Lib.Bytes Model.Conn Model.Resp Proofs.C10Proofs Proofs.ConnInv3 Proofs.StreamProofs Proofs.C03Proofs.
Import ListNotations.
Open Scope N_scope.

Section Lazy.
Variable B BATCH : N.
Variable dep : bool.
Variable base : N.      (* rows pulled before the conversation starts minus rows handed over before it *)

Definition acct (s : st) (n : N) : Prop := pulled s = base + handed s + count_rows (buf s) + n.
Definition bbound (s : st) : Prop := buf_bytes (buf s) < B \/ buf s = [].

(* plans that pull a row only when none is in flight, write it next, and raise only when none is in flight *)
Inductive lz : N -> plan -> Prop :=
| lz_nil : lz 0 []
| lz_pull k : lz 1 k -> lz 0 (MPull :: k)
| lz_curpull id k : lz 1 k -> lz 0 (MCurPull id :: k)
| lz_write_row i z d k : lz 0 k -> lz 1 (MWrite (PRow i) z d :: k)
| lz_write_other n p z d k : is_rowpkt p = false -> lz n k -> lz n (MWrite p z d :: k)
| lz_app_cont c q k : q <> QFieldList ->
    (forall o, out_ok o -> is_raise o = false -> lz 0 (continuation BATCH (sd dep) q o ++ k)) -> lz 0 (MApp c :: MCont q :: k)
| lz_app c k : head_is_cont k = false -> lz 0 k -> lz 0 (MApp c :: k)
| lz_raise x ic k : lz 0 (MRaise x ic :: k)
| lz_drain n k : lz n k -> lz n (MDrain :: k)
| lz_sleep n ic k : lz n k -> lz n (MSleep ic :: k)
| lz_rowwait n ic k : lz n k -> lz n (MRowWait ic :: k)
| lz_setcursor n id items k : lz n k -> lz n (MSetCursor id items :: k)
| lz_clear n id c k : lz n k -> lz n (MClearStmt id c :: k)
| lz_drop n id k : lz n k -> lz n (MDropStmt id :: k)
| lz_authed n k : lz n k -> lz n (MAuthed :: k)
| lz_read k : lz 0 k -> lz 0 (MRead :: k)
| lz_enter f k : lz 0 k -> lz 0 (MEnter f :: k)
| lz_quit k : lz 0 (MQuit :: k).

(* ---- the plans of the handlers ---------------------------------------------------------------------------------------------- *)
Lemma lz_rows : forall items i rest, lz 0 rest -> lz 0 (rows_plan BATCH items i ++ rest).
Proof.
  induction items as [|[sz| |m] r IH]; intros i rest Hr; cbn [rows_plan app]; auto.
  - apply lz_pull. rewrite <- app_assoc.
    destruct (negb (i =? 0) && (i mod BATCH =? 0)); cbn [app]; [apply lz_sleep|]; apply lz_write_row; now apply IH.
  - apply lz_rowwait. now apply IH.
  - apply lz_raise.
Qed.

Lemma lz_bin_rows : forall items i rest, lz 0 rest -> lz 0 (bin_rows_plan BATCH items i ++ rest).
Proof.
  induction items as [|[sz| |m] r IH]; intros i rest Hr; cbn [bin_rows_plan app]; auto.
  - apply lz_pull. rewrite <- app_assoc.
    destruct (negb (i =? 0) && (i mod BATCH =? 0)); cbn [app]; [apply lz_sleep|]; apply lz_write_row; now apply IH.
  - apply lz_rowwait. now apply IH.
  - apply lz_raise.
Qed.

Lemma lz_coldefs d : forall (l : list N) rest n, lz n rest -> lz n (map (fun z => MWrite PColDef z d) l ++ rest).
Proof. induction l as [|z l IH]; intros rest n H; cbn [map app]; [exact H|]. apply lz_write_other; [reflexivity|now apply IH]. Qed.

Lemma rowpkt_term s fl : is_rowpkt (ok_or_eof s fl) = false.
Proof. unfold ok_or_eof. destruct (deprecate_eof s); reflexivity. Qed.

Lemma lz_text_plan s sz items : lz 0 (text_plan BATCH s sz items).
Proof.
  unfold text_plan. apply lz_write_other; [reflexivity|]. apply lz_coldefs.
  assert (T : lz 0 (rows_plan BATCH items 0 ++ [MWrite (ok_or_eof s 0) (sz_final sz) false; MDrain])).
  { apply lz_rows. apply lz_write_other; [apply rowpkt_term|]. apply lz_drain. apply lz_nil. }
  destruct (deprecate_eof s); cbn [app]; [exact T|apply lz_write_other; [reflexivity|exact T]].
Qed.

Lemma lz_exec_plan s id cursor sz items : lz 0 (exec_plan BATCH s id cursor sz items).
Proof.
  unfold exec_plan. apply lz_write_other; [reflexivity|]. apply lz_coldefs. destruct cursor.
  - apply lz_setcursor. apply lz_write_other; [apply rowpkt_term|apply lz_nil].
  - assert (T : lz 0 (bin_rows_plan BATCH items 0 ++ [MWrite (ok_or_eof s 0) (sz_final sz) true])).
    { apply lz_bin_rows. apply lz_write_other; [apply rowpkt_term|apply lz_nil]. }
    destruct (deprecate_eof s); cbn [app]; [exact T|apply lz_write_other; [reflexivity|exact T]].
Qed.

Lemma lz_continuation s q o : q <> QFieldList -> lz 0 (continuation BATCH s q o ++ []).
Proof.
  intros Hq. rewrite app_nil_r. destruct q as [|id cur|]; [| |congruence]; destruct o as [|sz items|m|]; cbn [continuation];
    try (apply lz_write_other; [reflexivity|apply lz_nil]).
  - apply lz_text_plan.
  - apply lz_exec_plan.
Qed.

Lemma lz_fetch : forall fuel id items j c want i0 rest, lz 0 rest ->
  lz 0 (fst (fetch_plan BATCH fuel id items j c want i0) ++ rest).
Proof.
  induction fuel as [|f IH]; intros id items j c want i0 rest Hr; cbn [fetch_plan]; destruct (want <=? c); cbn [fst app]; auto.
  destruct items as [|[sz| |m] r]; cbn [fst app]; auto.
  - specialize (IH id r (j + 1) (c + 1) want i0 rest Hr).
    destruct (fetch_plan BATCH f id r (j + 1) (c + 1) want i0) as [k c']. cbn [fst] in *.
    cbn [app]. apply lz_curpull. rewrite <- !app_assoc.
    destruct (negb (j =? 0) && (j mod BATCH =? 0)); cbn [app]; [apply lz_sleep|];
    (destruct (negb (c =? 0) && (c mod BATCH =? 0)); cbn [app]; [apply lz_sleep|]; apply lz_write_row; exact IH).
  - specialize (IH id r j c want i0 rest Hr). destruct (fetch_plan BATCH f id r j c want i0) as [k c']. cbn [fst app] in *.
    apply lz_rowwait. exact IH.
  - cbn [app]. apply lz_raise.
Qed.

Lemma lz_auth_plan d : lz 0 (auth_plan d true ++ []).
Proof.
  rewrite app_nil_r. destruct d; cbn [auth_plan];
    repeat first [apply lz_nil | apply lz_raise | apply lz_authed | apply lz_read | apply lz_enter
                 | apply lz_write_other; [reflexivity|] | apply lz_app; [reflexivity|]].
Qed.

Definition no_fieldlist (c : cmd) : Prop := match c with CFieldList => False | _ => True end.

Lemma handler_lz s c : no_fieldlist c -> lz 0 (snd (handler BATCH s c)).
Proof.
  intros Hc. destruct c; cbn [handler no_fieldlist] in *; try contradiction; cbn [snd];
    try (repeat first [apply lz_nil | apply lz_raise | apply lz_quit | apply lz_drop | apply lz_clear | apply lz_enter
                      | apply lz_write_other; [reflexivity|] | apply lz_app; [reflexivity|]]; fail).
  - (* CQuery *) apply lz_app_cont; [discriminate|]. intros o _ _. apply lz_continuation. discriminate.
  - (* CPrepare *) apply lz_write_other; [reflexivity|].
    destruct (0 <? nparams); cbn [app]; [|apply lz_drain; apply lz_nil].
    rewrite <- app_assoc. apply lz_coldefs. destruct (deprecate_eof s); cbn [app]; [|apply lz_write_other; [reflexivity|]]; apply lz_drain; apply lz_nil.
  - (* CExecute *) destruct (find_stmt id (stmts s)); cbn [snd]; [|apply lz_raise].
    apply lz_app_cont; [discriminate|]. intros o _ _. apply lz_continuation. discriminate.
  - (* CFetch *) destruct (find_stmt id (stmts s)) as [v|]; cbn [snd]; [|apply lz_raise].
    destruct (st_cursor v) as [items|]; cbn [snd]; [|apply lz_raise].
    pose proof (lz_fetch (S (length items)) id items (st_inner v) 0 n (st_inner v)) as W.
    destruct (fetch_plan BATCH (S (length items)) id items (st_inner v) 0 n (st_inner v)) as [k c]. cbn [fst snd] in *.
    apply W. apply lz_drain. apply lz_write_other; [apply rowpkt_term|apply lz_nil].
  - (* CReset *) destruct (find_stmt id (stmts s)); cbn [snd]; [|apply lz_raise].
    apply lz_clear. apply lz_app; [reflexivity|]. apply lz_write_other; [reflexivity|apply lz_nil].
Qed.

Lemma lz_le1 n k : lz n k -> n <= 1.
Proof. induction 1; lia. Qed.

(* ---- the counters under one write / one drain ------------------------------------------------------------------------------- *)
Lemma count_rows_snoc b q p z : count_rows (b ++ [(q, p, z)]) = count_rows b + (if is_rowpkt p then 1 else 0).
Proof. rewrite count_rows_app. unfold count_rows at 2. cbn [filter snd fst]. destruct (is_rowpkt p); reflexivity. Qed.

Lemma write_counts s p z d : dead s = false ->
  match exec_op B s (MWrite p z d) with
  | ActNext s' _ | ActSuspend s' WDrain None _ =>
      pulled s' = pulled s /\ handed s' + count_rows (buf s') = handed s + count_rows (buf s) + (if is_rowpkt p then 1 else 0) /\ bbound s'
  | _ => False
  end.
Proof.
  intros Hd. cbn [exec_op].
  set (s1 := set_seq (set_buf s (buf s ++ [(seq s, p, z)]) (handed s)) ((seq s + 1) mod 256)).
  assert (C1 : count_rows (buf s1) = count_rows (buf s) + (if is_rowpkt p then 1 else 0)) by (unfold s1; cbn [buf set_seq set_buf]; apply count_rows_snoc).
  destruct (d || (B <=? buf_bytes (buf s1))) eqn:Ed.
  - unfold do_drain, flush. destruct (buf s1) as [|e b] eqn:Eb.
    { exfalso. unfold s1 in Eb. cbn in Eb. destruct (buf s); discriminate. }
    cbn [dead set_buf]. change (dead s1) with (dead s). rewrite Hd. cbn [paused set_buf].
    assert (Z : count_rows (@nil (N * pkt * N)) = 0) by reflexivity.
    destruct (paused s1); cbn [pulled handed buf set_buf]; (split; [reflexivity|split; [|now right]]);
      rewrite Z, C1; change (handed s1) with (handed s); lia.
  - apply orb_false_iff in Ed. destruct Ed as [_ Ed]. apply N.leb_gt in Ed.
    split; [reflexivity|]. split; [change (handed s1) with (handed s); rewrite C1; lia|now left].
Qed.

Lemma drain_counts s : dead s = false ->
  match do_drain s with
  | ActNext s' _ | ActSuspend s' WDrain None _ =>
      pulled s' = pulled s /\ handed s' + count_rows (buf s') = handed s + count_rows (buf s) /\ bbound s'
  | _ => False
  end.
Proof.
  intros Hd. unfold do_drain, flush. destruct (buf s) as [|e b] eqn:Eb.
  - rewrite Hd. destruct (paused s); (split; [reflexivity|split; [now rewrite Eb|right; exact Eb]]).
  - cbn [dead set_buf]. rewrite Hd. cbn [paused set_buf].
    assert (Z : count_rows (@nil (N * pkt * N)) = 0) by reflexivity.
    destruct (paused s); cbn [pulled handed buf set_buf]; (split; [reflexivity|split; [|now right]]); rewrite Z; lia.
Qed.

(* ---- the invariant: C03's, together with the accounting --------------------------------------------------------------------------- *)
Section LInv.
Variable rk : rkind.
Notation Qr0 := (Qr BATCH dep rk).
Notation Qs0 := (Qs BATCH dep rk).
Notation R0 := (R dep rk).
Notation mstep := (mstep dep rk).
Notation mrun := (mrun mon mstep).

Definition lzk (k : plan) : Prop :=
  match k with
  | MCont q :: k' => q <> QFieldList /\ forall o, out_ok o -> is_raise o = false -> lz 0 (continuation BATCH (sd dep) q o ++ k')
  | _ => lz 0 k
  end.

Definition Lr (k : plan) (f : frame) (s : st) : Prop :=
  match f with
  | FHandler | FChangeUser => bbound s /\ exists n, acct s n /\ lz n k
  | FClose _ => True
  | _ => bbound s /\ acct s 0
  end.

Definition Ls (w : why) (k : plan) (f : frame) (s : st) : Prop :=
  match f with
  | FHandler | FChangeUser =>
      bbound s /\
      match w with
      | WApp SGetUser => acct s 0
      | WApp _ => acct s 0 /\ lzk k
      | WRead => acct s 0
      | _ => exists n, acct s n /\ lz n k
      end
  | FClose _ => True
  | _ => bbound s /\ acct s 0
  end.

Definition Lx (f : frame) (s : st) : Prop := match f with FClose _ => True | _ => bbound s /\ acct s 0 end.

Definition Qr' m k f s := Qr0 m k f s /\ Lr k f s.
Definition Qs' m w k f s := Qs0 m w k f s /\ Ls w k f s.
Definition R' m x f s := R0 m x f s /\ Lx f s.

(* facts of C03's invariant that the accounting needs *)
Lemma QH_alive m k s : QH BATCH dep rk m k s -> dead s = false /\ eof s = false /\ kill s = None /\ deprecate_eof s = dep.
Proof. intros [C _]. repeat split; apply C. Qed.

Lemma acct_same s s' n : pulled s' = pulled s -> handed s' = handed s -> buf s' = buf s -> acct s n -> acct s' n.
Proof. unfold acct. intros -> -> ->. auto. Qed.
Lemma bb_same s s' : buf s' = buf s -> bbound s -> bbound s'.
Proof. unfold bbound. intros ->. auto. Qed.

Lemma kc_acct s ic n : acct s n -> acct (kill_cursor s ic) n.
Proof. intros H. unfold kill_cursor. destruct ic as [id|]; [|exact H]. destruct (find_stmt id (stmts s)); exact H. Qed.
Lemma kc_bb s ic : bbound s -> bbound (kill_cursor s ic).
Proof. intros H. unfold kill_cursor. destruct ic as [id|]; [|exact H]. destruct (find_stmt id (stmts s)); exact H. Qed.

(* one micro-operation inside a handler *)
Lemma lazy_opH s op k f : f = FHandler \/ f = FChangeUser -> dead s = false -> eof s = false ->
  bbound s -> (exists n, acct s n /\ lz n (op :: k)) ->
  match exec_op B s op with
  | ActNext s' _ => Lr k f s'
  | ActSuspend s' w _ _ => Ls w k f s'
  | ActRaise s' _ ic _ => Lx f (kill_cursor s' ic)
  | ActQuit _ => True
  | ActEnter s' f' => is_handler f' = true -> Lr k f' s'
  end.
Proof.
  intros Hf Hd He Hb (n & A & Z).
  assert (LrH : forall s' n', bbound s' -> acct s' n' -> lz n' k -> Lr k f s') by (intros s' n' H1 H2 H3; destruct Hf as [-> | ->]; cbn [Lr]; eauto).
  assert (LsH : forall s' w n', (match w with WDrain | WSleep | WRow => True | _ => False end) -> bbound s' -> acct s' n' -> lz n' k -> Ls w k f s')
    by (intros s' w n' Hw H1 H2 H3; destruct Hf as [-> | ->]; cbn [Ls]; (split; [exact H1|]); destruct w; try contradiction; eauto).
  assert (LxH : forall s', bbound s' -> acct s' 0 -> Lx f s') by (intros s' H1 H2; destruct Hf as [-> | ->]; cbn [Lx]; auto).
  inversion Z as [ | k0 Z1 | id k0 Z1 | i z d k0 Z1 | n0 p z d k0 Hp Z1 | c q k0 Hq Z1 | c k0 Hc Z1 | x ic k0
                 | n0 k0 Z1 | n0 ic k0 Z1 | n0 ic k0 Z1 | n0 id items k0 Z1 | n0 id c k0 Z1 | n0 id k0 Z1 | n0 k0 Z1 | k0 Z1 | f' k0 Z1 | k0 ]; subst.
  - (* MPull *) cbn [exec_op]. apply (LrH _ 1); [exact Hb| |exact Z1]. unfold acct in *. cbn [pulled handed buf inc_pulled]. lia.
  - (* MCurPull *) cbn [exec_op]. unfold cur_pull.
    destruct (find_stmt id (stmts s)); (apply (LrH _ 1); [exact Hb| |exact Z1]; unfold acct in *; cbn [pulled handed buf inc_pulled set_stmts]; lia).
  - (* MWrite row *)
    pose proof (write_counts s (PRow i) z d Hd) as W. cbn [is_rowpkt] in W.
    destruct (exec_op B s (MWrite (PRow i) z d)) as [s' o|s' w ic o|s' x ic o|s'|s' f']; try contradiction.
    + destruct W as (W1 & W2 & W3). apply (LrH _ 0); [exact W3| |exact Z1]. unfold acct in *. lia.
    + destruct w; try contradiction. destruct ic; try contradiction. destruct W as (W1 & W2 & W3).
      apply (LsH _ _ 0); [exact I|exact W3| |exact Z1]. unfold acct in *. lia.
  - (* MWrite other *)
    pose proof (write_counts s p z d Hd) as W. rewrite Hp in W.
    destruct (exec_op B s (MWrite p z d)) as [s' o|s' w ic o|s' x ic o|s'|s' f']; try contradiction.
    + destruct W as (W1 & W2 & W3). apply (LrH _ n); [exact W3| |exact Z1]. unfold acct in *. lia.
    + destruct w; try contradiction. destruct ic; try contradiction. destruct W as (W1 & W2 & W3).
      apply (LsH _ _ n); [exact I|exact W3| |exact Z1]. unfold acct in *. lia.
  - (* MApp; MCont *) cbn [exec_op]. destruct Hf as [-> | ->]; cbn [Ls]; (split; [exact Hb|]); destruct c; auto; (split; [exact A|cbn [lzk]; auto]).
  - (* MApp *) cbn [exec_op].
    assert (K : lzk k) by (destruct k as [|op0 k1]; [exact Z1|destruct op0; try discriminate Hc; exact Z1]).
    destruct Hf as [-> | ->]; cbn [Ls]; (split; [exact Hb|]); destruct c; auto.
  - (* MRaise *) cbn [exec_op]. apply LxH; [now apply kc_bb|now apply kc_acct].
  - (* MDrain *)
    cbn [exec_op]. pose proof (drain_counts s Hd) as W.
    destruct (do_drain s) as [s' o|s' w ic o|s' x ic o|s'|s' f']; try contradiction.
    + destruct W as (W1 & W2 & W3). apply (LrH _ n); [exact W3| |exact Z1]. unfold acct in *. lia.
    + destruct w; try contradiction. destruct ic; try contradiction. destruct W as (W1 & W2 & W3).
      apply (LsH _ _ n); [exact I|exact W3| |exact Z1]. unfold acct in *. lia.
  - (* MSleep *) cbn [exec_op]. apply (LsH _ _ n); auto.
  - (* MRowWait *) cbn [exec_op]. unfold cur_skip_suspend.
    destruct ic as [id|]; [destruct (find_stmt id (stmts s))|]; (apply (LsH _ _ n); auto).
  - (* MSetCursor *) cbn [exec_op]. apply (LrH _ n); auto.
  - (* MClearStmt *) cbn [exec_op]. apply (LrH _ n); auto.
  - (* MDropStmt *) cbn [exec_op]. apply (LrH _ n); auto.
  - (* MAuthed *) cbn [exec_op]. apply (LrH _ n); auto.
  - (* MRead *) cbn [exec_op]. rewrite He. destruct Hf as [-> | ->]; cbn [Ls]; auto.
  - (* MEnter *) cbn [exec_op]. intros Hh. destruct f'; try discriminate Hh; cbn [Lr]; eauto.
  - (* MQuit *) cbn [exec_op]. exact I.
Qed.

Lemma op_ok' m s op k f : Qr' m (op :: k) f s ->
  match exec_op B s op with
  | ActNext s' o => Qr' (mrun m o) k f s'
  | ActSuspend s' w ic o => Qs' (mrun m o) w k f s'
  | ActRaise s' x ic o => R' (mrun m o) x f (kill_cursor s' ic)
  | ActQuit s' => Qweak m s' /\ (f = FHandler -> Qr' m [MApp SClose] (FClose false) (inc_closes (set_seq (set_exec s' false) 0)))
  | ActEnter s' f' => Qweak m s' /\ (is_handler f = true -> is_handler f' = true -> Qr' m k f' s')
  end.
Proof.
  intros [H0 HL]. pose proof (op_ok3 B BATCH dep rk m s op k f H0) as O.
  destruct f as [| | | | | |wk| |re]; cbn [Qr] in H0; try contradiction.
  - destruct H0 as [H0 _]. discriminate H0.
  - (* FHandler *)
    destruct (QH_alive m _ s H0) as (A1 & A2 & _). cbn [Lr] in HL. destruct HL as [Hb HL].
    pose proof (lazy_opH s op k FHandler (or_introl eq_refl) A1 A2 Hb HL) as L.
    destruct (exec_op B s op) as [s' o|s' w ic o|s' x ic o|s'|s' f']; try (split; assumption).
    + destruct O as [O1 O2]. split; [exact O1|]. intros E. split; [now apply O2|exact I].
    + destruct O as [O1 O2]. split; [exact O1|]. intros E1 E2. split; [now apply O2|now apply L].
  - (* FChangeUser *)
    destruct (QH_alive m _ s H0) as (A1 & A2 & _). cbn [Lr] in HL. destruct HL as [Hb HL].
    pose proof (lazy_opH s op k FChangeUser (or_intror eq_refl) A1 A2 Hb HL) as L.
    destruct (exec_op B s op) as [s' o|s' w ic o|s' x ic o|s'|s' f']; try (split; assumption).
    + destruct O as [O1 O2]. split; [exact O1|]. intros E. discriminate E.
    + destruct O as [O1 O2]. split; [exact O1|]. intros E1 E2. split; [now apply O2|now apply L].
  - (* FChangeUserReset: the plan is [MApp SReset] *)
    destruct H0 as (C & Hbuf & Hacc & [Hk|Hk]); [|discriminate Hk]. inversion Hk; subst. cbn [exec_op] in *. split; [exact O|]. exact HL.
  - (* FHandlerErr: the plan is the ERR write *)
    destruct wk; [contradiction|]. destruct H0 as [C [[Hk _]|[c [Hk Hcf]]]]; [discriminate Hk|]. inversion Hk; subst.
    assert (Hd : dead s = false) by apply C. cbn [Lr] in HL. destruct HL as [Hb A].
    pose proof (write_counts s (PErr c) SZ_ERR true Hd) as W. cbn [is_rowpkt] in W.
    destruct (exec_op B s (MWrite (PErr c) SZ_ERR true)) as [s' o|s' w ic o|s' x ic o|s'|s' f']; try contradiction.
    + destruct W as (W1 & W2 & W3). split; [exact O|]. cbn [Lr]. split; [exact W3|]. unfold acct in *. lia.
    + destruct w; try contradiction. destruct ic; try contradiction. destruct W as (W1 & W2 & W3).
      split; [exact O|]. cbn [Ls]. split; [exact W3|]. unfold acct in *. lia.
  - (* FClose *)
    destruct H0 as [Hnb [Hk|Hk]]; [|discriminate Hk]. inversion Hk; subst. cbn [exec_op] in *. split; [exact O|exact I].
Qed.

Lemma throw_ok' m s x f : R' m x f s ->
  match throw s x f with
  | Continue s' k' f' => Qr' m k' f' s'
  | ToClose s' re => Qr' m [MApp SClose] (FClose re) (inc_closes s')
  | Finished s' _ => Qdone m s'
  end.
Proof.
  intros [H0 HL]. pose proof (throw_ok3 BATCH dep rk m s x f H0) as T.
  destruct f as [| | | | | |wk| |re]; cbn [R] in H0; try contradiction; cbn [Lx] in HL.
  - (* FHandler *)
    destruct H0 as (C & Hx & _). assert (K : kill s = None) by apply C. destruct HL as [Hb A].
    cbn [throw] in *. cbn [kill set_exec] in *. rewrite K in *.
    destruct x as [|c| | |]; try congruence; (split; [exact T|]); cbn [Lr]; auto.
  - (* FChangeUser *)
    destruct H0 as (C & Hx & _). assert (K : kill s = None) by apply C. destruct HL as [Hb A].
    cbn [throw] in *. rewrite K in *.
    destruct x as [|c| | |]; try congruence; (split; [exact T|]); cbn [Lr]; auto;
      (split; [exact Hb|]; exists 0; split; [exact A|]; apply lz_write_other; [reflexivity|apply lz_raise]).
  - (* FChangeUserReset *)
    destruct H0 as (C & Hx). assert (K : kill s = None) by apply C.
    cbn [throw] in *. rewrite K in *. destruct x as [|c| | |]; try congruence; (split; [exact T|exact I]).
  - (* FClose *) exact T.
Qed.

Lemma end_ok' m s f : Qr' m [] f s ->
  match end_plan BATCH s f with
  | EFinish s' _ => Qdone m s'
  | EGo s' k' f' => Qr' m k' f' s'
  | ESuspRead s' => Qs' m WRead [] f s'
  | ERaise s' x => R' m x f s'
  end.
Proof.
  intros [H0 HL]. pose proof (end_ok3 BATCH dep rk m s f H0) as E.
  destruct f as [| | | | | |wk| |re]; cbn [Qr] in H0; try contradiction; cbn [Lr] in HL.
  - (* FRead *)
    destruct H0 as (_ & Q & _). assert (I1 : inq s = []) by apply Q. assert (I2 : eof s = false) by apply Q.
    cbn [end_plan] in *. rewrite I1, I2 in *. split; [exact E|exact HL].
  - (* FHandler *)
    destruct HL as (Hb & n & A & Z). inversion Z; subst. cbn [end_plan] in *. split; [exact E|]. cbn [Lr]. split; [exact Hb|exact A].
  - destruct HL as (Hb & n & A & Z). inversion Z; subst. cbn [end_plan] in *. split; [exact E|]. cbn [Lr]. split; [exact Hb|exact A].
  - cbn [end_plan] in *. split; [exact E|exact HL].
  - destruct wk; [contradiction|]. cbn [end_plan] in *. split; [exact E|exact HL].
  - cbn [end_plan] in *. exact E.
Qed.

Lemma Qs_ctl' m w k f s c : Qs' m w k f s -> Qs' m w k f (upd_ctl s c).
Proof. intros H. exact H. Qed.
Lemma Qr_weak' m k f s : Qr' m k f s -> Qweak m s.
Proof. intros [H _]. exact (Qr_weak BATCH dep rk m k f s H). Qed.

Definition run_ok' := run_ok3 B BATCH mon mstep Qr' Qs' R' Qdone Qweak Qs_ctl' (fun m s c H => H) (fun m s c H => H) Qr_weak' op_ok' throw_ok' end_ok'
  (fun m exc => eq_refl) (fun m => eq_refl) (fun m => eq_refl).
Definition go_ok' := go_ok3 B BATCH mon mstep Qr' Qs' R' Qdone Qweak Qs_ctl' (fun m s c H => H) (fun m s c H => H) Qr_weak' op_ok' throw_ok' end_ok'
  (fun m exc => eq_refl) (fun m => eq_refl) (fun m => eq_refl).
Definition raise_at_ok' := raise_at_ok3 B BATCH mon mstep Qr' Qs' R' Qdone Qweak Qs_ctl' (fun m s c H => H) (fun m s c H => H) Qr_weak' op_ok' throw_ok' end_ok'
  (fun m exc => eq_refl) (fun m => eq_refl) (fun m => eq_refl).

Notation good' := (good3 mon Qs' Qdone Qweak).
Notation ok' := (ok3 mon mstep Qs' Qdone Qweak).

Lemma Ls_to_Lr w k f s : w = WDrain \/ w = WSleep \/ w = WRow -> Ls w k f s -> Lr k f s.
Proof. intros Hw H. destruct f; cbn [Ls Lr] in *; auto; destruct Hw as [-> | [-> | ->]]; exact H. Qed.

Lemma step_ok' m s e : allowed e -> good' m s -> ok' m (step B BATCH s e).
Proof.
  intros Ha G. pose proof G as G00. unfold good3 in G. destruct (ctl_ s) as [w k f ic| |] eqn:Ec.
  2,3: (unfold step; rewrite Ec; exact G00).
  destruct G as [G0 GL].
  pose proof (step_cases B BATCH dep rk m s e w k f ic Ha Ec G0) as SC.
  remember (step B BATCH s e) as r eqn:Er. clear Er.
  destruct SC as [ | b | s' Hs Hw Q | d s' Hf Hk Hs Q | c o Hw Hc Ho Hr Q | c x Hw Hc Hx1 Hx2 RR ].
  - exact G00.
  - unfold ok3, good3. cbn [fst snd ctl_ set_paused]. rewrite Ec. split; [exact G0|exact GL].
  - apply go_ok'. split; [exact Q|]. destruct Hs as [-> | ->]; exact (Ls_to_Lr w k f s Hw GL).
  - apply go_ok'. split; [exact Q|]. subst k.
    assert (A : bbound s /\ acct s 0).
    { destruct Hf as [-> | ->]; cbn [Ls] in GL; destruct GL as [Hb GL]; (destruct Hs as [[_ ->]|[_ ->]]; auto). }
    destruct A as [Hb A].
    assert (L : bbound s' /\ exists n, acct s' n /\ lz n (auth_plan d true ++ [])).
    { destruct Hs as [[-> _]|[-> _]]; (split; [exact Hb|]; exists 0; split; [exact A|apply lz_auth_plan]). }
    destruct Hf as [-> | ->]; exact L.
  - subst w.
    assert (L : Lr (match k with MCont q :: k1 => continuation BATCH s q o ++ k1 | _ => k end) f s).
    { destruct f as [| | | | | |wk| |re]; cbn [Ls Lr] in *; auto.
      - destruct GL as [Hb GL]. split; [exact Hb|]. exists 0.
        assert (D : deprecate_eof s = dep) by (cbn [Qs] in G0; destruct c; try congruence; apply G0).
        destruct c; try congruence; destruct GL as [A K]; (split; [exact A|]);
          (destruct k as [|op0 k1]; [exact K|]; destruct op0; try exact K; cbn [lzk] in K; destruct K as [_ K];
           match goal with |- lz 0 (continuation BATCH s ?q0 o ++ _) => rewrite (continuation_dep BATCH dep s q0 o D) end; now apply K).
      - destruct GL as [Hb GL]. split; [exact Hb|]. exists 0.
        assert (D : deprecate_eof s = dep) by (cbn [Qs] in G0; destruct c; try congruence; apply G0).
        destruct c; try congruence; destruct GL as [A K]; (split; [exact A|]);
          (destruct k as [|op0 k1]; [exact K|]; destruct op0; try exact K; cbn [lzk] in K; destruct K as [_ K];
           match goal with |- lz 0 (continuation BATCH s ?q0 o ++ _) => rewrite (continuation_dep BATCH dep s q0 o D) end; now apply K). }
    destruct k as [|op0 k1]; [apply go_ok'; now split|]. destruct op0; apply go_ok'; now split.
  - subst w. apply raise_at_ok'. cbn [kill_cursor]. split; [exact RR|].
    destruct f as [| | | | | |wk| |re]; cbn [Ls Lx] in *; auto; destruct GL as [Hb GL]; (split; [exact Hb|]); destruct c; try congruence; apply GL.
Qed.

Definition exec_ok' := exec_ok3 B BATCH mon mstep Qs' Qdone Qweak allowed step_ok'.

Lemma handler_counts s c : pulled (fst (handler BATCH s c)) = pulled s /\ handed (fst (handler BATCH s c)) = handed s.
Proof.
  destruct c; cbn [handler]; auto.
  - destruct (find_stmt id (stmts s)); auto.
  - destruct (find_stmt id (stmts s)) as [v|]; [|auto]. destruct (st_cursor v) as [items|]; [|auto].
    destruct (fetch_plan BATCH (S (length items)) id items (st_inner v) 0 n (st_inner v)). auto.
  - destruct (find_stmt id (stmts s)); auto.
Qed.

Lemma round_start' c s ic : rk = rkind_of c -> cmd_ok c -> no_fieldlist c -> quiescent dep s -> ctl_ s = Susp WRead [] FRead ic ->
  acct s 0 -> ok' m0 (step B BATCH s (EvPayload c)).
Proof.
  intros Hrk Hc Hn Q P A. destruct (step_payload_prompt B BATCH dep c s ic Q P) as [n ->]. apply run_ok'.
  split; [now apply dispatch_Qr|].
  pose proof (handler_counts (set_exec (set_seq (set_inq (set_inq s [c]) []) ((seq (set_inq s [c]) + 1) mod 256)) true) c) as HC.
  pose proof (handler_fields BATCH (set_exec (set_seq (set_inq (set_inq s [c]) []) ((seq (set_inq s [c]) + 1) mod 256)) true) c) as HF.
  pose proof (handler_lz (set_exec (set_seq (set_inq (set_inq s [c]) []) ((seq (set_inq s [c]) + 1) mod 256)) true) c Hn) as HZ.
  destruct (handler BATCH (set_exec (set_seq (set_inq (set_inq s [c]) []) ((seq (set_inq s [c]) + 1) mod 256)) true) c) as [s2 k2].
  cbn [fst snd pulled handed buf set_exec set_seq set_inq] in *. destruct HC as [C1 C2]. destruct HF as (_ & _ & _ & _ & _ & _ & _ & F8).
  assert (Hb : buf s = []) by apply Q.
  cbn [Lr]. split; [right; congruence|]. exists 0. split; [|exact HZ]. unfold acct in *. rewrite C1, C2, F8. exact A.
Qed.

(* the verdict at a suspended state that is not closing: at most one row in flight, the buffer below its limit *)
Lemma good_lazy m s : good' m s ->
  match ctl_ s with
  | Susp w k (FClose _) _ => True
  | Susp w k f _ => bbound s /\ exists n, n <= 1 /\ acct s n
  | _ => True
  end.
Proof.
  unfold good3. destruct (ctl_ s) as [w k f ic| |]; auto. intros [_ L].
  destruct f as [| | | | | |wk| |re]; cbn [Ls] in L; auto.
  1,2,3,6,7,8: (destruct L as [Hb A]; split; [exact Hb|]; exists 0; split; [lia|exact A]).
  all: destruct L as [Hb L]; (split; [exact Hb|]); destruct w.
  all: try (destruct L as (n & A & Z); exists n; split; [now apply lz_le1 in Z|exact A]).
  all: try (exists 0; split; [lia|exact L]).
  all: destruct c; exists 0; (split; [lia|]); first [exact L | apply L].
Qed.
End LInv.

(* ---- whole conversations ------------------------------------------------------------------------------------------------------ *)
Definition lazy_state (s : st) : Prop :=
  match ctl_ s with
  | Susp _ _ (FClose _) _ => True
  | Susp _ _ _ _ => bbound s /\ pulled s <= base + handed s + count_rows (buf s) + 1
  | _ => True
  end.

Fixpoint lazy_rounds (s : st) (rounds : list (cmd * list ev)) : Prop :=
  match rounds with
  | [] => True
  | (c, evs) :: rest =>
      let r := exec B BATCH s (EvPayload c :: evs) in
      lazy_state (fst r) /\ (at_prompt (fst r) -> acct (fst r) 0 /\ lazy_rounds (fst r) rest)
  end.

Theorem lazy_lockstep : forall rounds s, quiescent dep s -> at_prompt s -> acct s 0 ->
  Forall (fun r => cmd_ok (fst r) /\ no_fieldlist (fst r) /\ Forall allowed (snd r)) rounds -> lazy_rounds s rounds.
Proof.
  induction rounds as [|[c evs] rest IH]; intros s Q P A Hall; [exact I|].
  inversion Hall as [|? ? (Hc & Hn & Ha) Hrest]; subst. cbn [fst snd] in *. cbn [lazy_rounds].
  pose proof (round_start' (rkind_of c) c s None eq_refl Hc Hn Q P A) as S1. unfold ok3 in S1.
  cbn [exec]. destruct (step B BATCH s (EvPayload c)) as [s1 o1]. cbn [fst snd] in S1.
  pose proof (exec_ok' (rkind_of c) evs _ s1 Ha S1) as S2. destruct (exec B BATCH s1 evs) as [s2 o2]. unfold ok3 in S2. cbn [fst snd] in *.
  pose proof (good_lazy (rkind_of c) _ s2 S2) as GL.
  split.
  - unfold lazy_state. destruct (ctl_ s2) as [w k f ic| |]; auto.
    destruct f; auto; destruct GL as (Hb & n & Hn1 & An); (split; [exact Hb|]); unfold acct in An; lia.
  - intros P'. unfold good3 in S2. unfold at_prompt in P'. rewrite P' in S2. destruct S2 as [S20 S2L].
    cbn [Qs] in S20. cbn [Ls] in S2L. destruct S20 as (_ & Q' & _). destruct S2L as [_ A'].
    split; [exact A'|]. now apply IH.
Qed.

(* in bytes: every buffered packet takes at least its 4-byte header *)
Lemma fold_bytes_ge (b : list (N * pkt * N)) : forall a, a + 4 * len b <= fold_left (fun a e => a + 4 + snd e) b a.
Proof.
  induction b as [|e b IH]; intros a; cbn [fold_left]; [unfold len; cbn; lia|]. rewrite len_cons. specialize (IH (a + 4 + snd e)). lia.
Qed.

Lemma filter_le {A} (f : A -> bool) (l : list A) : (length (filter f l) <= length l)%nat.
Proof. induction l as [|x l IH]; cbn [filter length]; [lia|]. destruct (f x); cbn [length]; lia. Qed.

Lemma rows_bytes (b : list (N * pkt * N)) : 4 * count_rows b <= buf_bytes b.
Proof.
  unfold count_rows, buf_bytes. pose proof (fold_bytes_ge b 0) as H.
  assert (L : len (filter (fun e => is_rowpkt (snd (fst e))) b) <= len b).
  { unfold len. pose proof (filter_le (fun e : N * pkt * N => is_rowpkt (snd (fst e))) b). lia. }
  lia.
Qed.

Corollary lazy_state_bytes s : lazy_state s ->
  match ctl_ s with
  | Susp _ _ (FClose _) _ => True
  | Susp _ _ _ _ => 4 * pulled s <= 4 * (base + handed s) + B + 4
  | _ => True
  end.
Proof.
  unfold lazy_state. destruct (ctl_ s) as [w k f ic| |]; auto.
  assert (G : bbound s /\ pulled s <= base + handed s + count_rows (buf s) + 1 -> 4 * pulled s <= 4 * (base + handed s) + B + 4).
  { intros [[Hb|Hb] H]; pose proof (rows_bytes (buf s)) as R; [lia|].
    rewrite Hb in H. assert (Z : count_rows (@nil (N * pkt * N)) = 0) by reflexivity. rewrite Z in H. lia. }
  destruct f; auto.
Qed.
End Lazy.
