(* Proofs/RouteProofs.v - the middleware chain computes the routing specification (C13). *)
From Coq Require Import List NArith Bool String Lia Sorted.
From MM Require Import Model.Vars Model.Route.
Import ListNotations.
Open Scope N_scope.

Definition expected_names : list string :=
  ["_set_var_middleware"; "_replace_variables_middleware"; "_set_middleware"; "_static_query_middleware"; "_use_middleware";
   "_kill_middleware"; "_show_middleware"; "_describe_middleware"; "_begin_middleware"; "_commit_middleware";
   "_rollback_middleware"; "_info_schema_middleware"]%string.

Section Route.
Variable catalog_dbs : list str.
Notation route := (route catalog_dbs expected_names).
Notation handle := (handle catalog_dbs expected_names).
Notation handle_query := (handle_query catalog_dbs expected_names).
Notation reaches_app := (reaches_app catalog_dbs).
Notation spec_calls := (spec_calls catalog_dbs).
Notation catalog_only := (catalog_only catalog_dbs).
Notation cstep := (cstep catalog_dbs expected_names).

(* the chain, statement by statement: a built-in kind is answered by its interceptor, a statement reading only catalog
   databases by the catalog executor, everything else reaches the application; only USE changes the default database *)
Theorem route_char s se :
  route s se = (if reaches_app s (database se) then App else Library, mk_sess (db_after s (database se))).
Proof.
  destruct se as [db]. destruct s as [k d]. unfold Model.Route.reaches_app, Model.Route.route.
  destruct k as [| u | | | | | | | | [|] | |]; cbn [kind builtin negb andb db_after database];
    try (vm_compute; reflexivity).
  all: unfold Model.Route.chain, mw_of_name; cbn [String.eqb Ascii.eqb Bool.eqb expected_names];
       unfold pass, mw_set, mw_static, mw_use, mw_kill, mw_show, mw_describe, mw_begin, mw_commit, mw_rollback, mw_info_schema, on_kind;
       cbn [kind]; destruct (Model.Route.catalog_only catalog_dbs _ _); reflexivity.
Qed.

Lemma app_keeps_db s db : reaches_app s db = true -> db_after s db = db.
Proof.
  unfold Model.Route.reaches_app, db_after. intros H. apply andb_true_iff in H. destruct H as [H _].
  destruct (kind s); try reflexivity. discriminate.
Qed.

Lemma sess_eta se : mk_sess (database se) = se. Proof. destruct se; reflexivity. Qed.

Theorem handle_spec : forall stmts i se calls res,
  handle stmts i se calls res =
  (mk_sess (spec_db stmts (database se)), calls ++ spec_calls stmts i (database se),
   (fix go (l : list stmt) (i : nat) (db : option str) (res : result) : result :=
      match l with
      | [] => res
      | s :: r => go r (S i) (db_after s db) (if reaches_app s db then RApp i else RLibrary i)
      end) stmts i (database se) res).
Proof.
  induction stmts as [|s r IH]; intros i se calls res.
  - cbn. rewrite sess_eta, app_nil_r. reflexivity.
  - cbn [Model.Route.handle spec_db Model.Route.spec_calls]. rewrite route_char.
    destruct (reaches_app s (database se)) eqn:E.
    + rewrite IH. cbn [database]. rewrite (app_keeps_db _ _ E), <- app_assoc. reflexivity.
    + rewrite IH. cbn [database app]. reflexivity.
Qed.

(* for any SQL text: the application sees exactly the statements it must handle, once each, in textual order, with the
   default database selected before that statement; the client gets the result of the last statement *)
Theorem handle_query_spec stmts se :
  handle_query stmts se =
  (mk_sess (spec_db stmts (database se)), spec_calls stmts O (database se), spec_result catalog_dbs stmts (database se)).
Proof. unfold Model.Route.handle_query. rewrite handle_spec. reflexivity. Qed.

(* the calls are in textual order, each statement at most once *)
Lemma spec_calls_indices : forall stmts i db c, In c (spec_calls stmts i db) -> (i <= c_index c < i + List.length stmts)%nat.
Proof.
  induction stmts as [|s r IH]; intros i db c H; [contradiction|]. cbn [Model.Route.spec_calls] in H. apply in_app_or in H. destruct H as [H|H].
  - destruct (reaches_app s db); [|contradiction]. destruct H as [<-|[]]. cbn. lia.
  - apply IH in H. cbn [List.length]. lia.
Qed.
Theorem spec_calls_sorted : forall stmts i db, StronglySorted (fun a b => (c_index a < c_index b)%nat) (spec_calls stmts i db).
Proof.
  induction stmts as [|s r IH]; intros i db; [constructor|]. cbn [Model.Route.spec_calls].
  destruct (reaches_app s db); cbn [app]; [|apply IH]. constructor; [apply IH|].
  apply Forall_forall. intros c Hc. apply spec_calls_indices in Hc. cbn. lia.
Qed.

(* built-ins never reach the application, whatever the default database and whatever surrounds them *)
Theorem builtin_never_reaches_app stmts i db c : In c (spec_calls stmts i db) ->
  exists s, nth_error stmts (c_index c - i) = Some s /\ builtin (kind s) = false.
Proof.
  revert i db. induction stmts as [|s r IH]; intros i db H; [contradiction|]. cbn [Model.Route.spec_calls] in H. apply in_app_or in H. destruct H as [H|H].
  - destruct (reaches_app s db) eqn:E; [|contradiction]. destruct H as [<-|[]]. cbn [c_index]. replace (i - i)%nat with O by lia.
    exists s. split; [reflexivity|]. unfold Model.Route.reaches_app in E. apply andb_true_iff in E. destruct E as [E _]. now apply negb_true_iff in E.
  - pose proof (spec_calls_indices _ _ _ _ H) as B. destruct (IH _ _ H) as [s' [N1 N2]]. exists s'. split; [|exact N2].
    replace (c_index c - i)%nat with (S (c_index c - S i)) by lia. exact N1.
Qed.

(* the default database: after any history of handshake / COM_INIT_DB / USE / COM_CHANGE_USER / queries it is the one the
   client selected last *)
Theorem database_tracks_client : forall ops se,
  database (fold_left (fun s o => fst (cstep s o)) ops se) = fold_left client_db ops (database se).
Proof.
  induction ops as [|o r IH]; intros se; [reflexivity|]. cbn [fold_left]. rewrite IH. f_equal.
  destruct o as [d|d|d|stmts]; try reflexivity.
  unfold Model.Route.cstep. rewrite handle_query_spec. reflexivity.
Qed.
End Route.
