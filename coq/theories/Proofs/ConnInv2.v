(* Proofs/ConnInv2.v - a second invariant scheme for the connection machine: the invariant may talk about the
   REMAINING PLAN (not only frame and state), and every output of the machine is shown to satisfy a predicate.
   Used for statements of the form "in this part of the life cycle nothing of a certain kind is ever emitted". *)
From Coq Require Import List NArith Lia Bool.
From MM Require Import Lib.Bytes Model.Conn Proofs.C10Proofs.
Import ListNotations.
Open Scope N_scope.

Section Scheme2.
Variable B BATCH : N.
Notation run := (run B BATCH).
Notation go := (go B BATCH).
Notation raise_at := (raise_at B BATCH).

Variable Qr : plan -> frame -> st -> Prop.          (* the task is running with this plan left *)
Variable Qs : why -> plan -> frame -> st -> Prop.   (* the task is suspended (why), with this plan left *)
Variable R : exn -> frame -> st -> Prop.            (* an exception is about to be thrown in this frame *)
Variable Qdone : st -> Prop.
Variable Qweak : st -> Prop.
Variable O : out -> Prop.

Definition good2 (s : st) : Prop :=
  match ctl_ s with
  | Susp w k f _ => Qs w k f s
  | Done => Qdone s
  | Stuck => Qweak s
  end.

Hypothesis Qs_ctl : forall w k f s c, Qs w k f s -> Qs w k f (upd_ctl s c).
Hypothesis Qdone_ctl : forall s c, Qdone s -> Qdone (upd_ctl s c).
Hypothesis Qweak_ctl : forall s c, Qweak s -> Qweak (upd_ctl s c).
Hypothesis Qr_weak : forall k f s, Qr k f s -> Qweak s.
Hypothesis R_weak : forall x f s, R x f s -> Qweak s.

Hypothesis op_ok : forall s m k f, Qr (m :: k) f s ->
  match exec_op B s m with
  | ActNext s' o => Qr k f s' /\ Forall O o
  | ActSuspend s' w ic o => Qs w k f s' /\ Forall O o
  | ActRaise s' x ic o => R x f (kill_cursor s' ic) /\ Forall O o
  | ActQuit s' => Qweak s' /\ (f = FHandler -> Qr [MApp SClose] (FClose false) (inc_closes (set_seq (set_exec s' false) 0)))
  | ActEnter s' f' => Qweak s' /\ (is_handler f = true -> is_handler f' = true -> Qr k f' s')
  end.
Hypothesis throw_ok : forall s x f, R x f s ->
  match throw s x f with
  | Continue s' k' f' => Qr k' f' s'
  | ToClose s' re => Qr [MApp SClose] (FClose re) (inc_closes s')
  | Finished s' _ => Qdone s'
  end.
Hypothesis end_ok : forall s f, Qr [] f s ->
  match end_plan BATCH s f with
  | EFinish s' _ => Qdone s'
  | EGo s' k' f' => Qr k' f' s'
  | ESuspRead s' => Qs WRead [] f s'
  | ERaise s' x => R x f s'
  end.
Hypothesis O_end : forall exc, O (OEnd exc).
Hypothesis O_wclose : O OWriterClose.
Hypothesis O_remove : O OCtlRemove.

Definition ok2 (r : st * list out) : Prop := good2 (fst r) /\ Forall O (snd r).

Lemma finish_ok2 s exc : Qdone s -> ok2 (finish s exc).
Proof.
  intros H. split; [unfold good2; cbn; now apply Qdone_ctl|]. cbn. repeat constructor; auto.
Qed.

Lemma stuck_ok2 s : Qweak s -> ok2 (upd_ctl s Stuck, []).
Proof. intros H. split; [unfold good2; cbn; now apply Qweak_ctl|constructor]. Qed.

Lemma prepend_ok2 o r : Forall O o -> ok2 r -> ok2 (prepend o r).
Proof. intros Ho [G Hr]. split; [exact G|]. cbn. apply Forall_app. now split. Qed.

Lemma raise_ok2 n s x f
  (IH : forall s k f, Qr k f s -> ok2 (run n s k f)) :
  R x f s ->
  ok2 (match throw s x f with
       | Continue s' k' f' => run n s' k' f'
       | ToClose s' re => run n (inc_closes s') [MApp SClose] (FClose re)
       | Finished s' exc => finish s' exc
       end).
Proof.
  intros H. pose proof (throw_ok _ x f H) as T.
  destruct (throw s x f) as [s' k' f'|s' re|s' exc]; [now apply IH|now apply IH|now apply finish_ok2].
Qed.

Theorem run_ok2 : forall fuel s k f, Qr k f s -> ok2 (run fuel s k f).
Proof.
  induction fuel as [|n IH]; intros s k f H; [cbn; apply stuck_ok2; eapply Qr_weak; exact H|].
  destruct k as [|m k'].
  - cbn [Conn.run]. pose proof (end_ok s f H) as E.
    destruct (end_plan BATCH s f) as [s' exc|s' k2 f2|s'|s' x].
    + now apply finish_ok2.
    + now apply IH.
    + split; [unfold good2; cbn; now apply Qs_ctl|constructor].
    + cbn [kill_cursor]. now apply (raise_ok2 n s' x f IH).
  - cbn [Conn.run]. pose proof (op_ok s m k' f H) as Op.
    destruct (exec_op B s m) as [s' o|s' w ic o|s' x ic o|s'|s' f'].
    + destruct Op as [O1 O2]. apply prepend_ok2; [exact O2|]. now apply IH.
    + destruct Op as [O1 O2]. split; [unfold good2; cbn; now apply Qs_ctl|exact O2].
    + destruct Op as [O1 O2]. apply prepend_ok2; [exact O2|]. now apply (raise_ok2 n _ x f IH).
    + destruct Op as [O1 O2]. destruct f; try (apply stuck_ok2; exact O1). apply IH. now apply O2.
    + destruct Op as [O1 O2]. destruct (is_handler f) eqn:Hf; cbn [andb]; [|apply stuck_ok2; exact O1].
      destruct (is_handler f') eqn:Hf'; [apply IH; now apply O2|apply stuck_ok2; exact O1].
Qed.

Corollary go_ok2 s k f : Qr k f s -> ok2 (go s k f).
Proof. apply run_ok2. Qed.

Corollary raise_at_ok2 s x f ic : R x f (kill_cursor s ic) -> ok2 (raise_at s x f ic).
Proof.
  intros H. unfold Conn.raise_at. pose proof (throw_ok _ x f H) as T.
  destruct (throw (kill_cursor s ic) x f) as [s' k' f'|s' re|s' exc]; [now apply go_ok2|now apply go_ok2|now apply finish_ok2].
Qed.

(* lifting a one-step result to event lists whose events all satisfy [allowed] *)
Variable allowed : ev -> Prop.
Hypothesis step_ok2 : forall s e, allowed e -> good2 s -> ok2 (step B BATCH s e).

Theorem exec_ok2 : forall evs s, Forall allowed evs -> good2 s -> ok2 (exec B BATCH s evs).
Proof.
  induction evs as [|e evs IH]; intros s Ha G; [split; [exact G|constructor]|].
  inversion Ha as [|? ? A1 A2]; subst. cbn [exec].
  destruct (step_ok2 s e A1 G) as [G1 O1]. destruct (step B BATCH s e) as [s1 o1]. cbn [fst snd] in *.
  destruct (IH s1 A2 G1) as [G2 O2]. destruct (exec B BATCH s1 evs) as [s2 o2]. cbn [fst snd] in *.
  split; [exact G2|]. apply Forall_app. now split.
Qed.
End Scheme2.
