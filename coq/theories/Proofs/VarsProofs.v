(* Proofs/VarsProofs.v - the variable store: read-your-writes, typing, read-only variables, hint scoping,
   the session stays operational.  Everything is proved for an arbitrary schema; Props/C14.v instantiates
   the regenerated one. *)
From Coq Require Import List NArith ZArith Bool Lia.
From MM Require Import Lib.Decimal Model.Vars.
Import ListNotations.
Open Scope N_scope.

Lemma str_eqb_eq a b : str_eqb a b = true <-> a = b.
Proof.
  revert b. induction a as [|x a IH]; intros [|y b]; cbn; split; intros H; try reflexivity; try discriminate.
  - apply andb_true_iff in H. destruct H as [H1 H2]. apply N.eqb_eq in H1. apply IH in H2. now subst.
  - inversion H; subst. rewrite N.eqb_refl. cbn. now apply IH.
Qed.
Lemma str_eqb_refl a : str_eqb a a = true.
Proof. now apply str_eqb_eq. Qed.
Lemma str_eqb_neq a b : str_eqb a b = false <-> a <> b.
Proof.
  split; intros H.
  - intros E. apply str_eqb_eq in E. congruence.
  - destruct (str_eqb a b) eqn:E; [|reflexivity]. apply str_eqb_eq in E. contradiction.
Qed.
Lemma str_eqb_sym a b : str_eqb a b = str_eqb b a.
Proof.
  destruct (str_eqb a b) eqn:E.
  - apply str_eqb_eq in E. subst. symmetry. apply str_eqb_refl.
  - symmetry. apply str_eqb_neq. apply str_eqb_neq in E. congruence.
Qed.

Lemma lower_c_idem c : lower_c (lower_c c) = lower_c c.
Proof.
  unfold lower_c. destruct ((65 <=? c) && (c <=? 90)) eqn:E; [|rewrite E; reflexivity].
  apply andb_true_iff in E. destruct E as [E1 E2]. apply N.leb_le in E1, E2.
  destruct ((65 <=? c + 32) && (c + 32 <=? 90)) eqn:F; [|reflexivity].
  apply andb_true_iff in F. destruct F as [_ F2]. apply N.leb_le in F2. lia.
Qed.
Lemma lower_idem s : lower (lower s) = lower s.
Proof. unfold lower. rewrite map_map. apply map_ext. apply lower_c_idem. Qed.

Lemma lookup_update_same {A} k (v : A) l : lookup k (update k v l) = Some v.
Proof.
  induction l as [|[k' v'] r IH]; cbn.
  - now rewrite str_eqb_refl.
  - destruct (str_eqb k k') eqn:E; cbn; rewrite E; [reflexivity|exact IH].
Qed.
Lemma lookup_update_other {A} k k2 (v : A) l : k2 <> k -> lookup k2 (update k v l) = lookup k2 l.
Proof.
  intros N. induction l as [|[k' v'] r IH]; cbn.
  - apply str_eqb_neq in N. now rewrite N.
  - destruct (str_eqb k k') eqn:E; cbn.
    + apply str_eqb_eq in E. subst k'. apply str_eqb_neq in N. now rewrite N.
    + destruct (str_eqb k2 k'); [reflexivity|exact IH].
Qed.

Lemma coerce_typed t x y : coerce t x = Some y -> has_type t y = true.
Proof.
  destruct t; cbn; intros H.
  - destruct x; try discriminate; try (inversion H; reflexivity). destruct (py_int s); inversion H; reflexivity.
  - destruct (to_bool x); inversion H; reflexivity.
  - inversion H; reflexivity.
Qed.
Lemma coerce_idem t v : has_type t v = true -> coerce t v = Some v.
Proof. destruct t, v; cbn; intros H; try discriminate; reflexivity. Qed.

Section Vars.
Variable schema : schema_t.
Variable usable_charsets : list str.
Variable default_collation : str -> option str.
Variable tx_table : list (str * value).

Notation vset := (vset schema usable_charsets).
Notation vget := (vget schema).
Notation vsets := (vsets schema usable_charsets).
Notation validate := (validate usable_charsets).
Notation step := (step schema usable_charsets default_collation tx_table).
Notation run := (run schema usable_charsets default_collation tx_table).
Notation hinted := (hinted schema usable_charsets).
Notation set_statement := (set_statement schema usable_charsets default_collation tx_table).
Notation exec_item := (exec_item schema usable_charsets default_collation tx_table).
Notation exec_items := (exec_items schema usable_charsets default_collation tx_table).
Notation operational := (operational schema usable_charsets).

(* ---- Variables.set: success and the value stored depend on the arguments only, the effect is one update ------- *)
Definition setval (name : str) (v : sval) (force : bool) : res value :=
  match lookup (lower name) schema with
  | None => Err EUnknown
  | Some (t, d, dyn) =>
      if negb dyn && negb force then Err ENotDynamic else
      match v with
      | SDefault | SVal VNone => Ok d
      | SVal x => match coerce t x with
                  | None => Err EValue
                  | Some y => if validate (lower name) y then Ok y else Err EInvalid
                  end
      end
  end.

Lemma vset_char st name v force :
  vset st name v force = match setval name v force with Ok y => Ok (update (lower name) y st) | Err e => Err e end.
Proof.
  unfold Model.Vars.vset, setval. destruct (lookup (lower name) schema) as [[[t d] dyn]|]; [|reflexivity].
  destruct (negb dyn && negb force); [reflexivity|].
  destruct v as [|x]; [reflexivity|]. destruct x; try reflexivity;
    (destruct (coerce t _); [|reflexivity]; destruct (validate _ _); reflexivity).
Qed.

Lemma vget_update st k y m :
  vget (update (lower k) y st) m = if str_eqb (lower m) (lower k) then Ok y else vget st m.
Proof.
  unfold Model.Vars.vget. destruct (str_eqb (lower m) (lower k)) eqn:E.
  - apply str_eqb_eq in E. rewrite E, lookup_update_same. reflexivity.
  - apply str_eqb_neq in E. rewrite lookup_update_other by exact E. reflexivity.
Qed.

Lemma vget_lower st m : vget st (lower m) = vget st m.
Proof. unfold Model.Vars.vget. now rewrite lower_idem. Qed.

Lemma vget_same_lower st a b : lower a = lower b -> vget st a = vget st b.
Proof. unfold Model.Vars.vget. now intros ->. Qed.

(* read your writes, and nothing else moves *)
Theorem vset_get_same st name v force st' :
  vset st name v force = Ok st' -> exists y, setval name v force = Ok y /\ vget st' name = Ok y.
Proof.
  rewrite vset_char. destruct (setval name v force) as [y|e] eqn:E; [|discriminate].
  intros H. inversion H; subst. exists y. split; [reflexivity|]. rewrite vget_update, str_eqb_refl. reflexivity.
Qed.
Theorem vset_get_other st name v force st' m :
  vset st name v force = Ok st' -> lower m <> lower name -> vget st' m = vget st m.
Proof.
  rewrite vset_char. destruct (setval name v force) as [y|e]; [|discriminate].
  intros H N. inversion H; subst. rewrite vget_update. apply str_eqb_neq in N. now rewrite N.
Qed.
Theorem vset_error_changes_nothing st name v force e : vset st name v force = Err e -> True.
Proof. trivial. Qed.

(* the value stored: the default for DEFAULT / NULL, otherwise the coercion of the assigned value *)
Theorem setval_spec name v force y : setval name v force = Ok y ->
  exists t d dyn, lookup (lower name) schema = Some (t, d, dyn) /\ (dyn = true \/ force = true) /\
    match v with
    | SDefault | SVal VNone => y = d
    | SVal x => coerce t x = Some y /\ validate (lower name) y = true
    end.
Proof.
  unfold setval. destruct (lookup (lower name) schema) as [[[t d] dyn]|]; [|discriminate].
  destruct (negb dyn && negb force) eqn:G; [discriminate|]. intros H. exists t, d, dyn. split; [reflexivity|]. split.
  { destruct dyn; [now left|]. destruct force; [now right|discriminate]. }
  destruct v as [|x]; [now inversion H|].
  destruct x; try (now inversion H);
    (destruct (coerce t _) as [y'|]; [|discriminate]; destruct (validate _ y') eqn:V; [|discriminate]; inversion H; subst; auto).
Qed.
Theorem setval_unknown name v force : lookup (lower name) schema = None -> setval name v force = Err EUnknown.
Proof. unfold setval. now intros ->. Qed.
Theorem setval_readonly name v t d : lookup (lower name) schema = Some (t, d, false) -> setval name v false = Err ENotDynamic.
Proof. unfold setval. now intros ->. Qed.

(* ---- every operation changes the store through Variables.set only --------------------------------------------- *)
Section Preserve.
Variable P : store -> Prop.
Variable force_allowed : bool.
Hypothesis Pset : forall st n v f st', (f = true -> force_allowed = true) -> P st -> vset st n v f = Ok st' -> P st'.

Lemma vsets_preserves l : forall st, P st -> P (fst (vsets st l)).
Proof.
  induction l as [|[n v] r IH]; intros st H; [exact H|]. cbn [Model.Vars.vsets].
  destruct (vset st n v false) as [st'|e] eqn:E; [|exact H]. apply IH. eapply (Pset _ _ _ false); [intros X; discriminate X|exact H|exact E].
Qed.

Lemma exec_item_preserves st i : P st -> P (fst (exec_item st i)).
Proof.
  intros H. destruct i as [uv sc n r|cs|cs coll|chars|]; cbn [Model.Vars.exec_item].
  - destruct uv; [exact H|]. destruct r; try exact H; (destruct sc; try exact H; apply vsets_preserves; exact H).
  - destruct cs as [cs|]; [|apply vsets_preserves; exact H].
    destruct (Model.Vars.vget schema st n_cs_database); [apply vsets_preserves; exact H|exact H].
  - destruct cs as [cs|]; [|apply vsets_preserves; exact H].
    destruct (match coll with Some c => Some c | None => default_collation cs end); [apply vsets_preserves; exact H|exact H].
  - revert st H. induction chars as [|c r IH]; intros st H; [exact H|].
    destruct (nth_error tx_table c) as [[n v]|]; [|exact H].
    destruct (vset st n (SVal v) false) as [st'|e] eqn:E; [|exact H]. apply IH. eapply (Pset _ _ _ false); [intros X; discriminate X|exact H|exact E].
  - exact H.
Qed.

Lemma exec_items_preserves l : forall st, P st -> P (fst (exec_items st l)).
Proof.
  induction l as [|i r IH]; intros st H; [exact H|]. cbn [Model.Vars.exec_items].
  pose proof (exec_item_preserves st i H) as H1. destruct (exec_item st i) as [st' [e|]]; cbn [fst] in *; [exact H1|]. apply IH. exact H1.
Qed.

Lemma set_statement_preserves st items : P st -> P (fst (set_statement st items)).
Proof.
  intros H. unfold Model.Vars.set_statement. destruct (resolve_items schema st items) as [items'|e]; [|exact H].
  pose proof (exec_items_preserves items' st H) as H1. destruct (exec_items st items') as [st' [e|]]; [exact H|exact H1].
Qed.

Lemma block_preserves st calls body : (forall s, P s -> P (fst (body s))) -> P st -> P (fst (block schema usable_charsets st calls body)).
Proof.
  intros Hb H. unfold block. destruct (assignments _ _) as [asg|e]; [|exact H].
  destruct (originals schema st (map fst asg)) as [orig|e]; [|exact H].
  pose proof (vsets_preserves asg st H) as H1. destruct (vsets st asg) as [st1 e1]. cbn [fst] in H1.
  assert (Hb1 : P (fst (match e1 with Some e => (st1, Err e) | None => body st1 end))).
  { destruct e1; [exact H1|apply Hb; exact H1]. }
  destruct (match e1 with Some e => (st1, Err e) | None => body st1 end) as [stb r]. cbn [fst] in Hb1.
  pose proof (vsets_preserves orig stb Hb1) as H2. destruct (vsets stb orig) as [st2 e2]. exact H2.
Qed.

Lemma hinted_preserves st hints i : P st -> P (fst (hinted st hints i)).
Proof.
  intros H. unfold Model.Vars.hinted. apply block_preserves; [|exact H].
  intros s Hs. apply block_preserves; [|exact Hs]. intros s2 Hs2. exact Hs2.
Qed.

Lemma step_preserves st o : (client_op o = false -> force_allowed = true) -> P st -> P (fst (step st o)).
Proof.
  intros Hf H. destruct o as [items|hints i|names| |n v f]; cbn [Model.Vars.step].
  - pose proof (set_statement_preserves st items H) as H1. destruct (set_statement st items). exact H1.
  - pose proof (hinted_preserves st hints i H) as H1. destruct (hinted st hints i). exact H1.
  - exact H.
  - exact H.
  - destruct (vset st n v f) as [st'|e] eqn:E; [|exact H]. cbn [fst]. eapply Pset; [|exact H|exact E]. intros _. now apply Hf.
Qed.

Lemma run_fst st ops : fst (run st ops) = fold_left (fun s o => fst (step s o)) ops st.
Proof.
  unfold Model.Vars.run. set (f := fun acc o => _).
  assert (G : forall ops acc, fst (fold_left f ops acc) = fold_left (fun s o => fst (step s o)) ops (fst acc)).
  { induction ops0 as [|o r IH]; intros acc; [reflexivity|]. cbn [fold_left]. rewrite IH. f_equal.
    unfold f. destruct (step (fst acc) o); reflexivity. }
  apply G.
Qed.

Lemma run_preserves ops : forall st, (force_allowed = false -> forallb client_op ops = true) -> P st -> P (fst (run st ops)).
Proof.
  intros st Hc H. rewrite run_fst. revert st H Hc. induction ops as [|o r IH]; intros st H Hc; [exact H|].
  cbn [fold_left]. apply IH.
  - apply step_preserves; [|exact H]. intros Hco. destruct force_allowed; [reflexivity|].
    specialize (Hc eq_refl). cbn in Hc. rewrite Hco in Hc. discriminate.
  - intros Hfa. specialize (Hc Hfa). cbn in Hc. apply andb_true_iff in Hc. apply Hc.
Qed.
End Preserve.

(* ---- read-only variables: no client statement changes them ------------------------------------------------------ *)
Theorem readonly_untouched n t d ops st : lookup (lower n) schema = Some (t, d, false) -> forallb client_op ops = true ->
  vget (fst (run st ops)) n = vget st n.
Proof.
  intros Hs Hc. apply (run_preserves (fun s => vget s n = vget st n) false); [| |reflexivity].
  - intros s m v f s' Hf Hp Hv. destruct f; [specialize (Hf eq_refl); discriminate|].
    rewrite <- Hp. eapply vset_get_other; [exact Hv|]. intros E.
    rewrite vset_char in Hv. unfold setval in Hv. rewrite <- E, Hs in Hv. discriminate.
  - intros _. exact Hc.
Qed.

(* ---- typing: every stored value is the default or a valid value of the variable's type --------------------------- *)
Definition wt (st : store) : Prop :=
  forall k v, lookup k st = Some v -> exists t d dyn, lookup k schema = Some (t, d, dyn) /\
    (v = d \/ (has_type t v = true /\ validate k v = true)).

Lemma wt_nil : wt [].
Proof. intros k v H. discriminate. Qed.

Lemma vset_wt st n v f st' : wt st -> vset st n v f = Ok st' -> wt st'.
Proof.
  intros W H. rewrite vset_char in H. destruct (setval n v f) as [y|e] eqn:E; [|discriminate]. inversion H; subst. clear H.
  apply setval_spec in E. destruct E as [t [d [dyn [Hs [_ Hv]]]]].
  intros k x Hk. destruct (str_eqb k (lower n)) eqn:Ek.
  - apply str_eqb_eq in Ek. subst k. rewrite lookup_update_same in Hk. inversion Hk; subst x.
    exists t, d, dyn. split; [exact Hs|]. destruct v as [|x]; [now left|].
    destruct x; try (now left); destruct Hv as [Hc Hval]; right; (split; [eapply coerce_typed; exact Hc|exact Hval]).
  - apply str_eqb_neq in Ek. rewrite lookup_update_other in Hk by exact Ek. apply W. exact Hk.
Qed.

Theorem run_wt ops st : wt st -> wt (fst (run st ops)).
Proof.
  intros W. apply (run_preserves wt true); [|discriminate|exact W].
  intros s n v f s' _ Hw Hv. eapply vset_wt; eassumption.
Qed.

(* what a read returns is the default or a typed value *)
Theorem vget_typed st n v : wt st -> vget st n = Ok v ->
  exists t d dyn, lookup (lower n) schema = Some (t, d, dyn) /\ (v = d \/ (has_type t v = true /\ validate (lower n) v = true)).
Proof.
  intros W H. unfold Model.Vars.vget in H. destruct (lookup (lower n) st) as [x|] eqn:E.
  - inversion H; subst. apply W. exact E.
  - destruct (lookup (lower n) schema) as [[[t d] dyn]|] eqn:Es; [|discriminate]. injection H as Hd.
    exists t, d, dyn. split; [reflexivity|left; now symmetry].
Qed.

(* ---- SET_VAR hints are scoped to their statement -------------------------------------------------------------------- *)
Definition obs_eq (a b : store) : Prop := forall n, vget a n = vget b n.

(* success of a sequence of sets does not depend on the store; its effect is pointwise *)
Lemma vsets_pointwise l : forall A B m, vget A m = vget B m -> vget (fst (vsets A l)) m = vget (fst (vsets B l)) m.
Proof.
  induction l as [|[k v] r IH]; intros A B m H; [exact H|]. cbn [Model.Vars.vsets]. rewrite !vset_char.
  destruct (setval k v false) as [y|e]; [|exact H]. apply IH. rewrite !vget_update. destruct (str_eqb (lower m) (lower k)); [reflexivity|exact H].
Qed.

(* restoring: each name ends with its previous value or with the value of one of the restore entries for it *)
Lemma restore_only l : forall A m,
  vget (fst (vsets A l)) m = vget A m \/
  exists k o y, In (k, o) l /\ lower k = lower m /\ setval k o false = Ok y /\ vget (fst (vsets A l)) m = Ok y.
Proof.
  induction l as [|[k v] r IH]; intros A m; [now left|]. cbn [Model.Vars.vsets]. rewrite vset_char.
  destruct (setval k v false) as [y|e] eqn:E; [|now left].
  destruct (IH (update (lower k) y A) m) as [H|[k' [o [y' [Hin [Hl [Hs Hg]]]]]]].
  - rewrite H, vget_update. destruct (str_eqb (lower m) (lower k)) eqn:Em; [|now left].
    right. exists k, v, y. split; [|split; [|split]]; [now left| |exact E|].
    + apply str_eqb_eq in Em. now symmetry.
    + reflexivity.
  - right. exists k', o, y'. split; [|split; [|split]]; auto. now right.
Qed.

Lemma hint_core : forall asg orig cur,
  Forall2 (fun a b => fst a = fst b /\ forall y, setval (fst a) (snd a) false = Ok y -> exists y', setval (fst b) (snd b) false = Ok y') asg orig ->
  forall m,
  vget (fst (vsets (fst (vsets cur asg)) orig)) m = vget cur m \/
  exists k o y, In (k, o) orig /\ lower k = lower m /\ setval k o false = Ok y /\ vget (fst (vsets (fst (vsets cur asg)) orig)) m = Ok y.
Proof.
  induction asg as [|[k v] r IH]; intros orig cur F m.
  - inversion F; subst. now left.
  - inversion F as [|a b ra rb [Hk Hok] Fr]; subst. destruct b as [k' o]. cbn [fst snd] in *. subst k'.
    cbn [Model.Vars.vsets]. rewrite (vset_char cur k v false). destruct (setval k v false) as [y|e] eqn:E.
    + (* the assignment went through, so its restore goes through as well *)
      destruct (Hok y eq_refl) as [y' Hy']. rewrite (vset_char _ k o false), Hy'.
      set (st' := update (lower k) y cur). set (st1 := fst (vsets st' r)).
      destruct (str_eqb (lower m) (lower k)) eqn:Em.
      * right. destruct (restore_only rb (update (lower k) y' st1) m) as [H|[k2 [o2 [y2 [Hin [Hl [Hs Hg]]]]]]].
        -- exists k, o, y'. split; [|split; [|split]]; [now left| |exact Hy'|].
           ++ apply str_eqb_eq in Em. now symmetry.
           ++ rewrite H, vget_update, Em. reflexivity.
        -- exists k2, o2, y2. split; [|split; [|split]]; auto. now right.
      * assert (Hpw : vget (fst (vsets (update (lower k) y' st1) rb)) m = vget (fst (vsets st1 rb)) m).
        { apply vsets_pointwise. rewrite vget_update, Em. reflexivity. }
        destruct (IH rb st' Fr m) as [H|[k2 [o2 [y2 [Hin [Hl [Hs Hg]]]]]]].
        -- left. rewrite Hpw. fold st1 in H. rewrite H. unfold st'. rewrite vget_update, Em. reflexivity.
        -- right. exists k2, o2, y2. split; [|split; [|split]]; auto; [now right|]. rewrite Hpw. exact Hg.
    + (* the assignment failed: nothing after it was assigned; whatever the restore loop does restores *)
      destruct (restore_only ((k, o) :: rb) cur m) as [H|H]; [now left|now right].
Qed.

Lemma originals_spec st : forall keys orig, originals schema st keys = Ok orig ->
  map fst orig = keys /\ Forall (fun ko => exists o, snd ko = SVal o /\ vget st (fst ko) = Ok o) orig.
Proof.
  induction keys as [|k r IH]; intros orig H; cbn in H.
  - inversion H; subst. split; [reflexivity|constructor].
  - destruct (Model.Vars.vget schema st k) as [v|e] eqn:E; [|discriminate].
    destruct (originals schema st r) as [o|e]; [|discriminate]. inversion H; subst.
    destruct (IH o eq_refl) as [I1 I2]. split; [cbn; now rewrite I1|]. constructor; [|exact I2]. exists v. split; [reflexivity|exact E].
Qed.

(* the schema's own defaults are NULL or valid values of their type *)
Definition defaults_ok : Prop :=
  forall k t d dyn, lookup k schema = Some (t, d, dyn) -> d = VNone \/ (has_type t d = true /\ validate k d = true).
Hypothesis Hdef : defaults_ok.

Lemma vget_cases st n v : wt st -> vget st n = Ok v ->
  exists t d dyn, lookup (lower n) schema = Some (t, d, dyn) /\
    ((v = VNone /\ d = VNone) \/ (has_type t v = true /\ validate (lower n) v = true)).
Proof.
  intros W H. destruct (vget_typed st n v W H) as [t [d [dyn [Hl Ht]]]]. exists t, d, dyn. split; [exact Hl|].
  destruct Ht as [->|Ht]; [|now right]. destruct (Hdef _ _ _ _ Hl) as [->|Hd]; [now left|now right].
Qed.

(* restoring a value read from a well-typed store gives that value back, and goes through whenever the variable
   could be assigned at all *)
Lemma restore_value st k o y : wt st -> vget st k = Ok o -> setval k (SVal o) false = Ok y -> vget st k = Ok y.
Proof.
  intros W Hg Hs. apply setval_spec in Hs. destruct Hs as [t [d [dyn [Hl [_ Hv]]]]].
  destruct (vget_cases st k o W Hg) as [t' [d' [dyn' [Hl' Ht]]]]. rewrite Hl in Hl'. inversion Hl'; subst t' d' dyn'.
  destruct Ht as [[-> ->]|[Ht _]]; [now subst|].
  destruct o; [destruct t; discriminate|..]; destruct Hv as [Hc _]; rewrite (coerce_idem _ _ Ht) in Hc; inversion Hc; subst; exact Hg.
Qed.

Lemma restorable st k v o y : wt st -> vget st k = Ok o -> setval k v false = Ok y -> exists y', setval k (SVal o) false = Ok y'.
Proof.
  intros W Hg Hs. apply setval_spec in Hs. destruct Hs as [t [d [dyn [Hl [[Hd|Hd] _]]]]]; [|discriminate]. subst dyn.
  destruct (vget_cases st k o W Hg) as [t' [d' [dyn' [Hl' Ht]]]]. rewrite Hl in Hl'. inversion Hl'; subst t' d' dyn'.
  unfold setval. rewrite Hl. cbn [negb andb].
  destruct Ht as [[-> ->]|[Ht Hv]]; [eexists; reflexivity|].
  destruct o; [destruct t; discriminate|..]; rewrite (coerce_idem _ _ Ht), Hv; eexists; reflexivity.
Qed.

Lemma vsets_wt l st : wt st -> wt (fst (vsets st l)).
Proof. apply (vsets_preserves wt true). intros s n v f s' _ Hw Hv. eapply vset_wt; eassumption. Qed.

(* one activation: if the rest of the chain leaves every variable as it found it, so does the activation *)
Lemma block_scoped st calls body : wt st -> (forall s, wt s -> obs_eq (fst (body s)) s) ->
  obs_eq (fst (block schema usable_charsets st calls body)) st.
Proof.
  intros W Hb m. unfold block. destruct (assignments _ _) as [asg|e]; [|reflexivity].
  destruct (originals schema st (map fst asg)) as [orig|e] eqn:EO; [|reflexivity].
  destruct (originals_spec st _ _ EO) as [Hk Ho].
  assert (F : Forall2 (fun a b => fst a = fst b /\ forall y, setval (fst a) (snd a) false = Ok y -> exists y', setval (fst b) (snd b) false = Ok y') asg orig).
  { clear EO. revert orig Hk Ho. induction asg as [|[k v] r IH]; intros orig Hk Ho.
    - destruct orig; [constructor|discriminate].
    - destruct orig as [|[k' o'] ro]; [discriminate|]. cbn in Hk. inversion Hk; subst k'. inversion Ho as [|? ? [o [Hs Hg]] Hr]; subst.
      cbn [fst snd] in *. subst o'. constructor; [|apply IH; assumption].
      split; [reflexivity|]. cbn [fst snd]. intros y Hy. eapply restorable; eassumption. }
  pose proof (hint_core asg orig st F m) as HC. pose proof (vsets_wt asg st W) as W1.
  destruct (vsets st asg) as [st1 e1] eqn:E1. cbn [fst] in HC, W1.
  assert (Hstb : vget (fst (match e1 with Some e => (st1, Err e) | None => body st1 end)) m = vget st1 m).
  { destruct e1; [reflexivity|]. apply Hb. exact W1. }
  destruct (match e1 with Some e => (st1, Err e) | None => body st1 end) as [stb r]. cbn [fst] in Hstb.
  pose proof (vsets_pointwise orig stb st1 m Hstb) as PW.
  destruct (vsets stb orig) as [st2 e2] eqn:E2. cbn [fst] in *. rewrite PW.
  destruct HC as [H|[k [o [y [Hin [Hl [Hs Hg]]]]]]]; [exact H|].
  rewrite Hg. rewrite Forall_forall in Ho. destruct (Ho _ Hin) as [o' [Ho1 Ho2]]. cbn [fst snd] in *. subst o.
  rewrite <- (vget_same_lower st k m Hl). symmetry. eapply restore_value; eassumption.
Qed.

Theorem hint_is_scoped st hints i : wt st -> obs_eq (fst (hinted st hints i)) st.
Proof.
  intros W. unfold Model.Vars.hinted. apply block_scoped; [exact W|].
  intros s Ws. apply block_scoped; [exact Ws|]. intros s2 _ n. reflexivity.
Qed.

(* ---- an accepted assignment never leaves the session unable to work ------------------------------------------------ *)
Hypothesis Hop0 : operational [] = true.

Lemma n_tz_lower : lower n_time_zone = n_time_zone. Proof. reflexivity. Qed.
Lemma n_cl_lower : lower n_cs_client = n_cs_client. Proof. reflexivity. Qed.
Lemma n_rs_lower : lower n_cs_results = n_cs_results. Proof. reflexivity. Qed.

Lemma vset_operational st n v f st' : operational st = true -> vset st n v f = Ok st' -> operational st' = true.
Proof.
  intros Hop H. rewrite vset_char in H. destruct (setval n v f) as [y|e] eqn:E; [|discriminate]. inversion H; subst. clear H.
  apply setval_spec in E. destruct E as [t [d [dyn [Hl [_ Hv]]]]].
  unfold Model.Vars.operational in *. rewrite !vget_update. rewrite n_tz_lower, n_cl_lower, n_rs_lower.
  apply andb_true_iff in Hop. destruct Hop as [Hop Hop3]. apply andb_true_iff in Hop. destruct Hop as [Hop1 Hop2].
  (* the value y stored under lower n is the default or passed the validator *)
  assert (Y : y = d \/ validate (lower n) y = true).
  { destruct v as [|x]; [now left|]. destruct x; try (now left); right; apply Hv. }
  pose proof Hop0 as H0. unfold Model.Vars.operational, Model.Vars.vget in H0. cbn [lookup] in H0.
  rewrite n_tz_lower, n_cl_lower, n_rs_lower in H0.
  apply andb_true_iff in H0. destruct H0 as [H0 H03]. apply andb_true_iff in H0. destruct H0 as [H01 H02].
  apply andb_true_iff; split; [apply andb_true_iff; split|].
  - destruct (str_eqb n_time_zone (lower n)) eqn:En; [|exact Hop1]. apply str_eqb_eq in En.
    destruct Y as [->|Y]; [rewrite <- En in Hl; rewrite Hl in H01; exact H01|].
    unfold Model.Vars.validate in Y. rewrite <- En in Y. cbn [charset_var str_eqb n_time_zone n_cs_client n_cs_connection n_cs_results N.eqb Pos.eqb andb orb] in Y.
    destruct y; try discriminate. exact Y.
  - destruct (str_eqb n_cs_client (lower n)) eqn:En; [|exact Hop2]. apply str_eqb_eq in En.
    destruct Y as [->|Y]; [rewrite <- En in Hl; rewrite Hl in H02; exact H02|].
    unfold Model.Vars.validate in Y. rewrite <- En in Y. cbn [charset_var str_eqb n_time_zone n_cs_client n_cs_connection n_cs_results N.eqb Pos.eqb andb orb] in Y.
    destruct y; try discriminate. exact Y.
  - destruct (str_eqb n_cs_results (lower n)) eqn:En; [|exact Hop3]. apply str_eqb_eq in En.
    destruct Y as [->|Y]; [rewrite <- En in Hl; rewrite Hl in H03; exact H03|].
    unfold Model.Vars.validate in Y. rewrite <- En in Y. cbn [charset_var str_eqb n_time_zone n_cs_client n_cs_connection n_cs_results N.eqb Pos.eqb andb orb] in Y.
    destruct y; try discriminate. apply andb_true_iff in Y. exact (proj1 Y).
Qed.

Theorem run_operational ops st : operational st = true -> operational (fst (run st ops)) = true.
Proof.
  intros H. apply (run_preserves (fun s => operational s = true) true); [|discriminate|exact H].
  intros s n v f s' _ Hs Hv. eapply vset_operational; eassumption.
Qed.
End Vars.

(* ---- checking a concrete schema ------------------------------------------------------------------------------------- *)
Lemma lookup_in {A} k (l : list (str * A)) v : lookup k l = Some v -> In (k, v) l.
Proof.
  induction l as [|[k' v'] r IH]; cbn; [discriminate|]. destruct (str_eqb k k') eqn:E.
  - intros H. inversion H; subst. apply str_eqb_eq in E. subst. now left.
  - intros H. right. now apply IH.
Qed.

Definition default_entry_ok (usable : list str) (e : str * (vty * value * bool)) : bool :=
  let '(k, (t, d, _)) := e in match d with VNone => true | _ => has_type t d && validate usable k d end.

Lemma defaults_ok_check schema usable : forallb (default_entry_ok usable) schema = true -> defaults_ok schema usable.
Proof.
  intros H k t d dyn Hl. apply lookup_in in Hl. rewrite forallb_forall in H. specialize (H _ Hl). cbn in H.
  destruct d; [now left|..]; right; apply andb_true_iff in H; exact H.
Qed.

(* an accepted time zone is an offset datetime.timezone accepts: strictly less than a day either way *)
Lemma parse_tz_bounds s off : parse_tz s = Some off -> (-1440 < off < 1440)%Z.
Proof.
  unfold parse_tz. destruct (str_eqb (lower s) s_utc); [intros H; inversion H; lia|].
  destruct s as [|sg [|h1 [|h2 [|c [|m1 [|m2 r]]]]]]; try discriminate.
  destruct ((c =? 58) && ((sg =? 43) || (sg =? 45)) && is_dig h1 && is_dig h2 && is_dig m1 && is_dig m2); [|discriminate].
  set (mins := ((h1 - 48) * 10 + (h2 - 48)) * 60 + (m1 - 48) * 10 + (m2 - 48)).
  destruct (N.ltb_spec mins 1440) as [L|L]; [|discriminate]. destruct (sg =? 45); intros H; inversion H; lia.
Qed.
