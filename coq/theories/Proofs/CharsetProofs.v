(* Proofs/CharsetProofs.v - the server's character sets always equal what a conforming client believes, hence
   text encoded by one side is decoded with the same character set by the other (C15). *)
From Coq Require Import List NArith ZArith Bool Lia.
From MM Require Import Lib.Decimal Model.Vars Model.Charset Proofs.VarsProofs.
Import ListNotations.
Open Scope N_scope.

Section Charset.
Variable schema : schema_t.
Variable usable_charsets : list str.
Variable default_collation : str -> option str.
Variable tx_table : list (str * value).
Variable cs_of : N -> option str.
Variable dflt : view.

Hypothesis Hcl : lookup n_cs_client schema = Some (TStr, VStr (fst dflt), true).
Hypothesis Hrs : lookup n_cs_results schema = Some (TStr, VStr (snd dflt), true).
Hypothesis Htx : Forall (fun e => lower (fst e) <> n_cs_client /\ lower (fst e) <> n_cs_results) tx_table.
Hypothesis Hdef : defaults_ok schema usable_charsets.

Notation vget := (vget schema).
Notation vset := (vset schema usable_charsets).
Notation vsets := (vsets schema usable_charsets).
Notation view_of := (view_of schema).
Notation exec_item := (exec_item schema usable_charsets default_collation tx_table).
Notation exec_items := (exec_items schema usable_charsets default_collation tx_table).
Notation set_statement := (set_statement schema usable_charsets default_collation tx_table).
Notation server_step := (server_step schema usable_charsets default_collation tx_table cs_of).
Notation client_step := (client_step cs_of dflt).
Notation spec_item := (spec_item dflt).
Notation run_both := (run_both schema usable_charsets default_collation tx_table cs_of dflt).
Notation wt := (wt schema usable_charsets).

(* the effect of one Variables.set on the pair *)
Definition sval_view (d : str) (sv : sval) : str := match sv with SDefault | SVal VNone => d | SVal x => py_str x end.
Definition upd_view (v : view) (n : str) (sv : sval) : view :=
  if str_eqb (lower n) n_cs_client then (sval_view (fst dflt) sv, snd v)
  else if str_eqb (lower n) n_cs_results then (fst v, sval_view (snd dflt) sv)
  else v.

Lemma client_ne_results : n_cs_client <> n_cs_results. Proof. discriminate. Qed.

Lemma coerce_str x : x <> VNone -> coerce TStr x = Some (VStr (py_str x)).
Proof. intros _. reflexivity. Qed.

Lemma vset_view st n sv f st' v : vset st n sv f = Ok st' -> view_of st = Some v -> view_of st' = Some (upd_view v n sv).
Proof.
  intros H Hv. destruct (vset_get_same _ _ _ _ _ _ _ H) as [y [Hs Hg]].
  destruct (setval_spec _ _ _ _ _ _ Hs) as [t [d [dyn [Hl [_ Hval]]]]].
  unfold Charset.view_of in *. unfold upd_view.
  destruct (str_eqb (lower n) n_cs_client) eqn:E1.
  - apply str_eqb_eq in E1. rewrite E1, Hcl in Hl. inversion Hl; subst t d dyn.
    rewrite (vget_same_lower schema st' n_cs_client n) by (rewrite E1; reflexivity). rewrite Hg.
    rewrite (vset_get_other _ _ _ _ _ _ _ n_cs_results H) by (rewrite E1; cbn; discriminate).
    destruct (Model.Vars.vget schema st n_cs_client) as [[| | |a|]|]; try discriminate.
    destruct (Model.Vars.vget schema st n_cs_results) as [[| | |b|]|]; try discriminate. inversion Hv; subst v. cbn [fst snd].
    destruct sv as [|x]; [subst y; reflexivity|]. destruct x; try (subst y; reflexivity); destruct Hval as [Hc _]; cbn in Hc; inversion Hc; reflexivity.
  - destruct (str_eqb (lower n) n_cs_results) eqn:E2.
    + apply str_eqb_eq in E2. rewrite E2, Hrs in Hl. inversion Hl; subst t d dyn.
      rewrite (vget_same_lower schema st' n_cs_results n) by (rewrite E2; reflexivity). rewrite Hg.
      rewrite (vset_get_other _ _ _ _ _ _ _ n_cs_client H) by (rewrite E2; cbn; discriminate).
      destruct (Model.Vars.vget schema st n_cs_client) as [[| | |a|]|]; try discriminate.
      destruct (Model.Vars.vget schema st n_cs_results) as [[| | |b|]|]; try discriminate. inversion Hv; subst v. cbn [fst snd].
      destruct sv as [|x]; [subst y; reflexivity|]. destruct x; try (subst y; reflexivity); destruct Hval as [Hc _]; cbn in Hc; inversion Hc; reflexivity.
    + apply str_eqb_neq in E1, E2.
      rewrite (vset_get_other _ _ _ _ _ _ _ n_cs_client H) by (intros X; apply E1; symmetry; exact X).
      rewrite (vset_get_other _ _ _ _ _ _ _ n_cs_results H) by (intros X; apply E2; symmetry; exact X). exact Hv.
Qed.

Definition fold_view (l : list (str * sval)) (v : view) : view := fold_left (fun v e => upd_view v (fst e) (snd e)) l v.

Lemma vsets_view l : forall st st' v, vsets st l = (st', None) -> view_of st = Some v -> view_of st' = Some (fold_view l v).
Proof.
  induction l as [|[n sv] r IH]; intros st st' v H Hv; cbn in H.
  - inversion H; subst. exact Hv.
  - destruct (vset st n sv false) as [s1|e] eqn:E; [|discriminate].
    unfold fold_view. cbn [fold_left fst snd]. eapply IH; [exact H|]. eapply vset_view; eassumption.
Qed.

(* one item of a SET statement, when it goes through *)
Lemma exec_item_view st i st' v : exec_item st i = (st', None) -> view_of st = Some v -> item_wf i = true ->
  view_of st' = Some (spec_item v i).
Proof.
  intros H Hv Hwf. destruct i as [uv sc n r|cs|cs coll|chars|]; cbn [Model.Vars.exec_item] in H.
  - destruct uv; [discriminate|]. unfold Charset.spec_item.
    destruct r as [x| |p|]; try discriminate.
    + cbn [item_wf] in Hwf.
      destruct sc; try discriminate; apply (vsets_view _ _ _ _ H) in Hv; rewrite Hv; unfold fold_view, upd_view; cbn [fold_left fst snd];
        (destruct (str_eqb (lower n) n_cs_client); [cbn [orb] in Hwf; destruct x; try discriminate Hwf; reflexivity|
         destruct (str_eqb (lower n) n_cs_results); [cbn [orb] in Hwf; destruct x; try discriminate Hwf; reflexivity|reflexivity]]).
    + destruct sc; try discriminate; apply (vsets_view _ _ _ _ H) in Hv; rewrite Hv; unfold fold_view, upd_view; cbn [fold_left fst snd];
        (destruct (str_eqb (lower n) n_cs_client); [reflexivity|destruct (str_eqb (lower n) n_cs_results); reflexivity]).
  - destruct cs as [cs|].
    + destruct (Model.Vars.vget schema st n_cs_database) as [conn|e]; [|discriminate].
      apply (vsets_view _ _ _ _ H) in Hv. rewrite Hv. reflexivity.
    + apply (vsets_view _ _ _ _ H) in Hv. rewrite Hv. f_equal. apply injective_projections; reflexivity.
  - destruct cs as [cs|].
    + destruct (match coll with Some c => Some c | None => default_collation cs end) as [c|]; [|discriminate].
      apply (vsets_view _ _ _ _ H) in Hv. rewrite Hv. reflexivity.
    + apply (vsets_view _ _ _ _ H) in Hv. rewrite Hv. f_equal. apply injective_projections; reflexivity.
  - cbn [Charset.spec_item]. clear Hwf. revert st H Hv. induction chars as [|c r IH]; intros st H Hv.
    + inversion H; subst. exact Hv.
    + destruct (nth_error tx_table c) as [[n x]|] eqn:En; [|discriminate].
      destruct (vset st n (SVal x) false) as [s1|e] eqn:E; [|discriminate].
      apply (IH s1 H). rewrite (vset_view _ _ _ _ _ _ E Hv). f_equal. unfold upd_view.
      apply nth_error_In in En. rewrite Forall_forall in Htx. destruct (Htx _ En) as [T1 T2]. cbn [fst] in T1, T2.
      apply str_eqb_neq in T1, T2. rewrite T1, T2. reflexivity.
  - discriminate.
Qed.

Lemma exec_items_view l : forall st st' v, exec_items st l = (st', None) -> view_of st = Some v -> forallb item_wf l = true ->
  view_of st' = Some (fold_left spec_item l v).
Proof.
  induction l as [|i r IH]; intros st st' v H Hv Hwf; cbn in H.
  - inversion H; subst. exact Hv.
  - cbn in Hwf. apply andb_true_iff in Hwf. destruct Hwf as [W1 W2].
    destruct (exec_item st i) as [s1 [e|]] eqn:E; [discriminate|]. cbn [fold_left].
    eapply IH; [exact H| |exact W2]. eapply exec_item_view; eassumption.
Qed.

(* @@x on the right of an assignment is replaced before the statement runs; for a well-formed switch this concerns
   other variables only, which the client's bookkeeping ignores *)
Lemma resolve_spec st : forall l l', resolve_items schema st l = Ok l' -> forallb item_wf l = true ->
  forallb item_wf l' = true /\ forall v, fold_left spec_item l' v = fold_left spec_item l v.
Proof.
  induction l as [|i r IH]; intros l' H Hwf; cbn in H.
  - inversion H; subst. split; [reflexivity|reflexivity].
  - cbn in Hwf. apply andb_true_iff in Hwf. destruct Hwf as [W1 W2].
    destruct (resolve_item schema st i) as [i'|e] eqn:Ei; [|discriminate].
    destruct (resolve_items schema st r) as [r'|e] eqn:Er; [|discriminate]. inversion H; subst l'.
    destruct (IH r' eq_refl W2) as [I1 I2].
    assert (Hi : item_wf i' = true /\ forall v, spec_item v i' = spec_item v i).
    { destruct i as [uv sc n rh|cs|cs coll|chars|]; try (inversion Ei; subst; split; [exact W1|reflexivity]).
      destruct rh as [x| |p|]; try (inversion Ei; subst; split; [exact W1|reflexivity]).
      cbn in Ei. destruct (Model.Vars.vget schema st p) as [x|e]; [|discriminate]. inversion Ei; subst i'.
      cbn [item_wf] in W1. cbn [item_wf Charset.spec_item].
      destruct (str_eqb (lower n) n_cs_client) eqn:E1; [discriminate|]. destruct (str_eqb (lower n) n_cs_results) eqn:E2; [discriminate|].
      cbn [orb]. split; [reflexivity|]. intros v. destruct uv; reflexivity. }
    destruct Hi as [Hi1 Hi2]. split; [cbn; now rewrite Hi1, I1|]. intros v. cbn [fold_left]. rewrite Hi2. apply I2.
Qed.

Lemma view_of_obs a b : (forall n, vget a n = vget b n) -> view_of a = view_of b.
Proof. intros H. unfold Charset.view_of. now rewrite !H. Qed.

(* one command: both sides move together *)
Theorem step_agree st v c : cmd_wf c = true -> wt st -> view_of st = Some v ->
  wt (fst (server_step st c)) /\ view_of (fst (server_step st c)) = Some (client_step v c (snd (server_step st c))).
Proof.
  intros Hwf W Hv. destruct c as [id|items|o| |[id|]]; cbn [Charset.server_step Charset.client_step].
  - destruct (cs_of id) as [cs|] eqn:Ecs; [|cbn; auto].
    destruct (vset st n_cs_client (SVal (VStr cs)) false) as [s1|e] eqn:E; cbn [fst snd]; [|cbn; auto].
    split; [eapply vset_wt; eassumption|]. rewrite (vset_view _ _ _ _ _ _ E Hv). unfold Charset.client_step. cbn [negb]. rewrite Ecs. reflexivity.
  - cbn [cmd_wf] in Hwf. unfold Model.Vars.set_statement.
    destruct (resolve_items schema st items) as [items'|e] eqn:Er; cbn [fst snd negb]; [|auto].
    destruct (resolve_spec st items items' Er Hwf) as [R1 R2].
    destruct (exec_items st items') as [s1 [e|]] eqn:Ee; cbn [fst snd negb]; [auto|].
    split.
    + pose proof (exec_items_preserves schema usable_charsets default_collation tx_table wt true
                    (fun s n x f s' _ Hw Hx => vset_wt schema usable_charsets s n x f s' Hw Hx) items' st W) as P1.
      rewrite Ee in P1. exact P1.
    + unfold Charset.client_step. cbn [negb]. rewrite <- R2. eapply exec_items_view; eassumption.
  - cbn [cmd_wf] in Hwf.
    assert (Wn : wt (fst (Model.Vars.step schema usable_charsets default_collation tx_table st o))).
    { apply (step_preserves schema usable_charsets default_collation tx_table wt true
               (fun s n x f s' _ Hw Hx => vset_wt schema usable_charsets s n x f s' Hw Hx)); [reflexivity|exact W]. }
    destruct o as [items|hints i|names| |n x f]; try discriminate; cbn [Model.Vars.step] in *.
    + pose proof (hint_is_scoped schema usable_charsets Hdef st hints i W) as HS.
      destruct (Model.Vars.hinted schema usable_charsets st hints i) as [s1 r]. cbn [fst snd] in *. split; [exact Wn|].
      rewrite (view_of_obs s1 st HS). destruct r; exact Hv.
    + cbn [fst snd]. split; [exact W|]. destruct (vgets schema st names); exact Hv.
    + cbn [fst snd]. auto.
  - cbn. auto.
  - destruct (cs_of id) as [cs|] eqn:Ecs; [|cbn; auto].
    destruct (vset st n_cs_client (SVal (VStr cs)) false) as [s1|e] eqn:E; cbn [fst snd]; [|cbn; auto].
    split; [eapply vset_wt; eassumption|]. rewrite (vset_view _ _ _ _ _ _ E Hv). unfold Charset.client_step. cbn [negb]. rewrite Ecs. reflexivity.
  - cbn. auto.
Qed.

(* every history *)
Theorem views_agree cmds : forall st v, forallb cmd_wf cmds = true -> wt st -> view_of st = Some v ->
  view_of (fst (run_both st v cmds)) = Some (snd (run_both st v cmds)).
Proof.
  induction cmds as [|c r IH]; intros st v Hwf W Hv; [exact Hv|].
  cbn in Hwf. apply andb_true_iff in Hwf. destruct Hwf as [W1 W2]. cbn [Charset.run_both].
  destruct (step_agree st v c W1 W Hv) as [Wn Hn]. destruct (server_step st c) as [s1 ok]. cbn [fst snd] in *.
  apply IH; assumption.
Qed.

Lemma view_of_fresh : view_of [] = Some dflt.
Proof. unfold Charset.view_of, Model.Vars.vget. cbn [lookup]. change (lower n_cs_client) with n_cs_client. change (lower n_cs_results) with n_cs_results.
  rewrite Hcl, Hrs. f_equal. apply injective_projections; reflexivity. Qed.

(* ---- text ------------------------------------------------------------------------------------------------------------------ *)
Variable enc : str -> list N -> option (list N).
Variable dec : str -> list N -> option (list N).
Hypothesis codec_ok : forall cs s b, enc cs s = Some b -> dec cs b = Some s.

(* after any history of well-formed commands on a fresh connection, whatever the client can encode in the character set
   it believes in arrives unchanged at the server, and whatever the server can encode in its results character set -
   column names, error messages - is decoded unchanged by the client *)
Theorem text_arrives_unchanged cmds s : forallb cmd_wf cmds = true ->
  let '(st, v) := run_both [] dflt cmds in
  (forall b, enc (fst v) s = Some b -> to_server schema enc dec st v s = Some s) /\
  (forall b, enc (snd v) s = Some b -> to_client schema enc dec st v s = Some s).
Proof.
  intros Hwf. pose proof (views_agree cmds [] dflt Hwf (wt_nil schema usable_charsets) view_of_fresh) as A.
  destruct (run_both [] dflt cmds) as [st v]. cbn [fst snd] in A. split; intros b Hb.
  - unfold to_server. rewrite Hb, A. cbn [fst]. eapply codec_ok; exact Hb.
  - unfold to_client. rewrite A. cbn [snd]. rewrite Hb. eapply codec_ok; exact Hb.
Qed.
End Charset.
