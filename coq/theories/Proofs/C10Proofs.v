(* Proofs/C10Proofs.v - session.close exactly once iff initialised; release exactly once. *)
From Coq Require Import List Arith NArith Lia Bool.
From MM Require Import Lib.Bytes Model.Conn Proofs.ConnInv.
Import ListNotations.
Open Scope N_scope.

Definition P10 (f : frame) (s : st) : Prop :=
  match f with
  | FConn | FConnErr => closes s = 0%nat /\ inited s = false
  | FRead | FHandler | FChangeUser | FChangeUserReset | FHandlerErr _ | FKillErr => closes s = 0%nat /\ inited s = true
  | FClose _ => closes s = 1%nat /\ inited s = true
  end.
Definition D10 (s : st) : Prop := closes s = Nat.b2n (inited s).
Definition W10 (s : st) : Prop := (closes s <= 1)%nat /\ (closes s = 1%nat -> inited s = true).

Definition same (s s' : st) : Prop := closes s' = closes s /\ inited s' = inited s.

Lemma P10_same f s s' : same s s' -> P10 f s -> P10 f s'.
Proof. intros [A C] H. destruct f; cbn in *; rewrite A, C; exact H. Qed.

Lemma same_refl s : same s s. Proof. split; reflexivity. Qed.
Lemma same_trans a b c : same a b -> same b c -> same a c.
Proof. intros [A1 A2] [B1 B2]. split; congruence. Qed.

Ltac same_tac := repeat first [apply same_refl | split; reflexivity].

Lemma kill_cursor_same s ic : same s (kill_cursor s ic).
Proof. unfold kill_cursor. destruct ic as [id|]; [|same_tac]. destruct (find_stmt id (stmts s)); same_tac. Qed.

Section C10.
Variable B BATCH : N.

Lemma do_drain_same s :
  match do_drain s with
  | ActNext s' _ | ActSuspend s' _ _ _ | ActQuit s' | ActEnter s' _ => same s s'
  | ActRaise s' _ ic _ => same s (kill_cursor s' ic)
  end.
Proof.
  unfold do_drain, flush. destruct (buf s); cbn;
  match goal with |- context [if dead ?x then _ else _] => destruct (dead x) eqn:?; cbn end; try (same_tac; fail);
  match goal with |- context [if paused ?x then _ else _] => destruct (paused x) eqn:?; cbn end; same_tac.
Qed.

Lemma op_same s m :
  match exec_op B s m with
  | ActNext s' _ | ActSuspend s' _ _ _ | ActQuit s' | ActEnter s' _ => same s s'
  | ActRaise s' _ ic _ => same s (kill_cursor s' ic)
  end.
Proof.
  destruct m; cbn [exec_op]; try (same_tac; fail).
  - match goal with |- context [if ?c then _ else _] => destruct c end; [|same_tac].
    match goal with |- context [do_drain ?x] => pose proof (do_drain_same x) as D; destruct (do_drain x) end;
      (eapply same_trans; [|exact D]); same_tac.
  - apply do_drain_same.
  - unfold cur_pull. destruct (find_stmt id (stmts s)); same_tac.
  - unfold cur_skip_suspend. destruct incur as [id|]; [|same_tac]. destruct (find_stmt id (stmts s)); same_tac.
  - eapply same_trans; [|apply kill_cursor_same]. same_tac.
  - destruct (eof s); [|same_tac]. cbn. same_tac.
Qed.

Lemma handler_same s c : same s (fst (handler BATCH s c)).
Proof.
  destruct c; cbn [handler];
  repeat match goal with
  | |- context [match find_stmt ?i ?t with _ => _ end] => destruct (find_stmt i t)
  | |- context [match st_cursor ?v with _ => _ end] => destruct (st_cursor v)
  | |- context [fetch_plan ?a ?b ?c ?d ?e ?f ?g ?h] => destruct (fetch_plan a b c d e f g h)
  end; cbn [fst]; same_tac.
Qed.

Lemma P_ctl f s c : P10 f s -> P10 f (upd_ctl s c).
Proof. apply P10_same. same_tac. Qed.
Lemma D_ctl s c : D10 s -> D10 (upd_ctl s c).
Proof. unfold D10. cbn. auto. Qed.

Lemma op_ok s m f : P10 f s ->
  match exec_op B s m with
  | ActNext s' _ | ActSuspend s' _ _ _ => P10 f s'
  | ActRaise s' x ic _ => P10 f (kill_cursor s' ic)
  | ActQuit s' => P10 f s' /\ (f = FHandler -> P10 (FClose false) (inc_closes (set_seq (set_exec s' false) 0)))
  | ActEnter s' f' => P10 f s' /\ (is_handler f = true -> is_handler f' = true -> P10 f' s')
  end.
Proof.
  intros H. pose proof (op_same s m) as S. destruct (exec_op B s m); try (eapply P10_same; eassumption).
  - split; [eapply P10_same; eassumption|].
    intros ->. destruct S as [A C]. cbn in *. rewrite A, C. destruct H as [H1 H2]. rewrite H1, H2. auto.
  - split; [eapply P10_same; eassumption|]. intros Hf Hf'. eapply P10_same; [exact S|].
    destruct f; try discriminate Hf; destruct f0; try discriminate Hf'; exact H.
Qed.

Lemma W_ctl s c : W10 s -> W10 (upd_ctl s c).
Proof. unfold W10. cbn. auto. Qed.
Lemma P_weak f s : P10 f s -> W10 s.
Proof. unfold W10. destruct f; cbn; intros [H1 H2]; rewrite H1, H2; split; auto; discriminate. Qed.

Lemma throw_ok s x f : P10 f s ->
  match throw s x f with
  | Continue s' _ f' => P10 f' s'
  | ToClose s' re => P10 (FClose re) (inc_closes s')
  | Finished s' _ => D10 s'
  end.
Proof.
  intros H. destruct f, x; cbn in *; try destruct (kill s) as [[|]|]; cbn in *;
    destruct H as [H1 H2]; unfold D10; cbn; rewrite ?H1, ?H2; cbn; auto.
Qed.

Lemma end_ok s f : P10 f s ->
  match end_plan BATCH s f with
  | EFinish s' _ => D10 s'
  | EGo s' _ f' => P10 f' s'
  | ESuspRead s' => P10 f s'
  | ERaise s' _ => P10 f s'
  end.
Proof.
  intros H. destruct f; cbn [end_plan]; try (destruct H as [H1 H2]; unfold D10; cbn; rewrite ?H1, ?H2; cbn; auto; fail).
  - (* FRead *) destruct (inq s) as [|c q].
    + destruct (eof s); exact H.
    + match goal with |- context [handler BATCH ?x c] => pose proof (handler_same x c) as HS; destruct (handler BATCH x c) as [s2 k2] end.
      cbn [fst] in HS. eapply P10_same; [|exact H]. eapply same_trans; [|exact HS]. same_tac.
  - destruct waskill; destruct H as [H1 H2]; cbn; auto.
Qed.

Lemma kc_none f s : P10 f s -> P10 f (kill_cursor s None).
Proof. auto. Qed.

Definition good10 := good P10 D10 W10.

Lemma go_good10 s k f : P10 f s -> good10 (fst (go B BATCH s k f)).
Proof. apply (go_good B BATCH P10 D10 W10 P_ctl D_ctl W_ctl P_weak op_ok throw_ok end_ok kc_none). Qed.
Lemma raise_good10 s x f ic : P10 f (kill_cursor s ic) -> good10 (fst (raise_at B BATCH s x f ic)).
Proof. apply (raise_at_good B BATCH P10 D10 W10 P_ctl D_ctl W_ctl P_weak op_ok throw_ok end_ok kc_none). Qed.

Ltac close_same H :=
  first [ apply go_good10 | apply raise_good10 | idtac ];
  try (eapply P10_same; [|exact H]; try (eapply same_trans; [|apply kill_cursor_same]); same_tac).

Lemma step_good10 s e : good10 s -> good10 (fst (step B BATCH s e)).
Proof.
  intros G. unfold step. unfold good10, good in G.
  destruct (ctl_ s) as [w k f ic| |] eqn:Ec;
    [|cbn [fst]; unfold good10, good; rewrite Ec; exact G|cbn [fst]; unfold good10, good; rewrite Ec; exact G].
  assert (Keep : forall s', same s s' -> ctl_ s' = ctl_ s -> good10 s').
  { intros s' Hs Hc. unfold good10, good. rewrite Hc, Ec. eapply P10_same; eassumption. }
  destruct e.
  - (* EvPayload *)
    destruct (phase s); try (apply Keep; [same_tac|reflexivity]).
    destruct w; try (apply Keep; [same_tac|reflexivity]).
    destruct f; try (apply Keep; [same_tac|reflexivity]). close_same G.
  - (* EvHandshake *)
    destruct (phase s); try (apply Keep; [same_tac|reflexivity]).
    destruct w; try (apply Keep; [same_tac|reflexivity]).
    destruct f; try (apply Keep; [same_tac|reflexivity]).
    destruct ok; close_same G.
  - (* EvAuthReply *)
    destruct (phase s); try (apply Keep; [same_tac|reflexivity]);
    destruct w; try (apply Keep; [same_tac|reflexivity]);
    destruct f; try (apply Keep; [same_tac|reflexivity]); close_same G.
  - (* EvDecide *)
    destruct w; try (apply Keep; [same_tac|reflexivity]).
    destruct c; try (apply Keep; [same_tac|reflexivity]). close_same G.
  - (* EvEof *)
    destruct w; try (apply Keep; [same_tac|reflexivity]). close_same G.
  - (* EvEofMidPacket *)
    destruct w; try (apply Keep; [same_tac|reflexivity]). destruct header_read; close_same G.
  - (* EvBadSeq *)
    destruct w; try (apply Keep; [same_tac|reflexivity]). close_same G.
  - (* EvApp *)
    destruct w; try (apply Keep; [same_tac|reflexivity]).
    destruct c; try (apply Keep; [same_tac|reflexivity]);
    (destruct o as [|sz items|[cd|]|]; try (close_same G; fail);
     destruct k as [|[] k']; close_same G).
  - (* EvRowReady *) destruct w; try (apply Keep; [same_tac|reflexivity]). close_same G.
  - (* EvTick *) destruct w; try (apply Keep; [same_tac|reflexivity]). close_same G.
  - (* EvPause *) apply Keep; [same_tac|reflexivity].
  - (* EvResume *) destruct w; try (apply Keep; [same_tac|reflexivity]). close_same G.
  - (* EvSockFail *) destruct w; try (apply Keep; [same_tac|reflexivity]). close_same G.
  - (* EvKill *)
    destruct (kill_accepted s k0 false); [|apply Keep; [same_tac|reflexivity]]. close_same G.
  - (* EvKillSelf *)
    destruct w; try (apply Keep; [same_tac|reflexivity]).
    destruct (kill_accepted s k0 true); [|apply Keep; [same_tac|reflexivity]]. close_same G.
Qed.

(* every state reachable from a fresh connection satisfies the invariant *)
Lemma boot_good hs : good10 (fst (boot B BATCH hs)).
Proof. unfold boot. apply go_good10. cbn. auto. Qed.

Theorem reachable_good hs evs :
  good10 (fold_left (fun s e => fst (step B BATCH s e)) evs (fst (boot B BATCH hs))).
Proof. apply (runs_good B BATCH P10 D10 W10 step_good10). apply boot_good. Qed.
End C10.

(* ---- the socket is closed and the registry entry removed exactly once, when the task ends ---------------- *)
Definition is_release (o : out) : bool := match o with OWriterClose | OCtlRemove => true | _ => false end.
Definition releases (l : list out) : nat := length (filter is_release l).
Definition released (s : st) : nat := match ctl_ s with Done => 2%nat | _ => 0%nat end.

Lemma releases_app a b : releases (a ++ b) = (releases a + releases b)%nat.
Proof. unfold releases. now rewrite filter_app, app_length. Qed.

Section Release.
Variable B BATCH : N.

Lemma flush_no_release s : releases (snd (flush s)) = 0%nat.
Proof. unfold flush. destruct (buf s); reflexivity. Qed.

Lemma do_drain_no_release s :
  match do_drain s with
  | ActNext _ o | ActSuspend _ _ _ o | ActRaise _ _ _ o => releases o = 0%nat
  | ActQuit _ | ActEnter _ _ => True
  end.
Proof.
  unfold do_drain. pose proof (flush_no_release s) as F. destruct (flush s) as [s1 o1]. cbn [snd] in F.
  destruct (dead s1); [exact F|]. destruct (paused s1); exact F.
Qed.

Lemma op_no_release s m :
  match exec_op B s m with
  | ActNext _ o | ActSuspend _ _ _ o | ActRaise _ _ _ o => releases o = 0%nat
  | ActQuit _ | ActEnter _ _ => True
  end.
Proof.
  destruct m; cbn [exec_op]; try reflexivity; try exact I.
  - match goal with |- context [if ?c then _ else _] => destruct c end; [apply do_drain_no_release|reflexivity].
  - apply do_drain_no_release.
  - destruct (eof s); reflexivity.
Qed.

Lemma run_release : forall fuel s k f,
  releases (snd (run B BATCH fuel s k f)) = released (fst (run B BATCH fuel s k f)).
Proof.
  induction fuel as [|n IH]; intros s k f; [reflexivity|].
  assert (R : forall s x ic,
    releases (snd (match throw (kill_cursor s ic) x f with
                   | Continue s' k' f' => run B BATCH n s' k' f'
                   | ToClose s' re => run B BATCH n (inc_closes s') [MApp SClose] (FClose re)
                   | Finished s' exc => finish s' exc end)) =
    released (fst (match throw (kill_cursor s ic) x f with
                   | Continue s' k' f' => run B BATCH n s' k' f'
                   | ToClose s' re => run B BATCH n (inc_closes s') [MApp SClose] (FClose re)
                   | Finished s' exc => finish s' exc end))).
  { intros s0 x ic. destruct (throw (kill_cursor s0 ic) x f); [apply IH|apply IH|reflexivity]. }
  destruct k as [|m k']; cbn [run].
  - destruct (end_plan BATCH s f); [reflexivity|apply IH|reflexivity|apply R].
  - pose proof (op_no_release s m) as O. destruct (exec_op B s m) as [s' o|s' w ic o|s' x ic o|s'|s' f'].
    + unfold prepend. cbn [fst snd]. rewrite releases_app, O. apply IH.
    + cbn [fst snd]. exact O.
    + unfold prepend. cbn [fst snd]. rewrite releases_app, O. apply R.
    + destruct f; try reflexivity. apply IH.
    + destruct (is_handler f && is_handler f'); [apply IH|reflexivity].
Qed.

Lemma raise_at_release s x f ic :
  releases (snd (raise_at B BATCH s x f ic)) = released (fst (raise_at B BATCH s x f ic)).
Proof. unfold raise_at. destruct (throw (kill_cursor s ic) x f); [apply run_release|apply run_release|reflexivity]. Qed.

Lemma step_release s e : ctl_ s <> Done ->
  releases (snd (step B BATCH s e)) = released (fst (step B BATCH s e)).
Proof.
  intros ND. unfold step. destruct (ctl_ s) as [w k f ic| |] eqn:Ec; [|contradiction|cbn; unfold released; now rewrite Ec].
  assert (Z : forall s', ctl_ s' = ctl_ s -> releases (@nil out) = released s').
  { intros s' H. unfold released. rewrite H, Ec. reflexivity. }
  destruct e;
  repeat match goal with
  | |- context [match phase s with _ => _ end] => destruct (phase s)
  | |- context [match ?w with WRead => _ | _ => _ end] => destruct w
  | |- context [match ?c with SGetUser => _ | _ => _ end] => destruct c
  | |- context [match ?f with FConn => _ | _ => _ end] => destruct f
  | |- context [if kill_accepted ?a ?b ?c then _ else _] => destruct (kill_accepted a b c)
  | |- context [if ?b then _ else _] => destruct b
  | |- context [match ?o with ONone => _ | _ => _ end] => destruct o as [|? ?|[?|]|]
  | |- context [match ?k with [] => _ | _ => _ end] => destruct k as [|[] ?]
  end;
  cbn [fst snd];
  try (apply Z; reflexivity); try apply run_release; try apply raise_at_release.
Qed.
End Release.

(* ---- whole executions ---------------------------------------------------------------------------------------- *)
Section Exec.
Variable B BATCH : N.

Fixpoint exec (s : st) (evs : list ev) : st * list out :=
  match evs with
  | [] => (s, [])
  | e :: r => let '(s1, o1) := step B BATCH s e in let '(s2, o2) := exec s1 r in (s2, o1 ++ o2)
  end.

Lemma exec_fst s evs : fst (exec s evs) = fold_left (fun s e => fst (step B BATCH s e)) evs s.
Proof.
  revert s. induction evs as [|e r IH]; intros s; [reflexivity|].
  cbn [exec fold_left]. destruct (step B BATCH s e) as [s1 o1]. specialize (IH s1).
  destruct (exec s1 r) as [s2 o2]. exact IH.
Qed.

Lemma step_done s e : ctl_ s = Done -> step B BATCH s e = (s, []).
Proof. intros H. unfold step. now rewrite H. Qed.

Lemma exec_release : forall evs s,
  (releases (snd (exec s evs)) + released s = released (fst (exec s evs)))%nat.
Proof.
  induction evs as [|e r IH]; intros s; [cbn; lia|].
  cbn [exec]. destruct (step B BATCH s e) as [s1 o1] eqn:E. specialize (IH s1).
  destruct (exec s1 r) as [s2 o2]. cbn [fst snd] in *. rewrite releases_app.
  destruct (ctl_ s) eqn:Ec.
  - pose proof (step_release B BATCH s e ltac:(rewrite Ec; discriminate)) as R. rewrite E in R. cbn [fst snd] in R.
    unfold released at 1. rewrite Ec. lia.
  - rewrite step_done in E by assumption. inversion E; subst. cbn. lia.
  - pose proof (step_release B BATCH s e ltac:(rewrite Ec; discriminate)) as R. rewrite E in R. cbn [fst snd] in R.
    unfold released at 1. rewrite Ec. lia.
Qed.

Definition session (hs : N) (evs : list ev) : st * list out :=
  let '(s0, o0) := boot B BATCH hs in let '(s1, o1) := exec s0 evs in (s1, o0 ++ o1).

Theorem session_release hs evs :
  releases (snd (session hs evs)) = released (fst (session hs evs)).
Proof.
  unfold session.
  assert (R0 : releases (snd (boot B BATCH hs)) = released (fst (boot B BATCH hs))) by (unfold boot, go; apply run_release).
  destruct (boot B BATCH hs) as [s0 o0]. pose proof (exec_release evs s0) as R.
  destruct (exec s0 evs) as [s1 o1]. cbn [fst snd] in *. rewrite releases_app. lia.
Qed.

Theorem session_good hs evs : good10 (fst (session hs evs)).
Proof.
  unfold session. pose proof (reachable_good B BATCH hs evs) as G.
  destruct (boot B BATCH hs) as [s0 o0]. cbn [fst] in G. rewrite <- exec_fst in G.
  destruct (exec s0 evs) as [s1 o1]. exact G.
Qed.
End Exec.
