From Coq Require Import List NArith Lia Bool.
From MM Require Import Lib.Bytes Model.Conn Model.Multi.
Import ListNotations.
Open Scope N_scope.

Section P.
Variable B BATCH : N.
Notation mstep := (mstep B BATCH).
Notation mrun := (mrun B BATCH).
Notation run1 := (run1 B BATCH).

Lemma mget_mput_same i s ms : mget i (mput i s ms) = Some s.
Proof.
  induction ms as [|[k v] r IH]; cbn [mput mget].
  - now rewrite N.eqb_refl.
  - destruct (N.eqb_spec k i) as [->|H]; cbn [mget]; [now rewrite N.eqb_refl|].
    destruct (N.eqb_spec k i); [contradiction|exact IH].
Qed.

Lemma mget_mput_other i j s ms : i <> j -> mget j (mput i s ms) = mget j ms.
Proof.
  intros H. induction ms as [|[k v] r IH]; cbn [mput mget].
  - destruct (N.eqb_spec i j); [contradiction|reflexivity].
  - destruct (N.eqb_spec k i) as [->|Hk]; cbn [mget].
    + destruct (N.eqb_spec i j); [contradiction|reflexivity].
    + destruct (N.eqb_spec k j); [reflexivity|exact IH].
Qed.

(* frame: an event of connection i leaves every other connection's state untouched and produces no output
   attributed to another connection *)
Theorem mstep_frame ms i e j : i <> j ->
  mget j (fst (mstep ms (i, e))) = mget j ms /\ proj_out j (snd (mstep ms (i, e))) = [].
Proof.
  intros H. unfold Multi.mstep. destruct (mget i ms) as [s|]; [|split; reflexivity].
  destruct (step B BATCH s e) as [s' o]. cbn [fst snd]. split; [now apply mget_mput_other|].
  unfold proj_out. induction o as [|x o IH]; [reflexivity|]. cbn [map filter fst].
  destruct (N.eqb_spec i j); [contradiction|exact IH].
Qed.

Lemma proj_out_app i a b : proj_out i (a ++ b) = proj_out i a ++ proj_out i b.
Proof. unfold proj_out. now rewrite filter_app, map_app. Qed.

Lemma proj_out_own i o : proj_out i (map (fun x => (i, x)) o) = o.
Proof.
  unfold proj_out. induction o as [|x o IH]; [reflexivity|]. cbn [map filter fst]. rewrite N.eqb_refl. cbn [map snd]. now rewrite IH.
Qed.

(* projection: in ANY interleaving, connection i ends in the state and produces the outputs it would produce
   running alone on its own events *)
Theorem mrun_projection : forall evs ms i s, mget i ms = Some s ->
  mget i (fst (mrun ms evs)) = Some (fst (run1 s (proj_ev i evs))) /\
  proj_out i (snd (mrun ms evs)) = snd (run1 s (proj_ev i evs)).
Proof.
  induction evs as [|[j e] evs IH]; intros ms i s H; [split; [exact H|reflexivity]|].
  cbn [Multi.mrun]. destruct (mstep ms (j, e)) as [ms1 o1] eqn:E1.
  destruct (N.eqb_spec j i) as [->|Hne].
  - (* an event of connection i itself *)
    unfold proj_ev. cbn [filter fst]. rewrite N.eqb_refl. cbn [map snd Multi.run1]. fold (proj_ev i evs).
    unfold Multi.mstep in E1. rewrite H in E1. destruct (step B BATCH s e) as [s' o] eqn:Es.
    inversion E1; subst ms1 o1. specialize (IH (mput i s' ms) i s' (mget_mput_same i s' ms)).
    destruct (mrun (mput i s' ms) evs) as [ms2 o2]. destruct (run1 s' (proj_ev i evs)) as [s2 o2'].
    cbn [fst snd] in *. destruct IH as [I1 I2]. split; [exact I1|].
    rewrite proj_out_app, proj_out_own, I2. reflexivity.
  - (* an event of another connection *)
    pose proof (mstep_frame ms j e i Hne) as [F1 F2]. rewrite E1 in F1, F2. cbn [fst snd] in F1, F2.
    assert (H1 : mget i ms1 = Some s) by (rewrite F1; exact H).
    unfold proj_ev. cbn [filter fst]. destruct (N.eqb_spec j i); [contradiction|]. fold (proj_ev i evs).
    specialize (IH ms1 i s H1). destruct (mrun ms1 evs) as [ms2 o2]. cbn [fst snd] in *.
    destruct IH as [I1 I2]. split; [exact I1|]. rewrite proj_out_app, F2, I2. reflexivity.
Qed.
End P.
