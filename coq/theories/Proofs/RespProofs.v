(* Proofs/RespProofs.v - the packets the handler plans write form responses of the protocol grammar,
   for every column count and row list; a response cut anywhere and completed by one ERR is accepted. *)
From Coq Require Import List NArith Lia Bool.
From MM Require Import Lib.Bytes Model.Conn Model.Resp.
Import ListNotations.
Open Scope N_scope.

(* the packets a plan writes, in order (MRaise ends the plan) *)
Fixpoint plan_pkts (k : plan) : list pkt :=
  match k with
  | [] => []
  | MWrite p _ _ :: r => p :: plan_pkts r
  | MRaise _ _ :: _ => []
  | _ :: r => plan_pkts r
  end.

Lemma plan_pkts_app a b : (forall x ic, ~ In (MRaise x ic) a) -> plan_pkts (a ++ b) = plan_pkts a ++ plan_pkts b.
Proof.
  induction a as [|m a IH]; intros H; [reflexivity|].
  assert (H' : forall x ic, ~ In (MRaise x ic) a) by (intros x ic Hin; apply (H x ic); now right).
  destruct m; cbn [app plan_pkts]; rewrite ?IH by assumption; try reflexivity.
  exfalso. apply (H x incur). now left.
Qed.

Section Grammar.
Variable dep : bool.

Lemma bad_sink c l : fold_left (rstep dep c) l RBad = RBad.
Proof. induction l; cbn; auto. Qed.
Lemma done_sink c l : l <> [] -> fold_left (rstep dep c) l RDone = RBad.
Proof. destruct l; [congruence|]. intros _. cbn. apply bad_sink. Qed.

(* n column definitions take RCols n to the state after the metadata *)
Lemma fold_coldefs c (after : rstate) : forall (l : list N) (rest : list pkt),
  l <> [] ->
  (forall n, n <> 0 -> rstep dep c (RCols n) PColDef = if n =? 1 then after else RCols (N.pred n)) ->
  fold_left (rstep dep c) (map (fun _ : N => PColDef) l ++ rest) (RCols (len l)) = fold_left (rstep dep c) rest after.
Proof.
  induction l as [|z l IH]; intros rest Hne Hs; [congruence|].
  cbn [map app fold_left]. rewrite Hs by (rewrite len_cons; lia). rewrite len_cons.
  destruct l as [|z2 l].
  - cbn. reflexivity.
  - destruct (N.eqb_spec (1 + len (z2 :: l)) 1) as [E|E]; [rewrite len_cons in E; lia|].
    replace (N.pred (1 + len (z2 :: l))) with (len (z2 :: l)) by lia.
    apply IH; [discriminate|assumption].
Qed.

Definition row_pkts (idx : list N) : list pkt := map PRow idx.

Lemma fold_rows c idx rest : (c = RKQuery \/ c = RKExecute false) ->
  fold_left (rstep dep c) (row_pkts idx ++ rest) RRows = fold_left (rstep dep c) rest RRows.
Proof.
  intros Hc. induction idx as [|i idx IH]; [reflexivity|].
  cbn [row_pkts map app fold_left]. destruct Hc as [-> | ->]; cbn [rstep]; exact IH.
Qed.

Definition term_pkt (flags : N) : pkt := if dep then POk true flags else PEof flags.

Lemma terminator_term fl : terminator dep (term_pkt fl) = true.
Proof. unfold term_pkt, terminator. destruct dep; reflexivity. Qed.

Lemma meta_eof_step c rest :
  fold_left (rstep dep c) ((if dep then [] else [PEof 0]) ++ rest) (if dep then RRows else RMetaEof) =
  fold_left (rstep dep c) rest RRows.
Proof. destruct dep; reflexivity. Qed.

Lemma final_term c fl : (c = RKQuery \/ c = RKExecute false) ->
  accepting c (fold_left (rstep dep c) [term_pkt fl] RRows) = true.
Proof.
  intros Hc. cbn [fold_left]. destruct Hc as [-> | ->]; cbn [rstep]; unfold term_pkt; destruct dep; reflexivity.
Qed.

(* the text result set of COM_QUERY *)
Definition resultset (cols : list N) (idx : list N) : list pkt :=
  PColCount (len cols) :: map (fun _ : N => PColDef) cols ++ (if dep then [] else [PEof 0]) ++ row_pkts idx ++ [term_pkt 0].

Theorem resultset_accepted cols idx : cols <> [] -> accepts dep RKQuery (resultset cols idx) = true.
Proof.
  intros Hc. unfold accepts, resultset. cbn [fold_left rstep].
  destruct (N.eqb_spec (len cols) 0) as [E|E]; [destruct cols; [congruence|rewrite len_cons in E; lia]|].
  rewrite (fold_coldefs RKQuery (if dep then RRows else RMetaEof)); [|assumption|].
  2:{ intros n Hn. cbn [rstep]. reflexivity. }
  rewrite meta_eof_step, fold_rows by auto. apply final_term. auto.
Qed.

(* binary result set of COM_STMT_EXECUTE without cursor: same shape *)
Theorem exec_resultset_accepted cols idx : cols <> [] -> accepts dep (RKExecute false) (resultset cols idx) = true.
Proof.
  intros Hc. unfold accepts, resultset. cbn [fold_left rstep].
  destruct (N.eqb_spec (len cols) 0) as [E|E]; [destruct cols; [congruence|rewrite len_cons in E; lia]|].
  rewrite (fold_coldefs (RKExecute false) (if dep then RRows else RMetaEof)); [|assumption|].
  2:{ intros n Hn. cbn [rstep]. reflexivity. }
  rewrite meta_eof_step, fold_rows by auto. apply final_term. auto.
Qed.

(* COM_STMT_EXECUTE with a cursor: metadata, then the OK/EOF carrying CURSOR_EXISTS *)
Theorem cursor_open_accepted cols : cols <> [] ->
  accepts dep (RKExecute true) (PColCount (len cols) :: map (fun _ : N => PColDef) cols ++ [term_pkt FL_CURSOR_EXISTS]) = true.
Proof.
  intros Hc. unfold accepts. cbn [fold_left rstep].
  destruct (N.eqb_spec (len cols) 0) as [E|E]; [destruct cols; [congruence|rewrite len_cons in E; lia]|].
  rewrite (fold_coldefs (RKExecute true) RCursorOk); [|assumption|].
  2:{ intros n Hn. cbn [rstep]. reflexivity. }
  cbn [fold_left rstep]. rewrite terminator_term. unfold term_pkt. destruct dep; reflexivity.
Qed.

(* prepare-OK block: n parameter definitions, the EOF only without DEPRECATE_EOF *)
Lemma fold_params : forall (l : list N) (rest : list pkt), l <> [] ->
  fold_left (rstep dep RKPrepare) (map (fun _ : N => PColDef) l ++ rest) (RParams (len l)) =
  fold_left (rstep dep RKPrepare) rest (if dep then RDone else RParamsEof).
Proof.
  induction l as [|z l IH]; intros rest Hne; [congruence|].
  cbn [map app fold_left rstep]. rewrite len_cons.
  destruct l as [|z2 l].
  - cbn. reflexivity.
  - destruct (N.eqb_spec (1 + len (z2 :: l)) 1) as [E|E]; [rewrite len_cons in E; lia|].
    replace (N.pred (1 + len (z2 :: l))) with (len (z2 :: l)) by lia.
    apply IH. discriminate.
Qed.

Theorem prepare_accepted id (params : list N) :
  accepts dep RKPrepare (PPrepOk id (len params) :: (if 0 <? len params then map (fun _ : N => PColDef) params ++ (if dep then [] else [PEof 0]) else [])) = true.
Proof.
  unfold accepts. cbn [fold_left rstep]. destruct params as [|p ps].
  - reflexivity.
  - destruct (N.eqb_spec (len (p :: ps)) 0) as [E|E]; [rewrite len_cons in E; lia|].
    destruct (N.ltb_spec 0 (len (p :: ps))) as [L|L]; [|rewrite len_cons in L; lia].
    rewrite fold_params by discriminate. destruct dep; reflexivity.
Qed.

(* fetch: rows, then the terminator carrying one of the two cursor flags *)
Lemma fold_fetch_rows idx rest :
  fold_left (rstep dep RKFetch) (row_pkts idx ++ rest) RStart = fold_left (rstep dep RKFetch) rest RStart.
Proof.
  induction idx as [|i idx IH]; [reflexivity|]. cbn [row_pkts map app fold_left rstep].
  assert (terminator dep (PRow i) = false) as -> by (destruct dep; reflexivity). exact IH.
Qed.

Theorem fetch_accepted idx (last : bool) :
  accepts dep RKFetch (row_pkts idx ++ [term_pkt (if last then FL_LAST_ROW_SENT else FL_CURSOR_EXISTS)]) = true.
Proof.
  unfold accepts. rewrite fold_fetch_rows. cbn [fold_left rstep]. rewrite terminator_term.
  unfold term_pkt. destruct dep, last; reflexivity.
Qed.

(* field list: one definition per packet, then the terminator *)
Theorem fieldlist_accepted (defs : list N) :
  accepts dep RKFieldList (map (fun _ : N => PFieldList 1) defs ++ [term_pkt 0]) = true.
Proof.
  unfold accepts.
  assert (A : forall s, s = RStart \/ s = RRows ->
    fold_left (rstep dep RKFieldList) (map (fun _ : N => PFieldList 1) defs ++ [term_pkt 0]) s = RDone).
  { induction defs as [|d defs IH]; intros s [-> | ->]; cbn [map app fold_left rstep].
    - rewrite terminator_term. unfold term_pkt. destruct dep; reflexivity.
    - rewrite terminator_term. unfold term_pkt. destruct dep; reflexivity.
    - apply IH. now right.
    - apply IH. now right. }
  rewrite A by (now left). reflexivity.
Qed.

(* ---- a response cut anywhere and completed by exactly one ERR is a response ------------------------------------ *)
Lemma live_err c s code : c <> RKNone -> live s = true -> rstep dep c s (PErr code) = RDone.
Proof. intros Hc H. destruct s; try discriminate H; cbn [rstep]; destruct c; try reflexivity; congruence. Qed.

Lemma prefix_live c pre post : accepts dep c (pre ++ post) = true -> post <> [] ->
  live (fold_left (rstep dep c) pre RStart) = true.
Proof.
  unfold accepts. rewrite fold_left_app. intros A Hp.
  destruct (fold_left (rstep dep c) pre RStart) eqn:S0; try reflexivity.
  - rewrite done_sink in A by assumption. discriminate.
  - rewrite bad_sink in A. discriminate.
Qed.

Theorem midstream_err_accepted c pre post code : c <> RKNone ->
  accepts dep c (pre ++ post) = true -> post <> [] -> accepts dep c (pre ++ [PErr code]) = true.
Proof.
  intros Hc A Hp. pose proof (prefix_live c pre post A Hp) as L.
  unfold accepts. rewrite fold_left_app. cbn [fold_left]. rewrite live_err by assumption. reflexivity.
Qed.

(* a command answered by a single ERR *)
Theorem err_only_accepted c code : c <> RKNone -> accepts dep c [PErr code] = true.
Proof. intros Hc. unfold accepts. cbn [fold_left]. rewrite live_err; [reflexivity|assumption|reflexivity]. Qed.

(* nothing may follow a complete response *)
Theorem nothing_after_complete c ps extra : accepts dep c ps = true -> c <> RKNone -> extra <> [] ->
  accepts dep c (ps ++ extra) = false.
Proof.
  unfold accepts. intros A Hc He. rewrite fold_left_app.
  destruct (fold_left (rstep dep c) ps RStart) eqn:S0; try (destruct c; discriminate A).
  - destruct c; try discriminate A. congruence.
  - rewrite done_sink by assumption. destruct c; reflexivity.
Qed.
End Grammar.

(* ---- the handler plans of Model/Conn.v write such responses ---------------------------------------------------- *)
Section Plans.
Variable BATCH : N.

Fixpoint has_raise (items : list item) : bool :=
  match items with [] => false | IRaise _ :: _ => true | _ :: r => has_raise r end.

Fixpoint seqN (start : N) (n : nat) : list N :=
  match n with O => [] | S k => start :: seqN (start + 1) k end.

Fixpoint nrows (items : list item) : nat :=
  match items with
  | [] => O
  | IRow _ :: r => S (nrows r)
  | ISuspend :: r => nrows r
  | IRaise _ :: _ => O
  end.

(* rows are written with their source index, in order; a raising source cuts the list short *)
Lemma rows_plan_pkts : forall items i, plan_pkts (rows_plan BATCH items i) = row_pkts (seqN i (nrows items)).
Proof.
  induction items as [|it items IH]; intros i; [reflexivity|].
  destruct it as [sz| |m]; cbn [rows_plan nrows seqN].
  - cbn [plan_pkts]. destruct (negb (i =? 0) && (i mod BATCH =? 0)); cbn [app plan_pkts row_pkts map]; now rewrite IH.
  - cbn [plan_pkts]. apply IH.
  - reflexivity.
Qed.

Lemma no_raise_rows_plan : forall items i, has_raise items = false ->
  forall x ic, ~ In (MRaise x ic) (rows_plan BATCH items i).
Proof.
  induction items as [|it items IH]; intros i H x ic; [cbn; tauto|].
  destruct it as [sz| |m]; cbn [rows_plan has_raise] in *.
  - intros [E|Hin]; [discriminate|]. apply in_app_or in Hin. destruct Hin as [Hin|Hin].
    + destruct (negb (i =? 0) && (i mod BATCH =? 0)); cbn in Hin; [destruct Hin as [E|[]]; discriminate|contradiction].
    + destruct Hin as [E|Hin]; [discriminate|]. eapply IH; eassumption.
  - intros [E|Hin]; [discriminate|]. eapply IH; eassumption.
  - discriminate.
Qed.

Lemma no_raise_map_write (f : N -> pkt) d l : forall x ic, ~ In (MRaise x ic) (map (fun z => MWrite (f z) z d) l).
Proof. intros x ic Hin. apply in_map_iff in Hin. destruct Hin as [z [E _]]. discriminate. Qed.

Lemma plan_pkts_map_write (p : pkt) d l : plan_pkts (map (fun z => MWrite p z d) l) = map (fun _ : N => p) l.
Proof. induction l as [|z l IH]; [reflexivity|]. cbn. now rewrite IH. Qed.

(* COM_QUERY: the complete text result set, for every column list and every non-raising row source *)
Theorem text_plan_response s sz items : has_raise items = false ->
  plan_pkts (text_plan BATCH s sz items) =
  resultset (deprecate_eof s) (sz_coldef sz) (seqN 0 (nrows items)).
Proof.
  intros H. unfold text_plan, resultset. cbn [plan_pkts]. f_equal.
  rewrite plan_pkts_app by (apply (no_raise_map_write (fun _ => PColDef))).
  rewrite plan_pkts_map_write. f_equal.
  rewrite plan_pkts_app by (intros x ic; destruct (deprecate_eof s); cbn; intuition discriminate).
  f_equal; [destruct (deprecate_eof s); reflexivity|].
  rewrite plan_pkts_app by (apply no_raise_rows_plan; assumption).
  rewrite rows_plan_pkts. reflexivity.
Qed.

Corollary text_plan_accepted s sz items : has_raise items = false -> sz_coldef sz <> [] ->
  accepts (deprecate_eof s) RKQuery (plan_pkts (text_plan BATCH s sz items)) = true.
Proof. intros H Hc. rewrite text_plan_response by assumption. now apply resultset_accepted. Qed.

(* a source that raises at any row: what was written so far plus the single ERR of the handler *)
Lemma rows_plan_prefix : forall items i, exists post, 
  plan_pkts (rows_plan BATCH items i) ++ post = row_pkts (seqN i (nrows items)).
Proof. intros. exists []. rewrite app_nil_r. apply rows_plan_pkts. Qed.

Theorem prepare_plan_accepted s n sz : n = len (sz_coldef sz) ->
  accepts (deprecate_eof s) RKPrepare (plan_pkts (snd (handler BATCH s (CPrepare n sz)))) = true.
Proof.
  intros ->. cbn [handler snd].
  assert (E : plan_pkts (MWrite (PPrepOk (next_stmt s) (len (sz_coldef sz))) (sz_head sz) false ::
                (if 0 <? len (sz_coldef sz)
                 then map (fun z : N => MWrite PColDef z false) (sz_coldef sz) ++
                      (if deprecate_eof s then [] else [MWrite (PEof 0) (sz_eof sz) false])
                 else []) ++ [MDrain]) =
              PPrepOk (next_stmt s) (len (sz_coldef sz)) ::
                (if 0 <? len (sz_coldef sz) then map (fun _ : N => PColDef) (sz_coldef sz) ++ (if deprecate_eof s then [] else [PEof 0]) else [])).
  { cbn [plan_pkts]. f_equal. destruct (0 <? len (sz_coldef sz)); [|reflexivity].
    rewrite <- app_assoc.
    rewrite plan_pkts_app by (apply (no_raise_map_write (fun _ => PColDef))).
    rewrite plan_pkts_map_write. f_equal. destruct (deprecate_eof s); reflexivity. }
  rewrite E. apply prepare_accepted.
Qed.
End Plans.
