(* Proofs/StreamProofs.v - laziness, back-pressure and fairness of result streaming (C12). *)
From Coq Require Import List Arith NArith Lia Bool.
From MM Require Import Lib.Bytes Model.Conn.
Import ListNotations.
Open Scope N_scope.

Section Stream.
Variable B BATCH : N.
Hypothesis BATCHpos : 0 < BATCH.

(* ---- the write buffer: after every write either the buffer is below the limit or it has been flushed ------ *)
Lemma flush_empties s : buf (fst (flush s)) = [].
Proof. unfold flush. destruct (buf s) eqn:E; cbn; [exact E|reflexivity]. Qed.

Lemma flush_handed s : handed (fst (flush s)) = handed s + count_rows (buf s).
Proof. unfold flush. destruct (buf s) eqn:E; cbn; [unfold count_rows; cbn; lia|reflexivity]. Qed.

Lemma flush_pulled s : pulled (fst (flush s)) = pulled s.
Proof. unfold flush. destruct (buf s); reflexivity. Qed.

Definition state_of (a : action) : st :=
  match a with ActNext s _ | ActSuspend s _ _ _ | ActRaise s _ _ _ | ActQuit s | ActEnter s _ => s end.

Lemma do_drain_buf s : buf (state_of (do_drain s)) = [].
Proof.
  unfold do_drain. pose proof (flush_empties s) as E. destruct (flush s) as [s1 o1]. cbn [fst] in E.
  destruct (dead s1); [exact E|]. destruct (paused s1); exact E.
Qed.

(* back-pressure, buffer part: whatever is written, what stays in the library's buffer is below the limit *)
Theorem write_keeps_buffer_bounded s p sz d :
  buf_bytes (buf (state_of (exec_op B s (MWrite p sz d)))) < B \/ buf (state_of (exec_op B s (MWrite p sz d))) = [].
Proof.
  cbn [exec_op]. match goal with |- context [if ?c then _ else _] => destruct c eqn:C end.
  - right. apply do_drain_buf.
  - left. cbn [state_of]. apply orb_false_iff in C. destruct C as [_ C]. apply N.leb_gt in C. exact C.
Qed.

(* the counters: a write moves nothing; a flush hands over exactly the rows that were buffered *)
Lemma do_drain_counts s :
  handed (state_of (do_drain s)) = handed s + count_rows (buf s) /\ pulled (state_of (do_drain s)) = pulled s.
Proof.
  unfold do_drain. pose proof (flush_handed s) as H. pose proof (flush_pulled s) as P.
  destruct (flush s) as [s1 o1]. cbn [fst] in *. destruct (dead s1); [auto|]. destruct (paused s1); auto.
Qed.

Lemma count_rows_app a b : count_rows (a ++ b) = count_rows a + count_rows b.
Proof. unfold count_rows. rewrite filter_app, len_app. reflexivity. Qed.

(* rows in flight = pulled - handed - buffered is unchanged by every operation except a pull (+1) and the
   write of a row (-1): the invariant `pulled = handed + buffered rows + in flight` *)
Definition in_flight_ok (s : st) (n : N) : Prop := pulled s = handed s + count_rows (buf s) + n.

Theorem write_row_lands s i sz d n : in_flight_ok s (n + 1) ->
  in_flight_ok (state_of (exec_op B s (MWrite (PRow i) sz d))) n.
Proof.
  unfold in_flight_ok. intros H. cbn [exec_op].
  match goal with |- context [if ?c then _ else _] => destruct c end.
  - match goal with |- context [do_drain ?x] => pose proof (do_drain_counts x) as [D1 D2]; pose proof (do_drain_buf x) as D3 end.
    rewrite D1, D2, D3. cbn [buf set_seq set_buf pulled handed]. rewrite count_rows_app.
    unfold count_rows at 2 3. cbn. lia.
  - cbn [state_of buf set_seq set_buf pulled handed]. rewrite count_rows_app. unfold count_rows at 2. cbn. lia.
Qed.

Theorem write_other_keeps s p sz d n : is_rowpkt p = false -> in_flight_ok s n ->
  in_flight_ok (state_of (exec_op B s (MWrite p sz d))) n.
Proof.
  unfold in_flight_ok. intros Hp H. cbn [exec_op].
  assert (C : count_rows [(seq s, p, sz)] = 0) by (unfold count_rows; cbn; rewrite Hp; reflexivity).
  match goal with |- context [if ?c then _ else _] => destruct c end.
  - match goal with |- context [do_drain ?x] => pose proof (do_drain_counts x) as [D1 D2]; pose proof (do_drain_buf x) as D3 end.
    rewrite D1, D2, D3. cbn [buf set_seq set_buf pulled handed]. rewrite count_rows_app, C. unfold count_rows at 2. cbn. lia.
  - cbn [state_of buf set_seq set_buf pulled handed]. rewrite count_rows_app, C. lia.
Qed.

Theorem pull_takes_one s n : in_flight_ok s n -> in_flight_ok (state_of (exec_op B s MPull)) (n + 1).
Proof. unfold in_flight_ok. cbn. lia. Qed.

(* ---- the plans: every pulled row is written before the next one is pulled; a source that never suspends
        by itself is interrupted by a cooperative yield after at most BATCH + 1 rows ---------------------------- *)
(* maximal number of rows in flight while executing a plan that starts with n rows in flight *)
Fixpoint max_in_flight (k : plan) (n : nat) : nat :=
  match k with
  | [] => n
  | MPull :: r | MCurPull _ :: r => Nat.max (S n) (max_in_flight r (S n))
  | MWrite (PRow _) _ _ :: r => Nat.max n (max_in_flight r (pred n))
  | MRaise _ _ :: _ => n
  | _ :: r => Nat.max n (max_in_flight r n)
  end.

Lemma rows_plan_one_in_flight : forall items i, (max_in_flight (rows_plan BATCH items i) 0 <= 1)%nat.
Proof.
  induction items as [|it items IH]; intros i; [cbn; lia|].
  destruct it as [sz| |m]; cbn [rows_plan].
  - cbn [max_in_flight]. destruct (negb (i =? 0) && (i mod BATCH =? 0)); cbn [app max_in_flight pred]; specialize (IH (i + 1)); lia.
  - cbn [max_in_flight]. specialize (IH i). lia.
  - cbn. lia.
Qed.

Lemma bin_rows_plan_one_in_flight : forall items i, (max_in_flight (bin_rows_plan BATCH items i) 0 <= 1)%nat.
Proof.
  induction items as [|it items IH]; intros i; [cbn; lia|].
  destruct it as [sz| |m]; cbn [bin_rows_plan].
  - cbn [max_in_flight]. destruct (negb (i =? 0) && (i mod BATCH =? 0)); cbn [app max_in_flight pred]; specialize (IH (i + 1)); lia.
  - cbn [max_in_flight]. specialize (IH i). lia.
  - cbn. lia.
Qed.

Lemma fetch_plan_one_in_flight id : forall items fuel j c want i0,
  (max_in_flight (fst (fetch_plan BATCH fuel id items j c want i0)) 0 <= 1)%nat.
Proof.
  induction items as [|it items IH]; intros fuel j c want i0.
  - destruct fuel; cbn [fetch_plan]; destruct (want <=? c); cbn; lia.
  - destruct fuel as [|f]; cbn [fetch_plan]; destruct (want <=? c); try (cbn; lia).
    destruct it as [sz| |m].
    + specialize (IH f (j + 1) (c + 1) want i0). destruct (fetch_plan BATCH f id items (j + 1) (c + 1) want i0) as [k c'].
      cbn [fst] in *. cbn [max_in_flight].
      destruct (negb (j =? 0) && (j mod BATCH =? 0)); destruct (negb (c =? 0) && (c mod BATCH =? 0));
        cbn [app max_in_flight pred]; lia.
    + specialize (IH f j c want i0). destruct (fetch_plan BATCH f id items j c want i0) as [k c'].
      cbn [fst] in *. cbn [max_in_flight]. lia.
    + cbn. lia.
Qed.

(* fairness: number of rows pulled before the plan reaches an operation at which the task yields to the loop
   (cooperative yield, a wait for the source) or ends *)
Fixpoint pulls_before_yield (k : plan) : nat :=
  match k with
  | [] => O
  | MPull :: r | MCurPull _ :: r => S (pulls_before_yield r)
  | MSleep _ :: _ | MRowWait _ :: _ | MRaise _ _ :: _ | MApp _ :: _ | MRead :: _ => O
  | _ :: r => pulls_before_yield r
  end.

Lemma succ_mod i : (i + 1) mod BATCH = if i mod BATCH + 1 =? BATCH then 0 else i mod BATCH + 1.
Proof.
  pose proof (N.div_mod i BATCH ltac:(lia)) as D. pose proof (N.mod_lt i BATCH ltac:(lia)) as L.
  set (q := i / BATCH) in *. set (r := i mod BATCH) in *.
  destruct (N.eqb_spec (r + 1) BATCH) as [E|E].
  - symmetry. apply N.mod_unique with (q := q + 1); lia.
  - symmetry. apply N.mod_unique with (q := q); lia.
Qed.

(* rows pulled from row i on before the next cooperative yield *)
Definition until_yield (i : N) : N :=
  if i =? 0 then BATCH + 1 else if i mod BATCH =? 0 then 1 else BATCH - i mod BATCH + 1.

Lemma rows_plan_until_yield : forall items i,
  N.of_nat (pulls_before_yield (rows_plan BATCH items i)) <= until_yield i.
Proof.
  induction items as [|it items IH]; intros i.
  - cbn. unfold until_yield. destruct (i =? 0); [lia|]. destruct (i mod BATCH =? 0); lia.
  - destruct it as [sz| |m]; cbn [rows_plan]; try (cbn; unfold until_yield; destruct (i =? 0); [lia|]; destruct (i mod BATCH =? 0); lia).
    cbn [pulls_before_yield]. specialize (IH (i + 1)). unfold until_yield in *.
    pose proof (succ_mod i) as SM. pose proof (N.mod_lt i BATCH ltac:(lia)) as L.
    destruct (N.eqb_spec (i + 1) 0); [lia|].
    destruct (N.eqb_spec i 0) as [->|Hi].
    + cbn [negb andb app pulls_before_yield]. rewrite N.mod_0_l in SM by lia. change (0 + 1) with 1 in *.
      destruct (N.eqb_spec 1 BATCH) as [E1|E1].
      * rewrite SM in IH. cbn in IH. lia.
      * rewrite SM in IH. cbn [N.eqb Pos.eqb] in IH. lia.
    + cbn [negb andb]. destruct (N.eqb_spec (i mod BATCH) 0) as [E|E].
      * cbn [app pulls_before_yield]. lia.
      * cbn [app pulls_before_yield]. set (r := i mod BATCH) in *.
        destruct (N.eqb_spec (r + 1) BATCH) as [E2|E2]; rewrite SM in IH.
        -- cbn [N.eqb] in IH. lia.
        -- destruct (N.eqb_spec (r + 1) 0); lia.
Qed.

(* a source that never suspends by itself is interrupted after at most BATCH + 1 rows *)
Theorem rows_plan_yields : forall items i,
  N.of_nat (pulls_before_yield (rows_plan BATCH items i)) <= BATCH + 1.
Proof.
  intros items i. pose proof (rows_plan_until_yield items i) as H. unfold until_yield in H.
  pose proof (N.mod_lt i BATCH ltac:(lia)) as L. set (r := i mod BATCH) in *.
  destruct (i =? 0); [lia|]. destruct (r =? 0); lia.
Qed.
End Stream.
