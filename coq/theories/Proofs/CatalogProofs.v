From Coq Require Import List NArith Lia Bool.
From MM Require Import Lib.Bytes Model.Like Model.Catalog.
Import ListNotations.
Open Scope N_scope.

Lemma text_eqb_eq a b : text_eqb a b = true <-> a = b.
Proof.
  revert b. induction a as [|x a IH]; intros [|y b]; cbn; split; intros H; try discriminate; auto.
  - apply andb_prop in H. destruct H as [H1 H2]. apply N.eqb_eq in H1. apply IH in H2. now subst.
  - inversion H; subst. rewrite N.eqb_refl. cbn. now apply IH.
Qed.

(* every declared column of every table is listed, with its declared type, exactly as often as declared *)
Theorem columns_complete m cat db tab name ty dbs tabs cols :
  In (cat, dbs) m -> In (db, tabs) dbs -> In (tab, cols) tabs -> In (name, ty) cols ->
  In (mk_col cat db tab name ty) (columns_of m).
Proof.
  intros H1 H2 H3 H4. unfold columns_of.
  apply in_flat_map. exists (cat, dbs). split; [exact H1|]. cbn [fst snd].
  apply in_flat_map. exists (db, tabs). split; [exact H2|]. cbn [fst snd].
  apply in_flat_map. exists (tab, cols). split; [exact H3|]. cbn [fst snd].
  apply in_map_iff. exists (name, ty). auto.
Qed.

Theorem columns_sound m c : In c (columns_of m) ->
  exists dbs tabs cols, In (c_cat c, dbs) m /\ In (c_db c, tabs) dbs /\ In (c_tab c, cols) tabs /\ In (c_name c, c_type c) cols.
Proof.
  unfold columns_of. intros H.
  apply in_flat_map in H. destruct H as [[cat dbs] [H1 H]]. cbn [fst snd] in H.
  apply in_flat_map in H. destruct H as [[db tabs] [H2 H]]. cbn [fst snd] in H.
  apply in_flat_map in H. destruct H as [[tab cols] [H3 H]]. cbn [fst snd] in H.
  apply in_map_iff in H. destruct H as [[name ty] [E H4]]. subst c. cbn.
  exists dbs, tabs, cols. auto.
Qed.

(* the columns of one table keep their declaration order *)
Theorem columns_one_table cat db tab cols :
  map (fun c => (c_name c, c_type c)) (columns_of [(cat, [(db, [(tab, cols)])])]) = cols.
Proof.
  unfold columns_of. cbn [flat_map fst snd]. rewrite !app_nil_r, map_map. cbn.
  induction cols as [|[n t] cols IH]; [reflexivity|]. cbn. now rewrite IH.
Qed.

(* SHOW COLUMNS selects exactly the columns of that table (and database) whose name matches LIKE, in order *)
Theorem show_columns_spec all tab db pat name ty :
  In (name, ty) (show_columns all tab db pat) <->
  exists c, In c all /\ c_name c = name /\ c_type c = ty /\ c_tab c = tab /\ eq_opt db (c_db c) = true /\ like_opt pat (c_name c) = true.
Proof.
  unfold show_columns. rewrite in_map_iff. split.
  - intros [c [E H]]. apply filter_In in H. destruct H as [Hin Hf]. inversion E; subst.
    apply andb_prop in Hf. destruct Hf as [Hf H3]. apply andb_prop in Hf. destruct Hf as [H1 H2].
    exists c. repeat split; auto. now apply text_eqb_eq.
  - intros [c [Hin [<- [<- [Ht [Hd Hl]]]]]]. exists c. split; [reflexivity|]. apply filter_In. split; [exact Hin|].
    rewrite Hd, Hl. rewrite (proj2 (text_eqb_eq _ _) Ht). reflexivity.
Qed.

(* sorted(set(...)) lists every key exactly once *)
From Coq Require Import Permutation.

Lemma insert3_perm x l : Permutation (insert3 x l) (x :: l).
Proof.
  induction l as [|z l IH]; cbn; [reflexivity|].
  destruct (key3_ltb x z); [reflexivity|]. rewrite IH. apply perm_swap.
Qed.

Lemma sort_perm l : Permutation (fold_right insert3 [] l) l.
Proof. induction l as [|x l IH]; cbn; [reflexivity|]. rewrite insert3_perm. now constructor. Qed.

Theorem sorted_set3_In l y : In y (sorted_set3 l) <-> In y l.
Proof.
  unfold sorted_set3. split; intros H.
  - apply (Permutation_in _ (sort_perm _)) in H. now apply nodup_In in H.
  - apply (Permutation_in _ (Permutation_sym (sort_perm _))). now apply nodup_In.
Qed.

Theorem sorted_set3_NoDup l : NoDup (sorted_set3 l).
Proof.
  unfold sorted_set3. eapply Permutation_NoDup; [apply Permutation_sym, sort_perm|apply NoDup_nodup].
Qed.

(* every declared table / database is listed exactly once, next to nothing that was not declared *)
Theorem tables_exactly_once all k :
  (In k (tables_of all) <-> exists c, In c all /\ k = (c_cat c, c_db c, c_tab c)) /\ NoDup (tables_of all).
Proof.
  split; [|apply sorted_set3_NoDup]. unfold tables_of. rewrite sorted_set3_In, in_map_iff. split.
  - intros [c [E H]]. exists c. auto.
  - intros [c [H E]]. exists c. auto.
Qed.

Theorem schemata_exactly_once all k :
  (In k (schemata_of all) <-> exists c, In c all /\ k = (c_cat c, c_db c, [])) /\ NoDup (schemata_of all).
Proof.
  split; [|apply sorted_set3_NoDup]. unfold schemata_of. rewrite sorted_set3_In, in_map_iff. split.
  - intros [c [E H]]. exists c. auto.
  - intros [c [H E]]. exists c. auto.
Qed.
