From Coq Require Import List NArith Lia Bool FinFun.
From MM Require Import Lib.Bytes Model.ConnId.
Import ListNotations.
Open Scope N_scope.

Lemma mem_In x l : mem x l = true <-> In x l.
Proof.
  unfold mem. rewrite existsb_exists. split.
  - intros [y [H E]]. apply N.eqb_eq in E. now subst.
  - intros H. exists x. split; [assumption|apply N.eqb_refl].
Qed.

Lemma map_NoDup_in {A B} (f : A -> B) (l : list A) :
  (forall a b, In a l -> In b l -> f a = f b -> a = b) -> NoDup l -> NoDup (map f l).
Proof.
  induction l as [|x l IH]; intros Hinj ND; cbn [map]; [constructor|].
  inversion ND as [|? ? Hn ND']; subst. constructor.
  - intros Hin. apply in_map_iff in Hin. destruct Hin as [y [E Hy]].
    apply Hinj in E; [subst; contradiction|right; assumption|left; reflexivity].
  - apply IH; [|assumption]. intros a b Ha Hb. apply Hinj; right; assumption.
Qed.

Lemma filter_len_le {A} (f : A -> bool) l : (length (filter f l) <= length l)%nat.
Proof. induction l as [|a l IH]; cbn; [lia|]. destruct (f a); cbn; lia. Qed.

Section P.
Variable W : N.
Hypothesis Wpos : 0 < W.
Variable prefix : N.
Notation search := (search W prefix).
Notation new_id := (new_id W prefix).
Notation step := (step W prefix).
Notation run := (run W prefix).

Definition has_prefix (i : N) : Prop := exists x, x < W /\ i = prefix + x.

Definition Inv (r : reg) : Prop :=
  NoDup (live r) /\ Forall has_prefix (live r) /\ ctr r < W.

Lemma search_sound fuel lv v id v' : search fuel lv v = IdOk id v' ->
  v < W -> ~ In id lv /\ has_prefix id /\ v' < W.
Proof.
  revert v. induction fuel as [|f IH]; intros v H Hv; [discriminate|].
  cbn [ConnId.search] in H. destruct (mem (prefix + v) lv) eqn:E.
  - apply IH in H; [assumption|]. apply N.mod_lt. lia.
  - inversion H; subst. split; [|split].
    + intro Hin. apply mem_In in Hin. congruence.
    + exists v. split; [assumption|reflexivity].
    + apply N.mod_lt. lia.
Qed.

Lemma search_not_full fuel lv v : search fuel lv v <> IdFull.
Proof. revert v. induction fuel as [|f IH]; intros v; cbn [ConnId.search]; [discriminate|].
  destruct (mem (prefix + v) lv); [apply IH|discriminate]. Qed.

(* the j-th value visited from v *)
Definition visit (v : N) (j : nat) : N := (v + N.of_nat j) mod W.

Lemma search_stuck_all_taken fuel lv v : v < W -> search fuel lv v = IdStuck ->
  forall j, (j < fuel)%nat -> In (prefix + visit v j) lv.
Proof.
  revert v. induction fuel as [|f IH]; intros v Hv H j Hj; [lia|].
  cbn [ConnId.search] in H. destruct (mem (prefix + v) lv) eqn:E; [|discriminate].
  destruct j as [|j].
  - unfold visit. rewrite N.add_0_r, N.mod_small by assumption. now apply mem_In.
  - assert (Hm : (v + 1) mod W < W) by (apply N.mod_lt; lia).
    specialize (IH _ Hm H j ltac:(lia)).
    replace (visit v (S j)) with (visit ((v + 1) mod W) j); [assumption|].
    unfold visit. rewrite N.add_mod_idemp_l by lia. f_equal. lia.
Qed.

Lemma visit_inj v j k : v < W -> N.of_nat j < W -> N.of_nat k < W -> visit v j = visit v k -> j = k.
Proof.
  unfold visit. intros Hv Hj Hk H.
  assert (A : forall a, a < W -> (v + a) mod W = if v + a <? W then v + a else v + a - W).
  { intros a Ha. destruct (N.ltb_spec (v + a) W).
    - apply N.mod_small. assumption.
    - symmetry. apply N.mod_unique with (q := 1); lia. }
  rewrite !A in H by assumption.
  destruct (N.ltb_spec (v + N.of_nat j) W), (N.ltb_spec (v + N.of_nat k) W); lia.
Qed.

(* fuel exclusion: with fewer than W live ids (all carrying the prefix) the loop ends within |live|+1 steps *)
Lemma search_not_stuck lv v : v < W -> len lv < W -> search (S (length lv)) lv v <> IdStuck.
Proof.
  intros Hv Hl Hs.
  pose proof (search_stuck_all_taken _ _ _ Hv Hs) as A.
  set (vis := map (fun j => prefix + visit v j) (seq 0 (S (length lv)))).
  assert (I : incl vis lv).
  { intros y Hy. apply in_map_iff in Hy. destruct Hy as [j [<- Hj]]. apply in_seq in Hj. apply A. lia. }
  assert (ND : NoDup vis).
  { unfold vis. apply map_NoDup_in; [|apply seq_NoDup].
    intros a b Ha Hb E. apply in_seq in Ha. apply in_seq in Hb.
    unfold len in Hl. apply (visit_inj v); try lia. }
  pose proof (NoDup_incl_length ND I) as L. unfold vis in L. rewrite map_length, seq_length in L. lia.
Qed.

Theorem add_fresh r : Inv r -> len (live r) < W ->
  exists id v', new_id r = IdOk id v' /\ ~ In id (live r) /\ has_prefix id /\ v' < W.
Proof.
  intros [ND [PF Hc]] Hl. unfold ConnId.new_id.
  destruct (N.leb_spec W (len (live r))); [lia|].
  destruct (search (S (length (live r))) (live r) (ctr r)) as [id v'| |] eqn:S.
  - exists id, v'. split; [reflexivity|]. exact (search_sound _ _ _ _ _ S Hc).
  - exfalso. eapply search_not_full; eassumption.
  - exfalso. exact (search_not_stuck (live r) (ctr r) Hc Hl S).
Qed.

Theorem add_full r : W <= len (live r) -> new_id r = IdFull.
Proof. intros H. unfold ConnId.new_id. destruct (N.leb_spec W (len (live r))); [reflexivity|lia]. Qed.

Lemma remove_id_In id l x : In x (remove_id id l) <-> In x l /\ x <> id.
Proof.
  unfold remove_id. rewrite filter_In. split; intros [A B]; split; try assumption.
  - intros ->. rewrite N.eqb_refl in B. discriminate.
  - destruct (N.eqb_spec x id); [contradiction|reflexivity].
Qed.

Lemma step_inv r o : Inv r -> Inv (fst (step r o)).
Proof.
  intros I. destruct o as [|id]; cbn [ConnId.step].
  - destruct (new_id r) as [id v'| |] eqn:E; cbn [fst]; try assumption.
    destruct I as [ND [PF Hc]].
    unfold ConnId.new_id in E. destruct (W <=? len (live r)); [discriminate|].
    apply search_sound in E; [|assumption]. destruct E as [A [B C]].
    repeat split; cbn [live ctr]; [constructor; assumption|constructor; assumption|assumption].
  - destruct I as [ND [PF Hc]]. repeat split; cbn [fst live ctr]; [| |assumption].
    + unfold remove_id. apply NoDup_filter. assumption.
    + apply Forall_forall. intros x Hx. apply remove_id_In in Hx. destruct Hx as [Hx _].
      rewrite Forall_forall in PF. now apply PF.
Qed.

Lemma run_fst r ops : fst (run r ops) = fold_left (fun r o => fst (step r o)) ops r.
Proof.
  revert r. induction ops as [|o os IH]; intros r; [reflexivity|].
  cbn [ConnId.run fold_left]. destruct (step r o) as [r1 x] eqn:E. specialize (IH r1).
  destruct (run r1 os) as [r2 xs]. cbn [fst] in *. rewrite <- IH. reflexivity.
Qed.

(* every reachable registry satisfies the invariant: ids pairwise distinct, all with the prefix *)
Theorem run_inv ops : forall r, Inv r -> Inv (fst (run r ops)).
Proof.
  induction ops as [|o os IH]; intros r I; [exact I|].
  cbn [ConnId.run]. destruct (step r o) as [r1 x] eqn:E.
  assert (I1 : Inv r1) by (pose proof (step_inv r o I) as S1; rewrite E in S1; exact S1).
  specialize (IH r1 I1). destruct (run r1 os) as [r2 xs]. exact IH.
Qed.

(* no step of any history is ever stuck in the search loop *)
Theorem run_never_stuck ops : forall r, Inv r -> ~ In Stuck (snd (run r ops)).
Proof.
  induction ops as [|o os IH]; intros r I; [cbn; tauto|].
  cbn [ConnId.run]. destruct (step r o) as [r1 x] eqn:E.
  assert (I1 : Inv r1) by (pose proof (step_inv r o I) as S1; rewrite E in S1; exact S1).
  specialize (IH r1 I1). destruct (run r1 os) as [r2 xs]. cbn [snd] in *.
  intros [Hx|Hx]; [|contradiction].
  subst x. destruct o as [|id]; cbn [ConnId.step] in E.
  - destruct (new_id r) as [id v'| |] eqn:N; try discriminate.
    unfold ConnId.new_id in N. destruct (N.leb_spec W (len (live r))); [discriminate|].
    destruct I as [ND [PF Hc]]. exact (search_not_stuck (live r) (ctr r) Hc H N).
  - discriminate.
Qed.

(* in a well-formed registry there are at most W live ids *)
Lemma inv_bound r : Inv r -> len (live r) <= W.
Proof.
  intros [ND [PF Hc]].
  set (all := map (fun x => prefix + N.of_nat x) (seq 0 (N.to_nat W))).
  assert (I : incl (live r) all).
  { intros y Hy. rewrite Forall_forall in PF. destruct (PF y Hy) as [x [Hx ->]].
    unfold all. apply in_map_iff. exists (N.to_nat x). split; [lia|]. apply in_seq. lia. }
  pose proof (NoDup_incl_length ND I) as L. unfold all in L. rewrite map_length, seq_length in L.
  unfold len. lia.
Qed.

Lemma remove_shrinks id l : NoDup l -> In id l -> (length (remove_id id l) < length l)%nat.
Proof.
  intros ND H. induction l as [|a l IH]; [contradiction|].
  cbn [remove_id filter]. inversion ND as [|? ? Hn ND']; subst.
  destruct (N.eqb_spec a id) as [->|Hne]; cbn [negb].
  - pose proof (filter_len_le (fun x => negb (x =? id)) l). cbn [length]. lia.
  - destruct H as [->|H]; [contradiction|]. cbn [length]. specialize (IH ND' H). unfold remove_id in IH. lia.
Qed.

(* service resumes as soon as one connection ends *)
Theorem full_then_recover r id : Inv r -> In id (live r) ->
  exists id' v', new_id (fst (step r (Remove id))) = IdOk id' v'.
Proof.
  intros I Hin. pose proof (step_inv r (Remove id) I) as I'.
  pose proof (inv_bound r I) as B. destruct I as [ND _].
  pose proof (remove_shrinks id _ ND Hin) as S.
  destruct (add_fresh _ I') as [id' [v' [E _]]].
  - cbn [ConnId.step fst live]. unfold len in *. lia.
  - exists id', v'. exact E.
Qed.
End P.

(* the concrete layout: 16-bit server id over a 16-bit sequence *)
Lemma id_layout sid_size bits sid x : 0 < sid_size -> x < 2 ^ bits ->
  let id := id_prefix sid_size bits sid + x in
  id / 2 ^ bits = sid mod sid_size /\ id mod 2 ^ bits = x /\ id < sid_size * 2 ^ bits.
Proof.
  intros Hs Hx id. unfold id, id_prefix.
  assert (P : 0 < 2 ^ bits) by (apply N.neq_0_lt_0; apply N.pow_nonzero; lia).
  assert (Hm : sid mod sid_size < sid_size) by (apply N.mod_lt; lia).
  repeat split.
  - rewrite N.div_add_l by lia. rewrite N.div_small by assumption. lia.
  - rewrite N.add_comm, N.mod_add by lia. apply N.mod_small. assumption.
  - nia.
Qed.
