(* Proofs/C01Proofs.v - before a successful authentication nothing is served: for EVERY list of events that contains no
   Success verdict, the session receives nothing but the user lookup and the client receives nothing but the greeting,
   auth-switch / more-data requests and ERR packets.  Instance of the plan-aware scheme Proofs/ConnInv2.v. *)
From Coq Require Import List NArith Lia Bool.
From MM Require Import Lib.Bytes Model.Conn Proofs.C10Proofs Proofs.ConnInv2.
Import ListNotations.
Open Scope N_scope.

Definition served (c : call) : bool := match c with SInit | SQuery | SReset | SUse => true | _ => false end.
Definition preauth_pkt (p : pkt) : bool := match p with PHandshake | PAuthSwitch | PAuthMore | PErr _ => true | _ => false end.

(* what may be emitted before authentication *)
Definition Opre (o : out) : Prop :=
  match o with
  | OSess c => served c = false
  | OWrite ps => forallb (fun qp => preauth_pkt (snd qp)) ps = true
  | _ => True
  end.

Definition is_success (d : adecision) : bool := match d with ASuccess => true | _ => false end.
Definition no_success (e : ev) : Prop :=
  match e with EvDecide d | EvAuthReply d => is_success d = false | _ => True end.

Section PreAuth.
Variable B BATCH : N.

Definition quiet_op (m : mop) : bool :=
  match m with
  | MWrite p _ _ => preauth_pkt p
  | MDrain | MRead | MRaise _ _ => true
  | MApp SGetUser => true
  | _ => false
  end.
Definition quiet (k : plan) : bool := forallb quiet_op k.
Definition blocking_op (m : mop) : bool := match m with MRead | MRaise _ _ | MApp _ => true | _ => false end.
Definition terminated (k : plan) : bool := existsb blocking_op k.

Definition bufok (s : st) : bool := forallb (fun e => preauth_pkt (snd (fst e))) (buf s).
Definition base (s : st) : Prop := inited s = false /\ bufok s = true /\ phase s <> Command.

Definition in_conn (f : frame) (t : bool) : Prop :=
  match f with FConn => t = true | FConnErr => True | _ => False end.

Definition Qr (k : plan) (f : frame) (s : st) : Prop := base s /\ quiet k = true /\ in_conn f (terminated k).
Definition Qs (w : why) (k : plan) (f : frame) (s : st) : Prop :=
  base s /\ quiet k = true /\
  match w with
  | WRead | WApp SGetUser => in_conn f true
  | WDrain => in_conn f (terminated k)
  | _ => False
  end.
Definition Rx (x : exn) (f : frame) (s : st) : Prop := base s /\ in_conn f true.

Lemma base_ctl s c : base s -> base (upd_ctl s c). Proof. exact (fun H => H). Qed.

Lemma in_conn_true f t : in_conn f t -> in_conn f true.
Proof. destruct f; cbn; auto. Qed.

Lemma forallb_map_fst (b : list (N * pkt * N)) :
  forallb (fun qp => preauth_pkt (snd qp)) (map fst b) = forallb (fun e => preauth_pkt (snd (fst e))) b.
Proof. induction b as [|e r IH]; [reflexivity|]. cbn. now rewrite IH. Qed.

Lemma flush_base s : base s -> base (fst (flush s)) /\ Forall Opre (snd (flush s)).
Proof.
  intros [H1 [H2 H3]]. unfold flush. destruct (buf s) as [|e r] eqn:E; cbn [fst snd].
  - split; [repeat split; auto|constructor].
  - split; [repeat split; auto|]. constructor; [|constructor]. cbn [Opre].
    unfold bufok in H2. rewrite E in H2. rewrite forallb_map_fst. exact H2.
Qed.

Lemma drain_ok s k f : base s -> quiet k = true -> in_conn f (terminated k) ->
  match do_drain s with
  | ActNext s' o => Qr k f s' /\ Forall Opre o
  | ActSuspend s' w ic o => Qs w k f s' /\ Forall Opre o
  | ActRaise s' x ic o => Rx x f (kill_cursor s' ic) /\ Forall Opre o
  | ActQuit s' => True /\ (f = FHandler -> Qr [MApp SClose] (FClose false) (inc_closes (set_seq (set_exec s' false) 0)))
  | ActEnter s' f' => True /\ (is_handler f = true -> is_handler f' = true -> Qr k f' s')
  end.
Proof.
  intros Hb Hq Hf. unfold do_drain. destruct (flush_base s Hb) as [F1 F2]. destruct (flush s) as [s1 o1]. cbn [fst snd] in *.
  destruct (dead s1).
  - split; [|exact F2]. split; [exact F1|eapply in_conn_true; exact Hf].
  - destruct (paused s1); (split; [|exact F2]); repeat split; try apply F1; auto.
Qed.

Lemma op_ok s m k f : Qr (m :: k) f s ->
  match exec_op B s m with
  | ActNext s' o => Qr k f s' /\ Forall Opre o
  | ActSuspend s' w ic o => Qs w k f s' /\ Forall Opre o
  | ActRaise s' x ic o => Rx x f (kill_cursor s' ic) /\ Forall Opre o
  | ActQuit s' => True /\ (f = FHandler -> Qr [MApp SClose] (FClose false) (inc_closes (set_seq (set_exec s' false) 0)))
  | ActEnter s' f' => True /\ (is_handler f = true -> is_handler f' = true -> Qr k f' s')
  end.
Proof.
  intros [Hb [Hq Hf]]. cbn [quiet forallb] in Hq. apply andb_true_iff in Hq. destruct Hq as [Hm Hq].
  destruct Hb as [H1 [H2 H3]].
  destruct m as [p sz d| |c| | | | | | | | | | | | | |]; cbn [quiet_op] in Hm; try discriminate Hm; cbn [exec_op].
  - (* MWrite *)
    set (s1 := set_seq (set_buf s (buf s ++ [(seq s, p, sz)]) (handed s)) ((seq s + 1) mod 256)).
    assert (Hb1 : base s1).
    { repeat split; auto. unfold bufok, s1. cbn. rewrite forallb_app. cbn. unfold bufok in H2. now rewrite H2, Hm. }
    assert (Hf1 : in_conn f (terminated k)) by (cbn [terminated existsb blocking_op orb] in Hf; exact Hf).
    destruct (d || (B <=? buf_bytes (buf s1))).
    + apply drain_ok; assumption.
    + split; [|constructor]. repeat split; try apply Hb1; auto.
  - (* MDrain *)
    apply drain_ok; [repeat split; auto|exact Hq|cbn [terminated existsb blocking_op orb] in Hf; exact Hf].
  - (* MApp SGetUser *)
    destruct c; try discriminate Hm. split; [|repeat constructor]. repeat split; auto; try (eapply in_conn_true; exact Hf).
  - (* MRaise *)
    split; [|constructor]. split; [|eapply in_conn_true; exact Hf].
    destruct incur as [id|]; cbn [kill_cursor]; [|repeat split; auto]. destruct (find_stmt id (stmts s)); repeat split; auto.
  - (* MRead *)
    destruct (eof s); (split; [|constructor]).
    + split; [repeat split; auto|eapply in_conn_true; exact Hf].
    + repeat split; auto; try (eapply in_conn_true; exact Hf).
Qed.

Lemma throw_ok s x f : Rx x f s ->
  match throw s x f with
  | Continue s' k' f' => Qr k' f' s'
  | ToClose s' re => Qr [MApp SClose] (FClose re) (inc_closes s')
  | Finished s' _ => True
  end.
Proof.
  intros [Hb Hf]. destruct f; cbn in Hf; try contradiction; cbn [throw].
  - destruct x; try exact I; (split; [exact Hb|split; [reflexivity|exact I]]).
  - exact I.
Qed.

Lemma end_ok s f : Qr [] f s ->
  match end_plan BATCH s f with
  | EFinish s' _ => True
  | EGo s' k' f' => Qr k' f' s'
  | ESuspRead s' => Qs WRead [] f s'
  | ERaise s' x => Rx x f s'
  end.
Proof.
  intros [Hb [Hq Hf]]. destruct f; cbn in Hf; try contradiction; try discriminate Hf. exact I.
Qed.

Definition good := good2 Qs (fun _ => True) (fun _ => True).
Definition ok := ok2 Qs (fun _ => True) (fun _ => True) Opre.

Lemma go_ok s k f : Qr k f s -> ok (go B BATCH s k f).
Proof.
  apply (go_ok2 B BATCH Qr Qs Rx (fun _ => True) (fun _ => True) Opre); auto.
  - intros s0 m k0 f0 H. pose proof (op_ok s0 m k0 f0 H) as Op. destruct (exec_op B s0 m); exact Op.
  - intros s0 x f0 H. pose proof (throw_ok s0 x f0 H) as T. destruct (throw s0 x f0); exact T.
  - intros s0 f0 H. pose proof (end_ok s0 f0 H) as E. destruct (end_plan BATCH s0 f0); exact E.
  - intros exc. exact I.
  - exact I.
  - exact I.
Qed.

Lemma raise_ok s x f ic : Rx x f (kill_cursor s ic) -> ok (raise_at B BATCH s x f ic).
Proof.
  apply (raise_at_ok2 B BATCH Qr Qs Rx (fun _ => True) (fun _ => True) Opre); auto.
  - intros s0 m k0 f0 H. pose proof (op_ok s0 m k0 f0 H) as Op. destruct (exec_op B s0 m); exact Op.
  - intros s0 x0 f0 H. pose proof (throw_ok s0 x0 f0 H) as T. destruct (throw s0 x0 f0); exact T.
  - intros s0 f0 H. pose proof (end_ok s0 f0 H) as E. destruct (end_plan BATCH s0 f0); exact E.
  - intros exc. exact I.
  - exact I.
  - exact I.
Qed.

Lemma kc_base s ic : base s -> base (kill_cursor s ic).
Proof.
  intros H. destruct ic as [id|]; cbn [kill_cursor]; [|exact H]. destruct (find_stmt id (stmts s)); exact H.
Qed.

Lemma still s : good s -> ok (s, []).
Proof. intros G. split; [exact G|constructor]. Qed.

Lemma quiet_auth_plan d cu k : is_success d = false -> quiet k = true ->
  quiet (auth_plan d cu ++ k) = true /\ terminated (auth_plan d cu ++ k) = true.
Proof. intros Hd Hk. destruct d; try discriminate Hd; cbn; rewrite ?Hk; auto. Qed.

(* one event *)
Lemma base_phase s p : base s -> p <> Command -> base (set_phase s p).
Proof. intros [H1 [H2 H3]] Hp. repeat split; auto. Qed.

Lemma step_ok s e : no_success e -> good s -> ok (step B BATCH s e).
Proof.
  intros Ha G. unfold step. unfold good, good2 in G.
  destruct (ctl_ s) as [w k f ic| |] eqn:Ec; [|apply still; unfold good, good2; rewrite Ec; exact I..].
  destruct G as [Hb [Hq Hw]].
  assert (Gs : forall s', ctl_ s' = ctl_ s -> base s' -> ok (s', [])).
  { intros s' E Hb'. apply still. unfold good, good2. rewrite E, Ec. repeat split; try apply Hb'; auto. }
  assert (Hp : phase s <> Command) by apply Hb.
  assert (Hf : in_conn f true).
  { destruct w as [|c| | |]; try contradiction; try exact Hw; [destruct c; try contradiction; exact Hw|eapply in_conn_true; exact Hw]. }
  assert (Hh : is_handler f = false) by (destruct f; cbn in Hf; try contradiction; reflexivity).
  assert (Hkc : base (kill_cursor s ic)) by (apply kc_base; exact Hb).
  destruct e as [c|okh dep|d|d| |hdr| |o| | | | | |kd|kd].
  - (* EvPayload: only in the command phase *)
    destruct (phase s); try congruence; apply Gs; try reflexivity; exact Hb.
  - (* EvHandshake *)
    destruct (phase s) eqn:Ep; try (apply Gs; [reflexivity|exact Hb]).
    destruct w; try (apply Gs; [reflexivity|exact Hb]). destruct f; try (apply Gs; [reflexivity|exact Hb]).
    assert (Hb1 : base (set_phase (set_seq s ((seq s + 1) mod 256)) (InExchange false))).
    { destruct Hb as [H1 [H2 H3]]. repeat split; auto. cbn. discriminate. }
    destruct okh.
    + apply go_ok. split; [exact Hb1|]. split; [cbn; exact Hq|reflexivity].
    + apply raise_ok. cbn [kill_cursor]. split; [exact Hb1|reflexivity].
  - (* EvAuthReply *)
    cbn in Ha.
    destruct (phase s) eqn:Ep; try (apply Gs; [reflexivity|exact Hb]); [|congruence].
    destruct w; try (apply Gs; [reflexivity|exact Hb]). destruct f; try (apply Gs; [reflexivity|exact Hb]).
    destruct (quiet_auth_plan d false k Ha Hq) as [Q1 Q2]. apply go_ok. split; [|split; [exact Q1|exact Q2]].
    destruct Hb as [H1 [H2 H3]]. repeat split; auto.
  - (* EvDecide *)
    cbn in Ha. destruct w as [|c| | |]; try (apply Gs; [reflexivity|exact Hb]). destruct c; try (apply Gs; [reflexivity|exact Hb]).
    rewrite Hh. destruct (quiet_auth_plan d false k Ha Hq) as [Q1 Q2]. apply go_ok. split; [exact Hb|]. split; [exact Q1|].
    destruct f; cbn in Hf; try contradiction; [exact Q2|exact I].
  - (* EvEof *)
    destruct w; try (apply Gs; [reflexivity|exact Hb]). apply raise_ok. cbn [kill_cursor]. split; [exact Hb|exact Hf].
  - (* EvEofMidPacket *)
    destruct w; try (apply Gs; [reflexivity|exact Hb]). apply raise_ok. cbn [kill_cursor]. split; [destruct hdr; exact Hb|exact Hf].
  - (* EvBadSeq *)
    destruct w; try (apply Gs; [reflexivity|exact Hb]). apply raise_ok. cbn [kill_cursor]. split; [exact Hb|exact Hf].
  - (* EvApp *)
    destruct w as [|c| | |]; try (apply Gs; [reflexivity|exact Hb]). destruct c; try contradiction. apply Gs; [reflexivity|exact Hb].
  - (* EvRowReady *) destruct w; try contradiction; apply Gs; try reflexivity; exact Hb.
  - (* EvTick *) destruct w; try contradiction; apply Gs; try reflexivity; exact Hb.
  - (* EvPause *) apply Gs; [reflexivity|exact Hb].
  - (* EvResume *)
    destruct w; try (apply Gs; [reflexivity|exact Hb]). apply go_ok. split; [exact Hb|]. split; [exact Hq|exact Hw].
  - (* EvSockFail *)
    destruct w; try (apply Gs; [reflexivity|exact Hb]). apply raise_ok. cbn [kill_cursor]. split; [exact Hb|exact Hf].
  - (* EvKill *)
    destruct (kill_accepted s kd false); [|apply Gs; [reflexivity|exact Hb]].
    apply raise_ok. split; [apply kc_base; exact Hb|exact Hf].
  - (* EvKillSelf *)
    destruct w as [|c| | |]; try (apply Gs; [reflexivity|exact Hb]).
    destruct (kill_accepted s kd true); [|apply Gs; [reflexivity|exact Hb]].
    apply raise_ok. split; [apply kc_base; exact Hb|exact Hf].
Qed.

Lemma exec_ok : forall evs s, Forall no_success evs -> good s -> ok (exec B BATCH s evs).
Proof.
  induction evs as [|e evs IH]; intros s Ha G; [split; [exact G|constructor]|].
  inversion Ha as [|? ? A1 A2]; subst. cbn [exec].
  destruct (step_ok s e A1 G) as [G1 O1]. destruct (step B BATCH s e) as [s1 o1]. cbn [fst snd] in *.
  destruct (IH s1 A2 G1) as [G2 O2]. destruct (exec B BATCH s1 evs) as [s2 o2]. cbn [fst snd] in *.
  split; [exact G2|]. apply Forall_app. now split.
Qed.

(* a fresh connection, any event list without a Success verdict: nothing is served (so the session is never
   initialised) and nothing but greeting / auth requests / ERR is written *)
Theorem preauth_silent hs evs : Forall no_success evs -> Forall Opre (snd (session B BATCH hs evs)).
Proof.
  intros Ha. unfold session.
  assert (G0 : ok (boot B BATCH hs)).
  { unfold boot. apply go_ok. repeat split; cbn; auto. discriminate. }
  destruct (boot B BATCH hs) as [s0 o0]. destruct G0 as [G0 O0]. cbn [fst snd] in *.
  destruct (exec_ok evs s0 Ha G0) as [G1 O1]. destruct (exec B BATCH s0 evs) as [s1 o1]. cbn [fst snd] in *.
  apply Forall_app; now split.
Qed.
End PreAuth.

(* ================================================================================================================== *)
(* A COM_CHANGE_USER whose exchange contains no Success verdict: from the command boundary on, whatever happens -       *)
(* refusals, provider / plugin failures, mis-sequenced or truncated replies, disconnects, socket failures, kills,       *)
(* further payloads queueing up - the session receives nothing but the user lookup and close: nothing is served again.  *)
Definition Osess (o : out) : Prop := match o with OSess c => served c = false | _ => True end.

Section ChangeUser.
Variable B BATCH : N.

Definition uq_op (m : mop) : bool :=
  match m with
  | MWrite _ _ _ | MDrain | MRead | MRaise _ _ => true
  | MApp SGetUser => true
  | _ => false
  end.
Definition uq (k : plan) : bool := forallb uq_op k.

(* the connection while a change-user exchange is open: no statement executing, no pending KILL QUERY *)
Definition U (s : st) : Prop := executing s = false /\ kill s <> Some KQ.

Definition handler_tail (k : plan) : Prop :=
  k = [MRaise XAuthFailed None] \/ (exists p sz, k = [MWrite p sz true; MRaise XAuthFailed None]) \/
  k = [MEnter FChangeUser; MApp SGetUser].
Definition one_write (k : plan) : Prop := exists p sz, k = [MWrite p sz true].

Definition Qr2 (k : plan) (f : frame) (s : st) : Prop :=
  match f with
  | FRead => k = [] /\ kill s <> Some KQ /\ exists q, inq s = CChangeUser :: q
  | FChangeUser => U s /\ uq k = true /\ terminated k = true
  | FHandler => U s /\ handler_tail k
  | FHandlerErr _ => dead s = true /\ one_write k
  | FKillErr => k = [] \/ one_write k
  | FClose _ => k = [] \/ k = [MApp SClose]
  | _ => False
  end.
Definition Qs2 (w : why) (k : plan) (f : frame) (s : st) : Prop :=
  match f with
  | FChangeUser => U s /\ uq k = true /\
                   match w with WRead | WApp SGetUser => True | WDrain => terminated k = true | _ => False end
  | FHandler => U s /\ w = WDrain /\ k = [MRaise XAuthFailed None]
  | FKillErr => w = WDrain /\ k = []
  | FClose _ => w = WApp SClose /\ k = []
  | _ => False
  end.
Definition Rx2 (x : exn) (f : frame) (s : st) : Prop :=
  match f with
  | FChangeUser => U s
  | FHandler => U s /\ (x = XAuthFailed \/ x = XCancel \/ (x = XOther /\ dead s = true))
  | FHandlerErr _ | FKillErr | FClose _ => True
  | _ => False
  end.

Lemma U_kc s ic : U s -> U (kill_cursor s ic).
Proof. intros H. destruct ic as [id|]; cbn [kill_cursor]; [|exact H]. destruct (find_stmt id (stmts s)); exact H. Qed.

Lemma dead_flush s : dead (fst (flush s)) = dead s.
Proof. unfold flush. destruct (buf s); reflexivity. Qed.
Lemma U_flush s : U s -> U (fst (flush s)).
Proof. unfold flush. destruct (buf s); auto. Qed.
Lemma Osess_flush s : Forall Osess (snd (flush s)).
Proof. unfold flush. destruct (buf s); repeat constructor. Qed.

(* a write with drain in a frame whose remaining plan is k *)
Lemma write_drain s p sz (Pn : st -> Prop) (Ps : st -> Prop) (Pr : st -> Prop) :
  (forall s2, dead s2 = dead (set_seq (set_buf s (buf s ++ [(seq s, p, sz)]) (handed s)) ((seq s + 1) mod 256)) ->
              (executing s2 = executing s /\ kill s2 = kill s) ->
              (dead s2 = true -> Pr s2) /\ (dead s2 = false -> Pn s2 /\ Ps s2)) ->
  match exec_op B s (MWrite p sz true) with
  | ActNext s' o => Pn s' /\ Forall Osess o
  | ActSuspend s' w ic o => (w = WDrain /\ Ps s') /\ Forall Osess o
  | ActRaise s' x ic o => (x = XOther /\ ic = None /\ Pr s') /\ Forall Osess o
  | _ => False
  end.
Proof.
  intros H. cbn [exec_op orb]. unfold do_drain.
  set (s1 := set_seq (set_buf s (buf s ++ [(seq s, p, sz)]) (handed s)) ((seq s + 1) mod 256)) in *.
  pose proof (dead_flush s1) as DF. pose proof (Osess_flush s1) as OF.
  assert (EK : executing (fst (flush s1)) = executing s /\ kill (fst (flush s1)) = kill s) by (unfold flush; destruct (buf s1); split; reflexivity).
  destruct (flush s1) as [s2 o2]. cbn [fst snd] in *. destruct (H s2 DF EK) as [H1 H2].
  destruct (dead s2) eqn:Ed.
  - split; [|exact OF]. repeat split; auto.
  - destruct (H2 eq_refl) as [Hn Hs]. destruct (paused s2); (split; [|exact OF]); auto.
Qed.

Lemma op_ok2 s m k f : Qr2 (m :: k) f s ->
  match exec_op B s m with
  | ActNext s' o => Qr2 k f s' /\ Forall Osess o
  | ActSuspend s' w ic o => Qs2 w k f s' /\ Forall Osess o
  | ActRaise s' x ic o => Rx2 x f (kill_cursor s' ic) /\ Forall Osess o
  | ActQuit s' => True /\ (f = FHandler -> Qr2 [MApp SClose] (FClose false) (inc_closes (set_seq (set_exec s' false) 0)))
  | ActEnter s' f' => True /\ (is_handler f = true -> is_handler f' = true -> Qr2 k f' s')
  end.
Proof.
  intros H. destruct f as [| | | | | |wk| |re]; cbn [Qr2] in H; try contradiction.
  - (* FRead: the plan is empty *) destruct H as [H _]. discriminate H.
  - (* FHandler *)
    destruct H as [HU [Ht|[[p [sz Ht]]|Ht]]]; inversion Ht; subst.
    + cbn [exec_op]. split; [|constructor]. cbn [kill_cursor]. split; [exact HU|now left].
    + pose proof (write_drain s p sz (fun s' => U s' /\ handler_tail [MRaise XAuthFailed None]) (fun s' => U s') (fun s' => U s' /\ dead s' = true)) as W.
      match type of W with ?A -> _ => assert (HA : A) end.
      { intros s2 Hd [E1 E2]. assert (U2 : U s2) by (destruct HU as [U1 U2']; split; [now rewrite E1|now rewrite E2]).
        split; [intros D; now split|intros _; split; [split; [exact U2|now left]|exact U2]]. }
      specialize (W HA). destruct (exec_op B s (MWrite p sz true)) as [s' o|s' w ic o|s' x ic o|s'|s' f']; try contradiction.
      * exact W.
      * destruct W as [[-> Hs] OF]. split; [|exact OF]. cbn [Qs2]. auto.
      * destruct W as [[-> [-> [HU2 Hd]]] OF]. split; [|exact OF]. cbn [kill_cursor Rx2]. split; [exact HU2|]. right. right. now split.
    + cbn [exec_op]. split; [exact I|]. intros _ _. cbn [Qr2]. split; [exact HU|]. split; reflexivity.
  - (* FChangeUser *)
    destruct H as [HU [Hq Ht]]. cbn [uq forallb] in Hq. apply andb_true_iff in Hq. destruct Hq as [Hm Hq].
    destruct m as [p sz d| |c| | | | | | | | | | | | | |]; cbn [uq_op] in Hm; try discriminate Hm; cbn [exec_op].
    + cbn [terminated existsb blocking_op orb] in Ht.
      set (s1 := set_seq (set_buf s (buf s ++ [(seq s, p, sz)]) (handed s)) ((seq s + 1) mod 256)).
      assert (U1 : U s1) by exact HU.
      destruct (d || (B <=? buf_bytes (buf s1))); [|split; [repeat split; auto; apply U1|constructor]].
      unfold do_drain. pose proof (U_flush s1 U1) as UF. pose proof (Osess_flush s1) as OF.
      destruct (flush s1) as [s2 o2]. cbn [fst snd] in *.
      destruct (dead s2); [split; [exact UF|exact OF]|].
      destruct (paused s2); (split; [|exact OF]); repeat split; auto; apply UF.
    + cbn [terminated existsb blocking_op orb] in Ht.
      unfold do_drain. pose proof (U_flush s HU) as UF. pose proof (Osess_flush s) as OF.
      destruct (flush s) as [s2 o2]. cbn [fst snd] in *.
      destruct (dead s2); [split; [exact UF|exact OF]|].
      destruct (paused s2); (split; [|exact OF]); repeat split; auto; apply UF.
    + destruct c; try discriminate Hm. split; [|repeat constructor]. cbn [Qs2]. repeat split; auto; apply HU.
    + split; [|constructor]. cbn [Rx2]. apply U_kc. exact HU.
    + destruct (eof s); (split; [|constructor]); [exact HU|cbn [Qs2]; repeat split; auto; apply HU].
  - (* FHandlerErr: the socket is dead, the ERR write raises *)
    destruct H as [Hd [p [sz Hk]]]. inversion Hk; subst.
    pose proof (write_drain s p sz (fun _ => False) (fun _ => False) (fun _ => True)) as W.
    match type of W with ?A -> _ => assert (HA : A) end.
    { intros s2 Hd2 _. split; [auto|]. intros D. cbn in Hd2. congruence. }
    specialize (W HA). destruct (exec_op B s (MWrite p sz true)) as [s' o|s' w ic o|s' x ic o|s'|s' f']; try contradiction.
    * destruct W as [[] _].
    * destruct W as [[_ []] _].
    * destruct W as [_ OF]. split; [exact I|exact OF].
  - (* FKillErr *)
    destruct H as [H|[p [sz H]]]; [discriminate H|]. inversion H; subst.
    pose proof (write_drain s p sz (fun _ => True) (fun _ => True) (fun _ => True)) as W.
    match type of W with ?A -> _ => assert (HA : A) end. { intros s2 _ _. auto. }
    specialize (W HA). destruct (exec_op B s (MWrite p sz true)) as [s' o|s' w ic o|s' x ic o|s'|s' f']; try contradiction.
    * destruct W as [_ OF]. split; [now left|exact OF].
    * destruct W as [[-> _] OF]. split; [cbn [Qs2]; auto|exact OF].
    * destruct W as [_ OF]. split; [exact I|exact OF].
  - (* FClose *)
    destruct H as [H|H]; [discriminate H|]. inversion H; subst. cbn [exec_op].
    split; [cbn [Qs2]; auto|repeat constructor].
Qed.

Ltac solveQ :=
  cbn [Qr2];
  first [ exact I
        | now right
        | right; eexists; eexists; reflexivity
        | split; [assumption | eexists; eexists; reflexivity]
        | split; [split; assumption | right; left; eexists; eexists; reflexivity]
        | match goal with HU : U _ |- _ => split; [exact HU | right; left; eexists; eexists; reflexivity] end ].

Lemma throw_ok2 s x f : Rx2 x f s ->
  match throw s x f with
  | Continue s' k' f' => Qr2 k' f' s'
  | ToClose s' re => Qr2 [MApp SClose] (FClose re) (inc_closes s')
  | Finished s' _ => True
  end.
Proof.
  intros H. destruct f as [| | | | | |wk| |re]; cbn [Rx2] in H; try contradiction; cbn [throw].
  - (* FHandler *)
    destruct H as [[U1 U2] Hx]. cbn [kill set_exec].
    destruct Hx as [->|[->|[-> Hd]]].
    + solveQ.
    + destruct (kill s) as [kd|] eqn:Ek; [destruct kd; [congruence|solveQ]|solveQ].
    + destruct (kill s) as [kd|]; [destruct kd|]; solveQ.
  - (* FChangeUser *)
    assert (HU : U s) by exact H. destruct H as [U1 U2].
    destruct x.
    + destruct (kill s) as [kd|] eqn:Ek; [destruct kd; [congruence|solveQ]|solveQ].
    + destruct (kill s) as [kd|]; [destruct kd|]; solveQ.
    + destruct (kill s) as [kd|]; [destruct kd|]; solveQ.
    + destruct (kill s) as [kd|]; [destruct kd|]; solveQ.
    + solveQ.
  - (* FHandlerErr *)
    cbn [kill set_seq]. destruct x; try solveQ; destruct (kill s) as [kd|]; [destruct kd|]; solveQ.
  - solveQ.
  - exact I.
Qed.

Lemma end_ok2 s f : Qr2 [] f s ->
  match end_plan BATCH s f with
  | EFinish s' _ => True
  | EGo s' k' f' => Qr2 k' f' s'
  | ESuspRead s' => Qs2 WRead [] f s'
  | ERaise s' x => Rx2 x f s'
  end.
Proof.
  intros H. destruct f as [| | | | | |wk| |re]; cbn [Qr2] in H; try contradiction; cbn [end_plan].
  - (* FRead: the queued COM_CHANGE_USER is dispatched *)
    destruct H as [_ [U2 [q Hq]]]. rewrite Hq. cbn [handler]. cbn [Qr2]. split; [split; [reflexivity|exact U2]|]. right. right. reflexivity.
  - destruct H as [_ [H|[[p [sz H]]|H]]]; discriminate H.
  - destruct H as [_ [_ H]]. discriminate H.
  - destruct H as [_ [p [sz H]]]. discriminate H.
  - cbn [Qr2]. now right.
  - exact I.
Qed.

Definition good2' := good2 Qs2 (fun _ => True) (fun _ => True).
Definition ok2' := ok2 Qs2 (fun _ => True) (fun _ => True) Osess.

Lemma go_ok2' s k f : Qr2 k f s -> ok2' (go B BATCH s k f).
Proof.
  apply (go_ok2 B BATCH Qr2 Qs2 Rx2 (fun _ => True) (fun _ => True) Osess); auto.
  - intros s0 m k0 f0 H. pose proof (op_ok2 s0 m k0 f0 H) as Op. destruct (exec_op B s0 m); exact Op.
  - intros s0 x f0 H. pose proof (throw_ok2 s0 x f0 H) as T. destruct (throw s0 x f0); exact T.
  - intros s0 f0 H. pose proof (end_ok2 s0 f0 H) as E. destruct (end_plan BATCH s0 f0); exact E.
  - intros exc. exact I.
  - exact I.
  - exact I.
Qed.

Lemma raise_ok2' s x f ic : Rx2 x f (kill_cursor s ic) -> ok2' (raise_at B BATCH s x f ic).
Proof.
  apply (raise_at_ok2 B BATCH Qr2 Qs2 Rx2 (fun _ => True) (fun _ => True) Osess); auto.
  - intros s0 m k0 f0 H. pose proof (op_ok2 s0 m k0 f0 H) as Op. destruct (exec_op B s0 m); exact Op.
  - intros s0 x0 f0 H. pose proof (throw_ok2 s0 x0 f0 H) as T. destruct (throw s0 x0 f0); exact T.
  - intros s0 f0 H. pose proof (end_ok2 s0 f0 H) as E. destruct (end_plan BATCH s0 f0); exact E.
  - intros exc. exact I.
  - exact I.
  - exact I.
Qed.
Lemma uq_auth_plan d k : is_success d = false -> uq k = true ->
  uq (auth_plan d true ++ k) = true /\ terminated (auth_plan d true ++ k) = true.
Proof. intros Hd Hk. destruct d; try discriminate Hd; cbn; rewrite ?Hk; auto. Qed.

Lemma still2 s : good2' s -> ok2' (s, []).
Proof. intros G. split; [exact G|constructor]. Qed.

Lemma step_ok2' s e : no_success e -> good2' s -> ok2' (step B BATCH s e).
Proof.
  intros Ha G. unfold step. unfold good2', good2 in G.
  destruct (ctl_ s) as [w k f ic| |] eqn:Ec; [|apply still2; unfold good2', good2; rewrite Ec; exact I..].
  (* a state that differs from s in fields the invariant does not read *)
  assert (Gs : forall s', ctl_ s' = ctl_ s -> executing s' = executing s -> kill s' = kill s -> ok2' (s', [])).
  { intros s' E1 E2 E3. apply still2. unfold good2', good2. rewrite E1, Ec.
    assert (HU' : U s -> U s') by (intros [U1 U2]; split; [rewrite E2; exact U1|rewrite E3; exact U2]).
    destruct f; cbn [Qs2] in *; try contradiction; try exact G; (destruct G as [HU G']; split; [apply HU'; exact HU|exact G']). }
  destruct f as [| | | | | |wk| |re]; cbn [Qs2] in G; try contradiction.
  - (* FHandler: the ERR of an aborted exchange is draining; then AuthenticationFailed is raised *)
    destruct G as [HU [-> ->]].
    destruct e as [c|okh dep|d|d| |hdr| |o| | | | | |kd|kd]; try (apply Gs; reflexivity).
    + destruct (phase s); apply Gs; reflexivity.
    + destruct (phase s); apply Gs; reflexivity.
    + destruct (phase s); apply Gs; reflexivity.
    + apply go_ok2'. cbn [Qr2]. split; [exact HU|now left].
    + apply raise_ok2'. cbn [kill_cursor Rx2]. split; [exact HU|]. right. right. split; reflexivity.
    + destruct (kill_accepted s kd false) eqn:Ek; [|apply Gs; reflexivity].
      apply raise_ok2'. assert (kd = KC).
      { destruct kd; [|reflexivity]. cbn in Ek. destruct HU as [U1 _]. rewrite U1 in Ek. discriminate Ek. }
      subst kd. assert (HU' : U (kill_cursor (set_kill s (Some KC)) ic)).
      { apply U_kc. destruct HU as [U1 U2]. split; [exact U1|cbn; discriminate]. }
      cbn [Rx2]. split; [exact HU'|]. right. now left.
  - (* FChangeUser: inside the exchange *)
    destruct G as [HU [Hq Hw]].
    destruct e as [c|okh dep|d|d| |hdr| |o| | | | | |kd|kd].
    + destruct (phase s); destruct w; apply Gs; reflexivity.
    + destruct (phase s); destruct w; apply Gs; reflexivity.
    + cbn in Ha. destruct (phase s); destruct w; try (apply Gs; reflexivity).
      destruct (uq_auth_plan d k Ha Hq) as [Q1 Q2]. apply go_ok2'. cbn [Qr2]. split; [exact HU|]. now split.
    + cbn in Ha. destruct w as [|c| | |]; try (apply Gs; reflexivity). destruct c; try (apply Gs; reflexivity).
      cbn [is_handler]. destruct (uq_auth_plan d k Ha Hq) as [Q1 Q2]. apply go_ok2'. cbn [Qr2]. split; [exact HU|]. now split.
    + destruct w; try (apply Gs; reflexivity). apply raise_ok2'. cbn [kill_cursor Rx2]. exact HU.
    + destruct w; try (apply Gs; reflexivity). apply raise_ok2'. cbn [kill_cursor Rx2]. destruct hdr; exact HU.
    + destruct w; try (apply Gs; reflexivity). apply raise_ok2'. cbn [kill_cursor Rx2]. exact HU.
    + destruct w as [|c| | |]; try (apply Gs; reflexivity); try contradiction. destruct c; try contradiction. apply Gs; reflexivity.
    + destruct w; try contradiction; apply Gs; reflexivity.
    + destruct w; try contradiction; apply Gs; reflexivity.
    + apply Gs; reflexivity.
    + destruct w; try (apply Gs; reflexivity). apply go_ok2'. cbn [Qr2]. split; [exact HU|]. now split.
    + destruct w; try (apply Gs; reflexivity). apply raise_ok2'. cbn [kill_cursor Rx2]. exact HU.
    + destruct (kill_accepted s kd false) eqn:Ek; [|apply Gs; reflexivity].
      apply raise_ok2'. assert (kd = KC).
      { destruct kd; [|reflexivity]. cbn in Ek. destruct HU as [U1 _]. rewrite U1 in Ek. discriminate Ek. }
      subst kd. cbn [Rx2]. apply U_kc. destruct HU as [U1 U2]. split; [exact U1|cbn; discriminate].
    + destruct w as [|c| | |]; try (apply Gs; reflexivity).
      destruct (kill_accepted s kd true) eqn:Ek; [|apply Gs; reflexivity].
      apply raise_ok2'. assert (kd = KC).
      { destruct kd; [|reflexivity]. cbn in Ek. destruct HU as [U1 _]. rewrite U1 in Ek. discriminate Ek. }
      subst kd. cbn [Rx2]. apply U_kc. destruct HU as [U1 U2]. split; [exact U1|cbn; discriminate].
  - (* FKillErr: the ERR of a KILL CONNECTION is draining *)
    destruct G as [-> ->].
    assert (Gk : forall s', ctl_ s' = ctl_ s -> ok2' (s', [])).
    { intros s' E1. apply still2. unfold good2', good2. rewrite E1, Ec. cbn [Qs2]. auto. }
    destruct e as [c|okh dep|d|d| |hdr| |o| | | | | |kd|kd]; try (apply Gk; reflexivity).
    + destruct (phase s); apply Gk; reflexivity.
    + destruct (phase s); apply Gk; reflexivity.
    + destruct (phase s); apply Gk; reflexivity.
    + apply go_ok2'. cbn [Qr2]. now left.
    + apply raise_ok2'. exact I.
    + destruct (kill_accepted s kd false); [|apply Gk; reflexivity]. apply raise_ok2'. exact I.
  - (* FClose: session.close() is running *)
    destruct G as [-> ->].
    assert (Gk : forall s', ctl_ s' = ctl_ s -> ok2' (s', [])).
    { intros s' E1. apply still2. unfold good2', good2. rewrite E1, Ec. cbn [Qs2]. auto. }
    destruct e as [c|okh dep|d|d| |hdr| |o| | | | | |kd|kd]; try (apply Gk; reflexivity).
    + destruct (phase s); apply Gk; reflexivity.
    + destruct (phase s); apply Gk; reflexivity.
    + destruct (phase s); apply Gk; reflexivity.
    + destruct o as [|sz items|m|]; try (apply go_ok2'; cbn [Qr2]; now left).
      destruct m; apply raise_ok2'; exact I.
    + destruct (kill_accepted s kd false); [|apply Gk; reflexivity]. apply raise_ok2'. exact I.
    + destruct (kill_accepted s kd true); [|apply Gk; reflexivity]. apply raise_ok2'. exact I.
Qed.

Lemma exec_ok2' : forall evs s, Forall no_success evs -> good2' s -> ok2' (exec B BATCH s evs).
Proof.
  induction evs as [|e evs IH]; intros s Ha G; [split; [exact G|constructor]|].
  inversion Ha as [|? ? A1 A2]; subst. cbn [exec].
  destruct (step_ok2' s e A1 G) as [G1 O1]. destruct (step B BATCH s e) as [s1 o1]. cbn [fst snd] in *.
  destruct (IH s1 A2 G1) as [G2 O2]. destruct (exec B BATCH s1 evs) as [s2 o2]. cbn [fst snd] in *.
  split; [exact G2|]. apply Forall_app. now split.
Qed.

(* From ANY state in which the connection waits for the next command (nothing queued, no KILL QUERY pending): a
   COM_CHANGE_USER followed by ANY events without a Success verdict never leads to a served call again. *)
Theorem change_user_without_success_serves_nothing s evs :
  ctl_ s = Susp WRead [] FRead None -> phase s = Command -> inq s = [] -> kill s <> Some KQ ->
  Forall no_success evs ->
  Forall Osess (snd (exec B BATCH s (EvPayload CChangeUser :: evs))).
Proof.
  intros Hc Hp Hi Hk Ha. cbn [exec].
  assert (S1 : ok2' (step B BATCH s (EvPayload CChangeUser))).
  { unfold step. rewrite Hc, Hp. apply go_ok2'. cbn [Qr2]. split; [reflexivity|]. split; [exact Hk|]. exists []. cbn. now rewrite Hi. }
  destruct (step B BATCH s (EvPayload CChangeUser)) as [s1 o1]. destruct S1 as [G1 O1]. cbn [fst snd] in *.
  destruct (exec_ok2' evs s1 Ha G1) as [G2 O2]. destruct (exec B BATCH s1 evs) as [s2 o2]. cbn [fst snd] in *.
  apply Forall_app. now split.
Qed.
(* the same when the COM_CHANGE_USER was queued behind another command and is dispatched by the command loop itself *)
Theorem queued_change_user_without_success_serves_nothing s q evs :
  inq s = CChangeUser :: q -> kill s <> Some KQ -> Forall no_success evs ->
  let '(s1, o1) := go B BATCH s [] FRead in Forall Osess (o1 ++ snd (exec B BATCH s1 evs)).
Proof.
  intros Hi Hk Ha.
  assert (S1 : ok2' (go B BATCH s [] FRead)).
  { apply go_ok2'. cbn [Qr2]. split; [reflexivity|]. split; [exact Hk|]. exists q. exact Hi. }
  destruct (go B BATCH s [] FRead) as [s1 o1]. destruct S1 as [G1 O1]. cbn [fst snd] in *.
  destruct (exec_ok2' evs s1 Ha G1) as [G2 O2]. destruct (exec B BATCH s1 evs) as [s2 o2]. cbn [fst snd] in *.
  apply Forall_app. now split.
Qed.
End ChangeUser.
