(* Proofs/FetchProofs.v - COM_STMT_FETCH: every row of the cursor exactly once, in order. *)
From Coq Require Import List Arith NArith Lia Bool.
From MM Require Import Lib.Bytes Model.Conn Model.Resp Proofs.RespProofs.
Import ListNotations.
Open Scope N_scope.

Section Fetch.
Variable BATCH : N.
Variable id : N.

Fixpoint pulls (k : plan) : nat :=
  match k with
  | [] => O
  | MCurPull _ :: r => S (pulls r)
  | MRaise _ _ :: _ => O
  | _ :: r => pulls r
  end.

Lemma plan_pkts_skip (a : plan) (b : plan) :
  (forall m, In m a -> match m with MSleep _ => True | _ => False end) -> plan_pkts (a ++ b) = plan_pkts b.
Proof.
  induction a as [|m a IH]; intros H; [reflexivity|].
  pose proof (H m (or_introl eq_refl)) as Hm. destruct m; try contradiction.
  cbn [app plan_pkts]. apply IH. intros m' Hin. apply H. now right.
Qed.
Lemma pulls_skip (a : plan) (b : plan) :
  (forall m, In m a -> match m with MSleep _ => True | _ => False end) -> pulls (a ++ b) = pulls b.
Proof.
  induction a as [|m a IH]; intros H; [reflexivity|].
  pose proof (H m (or_introl eq_refl)) as Hm. destruct m; try contradiction.
  cbn [app pulls]. apply IH. intros m' Hin. apply H. now right.
Qed.

(* one fetch: rows i0+c .. in order, as many as requested unless the source runs out (or raises) *)
Theorem fetch_plan_spec : forall items fuel j c want i0, (length items < fuel)%nat -> c <= want ->
  let '(k, c') := fetch_plan BATCH fuel id items j c want i0 in
  c' = N.min want (c + N.of_nat (nrows items)) /\
  plan_pkts k = row_pkts (seqN (i0 + c) (N.to_nat (c' - c))) /\
  pulls k = N.to_nat (c' - c).
Proof.
  induction items as [|it items IH]; intros fuel j c want i0 Hf Hc.
  - destruct fuel as [|f]; [lia|]. cbn [fetch_plan nrows].
    destruct (N.leb_spec want c); cbn; (split; [lia|]); replace (c - c) with 0 by lia; cbn; auto.
  - destruct fuel as [|f]; [cbn in Hf; lia|]. cbn [fetch_plan].
    destruct (N.leb_spec want c) as [L|L].
    { assert (want = c) by lia. subst. split; [cbn; lia|]. replace (c - c) with 0 by lia. cbn. auto. }
    destruct it as [sz| |m].
    + specialize (IH f (j + 1) (c + 1) want i0 ltac:(cbn in Hf; lia) ltac:(lia)).
      destruct (fetch_plan BATCH f id items (j + 1) (c + 1) want i0) as [k c'] eqn:E.
      destruct IH as [I1 [I2 I3]]. cbn [nrows].
      assert (Hc' : c + 1 <= c') by lia.
      split; [lia|].
      replace (N.to_nat (c' - c)) with (S (N.to_nat (c' - (c + 1)))) by lia.
      set (inner := if negb (j =? 0) && (j mod BATCH =? 0) then [MSleep (Some id)] else []).
      set (outer := if negb (c =? 0) && (c mod BATCH =? 0) then [MSleep None] else []).
      assert (Hi : forall m, In m inner -> match m with MSleep _ => True | _ => False end).
      { unfold inner. destruct (negb (j =? 0) && (j mod BATCH =? 0)); cbn; intros m Hin; [destruct Hin as [<-|[]]; exact I|contradiction]. }
      assert (Ho : forall m, In m outer -> match m with MSleep _ => True | _ => False end).
      { unfold outer. destruct (negb (c =? 0) && (c mod BATCH =? 0)); cbn; intros m Hin; [destruct Hin as [<-|[]]; exact I|contradiction]. }
      split.
      * cbn [plan_pkts seqN row_pkts map]. rewrite plan_pkts_skip by exact Hi. rewrite plan_pkts_skip by exact Ho.
        cbn [plan_pkts]. rewrite I2. replace (i0 + c + 1) with (i0 + (c + 1)) by lia. reflexivity.
      * cbn [pulls]. rewrite pulls_skip by exact Hi. rewrite pulls_skip by exact Ho. cbn [pulls]. now rewrite I3.
    + specialize (IH f j c want i0 ltac:(cbn in Hf; lia) Hc).
      destruct (fetch_plan BATCH f id items j c want i0) as [k c'] eqn:E.
      destruct IH as [I1 [I2 I3]]. cbn [nrows plan_pkts pulls]. auto.
    + cbn [nrows plan_pkts pulls]. split; [lia|]. replace (c - c) with 0 by lia. cbn. auto.
Qed.

(* ---- successive fetches ------------------------------------------------------------------------------------------ *)
(* the cursor after n rows have been delivered (waits in front of a delivered row are consumed with it) *)
Fixpoint after_rows (items : list item) (n : nat) : list item :=
  match n with
  | O => items
  | S n' => match items with
            | [] => []
            | IRow _ :: r => after_rows r n'
            | ISuspend :: r => after_rows r n
            | IRaise m :: r => IRaise m :: r
            end
  end.

Lemma nrows_after : forall items n, has_raise items = false -> nrows (after_rows items n) = (nrows items - n)%nat.
Proof.
  induction items as [|it items IH]; intros n H.
  - destruct n; reflexivity.
  - destruct n as [|n]; [cbn; lia|]. destruct it as [sz| |m]; cbn [after_rows nrows has_raise] in *.
    + rewrite IH by assumption. lia.
    + rewrite IH by assumption. reflexivity.
    + discriminate.
Qed.

Lemma has_raise_after : forall items n, has_raise items = false -> has_raise (after_rows items n) = false.
Proof.
  induction items as [|it items IH]; intros n H; [destruct n; reflexivity|].
  destruct n as [|n]; [exact H|]. destruct it; cbn [after_rows has_raise] in *; auto; discriminate.
Qed.

(* rows delivered by a sequence of fetches on one cursor, and the last-row flag of each *)
Fixpoint fetches (items : list item) (pos : N) (wants : list N) : list (list pkt * bool) :=
  match wants with
  | [] => []
  | w :: ws =>
      let '(k, c) := fetch_plan BATCH (S (length items)) id items pos 0 w pos in
      (plan_pkts k, c <? w) :: fetches (after_rows items (N.to_nat c)) (pos + c) ws
  end.

Fixpoint sumN (l : list N) : N := match l with [] => 0 | x :: r => x + sumN r end.

Lemma seqN_app a n m : seqN a (n + m) = seqN a n ++ seqN (a + N.of_nat n) m.
Proof.
  revert a. induction n as [|n IH]; intros a; cbn [seqN Nat.add app].
  - now rewrite N.add_0_r.
  - rewrite IH. f_equal. f_equal. f_equal. lia.
Qed.

(* every row exactly once, in order: the concatenation of what the fetches deliver is the prefix
   0 .. min(total requested, rows) - 1 of the result, whatever the fetch sizes are *)
Theorem fetches_deliver_prefix : forall wants items pos, has_raise items = false ->
  concat (map fst (fetches items pos wants)) =
  row_pkts (seqN pos (N.to_nat (N.min (sumN wants) (N.of_nat (nrows items))))).
Proof.
  induction wants as [|w ws IH]; intros items pos H; [cbn [fetches map concat sumN]; rewrite N.min_0_l; reflexivity|].
  cbn [fetches sumN]. pose proof (fetch_plan_spec items (S (length items)) pos 0 w pos ltac:(lia) ltac:(lia)) as SP.
  destruct (fetch_plan BATCH (S (length items)) id items pos 0 w pos) as [k c]. destruct SP as [S1 [S2 S3]].
  cbn [map concat fst]. rewrite IH by (apply has_raise_after; assumption).
  rewrite S2. rewrite nrows_after by assumption.
  replace (c - 0) with c in * by lia. rewrite N.add_0_r in *. rewrite N.add_0_l in S1.
  unfold row_pkts. rewrite <- map_app. f_equal.
  set (n := N.of_nat (nrows items)) in *.
  replace (N.to_nat (N.min (w + sumN ws) n)) with (N.to_nat c + N.to_nat (N.min (sumN ws) (N.of_nat (nrows items - N.to_nat c))))%nat by (unfold n; lia).
  rewrite seqN_app. f_equal. f_equal. lia.
Qed.

(* the flag: last-row-sent exactly on a fetch that could not be filled *)
Theorem fetch_flag items pos w : 
  let '(k, c) := fetch_plan BATCH (S (length items)) id items pos 0 w pos in
  (c <? w) = (N.of_nat (nrows items) <? w).
Proof.
  pose proof (fetch_plan_spec items (S (length items)) pos 0 w pos ltac:(lia) ltac:(lia)) as SP.
  destruct (fetch_plan BATCH (S (length items)) id items pos 0 w pos) as [k c]. destruct SP as [S1 _].
  rewrite N.add_0_l in S1. destruct (N.ltb_spec c w), (N.ltb_spec (N.of_nat (nrows items)) w); try reflexivity; lia.
Qed.
End Fetch.
