From Coq Require Import List NArith ZArith Lia Bool.
From MM Require Import Lib.Bytes Lib.Bitmap Model.Parse.
Import ListNotations.
Open Scope N_scope.

(* ---- reading back what the encoders wrote ------------------------------------------------------ *)
Lemma rd_uint_app k n r : n < 256 ^ N.of_nat k -> rd_uint k (le_bytes k n ++ r) = Ok (n, r).
Proof. intros H. unfold rd_uint. now rewrite read_uint_le. Qed.

Lemma rd_uint_len_app i r : i < 2 ^ 64 -> rd_uint_len (uint_len i ++ r) = Ok (i, r).
Proof. intros H. unfold rd_uint_len. now rewrite uint_len_roundtrip. Qed.

Lemma rd_str_len_app s r : len s < 2 ^ 63 -> rd_str_len (str_len s ++ r) = Ok (s, r).
Proof.
  intros H. unfold rd_str_len, str_len. rewrite <- app_assoc, rd_uint_len_app by (cbn in *; lia).
  cbn [bind]. destruct (N.leb_spec (2 ^ 63) (len s)); [lia|].
  unfold rd_fixed. now rewrite take_app_exact, drop_app_exact.
Qed.

Lemma rd_uint1_cons b r : rd_uint 1 (b :: r) = Ok (b, r).
Proof.
  unfold rd_uint, read_uint, read_fixed. rewrite len_cons.
  destruct (N.ltb_spec (1 + len r) (N.of_nat 1)); [lia|].
  cbn [N.of_nat Pos.of_succ_nat take drop N.eqb N.pred Pos.pred_N le_val]. rewrite take_0, drop_0. cbn. f_equal. f_equal. lia.
Qed.

Lemma testbit_flag (u : bool) : N.testbit (if u then 128 else 0) 7 = u.
Proof. destruct u; reflexivity. Qed.

Lemma rd_param_type_app p r : is_column_type (pm_type p) = true ->
  rd_param_type ([pm_type p; if pm_unsigned p then 128 else 0] ++ r) = Ok ((pm_type p, pm_unsigned p), r).
Proof.
  intros H. unfold rd_param_type. cbn [app]. rewrite rd_uint1_cons. cbn [bind]. rewrite H. cbn [negb].
  rewrite rd_uint1_cons. cbn [bind]. now rewrite testbit_flag.
Qed.

Lemma of_signed_bound k z : (0 < k)%nat -> of_signed k z < 256 ^ N.of_nat k.
Proof.
  intros Hk. unfold of_signed.
  assert (P : (0 < 256 ^ Z.of_nat k)%Z) by (apply Z.pow_pos_nonneg; lia).
  pose proof (Z.mod_pos_bound z _ P) as B.
  apply N2Z.inj_lt. rewrite Z2N.id by lia. rewrite N2Z.inj_pow. rewrite nat_N_Z. cbn. lia.
Qed.

Lemma rd_sized_app k u z r : (0 < k)%nat -> int_in_range k u z = true ->
  rd_sized k u (enc_int k u z ++ r) = Ok (PInt z, r).
Proof.
  intros Hk Hr. unfold rd_sized, enc_int, int_in_range in *. destruct u.
  - apply andb_prop in Hr. destruct Hr as [H0 H1]. apply Z.leb_le in H0. apply Z.ltb_lt in H1.
    rewrite rd_uint_app.
    + cbn [bind]. now rewrite Z2N.id by assumption.
    + apply N2Z.inj_lt. rewrite Z2N.id by assumption. rewrite N2Z.inj_pow, nat_N_Z. cbn. exact H1.
  - apply andb_prop in Hr. destruct Hr as [H0 H1]. apply Z.leb_le in H0. apply Z.ltb_lt in H1.
    unfold rd_int. rewrite rd_uint_app by (apply of_signed_bound; assumption).
    cbn [bind]. rewrite signed_roundtrip; [reflexivity|assumption|lia].
Qed.

Lemma int_kind_pos t u k uu : int_kind t u = Some (k, uu) -> (0 < k)%nat.
Proof.
  unfold int_kind. repeat match goal with |- context [if ?c then _ else _] => destruct c end;
    intros H; inversion H; lia.
Qed.

Lemma rd_param_value_app p r : wf_param p = true -> is_null p = false ->
  rd_param_value (pm_type p) (pm_unsigned p) (enc_value p ++ r) = Ok (pm_val p, r).
Proof.
  unfold wf_param, is_null, enc_value, rd_param_value. intros W Hn.
  apply andb_prop in W. destruct W as [W0 W]. apply andb_prop in W0. destruct W0 as [Wt Wn].
  destruct (pm_val p) as [|z|s|raw|raw]; [discriminate| | | |].
  - apply andb_prop in W. destruct W as [Ws Wk]. apply negb_true_iff in Ws. rewrite Ws.
    destruct (int_kind (pm_type p) (pm_unsigned p)) as [[k uu]|] eqn:K; [|discriminate].
    apply rd_sized_app; [eapply int_kind_pos; eassumption|assumption].
  - apply andb_prop in W. destruct W as [Ws Wl]. rewrite Ws. apply N.ltb_lt in Wl.
    now rewrite rd_str_len_app.
  - apply andb_prop in W. destruct W as [Wt4 Wl]. apply N.eqb_eq in Wt4. apply N.eqb_eq in Wl.
    rewrite Wt4. cbn [existsb string_types N.eqb Pos.eqb orb int_kind].
    rewrite len_app, Wl. destruct (N.ltb_spec (4 + len r) 4); [lia|].
    rewrite <- Wl. now rewrite take_app_exact, drop_app_exact.
  - apply andb_prop in W. destruct W as [Wt5 Wl]. apply N.eqb_eq in Wt5. apply N.eqb_eq in Wl.
    rewrite Wt5. cbn [existsb string_types N.eqb Pos.eqb orb int_kind].
    rewrite len_app, Wl. destruct (N.ltb_spec (8 + len r) 8); [lia|].
    rewrite <- Wl. now rewrite take_app_exact, drop_app_exact.
Qed.

Lemma wf_name p : wf_param p = true -> len (pm_name p) < 2 ^ 63 /\ is_column_type (pm_type p) = true.
Proof.
  unfold wf_param. intros W. apply andb_prop in W. destruct W as [W0 _].
  apply andb_prop in W0. destruct W0 as [Wt Wn]. apply N.ltb_lt in Wn. now split.
Qed.

Definition ty_out (qa : bool) (p : param) : bytes * N * bool :=
  (if qa then pm_name p else [], pm_type p, pm_unsigned p).

Lemma rd_types_app qa : forall ps fuel r, forallb wf_param ps = true -> (length ps <= fuel)%nat ->
  rd_types fuel qa (len ps) (flat_map (enc_type qa) ps ++ r) =
    Ok (map (ty_out qa) ps, r).
Proof.
  induction ps as [|p ps IH]; intros fuel r W Hf.
  - destruct fuel; reflexivity.
  - cbn [forallb] in W. apply andb_prop in W. destruct W as [Wp Wps].
    destruct (wf_name p Wp) as [Hn Ht].
    destruct fuel as [|f]; [cbn in Hf; lia|].
    cbn [rd_types]. rewrite len_cons. destruct (N.eqb_spec (1 + len ps) 0); [lia|].
    cbn [flat_map]. unfold enc_type at 1. rewrite <- !app_assoc.
    rewrite rd_param_type_app by assumption. cbn [bind].
    replace (N.pred (1 + len ps)) with (len ps) by lia.
    destruct qa.
    + rewrite rd_str_len_app by assumption. cbn [bind]. rewrite IH; [reflexivity|assumption|cbn in Hf; lia].
    + cbn [app bind]. rewrite IH; [reflexivity|assumption|cbn in Hf; lia].
Qed.

Lemma testbit_at_bitmap nulls i : (i < length nulls)%nat ->
  testbit_at (Bitmap.bitmap 0 nulls) (N.of_nat i) 0 = Ok (nth i nulls false).
Proof.
  intros Hi. destruct (bitmap_bit 0 nulls i Hi) as [b [E T]].
  unfold testbit_at. rewrite N.add_0_r. rewrite Nat.add_0_r in E, T.
  replace (N.to_nat (N.of_nat i / 8)) with (i / 8)%nat.
  2:{ change 8 with (N.of_nat 8). rewrite <- Nat2N.inj_div. lia. }
  rewrite E. f_equal. rewrite <- T. f_equal.
  change 8 with (N.of_nat 8). now rewrite <- Nat2N.inj_mod.
Qed.

Lemma rd_values_app qa bm_src : forall suf pre r,
  bm_src = pre ++ suf -> forallb wf_param suf = true ->
  rd_values (Bitmap.bitmap 0 (map is_null bm_src)) [] (N.of_nat (length pre))
            (map (ty_out qa) suf)
            (flat_map enc_value suf ++ r) =
    Ok (map (param_out qa) suf, r).
Proof.
  induction suf as [|p suf IH]; intros pre r E W; [reflexivity|].
  cbn [forallb] in W. apply andb_prop in W. destruct W as [Wp Ws].
  cbn [map flat_map]. unfold ty_out at 1. cbn [rd_values].
  rewrite testbit_at_bitmap.
  2:{ rewrite map_length, E, app_length. cbn [length]. lia. }
  assert (Hnth : nth (length pre) (map is_null bm_src) false = is_null p).
  { rewrite E, map_app, app_nth2; rewrite map_length; [now rewrite Nat.sub_diag|lia]. }
  cbn [bind]. rewrite Hnth.
  assert (Enext : N.of_nat (length pre) + 1 = N.of_nat (length (pre ++ [p]))) by (rewrite app_length; cbn; lia).
  destruct (is_null p) eqn:Hn.
  - cbn [bind assoc_N]. assert (enc_value p = []) as ->.
    { unfold enc_value, is_null in *. destruct (pm_val p); try discriminate; reflexivity. }
    cbn [app]. rewrite Enext.
    rewrite (IH (pre ++ [p]) r); [|now rewrite E, <- app_assoc|assumption].
    cbn [bind]. unfold param_out at 2. f_equal. f_equal. f_equal.
    unfold is_null in Hn. destruct (pm_val p); try discriminate; reflexivity.
  - cbn [assoc_N]. rewrite <- app_assoc, rd_param_value_app by assumption. cbn [bind].
    rewrite Enext. rewrite (IH (pre ++ [p]) r); [|now rewrite E, <- app_assoc|assumption].
    reflexivity.
Qed.

Lemma bitmap_bytes_len (n : nat) : bitmap_bytes (N.of_nat n) 0 = N.of_nat (nbytes n 0).
Proof.
  unfold bitmap_bytes, nbytes. rewrite N.add_0_r, Nat.add_0_r.
  change 8 with (N.of_nat 8). change 7 with (N.of_nat 7).
  rewrite <- Nat2N.inj_add, <- Nat2N.inj_div. reflexivity.
Qed.

Lemma enc_types_long qa ps : (length ps <= length (flat_map (enc_type qa) ps))%nat.
Proof.
  induction ps as [|p ps IH]; [cbn; lia|]. cbn [flat_map]. rewrite app_length.
  unfold enc_type at 1. cbn [app length]. lia.
Qed.

Lemma encode_params_ne qa ps : ps <> [] ->
  encode_params qa ps = nat_bitmap_bytes (map is_null ps) ++ [1] ++ flat_map (enc_type qa) ps ++ flat_map enc_value ps.
Proof. destruct ps; [contradiction|reflexivity]. Qed.

Theorem rd_params_roundtrip qa ps r : forallb wf_param ps = true ->
  rd_params qa (len ps) [] (encode_params qa ps ++ r) = Ok (map (param_out qa) ps, r).
Proof.
  intros W. destruct ps as [|p0 ps0]; [reflexivity|].
  remember (p0 :: ps0) as ps eqn:Eps.
  assert (Hnil : ps <> []) by (subst; discriminate).
  assert (Hne : (len ps =? 0) = false) by (subst; rewrite len_cons; apply N.eqb_neq; lia).
  clear Eps. unfold rd_params. rewrite Hne, encode_params_ne by assumption.
  unfold nat_bitmap_bytes, rd_fixed. rewrite <- !app_assoc.
  assert (BL : bitmap_bytes (len ps) 0 = len (Bitmap.bitmap 0 (map is_null ps))).
  { unfold len. rewrite bitmap_bytes_len, bitmap_length, map_length. reflexivity. }
  rewrite BL, take_app_exact, drop_app_exact.
  cbn [app]. rewrite rd_uint1_cons. cbn [bind N.eqb].
  rewrite rd_types_app; [|assumption|].
  2:{ rewrite !app_length. pose proof (enc_types_long qa ps). lia. }
  cbn [bind].
  exact (rd_values_app qa ps ps [] r eq_refl W).
Qed.

(* ---- COM_QUERY --------------------------------------------------------------------------------- *)
Theorem com_query_roundtrip attrs sql : forallb wf_param attrs = true -> len attrs < 2 ^ 64 ->
  parse_com_query true (encode_com_query attrs sql) = Ok (sql, to_dict (map (param_out true) attrs)).
Proof.
  intros W L. unfold parse_com_query, encode_com_query.
  rewrite rd_uint_len_app by assumption. cbn [bind app].
  change (1 :: encode_params true attrs ++ sql) with (uint_len 1 ++ encode_params true attrs ++ sql).
  rewrite rd_uint_len_app by (cbn; lia). cbn [bind].
  rewrite rd_params_roundtrip by assumption. reflexivity.
Qed.

Theorem com_query_without_capability d : parse_com_query false d = Ok (d, []).
Proof. reflexivity. Qed.

(* ---- COM_STMT_EXECUTE ---------------------------------------------------------------------------- *)
Definition encode_execute (qa : bool) (id flags : N) (positional attrs : list param) : bytes :=
  le_bytes 4 id ++ [flags] ++ le_bytes 4 1 ++
  (if qa then uint_len (len (positional ++ attrs)) else []) ++
  encode_params qa (positional ++ attrs).

Theorem execute_roundtrip qa lookup st id flags positional attrs :
  id < 2 ^ 32 -> lookup id = Some st -> st_buffers st = [] ->
  st_nparams st = len positional ->
  (qa = false -> attrs = []) ->
  (qa = true -> positional = [] -> N.testbit flags 3 = true) ->
  forallb wf_param (positional ++ attrs) = true -> len (positional ++ attrs) < 2 ^ 64 ->
  parse_com_stmt_execute qa lookup (encode_execute qa id flags positional attrs) =
    Ok (st, mk_exec (map (param_out qa) positional) (to_dict (map (param_out qa) attrs)) (N.testbit flags 0)).
Proof.
  intros Hid Hl Hb Hn Hqa Hpca W L.
  unfold parse_com_stmt_execute, encode_execute.
  rewrite rd_uint_app by (cbn; lia). cbn [bind]. rewrite Hl.
  unfold rd_cursor_flags. cbn [app]. rewrite rd_uint1_cons. cbn [bind].
rewrite rd_uint_app by (cbn; lia). cbn [bind].
  rewrite Hn, Hb.
  assert (Hout : forall r : bytes, map (param_out qa) (positional ++ attrs) = map (param_out qa) positional ++ map (param_out qa) attrs)
    by (intros; apply map_app).
  destruct qa.
  - (* query attributes negotiated *)
    assert (C : ((0 <? len positional) || (true && N.testbit flags 3)) && true = true).
    { destruct positional as [|p ps]; [rewrite Hpca by reflexivity; reflexivity|].
      rewrite len_cons. destruct (N.ltb_spec 0 (1 + len ps)); [reflexivity|lia]. }
    rewrite C. rewrite rd_uint_len_app by assumption. cbn [bind].
    destruct (N.ltb_spec 0 (len (positional ++ attrs))) as [Hpos|Hz].
    + rewrite <- (app_nil_r (encode_params true (positional ++ attrs))).
      rewrite rd_params_roundtrip by assumption. cbn [bind].
      rewrite map_app. f_equal. f_equal.
      unfold len. rewrite Nat2N.id.
      rewrite <- (map_length (param_out true) positional).
      rewrite firstn_app, Nat.sub_diag, firstn_all. cbn [firstn]. rewrite app_nil_r.
      rewrite skipn_app, Nat.sub_diag, skipn_all. reflexivity.
    + assert (E : positional ++ attrs = []) by (apply len_zero_nil; lia).
      apply app_eq_nil in E. destruct E as [-> ->]. reflexivity.
  - rewrite (Hqa eq_refl) in *. rewrite app_nil_r in *.
    rewrite andb_false_r. cbn [app bind].
    destruct (N.ltb_spec 0 (len positional)) as [Hpos|Hz].
    + rewrite <- (app_nil_r (encode_params false positional)).
      rewrite rd_params_roundtrip by assumption. cbn [bind].
      unfold len. rewrite Nat2N.id.
      rewrite <- (map_length (param_out false) positional) at 1 2.
      rewrite firstn_all, skipn_all. reflexivity.
    + assert (E : positional = []) by (apply len_zero_nil; lia). subst. reflexivity.
Qed.

(* ---- totality: the loops end, with fuel linear in the packet length ------------------------------- *)
Lemma read_fixed_len k d h r : read_fixed k d = Some (h, r) -> len r + k = len d.
Proof.
  unfold read_fixed. destruct (N.ltb_spec (len d) k); [discriminate|].
  intros E. inversion E; subst. rewrite len_drop. lia.
Qed.

Lemma rd_uint_shrinks k d v r : rd_uint k d = Ok (v, r) -> len r + N.of_nat k = len d.
Proof.
  unfold rd_uint, read_uint. destruct (read_fixed (N.of_nat k) d) as [[h t]|] eqn:E; [|discriminate].
  intros H. inversion H; subst. eapply read_fixed_len. eassumption.
Qed.

Lemma rd_uint_len_shrinks d v r : rd_uint_len d = Ok (v, r) -> len r < len d.
Proof.
  unfold rd_uint_len, read_uint_len. destruct d as [|b t]; [discriminate|].
  rewrite len_cons.
  destruct (b =? 254); [|destruct (b =? 253); [|destruct (b =? 252)]].
  - destruct (read_uint 8 t) as [[x y]|] eqn:E; [|discriminate]. intros H; inversion H; subst.
    unfold read_uint in E. destruct (read_fixed (N.of_nat 8) t) as [[h u]|] eqn:F; [|discriminate].
    inversion E; subst. apply read_fixed_len in F. lia.
  - destruct (read_uint 3 t) as [[x y]|] eqn:E; [|discriminate]. intros H; inversion H; subst.
    unfold read_uint in E. destruct (read_fixed (N.of_nat 3) t) as [[h u]|] eqn:F; [|discriminate].
    inversion E; subst. apply read_fixed_len in F. lia.
  - destruct (read_uint 2 t) as [[x y]|] eqn:E; [|discriminate]. intros H; inversion H; subst.
    unfold read_uint in E. destruct (read_fixed (N.of_nat 2) t) as [[h u]|] eqn:F; [|discriminate].
    inversion E; subst. apply read_fixed_len in F. lia.
  - intros H; inversion H; subst. lia.
Qed.

Lemma rd_str_len_shrinks d s r : rd_str_len d = Ok (s, r) -> len r < len d.
Proof.
  unfold rd_str_len. destruct (rd_uint_len d) as [[l t]|] eqn:E; [|discriminate].
  cbn [bind]. destruct (2 ^ 63 <=? l); [discriminate|]. unfold rd_fixed. intros H; inversion H; subst.
  apply rd_uint_len_shrinks in E. rewrite len_drop. lia.
Qed.

Lemma rd_param_type_shrinks d x r : rd_param_type d = Ok (x, r) -> len r < len d.
Proof.
  unfold rd_param_type. destruct (rd_uint 1 d) as [[t u]|] eqn:E; [|discriminate]. cbn [bind].
  destruct (negb (is_column_type t)); [discriminate|].
  destruct (rd_uint 1 u) as [[f v]|] eqn:F; [|discriminate]. cbn [bind].
  intros H; inversion H; subst. apply rd_uint_shrinks in E. apply rd_uint_shrinks in F. lia.
Qed.

(* errors of the non-recursive readers are never OutOfFuel *)
Lemma rd_uint_not_oof k d : rd_uint k d <> Err OutOfFuel.
Proof. unfold rd_uint. destruct (read_uint k d) as [[? ?]|]; discriminate. Qed.
Lemma rd_uint_len_not_oof d : rd_uint_len d <> Err OutOfFuel.
Proof. unfold rd_uint_len. destruct (read_uint_len d) as [[? ?]|]; discriminate. Qed.
Lemma rd_str_len_not_oof d : rd_str_len d <> Err OutOfFuel.
Proof. unfold rd_str_len. pose proof (rd_uint_len_not_oof d). destruct (rd_uint_len d) as [[l ?]|e]; cbn [bind]; [destruct (2 ^ 63 <=? l); discriminate|congruence]. Qed.

Theorem rd_types_total qa : forall fuel n d, (length d < fuel)%nat -> rd_types fuel qa n d <> Err OutOfFuel.
Proof.
  induction fuel as [|f IH]; intros n d Hf; [lia|].
  cbn [rd_types]. destruct (n =? 0); [discriminate|].
  destruct (rd_param_type d) as [[[t u] r]|e] eqn:E.
  2:{ cbn [bind]. unfold rd_param_type in E.
      destruct (rd_uint 1 d) as [[t0 u0]|e0] eqn:E0; cbn [bind] in E.
      - destruct (negb (is_column_type t0)); [inversion E; discriminate|].
        destruct (rd_uint 1 u0) as [[a b]|e1] eqn:E1; cbn [bind] in E; [discriminate|].
        unfold rd_uint in E1. destruct (read_uint 1 u0) as [[? ?]|]; inversion E1; subst. inversion E; discriminate.
      - unfold rd_uint in E0. destruct (read_uint 1 d) as [[? ?]|]; inversion E0; subst. inversion E; discriminate. }
  cbn [bind]. apply rd_param_type_shrinks in E.
  destruct qa.
  - destruct (rd_str_len r) as [[nm r2]|e] eqn:S.
    2:{ cbn [bind]. pose proof (rd_str_len_not_oof r) as NO. rewrite S in NO. congruence. }
    cbn [bind]. apply rd_str_len_shrinks in S.
    specialize (IH (N.pred n) r2 ltac:(unfold len in *; lia)).
    destruct (rd_types f true (N.pred n) r2) as [[rest r3]|e]; cbn [bind]; [discriminate|]. congruence.
  - cbn [bind]. specialize (IH (N.pred n) r ltac:(unfold len in *; lia)).
    destruct (rd_types f false (N.pred n) r) as [[rest r3]|e]; cbn [bind]; [discriminate|]. congruence.
Qed.

Theorem rd_attrs_total : forall fuel total d acc, (length d < fuel)%nat -> rd_attrs fuel total d acc <> Err OutOfFuel.
Proof.
  induction fuel as [|f IH]; intros total d acc Hf; [lia|].
  cbn [rd_attrs]. destruct (total <=? 0)%Z; [discriminate|].
  destruct (rd_str_len d) as [[k r]|e] eqn:K.
  2:{ cbn [bind]. pose proof (rd_str_len_not_oof d) as NO. rewrite K in NO. congruence. }
  cbn [bind]. destruct (rd_str_len r) as [[v r2]|e] eqn:V.
  2:{ cbn [bind]. pose proof (rd_str_len_not_oof r) as NO. rewrite V in NO. congruence. }
  cbn [bind]. apply rd_str_len_shrinks in K. apply rd_str_len_shrinks in V.
  apply IH. unfold len in *. lia.
Qed.

Lemma rd_param_value_not_oof t u d : rd_param_value t u d <> Err OutOfFuel.
Proof.
  unfold rd_param_value. destruct (existsb (N.eqb t) string_types).
  - pose proof (rd_str_len_not_oof d). destruct (rd_str_len d) as [[? ?]|e]; cbn [bind]; [discriminate|congruence].
  - destruct (int_kind t u) as [[k uu]|].
    + unfold rd_sized, rd_int. pose proof (rd_uint_not_oof k d).
      destruct uu; destruct (rd_uint k d) as [[? ?]|e]; cbn [bind]; try discriminate; congruence.
    + destruct (t =? 4); [destruct (len d <? 4); discriminate|].
      destruct (t =? 5); [destruct (len d <? 8); discriminate|].
      destruct (t =? 6); discriminate.
Qed.

Lemma rd_values_not_oof bm bufs : forall tys i d, rd_values bm bufs i tys d <> Err OutOfFuel.
Proof.
  induction tys as [|[[nm t] u] tys IH]; intros i d; [discriminate|].
  cbn [rd_values]. unfold testbit_at.
  destruct (nth_error bm (N.to_nat ((i + 0) / 8))); cbn [bind]; [|discriminate].
  destruct (N.testbit n ((i + 0) mod 8)).
  - cbn [bind]. specialize (IH (i + 1) d). destruct (rd_values bm bufs (i + 1) tys d) as [[? ?]|e]; cbn [bind]; [discriminate|congruence].
  - destruct (assoc_N i bufs).
    + cbn [bind]. specialize (IH (i + 1) d). destruct (rd_values bm bufs (i + 1) tys d) as [[? ?]|e]; cbn [bind]; [discriminate|congruence].
    + pose proof (rd_param_value_not_oof t u d). destruct (rd_param_value t u d) as [[v r]|e]; cbn [bind]; [|congruence].
      specialize (IH (i + 1) r). destruct (rd_values bm bufs (i + 1) tys r) as [[? ?]|e]; cbn [bind]; [discriminate|congruence].
Qed.

Theorem rd_params_total qa count bufs d : rd_params qa count bufs d <> Err OutOfFuel.
Proof.
  unfold rd_params. destruct (count =? 0); [discriminate|]. unfold rd_fixed.
  pose proof (rd_uint_not_oof 1 (drop (bitmap_bytes count 0) d)).
  destruct (rd_uint 1 (drop (bitmap_bytes count 0) d)) as [[fl r2]|e]; cbn [bind]; [|congruence].
  destruct (fl =? 0); [discriminate|].
  pose proof (rd_types_total qa (S (length r2)) count r2 ltac:(lia)).
  destruct (rd_types (S (length r2)) qa count r2) as [[tys r3]|e]; cbn [bind]; [|congruence].
  apply rd_values_not_oof.
Qed.

Theorem parse_com_query_total qa d : parse_com_query qa d <> Err OutOfFuel.
Proof.
  unfold parse_com_query. destruct qa; [|discriminate].
  pose proof (rd_uint_len_not_oof d). destruct (rd_uint_len d) as [[c r]|e]; cbn [bind]; [|congruence].
  pose proof (rd_uint_len_not_oof r). destruct (rd_uint_len r) as [[c2 r2]|e]; cbn [bind]; [|congruence].
  pose proof (rd_params_total true c [] r2). destruct (rd_params true c [] r2) as [[? ?]|e]; cbn [bind]; [discriminate|congruence].
Qed.

Theorem parse_com_stmt_execute_total qa lookup d : parse_com_stmt_execute qa lookup d <> Err OutOfFuel.
Proof.
  unfold parse_com_stmt_execute.
  pose proof (rd_uint_not_oof 4 d). destruct (rd_uint 4 d) as [[id r]|e]; cbn [bind]; [|congruence].
  destruct (lookup id) as [st|]; [|discriminate].
  unfold rd_cursor_flags. pose proof (rd_uint_not_oof 1 r). destruct (rd_uint 1 r) as [[f r2]|e]; cbn [bind]; [|congruence].
  pose proof (rd_uint_not_oof 4 r2); destruct (rd_uint 4 r2) as [[it r3]|e]; cbn [bind]; [|congruence].
  match goal with |- context [if ?c then rd_uint_len r3 else _] => destruct c end.
  all: try (pose proof (rd_uint_len_not_oof r3); destruct (rd_uint_len r3) as [[cnt r4]|e]; cbn [bind]; [|congruence]).
  all: cbn [bind].
  all: match goal with |- context [if 0 <? ?c then _ else _] => destruct (0 <? c); [|discriminate] end.
  all: match goal with |- context [rd_params ?q ?c ?b ?x] =>
         pose proof (rd_params_total q c b x); destruct (rd_params q c b x) as [[? ?]|e]; cbn [bind]; [discriminate|congruence] end.
Qed.

Theorem rd_connect_attrs_total d : rd_connect_attrs d <> Err OutOfFuel.
Proof.
  unfold rd_connect_attrs. pose proof (rd_uint_len_not_oof d).
  destruct (rd_uint_len d) as [[t r]|e]; cbn [bind]; [|congruence].
  apply rd_attrs_total. lia.
Qed.

Theorem parse_handshake_response_total cok sc mk d : parse_handshake_response cok sc mk d <> Err OutOfFuel.
Proof.
  unfold parse_handshake_response.
  pose proof (rd_uint_not_oof 4 d). destruct (rd_uint 4 d) as [[cw r]|e]; cbn [bind]; [|congruence].
  pose proof (rd_uint_not_oof 4 r). destruct (rd_uint 4 r) as [[mp r2]|e]; cbn [bind]; [|congruence].
  pose proof (rd_uint_not_oof 1 r2). destruct (rd_uint 1 r2) as [[co r3]|e]; cbn [bind]; [|congruence].
  destruct (negb (cok co)); [discriminate|]. unfold rd_fixed.
  destruct (drop 23 r3) as [|b r4]; [discriminate|].
  destruct (rd_str_null (b :: r4)) as [user r5].
  set (c := mk (N.land sc cw)).
  assert (A : forall X : result (bytes * bytes), X <> Err OutOfFuel ->
      (do (auth, r6) <- X;
       let '(db, r7) := if c_with_db c then let '(x, t) := rd_str_null r6 in (Some x, t) else (None, r6) in
       let '(plugin, r8) := if c_plugin_auth c then let '(x, t) := rd_str_null r7 in (Some x, t) else (None, r7) in
       do (attrs, r9) <- (if c_attrs c then rd_connect_attrs r8 else Ok ([], r8));
       do (z, _) <- (if c_zstd c then rd_uint 1 r9 else Ok (0, r9));
       Ok (HSR (N.land sc cw) mp co user auth db plugin attrs z)) <> Err OutOfFuel).
  { intros X HX. destruct X as [[auth r6]|e]; cbn [bind]; [|congruence].
    destruct (c_with_db c); [destruct (rd_str_null r6) as [x t]|];
    (destruct (c_plugin_auth c); [match goal with |- context [rd_str_null ?q] => destruct (rd_str_null q) as [x2 t2] end|]);
    (destruct (c_attrs c);
      [match goal with |- context [rd_connect_attrs ?q] =>
         pose proof (rd_connect_attrs_total q); destruct (rd_connect_attrs q) as [[at9 r9]|e]; cbn [bind]; [|congruence] end
      | cbn [bind]]);
    (destruct (c_zstd c);
      [match goal with |- context [rd_uint 1 ?q] =>
         pose proof (rd_uint_not_oof 1 q); destruct (rd_uint 1 q) as [[z9 r10]|e]; cbn [bind]; [discriminate|congruence] end
      | cbn [bind]; discriminate]). }
  destruct (c_lenenc_auth c).
  - apply A. apply rd_str_len_not_oof.
  - apply A. pose proof (rd_uint_not_oof 1 r5). destruct (rd_uint 1 r5) as [[l t]|e]; cbn [bind]; [discriminate|congruence].
Qed.

Theorem parse_com_change_user_total cok c d : parse_com_change_user cok c d <> Err OutOfFuel.
Proof.
  unfold parse_com_change_user. destruct (rd_str_null d) as [user r].
  assert (A : forall X : result (bytes * bytes), X <> Err OutOfFuel ->
      (do (auth, r2) <- X;
       let '(db, r3) := rd_str_null r2 in
       match r3 with
       | [] => Ok (mk_chg user auth db None None [])
       | _ :: _ =>
         do (coll, r4) <- (if c_proto41 c then do (x, t) <- rd_uint 2 r3; if cok x then Ok (Some x, t) else Err ValueErr
                           else Ok (None, r3));
         let '(plugin, r5) := if c_plugin_auth c then let '(x, t) := rd_str_null r4 in (Some x, t) else (None, r4) in
         do (attrs, _) <- (if c_attrs c then rd_connect_attrs r5 else Ok ([], r5));
         Ok (mk_chg user auth db coll plugin attrs)
       end) <> Err OutOfFuel).
  { intros X HX. destruct X as [[auth r2]|e]; cbn [bind]; [|congruence].
    destruct (rd_str_null r2) as [db r3]. destruct r3 as [|b r3]; [discriminate|].
    destruct (c_proto41 c).
    - pose proof (rd_uint_not_oof 2 (b :: r3)). destruct (rd_uint 2 (b :: r3)) as [[x t]|e]; cbn [bind]; [|congruence].
      destruct (cok x); cbn [bind]; [|discriminate].
      destruct (c_plugin_auth c); [destruct (rd_str_null t) as [x2 t2]|];
      (destruct (c_attrs c);
        [match goal with |- context [rd_connect_attrs ?q] =>
           pose proof (rd_connect_attrs_total q); destruct (rd_connect_attrs q) as [[at9 r9]|e]; cbn [bind]; [discriminate|congruence] end
        | cbn [bind]; discriminate]).
    - cbn [bind].
      destruct (c_plugin_auth c); [destruct (rd_str_null (b :: r3)) as [x2 t2]|];
      (destruct (c_attrs c);
        [match goal with |- context [rd_connect_attrs ?q] =>
           pose proof (rd_connect_attrs_total q); destruct (rd_connect_attrs q) as [[at9 r9]|e]; cbn [bind]; [discriminate|congruence] end
        | cbn [bind]; discriminate]). }
  destruct (c_secure c).
  - apply A. pose proof (rd_uint_not_oof 1 r). destruct (rd_uint 1 r) as [[l t]|e]; cbn [bind]; [discriminate|congruence].
  - apply A. discriminate.
Qed.
