(* Lib/Decimal.v - str(int) / int(str): decimal rendering of integers as ASCII code points. *)
From Coq Require Import List NArith ZArith Lia Bool.
Import ListNotations.
Open Scope N_scope.

Fixpoint dec_go (fuel : nat) (n : N) (acc : list N) : list N :=
  match fuel with
  | O => acc
  | S f => let acc' := (48 + n mod 10) :: acc in
           if n <? 10 then acc' else dec_go f (n / 10) acc'
  end.

Definition dec_N (n : N) : list N := dec_go (S (N.size_nat n)) n [].
Definition dec_Z (z : Z) : list N :=
  if (z <? 0)%Z then 45 :: dec_N (Z.to_N (- z)) else dec_N (Z.to_N z).

Definition is_digit (c : N) : bool := (48 <=? c) && (c <=? 57).

Fixpoint undec_go (t : list N) (acc : N) : option N :=
  match t with
  | [] => Some acc
  | c :: r => if is_digit c then undec_go r (acc * 10 + (c - 48)) else None
  end.
Definition undec_N (t : list N) : option N :=
  match t with [] => None | _ => undec_go t 0 end.
Definition undec_Z (t : list N) : option Z :=
  match t with
  | 45 :: r => match undec_N r with Some n => Some (- Z.of_N n)%Z | None => None end
  | _ => match undec_N t with Some n => Some (Z.of_N n) | None => None end
  end.

Lemma undec_go_app a b acc : undec_go (a ++ b) acc =
  match undec_go a acc with Some x => undec_go b x | None => None end.
Proof.
  revert acc. induction a as [|c a IH]; intros acc; [reflexivity|].
  cbn [app undec_go]. destruct (is_digit c); [apply IH|reflexivity].
Qed.

(* the value of acc-digits prepended: dec_go produces digits of n followed by acc *)
Lemma dec_go_len : forall fu m a, length (dec_go fu m a) = (length (dec_go fu m []) + length a)%nat.
Proof.
  induction fu as [|fu IHf]; intros m a; [cbn; lia|].
  cbn [dec_go]. destruct (m <? 10); [cbn; lia|].
  rewrite (IHf (m / 10) (_ :: a)), (IHf (m / 10) [_]). cbn [length]. lia.
Qed.

Lemma digit_ok m : is_digit (48 + m mod 10) = true.
Proof.
  unfold is_digit. pose proof (N.mod_lt m 10 ltac:(lia)) as H. set (x := m mod 10) in *.
  apply andb_true_intro; split; apply N.leb_le; lia.
Qed.

Lemma dec_go_spec : forall fuel n acc, n < 2 ^ N.of_nat fuel -> (0 < fuel)%nat ->
  forall v, undec_go (dec_go fuel n acc) v =
            undec_go acc (v * 10 ^ N.of_nat (length (dec_go fuel n [])) + n).
Proof.
  induction fuel as [|f IH]; intros n acc Hn Hf v; [lia|].
  cbn [dec_go]. destruct (N.ltb_spec n 10) as [L|L].
  - cbn [undec_go length]. rewrite digit_ok. rewrite N.mod_small by lia. f_equal.
    change (N.of_nat 1) with 1. rewrite N.pow_1_r. lia.
  - assert (Hq : n / 10 < 2 ^ N.of_nat f).
    { apply N.div_lt_upper_bound; [lia|]. rewrite Nat2N.inj_succ, N.pow_succ_r' in Hn. lia. }
    assert (Hf' : (0 < f)%nat).
    { destruct f; [|lia]. cbn in Hn. lia. }
    rewrite (IH (n / 10) ((48 + n mod 10) :: acc) Hq Hf').
    cbn [undec_go]. rewrite digit_ok.
    rewrite (dec_go_len f (n / 10) [48 + n mod 10]). cbn [length].
    replace (N.of_nat (length (dec_go f (n / 10) []) + 1)) with (N.succ (N.of_nat (length (dec_go f (n / 10) [])))) by lia.
    rewrite N.pow_succ_r'. f_equal.
    pose proof (N.div_mod n 10 ltac:(lia)) as DM.
    set (q := n / 10) in *. set (r := n mod 10) in *. set (P := 10 ^ _). nia.
Qed.

Lemma size_nat_bound n : n < 2 ^ N.of_nat (S (N.size_nat n)).
Proof.
  destruct n as [|p]; [cbn; lia|].
  pose proof (N.size_gt (N.pos p)) as H. rewrite N.size_log2 in H by discriminate.
  cbn [N.size_nat]. rewrite Nat2N.inj_succ.
  replace (N.of_nat (Pos.size_nat p)) with (N.size (N.pos p)).
  - rewrite N.size_log2 by discriminate. rewrite N.pow_succ_r'. lia.
  - cbn [N.size]. clear H. induction p as [p IH|p IH|]; cbn [Pos.size Pos.size_nat]; try lia.
Qed.

Lemma dec_N_nonempty n : dec_N n <> [].
Proof.
  unfold dec_N. cbn [dec_go]. destruct (n <? 10); [discriminate|].
  assert (forall fu m a, a <> [] -> dec_go fu m a <> []).
  { induction fu as [|fu IHf]; intros m a Ha; [assumption|]. cbn [dec_go].
    destruct (m <? 10); [discriminate|]. apply IHf. discriminate. }
  apply H. discriminate.
Qed.

Theorem undec_dec_N n : undec_N (dec_N n) = Some n.
Proof.
  pose proof (dec_N_nonempty n) as NE. unfold undec_N. destruct (dec_N n) eqn:E; [contradiction|].
  rewrite <- E. unfold dec_N. rewrite dec_go_spec; [|apply size_nat_bound|lia].
  cbn [undec_go]. f_equal; lia.
Qed.

Lemma dec_N_head_not_minus n : forall c r, dec_N n = c :: r -> c <> 45.
Proof.
  intros c r E.
  assert (A : forall fu m a, Forall (fun x => is_digit x = true) a -> Forall (fun x => is_digit x = true) (dec_go fu m a)).
  { induction fu as [|fu IHf]; intros m a Ha; [assumption|]. cbn [dec_go].
    pose proof (digit_ok m) as D.
    destruct (m <? 10); [constructor; assumption|]. apply IHf. constructor; assumption. }
  specialize (A (S (N.size_nat n)) n [] (Forall_nil _)). fold (dec_N n) in A. rewrite E in A.
  inversion A as [|? ? Hc _]; subst. intros ->. discriminate Hc.
Qed.

Theorem undec_dec_Z z : undec_Z (dec_Z z) = Some z.
Proof.
  unfold dec_Z. destruct (Z.ltb_spec z 0) as [L|L].
  - cbn [undec_Z]. rewrite undec_dec_N. f_equal. lia.
  - unfold undec_Z. destruct (dec_N (Z.to_N z)) as [|c r] eqn:E.
    + exfalso. eapply dec_N_nonempty. eassumption.
    + pose proof (dec_N_head_not_minus _ _ _ E) as Hc.
      rewrite <- E.
      assert (M : match c :: r with 45 :: r0 => match undec_N r0 with Some n => Some (- Z.of_N n)%Z | None => None end
                  | _ => match undec_N (c :: r) with Some n => Some (Z.of_N n) | None => None end end
                  = match undec_N (c :: r) with Some n => Some (Z.of_N n) | None => None end).
      { destruct c as [|p]; [reflexivity|].
        do 6 (destruct p as [p|p|]; try reflexivity). exfalso. apply Hc. reflexivity. }
      rewrite E. rewrite M. rewrite <- E, undec_dec_N. f_equal. lia.
Qed.
