(* Lib/Bytes.v - bytes as N, N-indexed list slicing, little-endian integers.
   Bytes are [N] values; encoders always produce values below 256 (x mod 256), decoders accept any list.
   Lengths that can be large (payload sizes) are [N]; [take]/[drop] recurse on the list, never on a
   unary number, so the definitions run under vm_compute with M = 16777215. *)
From Coq Require Import List NArith ZArith Lia Bool.
Import ListNotations.
Open Scope N_scope.

Definition byte := N.
Definition bytes := list N.

Definition len {A} (l : list A) : N := N.of_nat (length l).

Fixpoint take {A} (n : N) (l : list A) : list A :=
  match l with
  | [] => []
  | x :: r => if n =? 0 then [] else x :: take (N.pred n) r
  end.

Fixpoint drop {A} (n : N) (l : list A) : list A :=
  match l with
  | [] => []
  | x :: r => if n =? 0 then l else drop (N.pred n) r
  end.

Lemma take_firstn {A} (l : list A) : forall n, take n l = firstn (N.to_nat n) l.
Proof.
  induction l as [|x r IH]; intros n; cbn [take].
  - now rewrite firstn_nil.
  - destruct (N.eqb_spec n 0) as [->|Hn]; [reflexivity|].
    replace (N.to_nat n) with (S (N.to_nat (N.pred n))) by lia.
    cbn [firstn]. now rewrite IH.
Qed.

Lemma drop_skipn {A} (l : list A) : forall n, drop n l = skipn (N.to_nat n) l.
Proof.
  induction l as [|x r IH]; intros n; cbn [drop].
  - now rewrite skipn_nil.
  - destruct (N.eqb_spec n 0) as [->|Hn]; [reflexivity|].
    replace (N.to_nat n) with (S (N.to_nat (N.pred n))) by lia.
    cbn [skipn]. now rewrite IH.
Qed.

Lemma len_app {A} (a b : list A) : len (a ++ b) = len a + len b.
Proof. unfold len. rewrite app_length. lia. Qed.

Lemma len_nil {A} : len (@nil A) = 0.
Proof. reflexivity. Qed.

Lemma len_cons {A} (x : A) l : len (x :: l) = 1 + len l.
Proof. unfold len. cbn [length]. lia. Qed.

Lemma len_zero_nil {A} (l : list A) : len l = 0 -> l = [].
Proof. destruct l; [reflexivity|]. rewrite len_cons. lia. Qed.

Lemma take_drop {A} n (l : list A) : take n l ++ drop n l = l.
Proof. rewrite take_firstn, drop_skipn. apply firstn_skipn. Qed.

Lemma len_take {A} n (l : list A) : len (take n l) = N.min n (len l).
Proof. unfold len. rewrite take_firstn, firstn_length. lia. Qed.

Lemma len_drop {A} n (l : list A) : len (drop n l) = len l - n.
Proof. unfold len. rewrite drop_skipn, skipn_length. lia. Qed.

Lemma take_all {A} n (l : list A) : len l <= n -> take n l = l.
Proof. unfold len. intros H. rewrite take_firstn. apply firstn_all2. lia. Qed.

Lemma drop_all {A} n (l : list A) : len l <= n -> drop n l = [].
Proof. unfold len. intros H. rewrite drop_skipn. apply skipn_all2. lia. Qed.

Lemma take_app_le {A} n (a b : list A) : n <= len a -> take n (a ++ b) = take n a.
Proof.
  unfold len. intros H. rewrite !take_firstn, firstn_app.
  replace (N.to_nat n - length a)%nat with 0%nat by lia. cbn. apply app_nil_r.
Qed.

Lemma drop_app_le {A} n (a b : list A) : n <= len a -> drop n (a ++ b) = drop n a ++ b.
Proof.
  unfold len. intros H. rewrite !drop_skipn, skipn_app.
  replace (N.to_nat n - length a)%nat with 0%nat by lia. reflexivity.
Qed.

Lemma take_app_exact {A} (a b : list A) : take (len a) (a ++ b) = a.
Proof. rewrite take_app_le by lia. apply take_all. lia. Qed.

Lemma drop_app_exact {A} (a b : list A) : drop (len a) (a ++ b) = b.
Proof. rewrite drop_app_le by lia. rewrite drop_all by lia. reflexivity. Qed.

Lemma take_0 {A} (l : list A) : take 0 l = [].
Proof. destruct l; reflexivity. Qed.

Lemma drop_0 {A} (l : list A) : drop 0 l = l.
Proof. destruct l; reflexivity. Qed.

(* ---- little-endian integers -------------------------------------------------------------- *)

Fixpoint le_bytes (k : nat) (n : N) : bytes :=
  match k with O => [] | S k' => (n mod 256) :: le_bytes k' (n / 256) end.

Fixpoint le_val (bs : bytes) : N :=
  match bs with [] => 0 | b :: r => b + 256 * le_val r end.

Lemma le_bytes_length k : forall n, length (le_bytes k n) = k.
Proof. induction k as [|k IH]; intros n; cbn; [reflexivity|]. now rewrite IH. Qed.

Lemma len_le_bytes k n : len (le_bytes k n) = N.of_nat k.
Proof. unfold len. now rewrite le_bytes_length. Qed.

Lemma le_roundtrip k : forall n, n < 256 ^ N.of_nat k -> le_val (le_bytes k n) = n.
Proof.
  induction k as [|k IH]; intros n Hn.
  - cbn in *. lia.
  - cbn [le_bytes le_val]. rewrite IH.
    + pose proof (N.div_mod n 256). lia.
    + rewrite Nat2N.inj_succ, N.pow_succ_r' in Hn. apply N.div_lt_upper_bound; lia.
Qed.

Definition is_byte (b : N) : Prop := b < 256.
Definition all_bytes (l : bytes) : Prop := Forall is_byte l.

Lemma le_bytes_are_bytes k : forall n, all_bytes (le_bytes k n).
Proof.
  induction k as [|k IH]; intros n; cbn; constructor; [|apply IH].
  unfold is_byte. apply N.mod_lt. lia.
Qed.

Lemma le_val_bound bs : all_bytes bs -> le_val bs < 256 ^ len bs.
Proof.
  induction 1 as [|b r Hb Hr IH]; cbn [le_val].
  - cbn. lia.
  - rewrite len_cons. replace (1 + len r) with (N.succ (len r)) by lia.
    rewrite N.pow_succ_r'. unfold is_byte in Hb. lia.
Qed.

Lemma le_bytes_val bs : all_bytes bs -> le_bytes (length bs) (le_val bs) = bs.
Proof.
  induction 1 as [|b r Hb Hr IH]; [reflexivity|].
  cbn [length le_bytes le_val]. unfold is_byte in Hb.
  replace ((b + 256 * le_val r) mod 256) with b.
  - f_equal. replace ((b + 256 * le_val r) / 256) with (le_val r); [exact IH|].
    symmetry. rewrite N.mul_comm, N.div_add by lia. rewrite N.div_small by lia. lia.
  - symmetry. rewrite N.mul_comm, N.mod_add by lia. apply N.mod_small. lia.
Qed.

(* two's complement over k bytes *)
Definition to_signed (k : nat) (u : N) : Z :=
  let m := (256 ^ Z.of_nat k)%Z in
  if (Z.of_N u <? m / 2)%Z then Z.of_N u else (Z.of_N u - m)%Z.

Definition of_signed (k : nat) (z : Z) : N :=
  Z.to_N (z mod 256 ^ Z.of_nat k)%Z.

Lemma signed_roundtrip k z : (0 < k)%nat ->
  (- (256 ^ Z.of_nat k) / 2 <= z < 256 ^ Z.of_nat k / 2)%Z ->
  to_signed k (of_signed k z) = z.
Proof.
  intros Hk Hz. unfold to_signed, of_signed.
  set (m := (256 ^ Z.of_nat k)%Z) in *.
  assert (Hm : (0 < m)%Z) by (apply Z.pow_pos_nonneg; lia).
  assert (Heven : (m = 2 * (m / 2))%Z).
  { unfold m. replace (Z.of_nat k) with (Z.succ (Z.of_nat (k - 1))) by lia.
    rewrite Z.pow_succ_r by lia. replace (256 * 256 ^ Z.of_nat (k - 1))%Z with
      ((128 * 256 ^ Z.of_nat (k - 1)) * 2)%Z by lia.
    rewrite Z.div_mul by lia. lia. }
  assert (Hneg : (- m / 2 = - (m / 2))%Z).
  { rewrite Heven at 1. replace (- (2 * (m / 2)))%Z with ((- (m / 2)) * 2)%Z by lia.
    now rewrite Z.div_mul by lia. }
  rewrite Z2N.id by (apply Z.mod_pos_bound; lia).
  destruct (Z.ltb_spec (z mod m) (m / 2)) as [Hlt|Hge].
  - destruct (Z.neg_nonneg_cases z) as [Hn|Hp].
    + exfalso. assert (z mod m = z + m)%Z.
      { symmetry. apply Z.mod_unique with (q := (-1)%Z); lia. } lia.
    + apply Z.mod_small. lia.
  - destruct (Z.neg_nonneg_cases z) as [Hn|Hp].
    + assert (z mod m = z + m)%Z.
      { symmetry. apply Z.mod_unique with (q := (-1)%Z); lia. } lia.
    + exfalso. rewrite Z.mod_small in Hge by lia. lia.
Qed.

(* ---- length-encoded integers and strings (types.py: uint_len, str_len, read_uint_len, ...) ---- *)

Definition uint_len (i : N) : bytes :=
  if i <? 251 then [i]
  else if i <? 65536 then 252 :: le_bytes 2 i
  else if i <? 16777216 then 253 :: le_bytes 3 i
  else 254 :: le_bytes 8 i.

(* A reader result: value and the remaining input; None = struct.error (short read). *)
Definition read_fixed (k : N) (d : bytes) : option (bytes * bytes) :=
  if len d <? k then None else Some (take k d, drop k d).

Definition read_uint (k : nat) (d : bytes) : option (N * bytes) :=
  match read_fixed (N.of_nat k) d with
  | None => None
  | Some (h, r) => Some (le_val h, r)
  end.

Definition read_uint_len (d : bytes) : option (N * bytes) :=
  match d with
  | [] => None
  | b :: r =>
      if b =? 254 then read_uint 8 r
      else if b =? 253 then read_uint 3 r
      else if b =? 252 then read_uint 2 r
      else Some (b, r)
  end.

Definition str_len (s : bytes) : bytes := uint_len (len s) ++ s.

(* read_str_len: reader.read(l) returns what is there (BytesIO.read never fails) *)
Definition read_str_len (d : bytes) : option (bytes * bytes) :=
  match read_uint_len d with
  | None => None
  | Some (l, r) => Some (take l r, drop l r)
  end.

Lemma read_fixed_app h r : read_fixed (len h) (h ++ r) = Some (h, r).
Proof.
  unfold read_fixed. rewrite len_app.
  destruct (N.ltb_spec (len h + len r) (len h)); [lia|].
  now rewrite take_app_exact, drop_app_exact.
Qed.

Lemma read_uint_le k n r : n < 256 ^ N.of_nat k -> read_uint k (le_bytes k n ++ r) = Some (n, r).
Proof.
  intros H. unfold read_uint. rewrite <- (len_le_bytes k n), read_fixed_app.
  now rewrite le_roundtrip.
Qed.

Lemma uint_len_roundtrip i r : i < 2 ^ 64 -> read_uint_len (uint_len i ++ r) = Some (i, r).
Proof.
  intros Hi. unfold uint_len.
  destruct (N.ltb_spec i 251) as [H1|H1].
  { cbn [app read_uint_len].
    destruct (N.eqb_spec i 254); [lia|]. destruct (N.eqb_spec i 253); [lia|].
    destruct (N.eqb_spec i 252); [lia|]. reflexivity. }
  destruct (N.ltb_spec i 65536) as [H2|H2].
  { cbn [app read_uint_len N.eqb Pos.eqb]. apply read_uint_le. cbn; lia. }
  destruct (N.ltb_spec i 16777216) as [H3|H3].
  { cbn [app read_uint_len N.eqb Pos.eqb]. apply read_uint_le. cbn; lia. }
  cbn [app read_uint_len N.eqb Pos.eqb]. apply read_uint_le.
  change (256 ^ N.of_nat 8) with (2 ^ 64). exact Hi.
Qed.

Lemma str_len_roundtrip s r : len s < 2 ^ 64 -> read_str_len (str_len s ++ r) = Some (s, r).
Proof.
  intros H. unfold read_str_len, str_len. rewrite <- app_assoc, uint_len_roundtrip by exact H.
  now rewrite take_app_exact, drop_app_exact.
Qed.

Lemma uint_len_bytes i : all_bytes (uint_len i) \/ 251 <= i.
Proof. destruct (N.ltb_spec i 251); [left|right; assumption]. unfold uint_len.
  destruct (N.ltb_spec i 251); [|lia]. constructor; [unfold is_byte; lia|constructor]. Qed.

(* NUL-terminated strings *)
Definition str_null (s : bytes) : bytes := s ++ [0].

Fixpoint split_nul (d : bytes) : option (bytes * bytes) :=
  match d with
  | [] => None
  | b :: r => if b =? 0 then Some ([], r)
              else match split_nul r with Some (s, t) => Some (b :: s, t) | None => None end
  end.

Definition no_nul (s : bytes) : Prop := Forall (fun b => b <> 0) s.

Lemma split_nul_roundtrip s r : no_nul s -> split_nul (str_null s ++ r) = Some (s, r).
Proof.
  unfold str_null. induction 1 as [|b s Hb Hs IH]; [reflexivity|].
  cbn [app split_nul]. destruct (N.eqb_spec b 0); [contradiction|].
  cbn [app] in IH. now rewrite IH.
Qed.
