(* Lib/Sha1.v - SHA-1 over byte lists (FIPS 180-4), executable; used only to RUN the authentication model
   against hashlib.  The theorems of C02 treat the hash as an arbitrary function of output length 20. *)
From Coq Require Import List NArith Lia Bool.
From MM Require Import Lib.Bytes.
Import ListNotations.
Open Scope N_scope.

Definition W32 : N := 4294967296.
Definition add32 (a b : N) : N := (a + b) mod W32.
Definition rotl (n : N) (x : N) : N := (N.shiftl x n mod W32) + N.shiftr x (32 - n).
Definition not32 (x : N) : N := W32 - 1 - x.

Fixpoint be_val (bs : bytes) : N := match bs with [] => 0 | b :: r => b * 256 ^ len r + be_val r end.
Fixpoint be_bytes (k : nat) (n : N) : bytes :=
  match k with O => [] | S k' => (n / 256 ^ N.of_nat k') mod 256 :: be_bytes k' n end.

Definition pad (m : bytes) : bytes :=
  let l := len m in
  let z := (55 + 64 - l mod 64) mod 64 in
  m ++ [128] ++ repeat 0 (N.to_nat z) ++ be_bytes 8 (8 * l).

Fixpoint words (fuel : nat) (b : bytes) : list N :=
  match fuel with
  | O => []
  | S f => match b with [] => [] | _ => be_val (take 4 b) :: words f (drop 4 b) end
  end.

(* message schedule: ws holds w[t-1], w[t-2], ... (most recent first) *)
Fixpoint expand (n : nat) (ws : list N) : list N :=
  match n with
  | O => ws
  | S n' => let w := rotl 1 (N.lxor (N.lxor (nth 2 ws 0) (nth 7 ws 0)) (N.lxor (nth 13 ws 0) (nth 15 ws 0))) in
            expand n' (w :: ws)
  end.

Definition round (t : nat) (st : N * N * N * N * N) (w : N) : N * N * N * N * N :=
  let '(a, b, c, d, e) := st in
  let '(f, k) :=
    if Nat.ltb t 20 then (N.lor (N.land b c) (N.land (not32 b) d), 1518500249)
    else if Nat.ltb t 40 then (N.lxor (N.lxor b c) d, 1859775393)
    else if Nat.ltb t 60 then (N.lor (N.lor (N.land b c) (N.land b d)) (N.land c d), 2400959708)
    else (N.lxor (N.lxor b c) d, 3395469782) in
  let tmp := add32 (add32 (add32 (add32 (rotl 5 a) f) e) k) w in
  (tmp, a, rotl 30 b, c, d).

Fixpoint rounds (t : nat) (ws : list N) (st : N * N * N * N * N) : N * N * N * N * N :=
  match ws with [] => st | w :: r => rounds (S t) r (round t st w) end.

Definition block (h : N * N * N * N * N) (blk : bytes) : N * N * N * N * N :=
  let w16 := words 16 blk in
  let w80 := rev (expand 64 (rev w16)) in
  let '(a, b, c, d, e) := rounds 0 w80 h in
  let '(h0, h1, h2, h3, h4) := h in
  (add32 h0 a, add32 h1 b, add32 h2 c, add32 h3 d, add32 h4 e).

Fixpoint blocks (fuel : nat) (h : N * N * N * N * N) (m : bytes) : N * N * N * N * N :=
  match fuel with
  | O => h
  | S f => match m with [] => h | _ => blocks f (block h (take 64 m)) (drop 64 m) end
  end.

Definition sha1 (m : bytes) : bytes :=
  let p := pad m in
  let '(h0, h1, h2, h3, h4) := blocks (S (length p)) (1732584193, 4023233417, 2562383102, 271733878, 3285377520) p in
  be_bytes 4 h0 ++ be_bytes 4 h1 ++ be_bytes 4 h2 ++ be_bytes 4 h3 ++ be_bytes 4 h4.

Lemma be_bytes_length k n : length (be_bytes k n) = k.
Proof. induction k; cbn; auto. Qed.

Lemma sha1_length m : length (sha1 m) = 20%nat.
Proof.
  unfold sha1. destruct (blocks _ _ _) as [[[[h0 h1] h2] h3] h4].
  rewrite !app_length, !be_bytes_length. reflexivity.
Qed.

Example sha1_abc : sha1 [97; 98; 99] =
  [169; 153; 62; 54; 71; 6; 129; 106; 186; 62; 37; 113; 120; 80; 194; 108; 156; 208; 216; 157].
Proof. vm_compute. reflexivity. Qed.
Example sha1_empty : sha1 [] =
  [218; 57; 163; 238; 94; 107; 75; 13; 50; 85; 191; 239; 149; 96; 24; 144; 175; 216; 7; 9].
Proof. vm_compute. reflexivity. Qed.
