(* Lib/Bitmap.v - NULL bitmaps (results.py: NullBitmap): bit lists packed into bytes at a bit offset. *)
From Coq Require Import List Arith NArith Lia Bool.
From MM Require Import Lib.Bytes.
Import ListNotations.
Open Scope N_scope.

Fixpoint bits_to_byte (bs : list bool) : N :=
  match bs with [] => 0 | b :: r => (if b then 1 else 0) + 2 * bits_to_byte r end.
Definition byte_to_bits (b : N) : list bool := map (N.testbit b) [0;1;2;3;4;5;6;7].

Fixpoint pack (k : nat) (bs : list bool) : list N :=
  match k with O => [] | S k' => bits_to_byte (firstn 8 bs) :: pack k' (skipn 8 bs) end.
Definition unpack (bm : list N) : list bool := flat_map byte_to_bits bm.

Definition nbytes (n off : nat) : nat := ((n + 7 + off) / 8)%nat.
Definition bitmap (off : nat) (nulls : list bool) : list N :=
  pack (nbytes (length nulls) off) (repeat false off ++ nulls).
Definition read_bitmap (off n : nat) (bm : list N) : list bool := firstn n (skipn off (unpack bm)).

Lemma byte_roundtrip bs : (length bs <= 8)%nat -> byte_to_bits (bits_to_byte bs) = bs ++ repeat false (8 - length bs).
Proof.
  intros H.
  do 9 (destruct bs as [|? bs]; [repeat match goal with b : bool |- _ => destruct b end; vm_compute; reflexivity|]).
  cbn in H; lia.
Qed.

Lemma pack_length k : forall bs, length (pack k bs) = k.
Proof. induction k as [|k IH]; intros bs; cbn; [reflexivity|now rewrite IH]. Qed.

Lemma unpack_pack : forall k bs, (length bs <= 8 * k)%nat -> unpack (pack k bs) = bs ++ repeat false (8 * k - length bs).
Proof.
  induction k as [|k IH]; intros bs H.
  - destruct bs; cbn in *; [reflexivity|lia].
  - cbn [pack unpack flat_map]. fold (unpack (pack k (skipn 8 bs))).
    rewrite byte_roundtrip by (rewrite firstn_length; lia).
    rewrite IH by (rewrite skipn_length; lia).
    rewrite firstn_length, skipn_length.
    destruct (Nat.le_gt_cases 8 (length bs)) as [L|L].
    + rewrite Nat.min_l by lia. replace (8 - 8)%nat with 0%nat by lia. cbn [repeat]. rewrite app_nil_r.
      rewrite app_assoc, firstn_skipn. f_equal. f_equal. lia.
    + rewrite Nat.min_r by lia. rewrite (skipn_all2 bs) by lia. rewrite (firstn_all2 bs) by lia. cbn [app length].
      rewrite <- app_assoc. f_equal. rewrite <- repeat_app. f_equal. lia.
Qed.

Lemma nbytes_enough n off : (off + n <= 8 * nbytes n off)%nat.
Proof.
  unfold nbytes. pose proof (Nat.div_mod (n + 7 + off) 8 ltac:(lia)).
  pose proof (Nat.mod_upper_bound (n + 7 + off) 8 ltac:(lia)). lia.
Qed.

Theorem bitmap_roundtrip off nulls : read_bitmap off (length nulls) (bitmap off nulls) = nulls.
Proof.
  unfold read_bitmap, bitmap. rewrite unpack_pack.
  - rewrite <- app_assoc, skipn_app, repeat_length, skipn_all2 by (rewrite repeat_length; lia).
    replace (off - off)%nat with 0%nat by lia. cbn [skipn app].
    rewrite firstn_app, Nat.sub_diag, firstn_all. cbn. apply app_nil_r.
  - rewrite app_length, repeat_length. pose proof (nbytes_enough (length nulls) off). lia.
Qed.

Lemma bitmap_length off nulls : length (bitmap off nulls) = nbytes (length nulls) off.
Proof. apply pack_length. Qed.

(* bit p of the packed bytes, read the way NullBitmap.is_flipped does: byte p/8, bit p mod 8 *)
Lemma byte_to_bits_nth b j : (j < 8)%nat -> nth j (byte_to_bits b) false = N.testbit b (N.of_nat j).
Proof. intros H. do 8 (destruct j as [|j]; [reflexivity|]). lia. Qed.

Lemma byte_to_bits_length b : length (byte_to_bits b) = 8%nat.
Proof. reflexivity. Qed.

Lemma unpack_nth : forall bm p b, nth_error bm (p / 8) = Some b ->
  nth p (unpack bm) false = N.testbit b (N.of_nat (p mod 8)).
Proof.
  induction bm as [|x bm IH]; intros p b H.
  - destruct (p / 8)%nat; discriminate.
  - cbn [unpack flat_map]. fold (unpack bm).
    destruct (Nat.lt_ge_cases p 8) as [L|L].
    + rewrite Nat.div_small in H by lia. cbn in H. inversion H; subst.
      rewrite app_nth1 by (rewrite byte_to_bits_length; lia).
      rewrite Nat.mod_small by lia. now apply byte_to_bits_nth.
    + rewrite app_nth2 by (rewrite byte_to_bits_length; lia). rewrite byte_to_bits_length.
      assert (D : (p / 8 = S ((p - 8) / 8))%nat).
      { replace p with ((p - 8) + 1 * 8)%nat at 1 by lia. rewrite Nat.div_add by lia. lia. }
      assert (Mo : (p mod 8 = (p - 8) mod 8)%nat).
      { replace p with ((p - 8) + 1 * 8)%nat at 1 by lia. now rewrite Nat.mod_add by lia. }
      rewrite D in H. cbn [nth_error] in H. rewrite Mo. now apply IH.
Qed.

Theorem bitmap_bit off nulls i : (i < length nulls)%nat ->
  exists b, nth_error (bitmap off nulls) ((i + off) / 8) = Some b /\
            N.testbit b (N.of_nat ((i + off) mod 8)) = nth i nulls false.
Proof.
  intros Hi.
  assert (L : ((i + off) / 8 < length (bitmap off nulls))%nat).
  { rewrite bitmap_length. pose proof (nbytes_enough (length nulls) off).
    apply Nat.div_lt_upper_bound; lia. }
  destruct (nth_error (bitmap off nulls) ((i + off) / 8)) as [b|] eqn:E.
  2:{ apply nth_error_None in E. lia. }
  exists b. split; [reflexivity|].
  rewrite <- (unpack_nth _ _ _ E). unfold bitmap. rewrite unpack_pack.
  2:{ rewrite app_length, repeat_length. pose proof (nbytes_enough (length nulls) off). lia. }
  rewrite <- app_assoc, app_nth2; rewrite repeat_length; [|lia].
  replace (i + off - off)%nat with i by lia. now rewrite app_nth1 by lia.
Qed.
