"""C17 - Query attributes reach the application exactly as sent."""
from __future__ import annotations

import struct

import core
import client as cl
import impl
import pk


def gen_sql(rng):
    first = rng.choice([b"", b"\x00", b"\x01", b"\x02", b"\x00\x01", b"\x01\x01", b"\xfc", b"\xfb", b"S"])
    return first + rng.choice([b"SELECT 1", b"", b"select a from t where b = 'x'", bytes(rng.randrange(256) for _ in range(rng.randint(0, 12)))])


def wire_session(env, caps, log):
    class S(impl.ScriptSession):
        async def handle_query(self, sql, attrs):
            log.append((sql, dict(attrs)))
            # an application may use the mapping it is handed as its own (tag the statement, pop what it consumed): it belongs
            # to this statement only
            attrs["request_id"] = str(len(log))
            return None
    srv = impl.make_server(env, lambda: S(env, 0))
    c = impl.Conn(env, srv)
    env.settle()
    c.take()
    c.feed(cl.frame(cl.handshake_response(user=b"u", caps=caps, charset=8), 1))  # 8 = latin1_swedish_ci
    c.take()
    return c


def mutating_application_probe():
    """each statement of a multi-statement text receives the attributes the CLIENT attached - also when the application's
    handler of an earlier statement of the same text changed the mapping it was given (popped an entry, added one)"""
    env = impl.Env(own_sleep=False)
    try:
        log = []

        class MS(impl.Session):
            async def query(self, expression, sql, attrs):
                log.append(dict(attrs))
                attrs.pop("trace", None)
                attrs["seen_by_first"] = "yes"
                return [(1,)], ["a"]

        srv = impl.make_server(env, MS)
        c = impl.Conn(env, srv, cid=0)
        env.settle(); c.take()
        c.feed(cl.frame(cl.handshake_response(user=b"u", caps=cl.BASE_CAPS | cl.CLIENT_QUERY_ATTRIBUTES, charset=45), 1)); c.take()
        sent = [pk.P(b"trace", pk.T_VAR_STRING, False, b"1"), pk.P(b"n", pk.T_VAR_STRING, False, b"x")]
        c.feed(cl.frame(bytes([cl.COM_QUERY]) + pk.encode_com_query(sent, b"SELECT a FROM t; SELECT b FROM u; INSERT INTO t VALUES (1)"), 0)); c.take()
        c.eof()
        want = {"trace": "1", "n": "x"}
        if log != [want, want, want]:
            return dict(problem="the statements of one text do not all receive the attributes the client attached (the application changed the mapping it was "
                                "handed for the first one)", sent=repr(want), received=repr(log))
        return None
    finally:
        env.close()


def run(ctx: core.Ctx):
    rng = ctx.rng
    pr = core.check_proofs(ctx, "Props/C17", headers=[pk.HEADER])
    disagreements, samples = [], []
    distinct = set()
    witness = None
    N1 = 400 if ctx.quick else 6000

    # ---- COM_QUERY with the capability: encoder spec -> parser --------------------------------------
    cases = []
    for _ in range(N1):
        k = rng.choice([0, 0, 1, 1, 2, 3, 5, 8, 9, 17])
        attrs = [pk.gen_param(rng, named=True) for _ in range(k)]
        sql = gen_sql(rng)
        cases.append((attrs, sql))
    terms = [f"parse_com_query true {core.coq_N_list(pk.encode_com_query(a, s))}" for a, s in cases]
    model = core.run_coq_terms(ctx, "c17q", pk.HEADER, terms)
    kinds = {}
    for (attrs, sql), m in zip(cases, model):
        data = pk.encode_com_query(attrs, sql)
        got = pk.impl_parse_com_query(data, True)
        mm = pk.canon_model_result(m, pk.model_com_query_conv)
        distinct.add(data)
        for a in attrs:
            kinds[type(a.value).__name__] = kinds.get(type(a.value).__name__, 0) + 1
        if not pk.same_result(got, mm):
            disagreements.append(dict(kind="com_query", data=list(data), impl=repr(got), model=repr(mm)))
        # the property itself: names/values as sent (later duplicate wins), SQL untouched
        exp = {}
        for a in attrs:
            exp[bytes(a.name)] = a.canon(True)[1]
        expv = [(k, (("float", struct.unpack("<f" if v[0] == "f32" else "<d", v[1])[0]) if isinstance(v, tuple) else v)) for k, v in exp.items()]
        if not (got[0] == "Ok" and got[1][0] == sql and pk.same_pairs(sorted(got[1][1], key=lambda x: x[0]), sorted(expv, key=lambda x: x[0]))):
            witness = witness or dict(kind="com_query", attrs=repr(attrs), sql=list(sql), got=repr(got))
    samples.append(dict(kind="com_query", attrs=repr(cases[3][0]), sql=list(cases[3][1]), model=repr(model[3])[:300]))

    # ---- long attribute values / names: lengths on both sides of every length-prefix boundary (1, 3 and 9 byte prefixes).
    # Too long for literals inside Coq; the oracle is the property itself (what was sent is what the parser returns), the
    # prefix readers themselves are compared with Lib/Bytes.v below.
    nbig = 0
    for size in (251, 65535, 65536, 65537, 70000, 131071, 131072, 131073, 200001):
        for where in ("value-last", "value-first", "name"):
            big = bytes(97 + (i * 7 + size) % 23 for i in range(size))
            small = pk.P(b"k", pk.T_VAR_STRING, False, b"v")
            if where == "name":
                attrs = [pk.P(big, pk.T_LONG, False, 5), small]
            elif where == "value-last":
                attrs = [small, pk.P(b"big", pk.T_VAR_STRING, False, big)]
            else:
                attrs = [pk.P(b"big", pk.T_VAR_STRING, False, big), small]
            sql = b"SELECT 'tail'"
            got = pk.impl_parse_com_query(pk.encode_com_query(attrs, sql), True)
            nbig += 1
            exp = sorted((bytes(a.name), a.canon(True)[1]) for a in attrs)
            if not (got[0] == "Ok" and got[1][0] == sql and pk.same_pairs(sorted(got[1][1], key=lambda x: x[0]), exp)):
                witness = witness or dict(kind="com_query-long", size=size, where=where, got=repr(got)[:300])
            data = pk.encode_execute(True, 7, 8, [], attrs)
            gote = pk.impl_execute(data, True, {7: ("SELECT 1", 0, None)})
            if not (gote[0] == "Ok" and gote[1][0] == b"SELECT 1" and len(gote[1][1]) == 2):
                witness = witness or dict(kind="execute-long", size=size, where=where, got=repr(gote)[:300])
    ctx.evals += 2 * nbig
    import types_corr
    ntc, tbad, tkinds = types_corr.run(ctx, "c17t", 20 if ctx.quick else 400)
    disagreements += tbad

    # ---- without the capability: every payload is SQL ----------------------------------------------------
    offs = [gen_sql(rng) for _ in range(N1 // 2)] + [bytes([b]) + b"rest" for b in range(0, 8)] + [b""]
    for d in offs:
        got = pk.impl_parse_com_query(d, False)
        distinct.add((b"off", d))
        if got != ("Ok", (d, [])):
            witness = witness or dict(kind="capability-off", data=list(d), got=repr(got))
    ctx.evals += len(offs)

    # ---- COM_STMT_EXECUTE: positional parameters + attributes ----------------------------------------------
    ecases = []
    for _ in range(N1):
        qa = rng.random() < 0.7
        m = rng.choice([0, 1, 2, 3])
        tpl = b"SELECT " + b", ".join([b"?"] * m) + (b" FROM t WHERE c = '?'" if rng.random() < 0.3 else b"")
        positional = [pk.gen_param(rng, named=False, hostile=False) for _ in range(m)]
        attrs = [pk.gen_param(rng, named=True) for _ in range(rng.choice([0, 0, 1, 2, 4]))] if qa else []
        flags = rng.choice([0, 1]) | (8 if (qa and (attrs or m == 0 or rng.random() < 0.5)) else 0)
        if qa and not (flags & 8) and attrs:
            flags |= 8
        if m == 0 and not (flags & 8):
            attrs = []
        ecases.append((qa, tpl, m, positional, attrs, flags))
    terms = []
    for qa, tpl, m, pos, attrs, flags in ecases:
        data = pk.encode_execute(qa, 7, flags, pos, attrs)
        lookup = pk.coq_stmt_lookup({7: (tpl, m, None)})
        terms.append(f"execute_sql {core.coq_bool(qa)} {lookup} {pk.float_tokens(pos)} {core.coq_N_list(data)}")
    model = core.run_coq_terms(ctx, "c17e", pk.HEADER, terms)
    for (qa, tpl, m, pos, attrs, flags), mres in zip(ecases, model):
        data = pk.encode_execute(qa, 7, flags, pos, attrs)
        got = pk.impl_execute(data, qa, {7: (tpl.decode("latin1"), m, None)})
        mm = pk.canon_model_result(mres, pk.model_execute_conv)
        distinct.add((b"ex", data, tpl))
        if not pk.same_result(got, mm):
            disagreements.append(dict(kind="execute", qa=qa, tpl=tpl.decode("latin1"), data=list(data), impl=repr(got), model=repr(mm)))
        # property: attaching attributes changes neither SQL nor parameters
        if attrs and got[0] == "Ok":
            plain = pk.impl_execute(pk.encode_execute(qa, 7, flags, pos, []), qa, {7: (tpl.decode("latin1"), m, None)})
            if plain[0] == "Ok" and plain[1][0] != got[1][0]:
                witness = witness or dict(kind="attrs-change-sql", tpl=tpl.decode("latin1"), with_attrs=repr(got), without=repr(plain))
    samples.append(dict(kind="execute", case=repr(ecases[2])[:300], model=repr(model[2])[:300]))

    # ---- end to end through the wire ---------------------------------------------------------------------------
    nw = 0
    for qa in (True, False):
        env = impl.Env(own_sleep=False)
        try:
            log = []
            caps = cl.BASE_CAPS | (cl.CLIENT_QUERY_ATTRIBUTES if qa else 0)
            c = wire_session(env, caps, log)
            for _ in range(60 if ctx.quick else 600):
                attrs = [pk.gen_param(rng, named=True, hostile=False) for _ in range(rng.choice([0, 1, 2, 3]))] if qa else []
                sql = rng.choice([b"SELECT a FROM t", b"\x00\x01x", b"\x01\x01INSERT INTO t VALUES (1)", b"UPDATE t SET a = 1"])
                if not qa and sql[:1] in (b"\x00", b"\x01"):
                    sql = b"DELETE FROM t"
                payload = bytes([cl.COM_QUERY]) + (pk.encode_com_query(attrs, sql) if qa else sql)
                n0 = len(log)
                c.feed(cl.frame(payload, 0))
                c.take()
                nw += 1
                exp = {}
                for a in attrs:
                    v = a.canon(True)[1]
                    exp[a.name.decode("latin1")] = v
                if sql[:1] in (b"\x00", b"\x01"):
                    continue  # not parseable SQL: the library answers ERR before the session; parse-level checks cover it
                if len(log) != n0 + 1:
                    witness = witness or dict(kind="wire", problem="session not called exactly once", sql=list(sql), log=repr(log[n0:]))
                    continue
                gsql, gattrs = log[-1]
                gcanon = {k: pk.canon_impl_value(v) for k, v in gattrs.items()}
                ecanon = {k: ((("float", struct.unpack("<f" if v[0] == "f32" else "<d", v[1])[0])) if isinstance(v, tuple) else v) for k, v in exp.items()}
                if gsql.encode("latin1") != sql or set(gcanon) != set(ecanon) or not all(pk.same_value(gcanon[k], ecanon[k]) for k in ecanon):
                    witness = witness or dict(kind="wire", sql=list(sql), sent=repr(attrs), received=repr((gsql, gattrs)))
        finally:
            env.close()
    ctx.evals += nw

    # ---- histories of character sets: the same name / value bytes under one client character set, then under another - at the
    #      parsers, between two connections of one server, and within a connection across SET NAMES.  What an earlier statement
    #      was decoded with must not decide how this one is decoded.
    from mysql_mimic.charset import CharacterSet as CS
    csets = [c for c in (CS.utf8mb4, CS.latin1, getattr(CS, "cp1251", None), getattr(CS, "sjis", None), getattr(CS, "gbk", None)) if c is not None]
    raw_names = [b"\xc3\xa9", b"k\xc3\xbc", b"\xe4\xb8\xad\xe6\x96\x87", b"\xd0\xb6"]
    nh = 0
    for A in csets:
        for Bc in csets:
            if A is Bc:
                continue
            for nm in raw_names:
                try:
                    nm.decode(A.codec), nm.decode(Bc.codec)
                except (UnicodeDecodeError, LookupError):
                    continue
                attrs = [pk.P(nm, pk.T_VAR_STRING, False, nm + b"!")]
                data = pk.encode_com_query(attrs, b"SELECT 1")
                edata = pk.encode_execute(True, 7, 8, [], attrs)
                for cset in (A, Bc):
                    got = pk.impl_parse_com_query(data, True, charset=cset)
                    gote = pk.impl_execute(edata, True, {7: ("SELECT 1", 0, None)}, charset=cset)
                    nh += 2
                    want = [(nm, nm + b"!")]
                    if not (got[0] == "Ok" and pk.same_pairs(got[1][1], want)) and witness is None:
                        witness = dict(kind="charset-history", parser="parse_com_query", name=list(nm), first_parsed_under=A.name, then_under=Bc.name,
                                       failing_under=cset.name, got=repr(got)[:200])
                    if not (gote[0] == "Ok" and pk.same_pairs(gote[1][1], want)) and witness is None:
                        witness = dict(kind="charset-history", parser="parse_com_stmt_execute", name=list(nm), first_parsed_under=A.name, then_under=Bc.name,
                                       failing_under=cset.name, got=repr(gote)[:200])
    env = impl.Env(own_sleep=False)
    try:
        log = []

        class RS(impl.Session):
            async def query(self, expression, sql, attrs):
                log.append(dict(attrs))
                return [(1,)], ["a"]

        srv = impl.make_server(env, RS)
        caps = cl.BASE_CAPS | cl.CLIENT_QUERY_ATTRIBUTES

        def connect(collation):
            c = impl.Conn(env, srv, cid=collation)
            env.settle(); c.take()
            c.feed(cl.frame(cl.handshake_response(user=b"u", caps=caps, charset=collation), 1)); c.take()
            return c

        def send(c, nm, codec, where):
            nonlocal witness, nh
            n0 = len(log)
            c.feed(cl.frame(bytes([cl.COM_QUERY]) + pk.encode_com_query([pk.P(nm, pk.T_VAR_STRING, False, nm + b"!")], b"SELECT a FROM t"), 0)); c.take()
            nh += 1
            want = {nm.decode(codec): (nm + b"!").decode(codec)}
            if log[n0:] != [want] and witness is None:
                witness = dict(kind="charset-history-wire", where=where, name=list(nm), client_character_set=codec, application_received=repr(log[n0:]), expected=repr(want))

        for nm in raw_names[:3]:
            a, b = connect(45), connect(8)                       # utf8mb4_general_ci, latin1_swedish_ci
            send(a, nm, "utf8", "connection A (utf8mb4), first")
            send(b, nm, "latin1", "connection B (latin1) after A sent the same bytes")
            a.feed(cl.frame(bytes([cl.COM_QUERY]) + pk.encode_com_query([], b"SET NAMES latin1"), 0)); a.take()
            send(a, nm, "latin1", "connection A after SET NAMES latin1")
            b.feed(cl.frame(bytes([cl.COM_QUERY]) + pk.encode_com_query([], b"SET NAMES utf8mb4"), 0)); b.take()
            send(b, nm, "utf8", "connection B after SET NAMES utf8mb4")
            a.eof(); b.eof()
    finally:
        env.close()
    ctx.evals += nh

    mp = mutating_application_probe()
    ctx.evals += 3
    if mp and witness is None:
        witness = dict(kind="attributes-shared-between-statements", **mp)
    if witness is not None:
        core.report_violation(ctx, "query attributes / SQL text do not reach the application as sent", witness)
    if (not pr["ok"] or disagreements) and not ctx.violations:
        core.report_violation(ctx, "proof obligation or model/implementation correspondence no longer checks",
                              dict(kind="unproved", broken=core.proof_failure_summary(ctx), disagreements=disagreements[:3]),
                              no_input=True)
    if not ctx.quick and pr["ok"]:
        core.coqchk(ctx, "Props/C17")
    core.write_evidence(
        ctx,
        rule="attribute lists of 0..17 entries (names incl. empty/duplicate/high bytes; ints of every width and signedness at their "
             "boundaries, strings incl. quotes/NUL/>250 bytes, floats, NULL) x SQL texts incl. ones starting 0x00-0x02, encoded by "
             "the client-side spec and parsed by the real parse_com_query / parse_com_stmt_execute vs the Coq model (latin1), with and "
             "without the capability, 0..3 positional parameters; attribute values / names of 251 .. 200001 bytes around every "
             "length-prefix boundary (implementation oracle); types.py fixed-width and length-encoded readers / writers against "
             "Lib/Bytes.v; plus COM_QUERY through the wire with a recording session; the same multi-byte name / value bytes under "
             "pairs of client character sets in sequence (parsers, two connections, SET NAMES within a connection). "
             "distinct = distinct packets",
        samples=samples, distinct=len(distinct),
        extra=dict(value_kinds=kinds, wire_queries=nw, disagreements=len(disagreements), long_attribute_cases=nbig, reader_writer_cases=ntc, reader_writer_functions=tkinds),
        assumptions=["text is decoded with the client character set outside the model (latin1 = identity in the runs)",
                     "struct IEEE unpacking and repr(float) are CPython's"],
    )
