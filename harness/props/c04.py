"""C04 - Packet framing is lossless for every payload size and every stream segmentation."""
from __future__ import annotations

import itertools
import random
import struct
import types

import core
import client as cl
import impl

HEADER = """From Coq Require Import List NArith.
From MM Require Import Lib.Bytes Model.Wire Gen.FactsStream.
Import ListNotations. Open Scope N_scope.
Definition M := stream_write_take.
Definition hm := stream_header_read.
Definition run_feeds (cs : list bytes) :=
  let fix go st cs := match cs with [] => ([], at_eof st)
                      | c :: r => let '(d, st1) := feed M hm st c in let '(ds, e) := go st1 r in (d :: ds, e) end
  in go (rst0 0) cs.
"""

M = 0xFFFFFF


def dl_of_impl(d):
    if d[0] == "Payload":
        return ("Payload", list(d[1]))
    if d[0] == "MysqlError":
        return "BadSeq"
    if d[0] == "error":  # struct.error
        return "BadHeader"
    return d[0]


def norm_model_dlv(d):
    if isinstance(d, tuple) and d[0] == "Payload":
        return ("Payload", list(d[1]))
    return d


def gen_stream(rng: random.Random):
    """A client byte stream: mostly valid packets, sometimes a bad sequence id or a zero-length packet."""
    out = bytearray()
    seq = 0
    n = rng.randint(1, 4)
    for _ in range(n):
        kind = rng.random()
        ln = rng.choice([0, 1, 2, 3, 5, 9]) if kind < 0.9 else 0
        body = bytes(rng.randrange(256) for _ in range(ln))
        s = seq if rng.random() < 0.93 else (seq + rng.randint(1, 3)) % 256
        out += struct.pack("<I", ln)[:3] + bytes([s]) + body
        seq = (seq + 1) % 256
    if rng.random() < 0.2:  # truncated tail
        out = out[: rng.randint(0, len(out))]
    return bytes(out)


def cut(b: bytes, points):
    pts = [0] + sorted(points) + [len(b)]
    return [b[a:c] for a, c in zip(pts, pts[1:])]


def impl_feeds(chunks):
    per_chunk, tail = impl.run_stream_reader(chunks, eof=True)
    dl = [[dl_of_impl(d) for d in c] for c in per_chunk]
    # errors terminate the pump; the end-of-input outcome:
    failed = any(d in ("BadSeq", "BadHeader") for c in dl for d in c)
    if failed:
        e = "AlreadyFailed"
    else:
        names = [d[0] for d in tail]
        e = "CleanClose" if names == ["ConnectionClosed"] else ("Incomplete" if names == ["IncompleteReadError"] else str(names))
    return dl, e


# ------------------------------------------------------------------ reference conversation (whole server)
class RefSession(impl.Session):
    LOG = None

    async def init(self, c):
        await super().init(c)
        self.LOG.append(("init",))

    async def close(self):
        await super().close()
        self.LOG.append(("close",))

    async def query(self, expression, sql, attrs):
        self.LOG.append(("query", sql, tuple(sorted(attrs.items())), self.database))
        return [(i, "row%d" % i) for i in range(5)], ["a", "b"]

    async def schema(self):
        return {"db": {"t": {"a": "INT", "b": "TEXT"}}}


def conversation_bytes():
    caps = cl.BASE_CAPS | cl.CLIENT_CONNECT_WITH_DB | cl.CLIENT_DEPRECATE_EOF
    pk = []
    pk.append(cl.frame(cl.handshake_response(user=b"someone", caps=caps, db=b"db"), 1))
    pk.append(cl.frame(bytes([cl.COM_QUERY]) + b"SELECT a, b FROM t", 0))
    pk.append(cl.frame(bytes([cl.COM_PING]), 0))
    pk.append(cl.frame(bytes([cl.COM_STMT_PREPARE]) + b"SELECT a FROM t WHERE a = ?", 0))
    ex = struct.pack("<IBI", 0, 1, 1) + b"\x00" + b"\x01" + bytes([0xFD, 0]) + cl.lenstr(b"xy")
    pk.append(cl.frame(bytes([cl.COM_STMT_EXECUTE]) + ex, 0))
    pk.append(cl.frame(bytes([cl.COM_STMT_FETCH]) + struct.pack("<II", 0, 2), 0))
    pk.append(cl.frame(bytes([cl.COM_QUERY]) + b"SELECT a FROM t WHERE b = '" + b"z" * 300 + b"'", 0))
    pk.append(cl.frame(bytes([cl.COM_INIT_DB]) + b"other", 0))
    pk.append(cl.frame(bytes([cl.COM_QUIT]), 0))
    return b"".join(pk)


def run_conversation(chunks):
    env = impl.Env(own_sleep=False)
    rng = random.Random(7)
    saved = impl.MU.random
    impl.MU.random = types.SimpleNamespace(SystemRandom=lambda: rng, randint=random.randint)
    try:
        log = []
        RefSession.LOG = log
        srv = impl.make_server(env, RefSession)
        c = impl.Conn(env, srv)
        env.settle()
        for ch in chunks:
            c.feed(ch)
        c.eof()
        out = bytes(c.writer.data)
        res = (out, tuple(log), c.outcome(), c.writer.closed)
        return res
    finally:
        impl.MU.random = saved
        env.close()


def hunt_segmentation(ctx, streams):
    """Direct statement of the property on the implementation: deliveries independent of the cutting."""
    for b in streams:
        whole = impl_feeds([b])
        flat_whole = [d for c in whole[0] for d in c], whole[1]
        for i in range(1, len(b)):
            parts = cut(b, [i])
            r = impl_feeds(parts)
            flat = [d for c in r[0] for d in c], r[1]
            if flat != flat_whole:
                return dict(stream=list(b), cut_at=i, uncut=repr(flat_whole), cut=repr(flat))
    return None


def tls_probe():
    """runs harness/tlsprobe.py in its own interpreter (real sockets, the real event loop)"""
    import json, os, subprocess, sys
    here = os.path.dirname(os.path.dirname(os.path.abspath(__file__)))
    try:
        out = subprocess.run([sys.executable, os.path.join(here, "tlsprobe.py")], stdout=subprocess.PIPE, stderr=subprocess.DEVNULL,
                             timeout=60, text=True).stdout
        line = [l for l in out.splitlines() if l.startswith("@@")]
        return json.loads(line[-1][2:]) if line else dict(separate="probe produced no result", together="probe produced no result")
    except Exception as e:  # noqa
        return dict(separate=f"probe failed: {type(e).__name__}", together="probe failed")


def run(ctx: core.Ctx):
    rng = ctx.rng
    pr = core.check_proofs(ctx, "Props/C04", headers=[HEADER])
    samples = []
    disagreements = []
    distinct = set()

    # ---- B1: write side, byte level (model evaluated in Coq) ---------------------------------
    nwrite = 150 if ctx.quick else 1500
    wcases = []
    for _ in range(nwrite):
        s = rng.randrange(256)
        d = bytes(rng.randrange(256) for _ in range(rng.choice([0, 1, 2, 7, 30])))
        wcases.append((s, d))
    terms = [f"write_bytes M {s} {core.coq_N_list(d)}" for s, d in wcases]
    model = core.run_coq_terms(ctx, "c04w", HEADER, terms)
    for (s, d), m in zip(wcases, model):
        got, _ = impl.run_stream_writer([d], start_seq=s)
        distinct.add(("w", s, d))
        if list(got) != m:
            disagreements.append(dict(kind="write-bytes", seq=s, payload=list(d), impl=list(got), model=m))
    samples.append(dict(kind="write", seq=wcases[0][0], payload=list(wcases[0][1]), model=model[0]))

    # ---- B1b: sequences of buffered and drained writes, sizes below / at / above the write buffer: a standard client
    #      reassembles exactly the payloads, in order, with consecutive sequence ids ---------------------------------------
    bsz = 32768
    seqcases = [[(3, False), (70000, False), (4, True)], [(10, False), (bsz - 4, False), (1, False)], [(1, False), (bsz, True)],
                [(bsz - 5, False), (1, False), (bsz + 1, False), (0, True)], [(40000, False), (40000, False)], [(5, False), (bsz - 4 - 9, False), (33000, True)]]
    for _ in range(10 if ctx.quick else 200):
        seqcases.append([(rng.choice([0, 1, 7, 300, bsz - 5, bsz - 4, bsz, bsz + 1, 40000, 70000]), rng.random() < 0.3) for _ in range(rng.randint(2, 6))])
    for sc in seqcases:
        payloads = [bytes((i * 7 + n + k) & 0xFF for i in range(n)) for k, (n, _) in enumerate(sc)]
        s0 = rng.randrange(256)
        got = impl.run_stream_writes([(p, d) for p, (_, d) in zip(payloads, sc)], start_seq=s0)
        distinct.add(("wseq", tuple(sc)))
        ctx.evals += 1
        try:
            raw = cl.split_raw(got)
            ok = [p for _, p in raw] == payloads and [q for q, _ in raw] == [(s0 + i) % 256 for i in range(len(raw))]
        except ValueError:
            ok = False
        if not ok:
            core.report_violation(ctx, "a sequence of buffered and drained writes is not delivered as the same packets in order",
                                  dict(kind="write-sequence", writes=[dict(size=n, drain=d) for n, d in sc], start_seq=s0,
                                       sizes_on_the_wire=[len(p) for _, p in raw][:12] if 'raw' in dir() else None))
            break

    # ---- B1c: the same with full-size packets (payloads of 2^24-1 bytes and more) BEHIND packets that are still buffered
    bigcases = [[(5, False), (7, False), (M, False), (3, False)], [(5, False), (M + 1, False), (2, True)]]
    if not ctx.quick:
        bigcases += [[(9, False), (2 * M, True), (1, False)], [(1, False), (M - 1, False), (M, False)], [(4, False), (2 * M + 1, False)]]
    for sc in (bigcases if not ctx.violations else []):
        payloads = [(bytes(range(256)) * (n // 256 + 1))[k:k + n] for k, (n, _) in enumerate(sc)]
        s0 = rng.randrange(256)
        got = impl.run_stream_writes([(p, d) for p, (_, d) in zip(payloads, sc)], start_seq=s0)
        distinct.add(("wseq-big", tuple(sc)))
        ctx.evals += 1
        try:
            re_ = cl.reassemble(got)
            ok = [p for _, p, _ in re_] == payloads
            q = s0
            for fs, _, npk in re_:
                ok = ok and fs == q % 256
                q += npk
            shown = [(fs, len(p), npk) for fs, p, npk in re_][:8]
        except Exception as e:  # noqa
            ok, shown = False, repr(e)[:200]
        if not ok:
            core.report_violation(ctx, "a sequence of buffered writes with a full-size packet is not delivered as the same payloads in order",
                                  dict(kind="write-sequence-big", writes=[dict(size=n, drain=d) for n, d in sc], start_seq=s0, reassembled=shown))
            break

    # ---- B1d: the split size of the server's packets does not depend on what the client announces: handshake responses with
    #      max_packet_size 0 / 2^16 / 2^20 / 2^22 / 2^24-1 / 2^24 / 2^30, then a result whose single cell is around those sizes;
    #      a standard client (a payload continues only after a packet of exactly 2^24-1 bytes) must reassemble the same row
    for mp in ((1 << 16, 1 << 20, 0, 1 << 30) if ctx.quick else (0, 1 << 16, 1 << 20, 1 << 22, M, 1 << 24, 1 << 30)):
        if ctx.violations:
            break
        for vs in sorted({1, 300, mp - 4 if mp and mp < (1 << 23) else 65532, mp + 10 if mp and mp < (1 << 23) else 65546}):
            value = ("v" * vs)
            env = impl.Env(own_sleep=False)
            try:
                class BigS(impl.ScriptSession):
                    async def handle_query(self, sql, attrs):
                        return [(value,)], ["c"]
                srv = impl.make_server(env, lambda: BigS(env, 0))
                c = impl.Conn(env, srv)
                env.settle(); c.take()
                c.feed(cl.frame(cl.handshake_response(user=b"u", maxpkt=mp), 1)); c.take()
                c.feed(cl.frame(bytes([cl.COM_QUERY]) + b"SELECT c FROM t", 0))
                c.feed(cl.frame(bytes([cl.COM_PING]), 0))
                got = c.take()
                distinct.add(("maxpkt", mp, vs)); ctx.evals += 1
                try:
                    re_ = cl.reassemble(got)
                    # column count, definition, EOF, row, EOF, then the PING's OK
                    ok = len(re_) == 6 and value.encode() in re_[3][1] and len(re_[3][1]) <= vs + 9 and re_[5][0] == 1 and re_[5][1][:1] == b"\x00"
                    shown = [(fs, len(p_), npk) for fs, p_, npk in re_][:10]
                except Exception as e:  # noqa
                    ok, shown = False, repr(e)[:200]
                if not ok:
                    core.report_violation(ctx, "a result is not reassembled by a standard client when the client announced a small max_packet_size",
                                          dict(kind="announced-max-packet-size", max_packet_size=mp, cell_bytes=vs, reassembled=shown))
                    break
            finally:
                env.close()

    # ---- B2: write side, length level incl. multiples of M -------------------------------------
    lens = [0, 1, M - 1, M, M + 1] if ctx.quick else [0, 1, 2, M - 2, M - 1, M, M + 1, 2 * M - 1, 2 * M, 2 * M + 1, 3 * M, 3 * M + 1]
    mlens = core.run_coq_terms(ctx, "c04l", HEADER, [f"frame_lens M {n}" for n in lens])
    for n, ml in zip(lens, mlens):
        payload = bytes((i * 131 + n) & 0xFF for i in range(min(n, 4096))) * 1
        if n > 4096:
            payload = (payload * (n // 4096 + 1))[:n]
        s0 = rng.randrange(256)
        got, _ = impl.run_stream_writer([payload], start_seq=s0)
        raw = cl.split_raw(got)
        distinct.add(("len", n))
        if [len(p) for _, p in raw] != ml:
            disagreements.append(dict(kind="write-lens", n=n, impl=[len(p) for _, p in raw], model=ml))
        seqs = [q for q, _ in raw]
        if seqs != [(s0 + i) % 256 for i in range(len(raw))]:
            disagreements.append(dict(kind="write-seq", n=n, impl=seqs))
        try:
            re = cl.reassemble(got)
            ok = len(re) == 1 and re[0][1] == payload
        except ValueError as e:
            ok = False
        if not ok:
            core.report_violation(ctx, f"payload of {n} bytes is not reassembled identically by a standard client",
                                  dict(kind="write-roundtrip", length=n))
        # and the real reader on the real writer's output, delivered in uneven chunks
        if n >= M - 1 or n < 3:
            pts = sorted(rng.randrange(1, max(2, len(got))) for _ in range(3)) if len(got) > 2 else []
            # sequence ids restart at 0 for the reader
            again, _ = impl.run_stream_writer([payload], start_seq=0)
            pc, tail = impl.run_stream_reader(cut(again, pts), eof=True)
            flat = [d for c in pc for d in c]
            if not (len(flat) == 1 and flat[0][0] == "Payload" and flat[0][1] == payload):
                core.report_violation(ctx, f"server-side reader does not reassemble a {n}-byte payload cut at {pts}",
                                      dict(kind="read-roundtrip", length=n, cuts=pts, got=[d[0] for d in flat]))
        del payload, got
    samples.append(dict(kind="frame_lens", n=lens[3], model=mlens[3]))

    # ---- B2c: read side, SEQUENCES of client payloads on one stream with exact multiples of 2^24-1 among them: what an earlier
    #      payload leaves behind must not leak into the next one.  Whole, header-split and in 65537-byte chunks.
    rseqs = [[M, 1], [3, M, 0, 2], [0, 1, M - 1, M, M + 1, 5]]
    if not ctx.quick:
        rseqs += [[2 * M, 2 * M + 1, 4], [M, M, 1], [1, 2 * M, 0, M, 3]]
    for sizes in (rseqs if not ctx.violations else []):
        payloads = [(bytes(range(k + 1, 256)) * (n // 200 + 1))[:n] for k, n in enumerate(sizes)]
        wire, q = bytearray(), 0
        for pl in payloads:
            fr = cl.frame(pl, q)
            q += len(pl) // M + 1
            wire += fr
        wire = bytes(wire)
        for how, chunks in (("whole", [wire]), ("header-split", cut(wire, [2, len(wire) - 1])),
                            ("65537-byte chunks", [wire[i:i + 65537] for i in range(0, len(wire), 65537)])):
            pc, tail = impl.run_stream_reader(chunks, eof=True)
            flat = [d for c in pc for d in c]
            distinct.add(("rseq", tuple(sizes), how)); ctx.evals += 1
            got_sizes = [len(d[1]) if d[0] == "Payload" else d[0] for d in flat]
            if not (len(flat) == len(payloads) and all(d[0] == "Payload" and d[1] == pl for d, pl in zip(flat, payloads))):
                core.report_violation(ctx, "a sequence of client payloads on one connection is not reassembled to the same payloads",
                                      dict(kind="read-sequence", sent_sizes=sizes, delivery=how, reassembled_sizes=got_sizes[:10]))
                break
        del payloads, wire
    # the same through the whole server: long data of exactly k*(2^24-1) bytes of payload, then two PINGs
    for k in ((1,) if ctx.quick else (1, 2)):
        if ctx.violations:
            break
        env = impl.Env(own_sleep=False)
        try:
            srv = impl.make_server(env, lambda: impl.ScriptSession(env, 0))
            c = impl.Conn(env, srv)
            env.settle(); c.take()
            c.feed(cl.frame(cl.handshake_response(user=b"u"), 1)); c.take()
            c.feed(cl.frame(bytes([cl.COM_STMT_PREPARE]) + b"SELECT ?", 0))
            sid = struct.unpack("<I", cl.split_raw(c.take())[0][1][1:5])[0]
            c.feed(cl.frame(bytes([cl.COM_STMT_SEND_LONG_DATA]) + struct.pack("<IH", sid, 0) + b"d" * (k * M - 7), 0))
            c.feed(cl.frame(bytes([cl.COM_PING]), 0))
            c.feed(cl.frame(bytes([cl.COM_PING]), 0))
            got = cl.split_raw(c.take())
            distinct.add(("rseq-server", k)); ctx.evals += 1
            if [(q_, p_[:1]) for q_, p_ in got] != [(1, b"\x00"), (1, b"\x00")]:
                core.report_violation(ctx, "commands sent after a payload of an exact multiple of 2^24-1 bytes are not answered as on a fresh connection",
                                      dict(kind="read-sequence-server", long_data_payload_bytes=k * M, then="COM_PING, COM_PING",
                                           answered=[(q_, p_[:12].hex()) for q_, p_ in got][:6]))
        finally:
            env.close()

    # ---- real sockets: what the transport does with what it is handed (partial writes, its own buffer): a 12 MB result to a slow
    #      reader arrives intact, plain / TLS / behind a small send buffer
    rsw = core.realsock_witness(core.realsock(ctx, ["slow_reader"]))
    if rsw and not ctx.violations:
        core.report_violation(ctx, "over real sockets a result is not delivered as the packets the server wrote", rsw)

    # ---- B3: read side, arrival histories (model evaluated in Coq) -------------------------------
    streams = [gen_stream(rng) for _ in range(60 if ctx.quick else 600)]
    rcases = []
    for b in streams[: (25 if ctx.quick else 120)]:
        for i in range(1, len(b)):
            rcases.append(cut(b, [i]))  # every 1-cut
    for b in streams:
        rcases.append([b])
        rcases.append([bytes([x]) for x in b])  # 1-byte chunks
        k = rng.randint(2, 5)
        if len(b) > 2:
            rcases.append(cut(b, [rng.randrange(1, len(b)) for _ in range(k)]))
    for b in streams[: (6 if ctx.quick else 40)]:
        for i, j in itertools.combinations(range(1, len(b)), 2):
            rcases.append(cut(b, [i, j]))  # every 2-cut
    terms = ["run_feeds " + core.coq_list([core.coq_N_list(c) for c in ch]) for ch in rcases]
    model = core.run_coq_terms(ctx, "c04r", HEADER, terms, shard=400)
    nontrivial = 0
    for ch, m in zip(rcases, model):
        mdl = [[norm_model_dlv(d) for d in c] for c in m[0]], m[1]
        got = impl_feeds(ch)
        key = tuple(bytes(c) for c in ch)
        if key not in distinct and len(ch) > 1:
            nontrivial += 1
        distinct.add(key)
        if (got[0], got[1]) != (mdl[0], mdl[1]):
            disagreements.append(dict(kind="read-feeds", chunks=[list(c) for c in ch], impl=repr(got), model=repr(mdl)))
    samples.append(dict(kind="read", chunks=[list(c) for c in rcases[1]], model=repr(model[1])))

    # ---- B4: whole server, reference conversation under every cut --------------------------------
    conv = conversation_bytes()
    base = run_conversation([conv])
    nconv = 0
    conv_bad = None

    def try_cut(points):
        nonlocal nconv, conv_bad
        nconv += 1
        r = run_conversation(cut(conv, points))
        if r != base and conv_bad is None:
            conv_bad = dict(cuts=list(points), uncut_outcome=base[2], cut_outcome=r[2],
                            uncut_log=repr(base[1])[:400], cut_log=repr(r[1])[:400],
                            same_bytes=(r[0] == base[0]))

    for i in range(1, len(conv)):
        try_cut([i])
    lim = 40 if ctx.quick else len(conv)
    for i, j in itertools.combinations(range(1, lim), 2):
        try_cut([i, j])
    for _ in range(200 if ctx.quick else 3000):
        try_cut([rng.randrange(1, len(conv)) for _ in range(rng.randint(2, 8))])
    try_cut(list(range(1, len(conv))))  # 1-byte chunks
    ctx.evals += nconv
    if ("close",) not in base[1] or base[2] != "ok" or len([x for x in base[1] if x[0] == "query"]) < 3:
        conv_bad = conv_bad or dict(problem="reference conversation itself did not complete", log=repr(base[1]), outcome=base[2])
    samples.append(dict(kind="conversation", client_bytes=len(conv), server_bytes=len(base[0]), session_calls=len(base[1])))

    # ---- the TLS hand-over over real loopback sockets: SSLRequest and ClientHello in two segments / in one -------------
    tls = tls_probe()
    ctx.evals += 2
    samples.append(dict(kind="tls-hand-over", **tls))
    if tls.get("separate") != "completed":
        core.report_violation(ctx, "the TLS upgrade does not complete even when the ClientHello arrives in its own segment",
                              dict(kind="tls-upgrade", **tls))
    elif tls.get("together") != "completed":
        core.report_violation(ctx, "the TLS upgrade depends on how the client byte stream is segmented",
                              dict(kind="tls-hello-with-sslrequest", **tls), key="tls-hello-with-sslrequest")

    # ---- verdict -----------------------------------------------------------------------------------
    if conv_bad is not None:
        core.report_violation(ctx, "server conversation depends on how the client byte stream is segmented",
                              dict(kind="conversation-cut", client_stream=list(conv), **conv_bad))
    if not pr["ok"] or disagreements:
        w = hunt_segmentation(ctx, streams[:40] + [b"\x01\x00\x00\x00\x0e", b"\x03\x00\x00\x00abc\x01\x00\x00\x01z"])
        if w is not None:
            core.report_violation(ctx, "payload delivery depends on the segmentation of the byte stream",
                                  dict(kind="segmentation", broken=core.proof_failure_summary(ctx),
                                       disagreements=disagreements[:3], **w))
        elif not ctx.violations:
            core.report_violation(ctx, "proof obligation or model/implementation correspondence no longer checks",
                                  dict(kind="unproved", broken=core.proof_failure_summary(ctx),
                                       disagreements=disagreements[:3]), no_input=True)

    if not ctx.quick and pr["ok"]:
        core.coqchk(ctx, "Props/C04")

    core.write_evidence(
        ctx,
        rule="write: random (seq, payload) byte-for-byte against write_bytes, lengths 0/1/M-1/M/M+1(/kM/kM+1) against frame_lens "
             "and through a reference reassembler and the real reader; read: generated packet streams (valid, bad seq, zero-length, "
             "truncated) under every 1-cut, sampled/all 2-cuts, 1-byte chunks and random multi-cuts against Wire.feeds incl. the "
             "end-of-input outcome; SEQUENCES of client payloads on one stream with exact multiples of 2^24-1 among them (whole, header-split, "
             "65537-byte chunks) and two PINGs after long data of k*(2^24-1) bytes through the whole server; whole server: reference conversation under every 1-cut, 2-cuts, random multi-cuts, 1-byte chunks. "
             "distinct = distinct (kind, input) tuples; non-trivial = more than one chunk or a boundary length",
        samples=samples,
        distinct=len(distinct) + nconv,
        extra=dict(read_histories=len(rcases), conversation_cuts=nconv, write_cases=len(wcases), lengths=lens,
                   disagreements=len(disagreements), exhaustive=False),
        assumptions=[
            "asyncio.StreamReader.read/readexactly semantics as modelled by hmode (CPython 3.12)",
            "TLS record processing itself is the ssl module's; the hand-over is probed over loopback sockets (harness/tlsprobe.py)",
            "the fake writer stands in for the socket",
        ],
    )
