"""C14 - System variables form a typed, scoped store that clients cannot corrupt."""
from __future__ import annotations

import asyncio
import codecs
import datetime as _dt

import core
import client as cl
import impl

import mysql_mimic.session as msession
from mysql_mimic import Session
from mysql_mimic.charset import CharacterSet
from mysql_mimic.errors import MysqlError
from mysql_mimic.variables import SYSTEM_VARIABLES, GlobalVariables, SessionVariables

HEADER = """From Coq Require Import List NArith ZArith Bool.
From MM Require Import Lib.Bytes Lib.Decimal Model.Vars Gen.FactsCharset Gen.FactsVars.
Import ListNotations. Open Scope N_scope.
Definition usable : list str := map (fun r => fst (fst (fst r))) (filter (fun r => snd r) charset_table).
Definition defcoll (cs : str) : option str := lookup cs default_collations.
Definition runm := run system_variables usable defcoll tx_characteristics [].
Definition tz (s : str) := parse_tz s.
"""


def S(s: str):
    return "[" + ";".join(str(ord(c)) for c in s) + "]"


LOGIN = "alice"
NAMES = sorted(SYSTEM_VARIABLES)
DYNAMIC = [n for n in NAMES if SYSTEM_VARIABLES[n][2]]
READONLY = [n for n in NAMES if not SYSTEM_VARIABLES[n][2]]
STRINGS = ["", "a", "ANSI", "x y", "OFF", "0", "12", " 7 ", "+3", "-4", "1x", "utf8", "latin1", "UTC", "+02:00", "-11:30", "+25:00", "garbage",
           "héllo", "日本", "it's", "utc", "+5:3", "+05:30tail", "nonsense", "binary", "ucs2", "utf8mb4", "+23:59", "-00:00", "+24:00"]
FLOATS = ["1.5", "2.50", "0.0", "0.25", "12.75", "3.0"]
CHARSETS = ["latin1", "utf8", "utf8mb4", "ascii", "big5", "nonsense", "binary", "ucs2", "LATIN1", "koi8r", "utf16", "cp1251"]
COLLATIONS = ["latin1_bin", "utf8mb4_bin", "utf8_general_ci", "nonsense_ci"]
TX = ["ISOLATION LEVEL REPEATABLE READ", "ISOLATION LEVEL READ COMMITTED", "ISOLATION LEVEL READ UNCOMMITTED",
      "ISOLATION LEVEL SERIALIZABLE", "READ WRITE", "READ ONLY"]


# ------------------------------------------------------------------------------------------ values
def float_parts(lit):
    r = repr(float(lit))
    assert "e" not in r and not r.startswith("-")
    ip, frac = r.split(".")
    return int(ip), frac


def gen_value(rng, hint=False):
    r = rng.random()
    if r < 0.12:
        # (ON / OFF inside a hint comment make sqlglot keep the whole hint as raw text, which the library then ignores)
        return ("bool", rng.random() < 0.5, "kw" if hint else rng.choice(["kw", "onoff"]))
    if r < 0.35:
        return ("int", rng.choice([0, 1, 2, 5, 12, 28800, 2 ** 31, 10 ** 20]))
    if r < 0.8:
        return ("str", rng.choice(STRINGS))
    if r < 0.9:
        return ("float", rng.choice(FLOATS))
    return ("null",)


def coq_value(v):
    k = v[0]
    if k == "bool":
        return f"(VBool {core.coq_bool(v[1])})"
    if k == "int":
        return f"(VInt {v[1]}%Z)"
    if k == "str":
        return f"(VStr {S(v[1])})"
    if k == "float":
        ip, frac = float_parts(v[1])
        return f"(VFloat {ip} {S(frac)})"
    return "VNone"


def sql_value(v):
    k = v[0]
    if k == "bool":
        return ("TRUE" if v[1] else "FALSE") if v[2] == "kw" else ("ON" if v[1] else "OFF")
    if k == "int":
        return str(v[1])
    if k == "str":
        return "'" + v[1].replace("'", "''") + "'"
    if k == "float":
        return v[1]
    return "NULL"


def gen_rhs(rng, hint=False):
    r = rng.random()
    if r < 0.72:
        return ("val", gen_value(rng, hint))
    if r < 0.82:
        return ("default",)
    if r < 0.92:
        return ("param", rng.choice(NAMES + ["nosuch"]))
    return ("complex", rng.choice(["1+1", "-5", "CONCAT('a','b')", "2 * 3"]))


def coq_rhs(r):
    if r[0] == "val":
        return f"(RVal {coq_value(r[1])})"
    if r[0] == "default":
        return "RDefault"
    if r[0] == "param":
        return f"(RParam {S(r[1])})"
    return "RComplex"


def sql_rhs(r):
    if r[0] == "val":
        return sql_value(r[1])
    if r[0] == "default":
        return "DEFAULT"
    if r[0] == "param":
        return "@@" + r[1]
    return r[1]


def vary_case(rng, name):
    r = rng.random()
    return name if r < 0.6 else name.upper() if r < 0.8 else name.capitalize()


# ------------------------------------------------------------------------------------------ operations
def gen_name(rng):
    r = rng.random()
    if r < 0.78:
        return rng.choice(DYNAMIC)
    if r < 0.9:
        return rng.choice(READONLY)
    return rng.choice(["nosuch", "sql_mod", "x"])


def gen_var_item(rng):
    name = vary_case(rng, gen_name(rng))
    rhs = gen_rhs(rng)
    sp = rng.choice(["bare", "bare", "SESSION", "LOCAL", "@@", "@@session.", "@@local.", "GLOBAL", "@@global.", "PERSIST", "PERSIST_ONLY", "@user"])
    uservar = sp == "@user"
    scope = "ScOther" if sp in ("GLOBAL", "@@global.", "PERSIST", "PERSIST_ONLY") else ("ScLocal" if sp in ("LOCAL", "@@local.") else "ScSession")
    if sp == "bare":
        sql = f"{name} = {sql_rhs(rhs)}"
    elif sp in ("SESSION", "LOCAL", "GLOBAL", "PERSIST", "PERSIST_ONLY"):
        sql = f"{sp} {name} = {sql_rhs(rhs)}"
    elif sp == "@user":
        sql = f"@{name} = {sql_rhs(rhs)}"
    else:
        sql = f"{sp}{name} = {sql_rhs(rhs)}"
    term = f"(IVar {core.coq_bool(uservar)} {scope} {S(name)} {coq_rhs(rhs)})"
    return sql, term, name


def gen_op(rng):
    """returns dict(kind, sql, term, [names], ...)"""
    r = rng.random()
    if r < 0.42:
        items = [gen_var_item(rng) for _ in range(rng.choice([1, 1, 1, 2, 3]))]
        return dict(kind="set", sql="SET " + ", ".join(i[0] for i in items), term="(OSet " + core.coq_list([i[1] for i in items]) + ")")
    if r < 0.5:
        cs = rng.choice(CHARSETS + ["DEFAULT"])
        quoted = rng.random() < 0.3 and cs != "DEFAULT"
        kw = rng.choice(["CHARACTER SET", "CHARSET"])
        t = "None" if cs == "DEFAULT" else f"(Some {S(cs)})"
        return dict(kind="set", sql=f"SET {kw} " + (f"'{cs}'" if quoted else cs), term=f"(OSet [ICharset {t}])")
    if r < 0.6:
        cs = rng.choice(CHARSETS + ["DEFAULT"])
        coll = rng.choice(COLLATIONS) if (rng.random() < 0.4 and cs != "DEFAULT") else None
        t = "None" if cs == "DEFAULT" else f"(Some {S(cs)})"
        c = f"(Some {S(coll)})" if coll else "None"
        return dict(kind="set", sql=f"SET NAMES {cs}" + (f" COLLATE {coll}" if coll else ""), term=f"(OSet [INames {t} {c}])")
    if r < 0.67:
        chars = [rng.choice([0, 1, 3, 4, 5]) for _ in range(rng.choice([1, 1, 2]))]   # sqlglot does not parse READ UNCOMMITTED
        if len(chars) == 2 and (chars[0] < 4) == (chars[1] < 4):
            chars = chars[:1]
        pre = rng.choice(["", "SESSION ", "", "SESSION ", "GLOBAL "])
        if pre == "GLOBAL ":
            # the GLOBAL spelling is an assignment in a scope that is not the session's: refused like every other one (the model's
            # item for that is an IVar with scope ScOther), the session's copies stay as they are
            return dict(kind="set", sql="SET GLOBAL TRANSACTION " + ", ".join(TX[c] for c in chars),
                        term=f"(OSet [IVar false ScOther {S('transaction_isolation')} (RVal (VStr {S('x')}))])")
        return dict(kind="set", sql=f"SET {pre}TRANSACTION " + ", ".join(TX[c] for c in chars),
                    term="(OSet [ITransaction " + core.coq_list([f"{c}%nat" for c in chars]) + "])")
    if r < 0.9:
        return gen_hinted(rng)
    names = [vary_case(rng, rng.choice(NAMES + ["nosuch"] * 2)) for _ in range(rng.choice([1, 2, 3]))]
    pre = [rng.choice(["@@", "@@session.", "@@local."]) for _ in names]
    return dict(kind="get", sql="SELECT " + ", ".join(p + n for p, n in zip(pre, names)), term="(OGet " + core.coq_list([S(n) for n in names]) + ")",
                names=names)


def gen_hinted(rng):
    depth = rng.choice([1, 1, 1, 2, 3])
    hints = []
    for _ in range(depth):
        calls = []
        for _ in range(rng.choice([1, 1, 2, 3])):
            asg = []
            for _ in range(rng.choice([1, 1, 2])):
                name = vary_case(rng, gen_name(rng))
                rhs = gen_rhs(rng, hint=True)
                asg.append((name, rhs))
            calls.append(asg)
        hints.append(calls)
    read = [rng.choice(DYNAMIC + READONLY) for _ in range(rng.choice([1, 2]))]
    for h in hints:
        for c in h:
            for n, _ in c:
                if n.lower() in SYSTEM_VARIABLES and rng.random() < 0.7:
                    read.append(n.lower())
    read = list(dict.fromkeys(read))

    def hint_sql(calls):
        return "/*+ " + " ".join("SET_VAR(" + ", ".join(f"{n} = {sql_rhs(r)}" for n, r in c) + ")" for c in calls) + " */"

    hterm = core.coq_list([core.coq_list([core.coq_list([f"({S(n)}, {coq_rhs(r)})" for n, r in c]) for c in calls]) for calls in hints])
    if depth == 1 and rng.random() < 0.5:
        sql = f"SELECT {hint_sql(hints[0])} " + ", ".join("@@" + n for n in read)
        return dict(kind="hint-get", sql=sql, term=f"(OHinted {hterm} (InGet {core.coq_list([S(n) for n in read])}))", names=read)
    ok = rng.random() < 0.7
    inner = "SELECT c FROM t"
    for calls in reversed(hints[1:]):
        inner = f"SELECT {hint_sql(calls)} c FROM ({inner}) AS s"
    stmt = rng.choice(["select", "select", "insert", "update", "delete"]) if depth == 1 else "select"
    if stmt == "select":
        sql = f"SELECT {hint_sql(hints[0])} c FROM ({inner}) AS q" if depth > 1 else f"SELECT {hint_sql(hints[0])} c FROM t"
    elif stmt == "insert":
        sql = f"INSERT {hint_sql(hints[0])} INTO t VALUES (1)"
    elif stmt == "update":
        sql = f"UPDATE {hint_sql(hints[0])} t SET c = 1"
    else:
        sql = f"DELETE {hint_sql(hints[0])} FROM t"
    return dict(kind="hint-app", sql=sql, term=f"(OHinted {hterm} (InApp {core.coq_list([S(n) for n in read])} {core.coq_bool(ok)}))",
                names=read, ok=ok)


# ------------------------------------------------------------------------------------------ the implementation side
class VSession(Session):
    def __init__(self):
        super().__init__()
        self.read_names = []
        self.app_ok = True
        self.seen = None
        self.calls = 0

    async def query(self, expression, sql, attrs):
        self.calls += 1
        self.seen = [self.variables.get(n) for n in self.read_names]
        if not self.app_ok:
            raise RuntimeError("application failure")
        return [(1,)], ["c"]


class FakeConn:
    connection_id = 7
    control = None


def to_model_value(v):
    if v is None:
        return "VNone"
    if isinstance(v, bool):
        return ("VBool", v)
    if isinstance(v, int):
        return ("VInt", v)
    if isinstance(v, float):
        ip, frac = float_parts(repr(v))
        return ("VFloat", ip, [ord(c) for c in frac])
    return ("VStr", [ord(c) for c in str(v)])


def classify_exc(e):
    if isinstance(e, MysqlError):
        code = int(getattr(e, "code", 0))
        return {1193: "unknown", 1064: "notdynamic", 1235: "notsupported"}.get(code, "rejected")
    if isinstance(e, RuntimeError) and "application failure" in str(e):
        return "app"
    return "rejected"


MODEL_ERR = {"EUnknown": "unknown", "ENotDynamic": "notdynamic", "EUserVar": "notsupported", "EScope": "notsupported",
             "EComplex": "notsupported", "EKind": "notsupported", "EValue": "rejected", "EInvalid": "rejected", "ECharset": "rejected",
             "EApp": "app"}


def snapshot(sess):
    return {n: sess.variables.get(n) for n in NAMES}


def operational_problem(loop, sess):
    """can the session still work: a trivial statement is answered, and the connection's two character sets exist"""
    try:
        loop.run_until_complete(sess.handle_query("SELECT 1", {}))
    except Exception as e:  # noqa
        return f"SELECT 1 fails: {type(e).__name__}: {e}"
    for var in ("character_set_client", "character_set_results"):
        v = sess.variables.get(var)
        try:
            codecs.lookup(CharacterSet[v].codec)
        except (KeyError, LookupError) as e:
            return f"{var} = {v!r} cannot be used by the connection: {type(e).__name__}"
    return None


def run_program(loop, ops):
    """runs the ops through the real Session; returns per op (outcome, snapshot after, problem)"""
    sess = VSession()
    sess._connection = FakeConn()
    sess.variables.set("external_user", LOGIN, force=True)      # what Connection does at the handshake
    out = []
    for op in ops:
        before = snapshot(sess)
        sess.read_names = op.get("names", [])
        sess.app_ok = op.get("ok", True)
        sess.seen = None
        try:
            r = loop.run_until_complete(sess.handle_query(op["sql"], {}))
            rows = [tuple(x) for x in r[0]]
            if op["kind"] == "set":
                oc = ("Done",)
            elif op["kind"] in ("get", "hint-get"):
                oc = ("Values", [to_model_value(v) for v in rows[0]])
            else:
                oc = ("Values", [to_model_value(v) for v in (sess.seen or [])])
        except Exception as e:  # noqa
            oc = ("Failed", classify_exc(e), f"{type(e).__name__}: {e}"[:120])
        after = snapshot(sess)
        problem = None
        if op["kind"].startswith("hint") and after != before:
            ch = {k: (before[k], after[k]) for k in NAMES if before[k] != after[k]}
            problem = dict(problem="a SET_VAR hint outlives its statement", changed=repr(ch))
        if op["kind"] == "set" and oc[0] == "Failed" and after != before and problem is None:
            ch = {k: (before[k], after[k]) for k in NAMES if before[k] != after[k]}
            problem = dict(problem="a refused SET statement left some of its assignments behind", statement=op["sql"], changed=repr(ch))
        ro = {k: after[k] for k in READONLY if after[k] != (LOGIN if k == "external_user" else SYSTEM_VARIABLES[k][1])}
        if ro and problem is None:
            problem = dict(problem="a read-only variable was changed by a client statement", changed=repr(ro))
        for k in NAMES:
            ty, default, _ = SYSTEM_VARIABLES[k]
            if after[k] is not None and type(after[k]) is not ty and problem is None:
                problem = dict(problem=f"{k} holds a value that is not of its type", value=repr(after[k]))
        if oc[0] != "Failed" and problem is None:
            p = operational_problem(loop, sess)
            if p:
                problem = dict(problem="an accepted statement broke the session: " + p)
        try:
            show = [tuple(x) for x in loop.run_until_complete(sess.handle_query("SHOW VARIABLES", {}))[0]]
        except Exception as e:  # noqa
            show = f"{type(e).__name__}: {e}"[:100]
        out.append((oc, after, show, problem))
        if problem:
            break
    return out


def model_outcome(m):
    """parsed Coq outcome -> comparable"""
    if m == "Done":
        return ("Done",)
    if isinstance(m, tuple) and m[0] == "Failed":
        return ("Failed", MODEL_ERR[m[1]])
    if isinstance(m, tuple) and m[0] == "Values":
        return ("Values", m[1])
    return m


def norm_val(v):
    if isinstance(v, tuple) and v[0] == "VStr":
        return ("VStr", list(v[1]))
    if isinstance(v, tuple) and v[0] == "VFloat":
        return ("VFloat", v[1], list(v[2]))
    return v


# ------------------------------------------------------------------------------------------ time zones
class FrozenDT(_dt.datetime):
    FIXED = _dt.datetime(2024, 3, 10, 22, 45, 7, tzinfo=_dt.timezone.utc)

    @classmethod
    def now(cls, tz=None):
        return cls.FIXED.astimezone(tz) if tz is not None else cls.FIXED.replace(tzinfo=None)


def timezone_check(ctx, loop, model_ok):
    """NOW()/CURDATE()/CURTIME() are the frozen UTC instant shifted by the model's offset; what the model refuses is refused"""
    zones = ["UTC", "utc", "+00:00", "+02:00", "-11:30", "+23:59", "-23:59", "+05:45", "+24:00", "+99:99", "garbage", "", "+5:30", "05:30", "+05:30x", "Europe/Paris"]
    offs = [None] * len(zones)
    if model_ok:
        try:
            offs = core.run_coq_terms(ctx, "c14tz", HEADER, [f"tz {S(z)}" for z in zones])
        except Exception:  # noqa
            model_ok = False
    old = msession.datetime
    msession.datetime = FrozenDT
    problems, dis = [], []
    try:
        for z, off in zip(zones, offs):
            sess = VSession(); sess._connection = FakeConn()
            try:
                loop.run_until_complete(sess.handle_query("SET time_zone = '%s'" % z, {}))
                accepted = True
            except Exception:  # noqa
                accepted = False
            if model_ok:
                m_acc = isinstance(off, tuple) and off[0] == "Some"
                if m_acc != accepted:
                    dis.append(dict(kind="time_zone-acceptance", zone=z, impl=accepted, model=m_acc))
            if not accepted:
                continue
            try:
                r = loop.run_until_complete(sess.handle_query("SELECT NOW(), CURDATE(), CURTIME(), CURRENT_TIMESTAMP()", {}))
                got = tuple(r[0][0])
            except Exception as e:  # noqa
                problems.append(dict(problem=f"time_zone {z!r} was accepted and the next statement fails: {type(e).__name__}: {e}"[:200]))
                continue
            if model_ok and isinstance(off, tuple):
                local = FrozenDT.FIXED.replace(tzinfo=None) + _dt.timedelta(minutes=off[1])
                want = (local.strftime("%Y-%m-%d %H:%M:%S"), local.strftime("%Y-%m-%d"), local.strftime("%H:%M:%S"), local.strftime("%Y-%m-%d %H:%M:%S"))
                if got != want:
                    problems.append(dict(problem=f"time_zone {z!r}: NOW()/CURDATE()/CURTIME() = {got!r}, expected {want!r}"))
                # the zone takes effect wherever it is in force: for the statements behind the SET in the same text, and for
                # the one statement a SET_VAR hint is attached to (and for that one only)
                utc = FrozenDT.FIXED.replace(tzinfo=None)
                want_utc = (utc.strftime("%Y-%m-%d %H:%M:%S"), utc.strftime("%Y-%m-%d"), utc.strftime("%H:%M:%S"), utc.strftime("%Y-%m-%d %H:%M:%S"))
                for how, texts in (("in the same text as its SET", ["SET time_zone = '%s'; SELECT NOW(), CURDATE(), CURTIME(), CURRENT_TIMESTAMP()" % z]),
                                   ("under a SET_VAR hint", ["SELECT /*+ SET_VAR(time_zone='%s') */ NOW(), CURDATE(), CURTIME(), CURRENT_TIMESTAMP()" % z,
                                                             "SELECT NOW(), CURDATE(), CURTIME(), CURRENT_TIMESTAMP()"])):
                    s2 = VSession(); s2._connection = FakeConn()
                    try:
                        rs = [tuple(loop.run_until_complete(s2.handle_query(t, {}))[0][0]) for t in texts]
                    except Exception as e:  # noqa
                        problems.append(dict(problem=f"time_zone {z!r} {how}: {type(e).__name__}: {e}"[:200]))
                        continue
                    if rs[0] != want:
                        problems.append(dict(problem=f"time_zone {z!r} {how}: NOW()/CURDATE()/CURTIME() = {rs[0]!r}, expected {want!r}", sql=texts[0]))
                    if len(rs) > 1 and rs[1] != want_utc:
                        problems.append(dict(problem=f"after a statement hinted with time_zone {z!r}: NOW()/CURDATE()/CURTIME() = {rs[1]!r}, expected {want_utc!r}"))
    finally:
        msession.datetime = old
    return problems, dis, len(zones)


def quoted_bool_probe(loop):
    """coerced to the variable's type: the words ON / OFF / TRUE / FALSE / 1 / 0 given as a string to a boolean variable mean
    what they say (MySQL's own reading; Python's bool('OFF') is True) - by SET and by a SET_VAR hint; another string is
    refused and changes nothing"""
    from mysql_mimic.variables import SessionVariables, GlobalVariables
    names = [n for n, (t, _d, dyn) in SessionVariables(GlobalVariables()).schema.items() if t is bool and dyn][:4]
    n = 0
    for name in names:
        for word, want in (("OFF", False), ("off", False), ("0", False), ("false", False), ("ON", True), ("On", True), ("1", True), ("TRUE", True)):
            for how in ("set", "hint"):
                sess = VSession(); sess._connection = FakeConn()
                try:
                    loop.run_until_complete(sess.handle_query(f"SET {name} = {0 if want else 1}", {}))
                    if how == "set":
                        loop.run_until_complete(sess.handle_query(f"SET {name} = '{word}'", {}))
                        r = loop.run_until_complete(sess.handle_query(f"SELECT @@{name}", {}))
                    else:
                        r = loop.run_until_complete(sess.handle_query(f"SELECT /*+ SET_VAR({name}='{word}') */ @@{name}", {}))
                    got = r[0][0][0]
                except Exception as e:  # noqa
                    return dict(problem=f"SET {name} = '{word}' ({how}): {type(e).__name__}: {e}"[:200]), n
                n += 1
                if bool(got) != want or not isinstance(got, (bool, int)):
                    return dict(problem=f"{name} assigned the string '{word}' by {how} reads {got!r}: coerced to the variable's type it is {want}",
                                sql=f"SET {name} = '{word}'"), n
        sess = VSession(); sess._connection = FakeConn()
        before = sess.variables.get(name)
        try:
            loop.run_until_complete(sess.handle_query(f"SET {name} = 'maybe'", {}))
            accepted = True
        except Exception:  # noqa
            accepted = False
        n += 1
        if accepted or sess.variables.get(name) != before:
            return dict(problem=f"SET {name} = 'maybe' was {'accepted' if accepted else 'refused'} and {name} reads {sess.variables.get(name)!r}"), n
    return None, n


def global_scope_probe(loop):
    """scoped: a statement that addresses the GLOBAL scope never changes what the SESSION reads - whether it is refused (as every
    GLOBAL assignment is here) or not; SET GLOBAL TRANSACTION is one of the spellings"""
    n = 0
    for sql, names in (("SET GLOBAL TRANSACTION READ ONLY, ISOLATION LEVEL SERIALIZABLE", ["transaction_read_only", "transaction_isolation"]),
                       ("SET GLOBAL TRANSACTION ISOLATION LEVEL READ COMMITTED", ["transaction_isolation"]),
                       ("SET GLOBAL transaction_isolation = 'SERIALIZABLE'", ["transaction_isolation"]),
                       ("SET @@global.autocommit = 0", ["autocommit"])):
        sess = VSession(); sess._connection = FakeConn()
        loop.run_until_complete(sess.handle_query("SET SESSION TRANSACTION ISOLATION LEVEL REPEATABLE READ, READ WRITE", {}))
        before = [sess.variables.get(x) for x in names]
        try:
            loop.run_until_complete(sess.handle_query(sql, {}))
            outcome = "accepted"
        except Exception:  # noqa
            outcome = "refused"
        n += 1
        after = [sess.variables.get(x) for x in names]
        if after != before:
            return dict(problem=f"a statement addressing the GLOBAL scope ({outcome}) changed what the session reads", sql=sql,
                        session_before=repr(dict(zip(names, before))), session_after=repr(dict(zip(names, after)))), n
    return None, n


def custom_schema_defaults(loop):
    from mysql_mimic.variables import GlobalVariables, SessionVariables
    custom = dict(SYSTEM_VARIABLES)
    changed = dict(character_set_client="latin1", character_set_connection="latin1", character_set_results="latin1",
                   collation_connection="latin1_swedish_ci", sql_mode="TRADITIONAL", character_set_database="latin1", time_zone="+02:00")
    for k, v in changed.items():
        t, _d, dyn = custom[k]
        custom[k] = (t, v, dyn)

    class CS(Session):
        async def query(self, expression, sql, attrs):
            return [(1,)], ["c"]

    n = 0
    programs = [
        (["SET NAMES big5", "SET NAMES DEFAULT"], ["character_set_client", "character_set_connection", "character_set_results", "collation_connection"]),
        (["SET NAMES big5", "SET CHARACTER SET DEFAULT"], ["character_set_client", "character_set_results"]),
        (["SET NAMES DEFAULT"], ["character_set_client", "character_set_connection", "character_set_results", "collation_connection"]),
        (["SET sql_mode = 'ANSI'", "SET sql_mode = DEFAULT"], ["sql_mode"]),
        (["SET time_zone = '+09:00'", "SET @@session.time_zone = DEFAULT"], ["time_zone"]),
        (["SET character_set_results = 'big5', character_set_client = 'big5'", "SET character_set_results = DEFAULT, character_set_client = DEFAULT"],
         ["character_set_results", "character_set_client"]),
        (["SET NAMES big5 COLLATE big5_chinese_ci", "SET NAMES DEFAULT"], ["collation_connection", "character_set_connection"]),
    ]
    for stmts, names in programs:
        sess = CS(SessionVariables(GlobalVariables(custom)))
        try:
            for q in stmts:
                loop.run_until_complete(sess.handle_query(q, {}))
            n += 1
            got = {k: sess.variables.get(k) for k in names}
            shown = dict(loop.run_until_complete(sess.handle_query("SHOW VARIABLES", {}))[0])
        except Exception as e:  # noqa
            return dict(program=stmts, problem="a statement failed on a session with a custom variable schema", error=repr(e)[:200]), n
        want = {k: changed[k] for k in names}
        if got != want or any(str(shown.get(k)) != str(want[k]) for k in names):
            return dict(program=stmts, problem="DEFAULT did not restore this session's schema default", schema_defaults=want, read_back=got,
                        show_variables={k: shown.get(k) for k in names}), n
    return None, n


def handshake_version(rng):
    """the version the handshake announces is the version variable"""
    env = impl.Env(own_sleep=False)
    try:
        class SS(impl.Session):
            pass
        srv = impl.make_server(env, SS)
        c = impl.Conn(env, srv, cid=0)
        env.settle()
        pk = cl.split_raw(c.take())
        hs = cl.parse_handshake_v10(pk[0][1])
        c.eof()
        return hs
    finally:
        env.close()


def run(ctx: core.Ctx):
    rng = ctx.rng
    pr = core.check_proofs(ctx, "Props/C14", headers=[HEADER])
    loop = asyncio.new_event_loop()
    witness, disagreements = None, []
    nprog = 60 if ctx.quick else 450
    programs, results = [], []
    kinds = {}
    try:
        # a deterministic prefix: the assignments the server itself depends on, then random programs
        fixed = [
            [dict(kind="set", sql="SET time_zone = 'garbage'", term=f"(OSet [IVar false ScSession {S('time_zone')} (RVal (VStr {S('garbage')}))])")],
            [dict(kind="set", sql="SET character_set_results = 'nonsense'", term=f"(OSet [IVar false ScSession {S('character_set_results')} (RVal (VStr {S('nonsense')}))])")],
            [dict(kind="set", sql="SET character_set_client = 'ucs2'", term=f"(OSet [IVar false ScSession {S('character_set_client')} (RVal (VStr {S('ucs2')}))])")],
            [dict(kind="set", sql="SET NAMES koi8r", term=f"(OSet [INames (Some {S('koi8r')}) None])")],
            [dict(kind="set", sql="SET time_zone = '+25:00'", term=f"(OSet [IVar false ScSession {S('time_zone')} (RVal (VStr {S('+25:00')}))])")],
            [dict(kind="hint-get", sql="SELECT /*+ SET_VAR(sql_mode = 'H') SET_VAR(version = '9') */ @@sql_mode", names=["sql_mode"],
                  term=f"(OHinted [[[({S('sql_mode')}, RVal (VStr {S('H')}))]; [({S('version')}, RVal (VStr {S('9')}))]]] (InGet [{S('sql_mode')}]))")],
        ]
        # one item that assigns several variables and fails at the last one: SET CHARACTER SET copies character_set_database
        # (free-form, accepted) into the validated character_set_connection
        for kw, cs in (("CHARACTER SET", "latin1"), ("CHARSET", "utf8mb4")):
            fixed.append([dict(kind="set", sql="SET character_set_database = 'nonsense'",
                               term=f"(OSet [IVar false ScSession {S('character_set_database')} (RVal (VStr {S('nonsense')}))])"),
                          dict(kind="set", sql=f"SET {kw} {cs}", term=f"(OSet [ICharset (Some {S(cs)})])"),
                          dict(kind="set", sql=f"SET sql_mode = 'x', {kw} {cs}" if False else f"SET {kw} '{cs}'", term=f"(OSet [ICharset (Some {S(cs)})])")])
        # a refused SET whose value is a subquery carrying SET_VAR hints: the hints are scoped to the (refused) statement, the refusal
        # rolls the store back - the two mechanisms meet
        fixed.append([dict(kind="set", sql="SET sql_mode = 'STRICT', max_execution_time = 3",
                           term=f"(OSet [IVar false ScSession {S('sql_mode')} (RVal (VStr {S('STRICT')})); IVar false ScSession {S('max_execution_time')} (RVal (VInt 3%Z))])"),
                      dict(kind="set", sql="SET wait_timeout = (SELECT /*+ SET_VAR(sql_mode='LEAK') SET_VAR(max_execution_time=7) */ 1)",
                           term=f"(OSet [IVar false ScSession {S('wait_timeout')} RComplex])"),
                      dict(kind="set", sql="SET autocommit = 0, net_write_timeout = (SELECT /*+ SET_VAR(time_zone='+05:00') */ 1)",
                           term=f"(OSet [IVar false ScSession {S('autocommit')} (RVal (VInt 0%Z)); IVar false ScSession {S('net_write_timeout')} RComplex])")])
        for ro_name in READONLY:
            for rhs_sql, rhs_term in (("DEFAULT", "RDefault"), ("NULL", "(RVal VNone)"), ("'x'", f"(RVal (VStr {S('x')}))")):
                fixed.append([dict(kind="set", sql=f"SET {ro_name} = {rhs_sql}", term=f"(OSet [IVar false ScSession {S(ro_name)} {rhs_term}])"),
                              dict(kind="set", sql=f"SET @@session.{ro_name.upper()} = {rhs_sql}, sql_mode = 'after'",
                                   term=f"(OSet [IVar false ScSession {S(ro_name.upper())} {rhs_term}; IVar false ScSession {S('sql_mode')} (RVal (VStr {S('after')}))])")])
        for p in fixed:
            programs.append(p)
        for _ in range(nprog):
            programs.append([gen_op(rng) for _ in range(rng.choice([3, 6, 10]))])
        for p in programs:
            res = run_program(loop, p)
            results.append(res)
            for op in p[:len(res)]:
                kinds[op["kind"]] = kinds.get(op["kind"], 0) + 1
            for (oc, after, show, problem), op in zip(res, p):
                if problem and witness is None:
                    witness = dict(kind="variables", program=[o["sql"] for o in p[:len(res)]], **problem)
        ctx.evals += sum(len(r) for r in results)

        # ---- the model on the same programs: outcome of every op, then every variable read back both ways ----------
        allnames = core.coq_list([S(n) for n in NAMES])
        terms = []
        for p, res in zip(programs, results):
            ops = [f"(OServerSet {S('external_user')} (SVal (VStr {S(LOGIN)})) true)"]
            for op in p[:len(res)]:
                ops += [op["term"], f"(OGet {allnames})", "OShow"]
            terms.append("snd (runm " + core.coq_list(ops) + ")")
        model_ok = pr["ok"] or not any("FactsVars" in b or "Vars" in b for b in (ctx.proof or {}).get("failed", []))
        model = None
        try:
            model = core.run_coq_terms(ctx, "c14m", HEADER, terms, shard=12)
        except Exception as e:  # noqa
            model_ok = False
            disagreements.append(dict(kind="model-not-evaluable", error=str(e)[-600:]))
        if model is not None:
            for p, res, m in zip(programs, results, model):
                for j, (oc, after, show, problem) in enumerate(res):
                    mo, mget, mshow = model_outcome(m[1 + 3 * j]), m[2 + 3 * j], m[3 + 3 * j]
                    io = oc[:2] if oc[0] == "Failed" else oc
                    if io[0] == "Values":
                        io = ("Values", [norm_val(v) for v in io[1]])
                    if mo[0] == "Values":
                        mo = ("Values", [norm_val(v) for v in mo[1]])
                    if p[j]["kind"] == "hint-app" and oc[0] == "Values" and not p[j].get("ok", True):
                        pass
                    if io != mo:
                        disagreements.append(dict(kind="outcome", sql=p[j]["sql"], impl=repr(oc)[:200], model=repr(mo)[:200], program=[o["sql"] for o in p[:j + 1]]))
                        break
                    want = [norm_val(to_model_value(after[n])) for n in NAMES]
                    gotm = [norm_val(v) for v in mget[1]] if isinstance(mget, tuple) and mget[0] == "Values" else mget
                    if want != gotm:
                        d = [(n, a, b) for n, a, b in zip(NAMES, want, gotm if isinstance(gotm, list) else [None] * len(NAMES)) if a != b]
                        disagreements.append(dict(kind="store", sql=p[j]["sql"], differs=repr(d)[:300], program=[o["sql"] for o in p[:j + 1]]))
                        break
                    ms = [(bytes_to_str(k), None if v == "None" else bytes_to_str(v[1])) for k, v in mshow[1]]
                    if isinstance(show, list) and ms != show:
                        disagreements.append(dict(kind="show-variables", sql=p[j]["sql"], impl=repr(show)[:200], model=repr(ms)[:200]))
                        break
        # ---- time zones and the handshake ---------------------------------------------------------------------------
        tzp, tzd, ntz = timezone_check(ctx, loop, model is not None)
        ctx.evals += ntz
        disagreements += tzd
        if tzp and witness is None:
            witness = dict(kind="time_zone", **tzp[0])
        # ---- an application that brings its own variable schema (other defaults): DEFAULT is THIS session's default, in every
        #      spelling - SET x = DEFAULT, SET NAMES DEFAULT, SET CHARACTER SET DEFAULT, SET_VAR(x = DEFAULT) - and SHOW VARIABLES
        #      / @@x read it back
        gs, ngs = global_scope_probe(loop)
        ctx.evals += ngs
        if gs and witness is None:
            witness = dict(kind="global-scope", **gs)
        qb, nqb = quoted_bool_probe(loop)
        ctx.evals += nqb
        if qb and witness is None:
            witness = dict(kind="quoted-boolean", **qb)
        cw = custom_schema_defaults(loop)
        ctx.evals += cw[1]
        if cw[0] and witness is None:
            witness = dict(kind="custom-schema-defaults", **cw[0])
        hs = handshake_version(rng)
        ctx.evals += 1
        announced = hs.get("version") if isinstance(hs, dict) else None
        if announced is not None and announced != SYSTEM_VARIABLES["version"][1].encode() and announced != SYSTEM_VARIABLES["version"][1]:
            witness = witness or dict(kind="handshake-version", announced=repr(announced), variable=SYSTEM_VARIABLES["version"][1])
    finally:
        loop.close()

    if witness is not None:
        core.report_violation(ctx, "the variable store can be corrupted / does not behave as a typed, scoped store", witness)
    if (not pr["ok"] or disagreements) and not ctx.violations:
        core.report_violation(ctx, "proof obligation or model/implementation correspondence no longer checks",
                              dict(kind="unproved", broken=core.proof_failure_summary(ctx), disagreements=disagreements[:3]),
                              no_input=True)
    if not ctx.quick and pr["ok"]:
        core.coqchk(ctx, "Props/C14")
    quoted_bool = sum(1 for p in programs for o in p if o["kind"] == "set" and "autocommit = 'OFF'" in o["sql"])
    core.write_evidence(
        ctx,
        rule="programs of 3-10 statements through the real Session.handle_query: SET in every spelling (bare / SESSION / LOCAL / @@ / "
             "@@session. / @@local. / GLOBAL / @@global. / PERSIST / PERSIST_ONLY / user variables, multi-assignment, upper / mixed case "
             "names, values TRUE/FALSE/ON/OFF/ints/strings incl. numeric, spaced, signed, non-ASCII and quoted-quote strings/floats/NULL/"
             "DEFAULT/@@other/complex expressions), SET NAMES [COLLATE], SET CHARACTER SET / CHARSET, SET [SESSION] TRANSACTION, reads, "
             "SET_VAR hints (several calls, several assignments, nested three deep, on FROM-less reads, on application SELECT / INSERT / "
             "UPDATE / DELETE that succeed or fail, naming unknown and read-only variables, wrongly typed values); after EVERY statement "
             "every variable is read back (variables.get and SHOW VARIABLES) and compared with Model/Vars.v run on the same op list; "
             "oracles on the implementation alone: hint scoping, read-only variables, typing, the session still answers SELECT 1 and its "
             "character sets exist; NOW()/CURDATE()/CURTIME() with a frozen clock against parse_tz of the model; the handshake's version. "
             "distinct = programs",
        samples=[dict(program=[o["sql"] for o in programs[len(fixed)][:6]])], distinct=len(programs),
        extra=dict(programs=len(programs), statements=sum(len(r) for r in results), statement_kinds=kinds, disagreements=len(disagreements),
                   observation="SET autocommit = 'OFF' (quoted) stores False since /repo's _to_bool (before: bool('OFF') is True); "
                               "quoted_bool_probe states it as an oracle, Model/Vars.v to_bool transcribes it"),
        assumptions=["SQL text -> statement structure is sqlglot's parser plus setitem_kind / expression_to_value: exercised by every "
                     "spelling, not modelled", "strftime and datetime.timezone are CPython's", "float values carry repr() text",
                     "which character sets have a codec is read from CPython's codec registry by the translator"],
    )


def bytes_to_str(cps):
    return "".join(chr(c) for c in cps)
