"""C09 - KILL QUERY spares the connection; KILL CONNECTION ends exactly the target."""
from __future__ import annotations

import core
import lockstep as ls
from lockstep import grammar_terms

HEADER = ls.HEADER_RESP


def reference_script(depeof):
    """a target program covering every command kind; each entry acts only if applicable at that moment"""
    S = []
    A = S.append
    A(lambda d: d.handshake(True, depeof))
    A(lambda d: d.blocked() == "app" and d.decide("ASuccess"))
    A(lambda d: d.blocked() == "app" and d.app_result("void"))
    def cmd(c):
        A(lambda d: d.blocked() == "read" and d.payload(c))
    def app(*a, **k):
        A(lambda d: d.blocked() == "app" and d.app_result(*a, **k))
    def ticks(n):
        for _ in range(n):
            A(lambda d: (d.blocked() == "row" and d.simple("EvRowReady")) or (d.blocked() == "sleep" and d.simple("EvTick"))
                        or (d.blocked() == "drain" and d.simple("EvResume")))
    cmd(("ping",))
    cmd(("query",)); app("set", ncols=2, items=[("row", 1), ("suspend",), ("row", 2), ("row", 3), ("row", 1), ("row", 1)], asynchronous=True); ticks(4)
    cmd(("query",)); app("none")
    cmd(("initdb",)); app("void")
    cmd(("prepare", 2))
    cmd(("longdata", 0))
    cmd(("execute", 0, False)); app("set", ncols=1, items=[("row", 1), ("row", 2), ("row", 1)]); ticks(3)
    cmd(("execute", 0, True)); app("set", ncols=1, items=[("row", 1), ("row", 2), ("suspend",), ("row", 3), ("row", 1), ("row", 1)], asynchronous=True)
    A(lambda d: d.simple("EvPause"))
    cmd(("fetch", 0, 2)); ticks(3)
    A(lambda d: d.simple("EvResume"))
    cmd(("fetch", 0, 9)); ticks(3)
    cmd(("reset", 0)); app("void")
    cmd(("fieldlist",)); app("set", ncols=1, items=[("row", 1), ("row", 2)])
    cmd(("changeuser",))
    A(lambda d: d.blocked() == "app" and d.decide("AMore"))
    A(lambda d: d.blocked() == "read" and ls._awaiting_auth_reply(d) and d.auth_reply("ASuccess"))
    app("void")
    cmd(("close", 0))
    cmd(("unknown", True))
    A(lambda d: d.simple("EvPause"))
    cmd(("query",)); app("set", ncols=1, items=[("row", 1), ("row", 1)]);
    A(lambda d: d.simple("EvResume"))
    cmd(("resetconn",))
    # a statement that fails while the socket is not accepting data: its ERR waits in drain()
    A(lambda d: d.simple("EvPause"))
    cmd(("query",)); app("raise", raise_code=1064)
    A(lambda d: d.simple("EvResume"))
    A(lambda d: d.simple("EvPause"))
    cmd(("unknown", True))
    A(lambda d: d.simple("EvResume"))
    cmd(("ping",))
    return S


def finish(d):
    """let whatever is pending complete, then PING and QUIT"""
    for _ in range(40):
        b = d.blocked()
        if b == "done":
            return
        if d.writer.paused:
            d.simple("EvResume")
        elif b == "app":
            last = None
            for ob in reversed(d.obs):
                calls = [o[1] for o in ob[0] if isinstance(o, tuple) and o[0] == "OSess"]
                if calls:
                    last = calls[-1]
                    break
            if last == "get_user":
                d.decide("ASuccess")
            elif last == "query":
                d.app_result("none")
            else:
                d.app_result("void")
        elif b == "row":
            d.simple("EvRowReady")
        elif b == "sleep":
            d.simple("EvTick")
        elif b == "drain":
            d.simple("EvResume")
        elif b == "read":
            if ls._awaiting_auth_reply(d) and not d.cmds[-1:] == [("ping",)]:
                d.auth_reply("ASuccess")
                continue
            break
    if any(e == "EvKill KC" for e in d.events):
        return      # a killed connection must end by itself: no PING / QUIT that would end it anyway
    if d.blocked() == "read":
        d.payload(("ping",))
    if d.blocked() == "read":
        d.payload(("quit",))
    for _ in range(5):
        if d.blocked() == "app":
            d.app_result("void")


def run_with_kills(rng, depeof, placements, batch=None):
    """placements: {script position: [kill kinds]} injected BEFORE the script entry at that position"""
    d = ls.Driver(rng, batch=batch)
    S = reference_script(depeof)
    for i, act in enumerate(S + [None]):
        for k in placements.get(i, []):
            if d.blocked() != "done":
                d.kill(k, selfkill=False)
        if act is not None and d.blocked() != "done":
            act(d)
    finish(d)
    d.close()
    return d


def kill_oracle(d: ls.Driver):
    """the property on the implementation trace"""
    sess = [o[1] for ob in [d.boot_obs] + d.obs for o in ob[0] if isinstance(o, tuple) and o[0] == "OSess"]
    inited = False
    for ev, ob in zip(d.events, d.obs):
        pass
    # session.init returned iff an 'init' call was followed by a step that did not end the connection
    n_init = sess.count("init")
    n_close = sess.count("close")
    kc = [i for i, e in enumerate(d.events) if e == "EvKill KC"]
    kq = [i for i, e in enumerate(d.events) if e == "EvKill KQ"]
    for i in kq:
        before = d.obs[i - 1][1] if i > 0 else d.boot_obs[1]
        after = d.obs[i][1]
        prior_kc = any(j < i for j in kc)
        if before != "done" and after == "done" and not prior_kc and not d.writer.fail:
            return dict(problem="KILL QUERY terminated the connection", at_event=i, blocked_before=before, events=d.events[max(0, i - 6): i + 1])
    # without a KILL CONNECTION, a disconnect or QUIT, the session must never be closed: a KILL QUERY only aborts a statement
    enders = [i for i, (e, c) in enumerate(zip(d.events, d.cmds)) if e in ("EvKill KC", "EvEof", "EvSockFail") or e.startswith("EvEofMid")
              or e == "EvBadSeq" or (c is not None and c[0] == "quit") or e.split()[-1] in ("ANoUser", "AForbidden", "ARaise")
              or e.startswith("EvHandshake false")]
    first_end = enders[0] if enders else len(d.events)
    for i, ob in enumerate(d.obs[:first_end]):
        if any(isinstance(o, tuple) and o[0] == "OSess" and o[1] == "close" for o in ob[0]) or ob[1] == "done":
            last_kq = max([j for j in kq if j <= i], default=None)
            if last_kq is not None:
                return dict(problem="KILL QUERY ended the connection (session.close called / task finished)", at_event=last_kq,
                            blocked_before=(d.obs[last_kq - 1][1] if last_kq else d.boot_obs[1]),
                            events=[e[:60] for e in d.events[max(0, last_kq - 6): i + 1]])
    if kc:
        i = kc[0]
        # the connection must end (once pending application calls of the shutdown path are resolved)
        if d.blocked() != "done":
            return dict(problem="KILL CONNECTION did not terminate the connection", at_event=i, events=d.events[max(0, i - 6): i + 3], final=d.blocked())
        if n_close > 1:
            return dict(problem="session closed more than once", closes=n_close)
    if not kc and d.blocked() != "done":
        return dict(problem="connection unusable after KILL QUERY (PING / QUIT not served)", final=d.blocked(), events=d.events[-8:])
    if not kc:
        # the follow-up PING was answered with OK
        for ev, ob, cmd in zip(d.events, d.obs, d.cmds):
            pass
    return None


def statement_kills(ctx):
    """KILL issued as a STATEMENT through the real Session: KILL QUERY of the issuing connection itself is a no-op for it - one
    OK, and whatever it sends next (also pipelined behind the KILL) is answered normally; KILL QUERY / CONNECTION of another
    connection reach that connection before the issuer's OK is final."""
    import client as cl
    import impl
    problems = []
    for scenario in ("self-plain", "self-drain-pending", "self-pipelined", "other-query", "other-connection"):
        env = impl.Env(own_sleep=False)
        try:
            class S(impl.Session):
                async def query(self, e, sql, attrs):
                    await env.fut(("app", 0))
                    return [(7,)], ["a"]

            srv = impl.make_server(env, S)
            a = impl.Conn(env, srv, cid=0); env.settle()
            aid = cl.parse_handshake_v10(cl.split_raw(a.take())[0][1])["thread_id"]
            a.feed(cl.frame(cl.handshake_response(user=b"u"), 1)); a.take()
            b = impl.Conn(env, srv, cid=1); env.settle()
            bid = cl.parse_handshake_v10(cl.split_raw(b.take())[0][1])["thread_id"]
            b.feed(cl.frame(cl.handshake_response(user=b"u"), 1)); b.take()
            ctx.evals += 1
            kinds = lambda raw: [cl.kind_of(p, cl.BASE_CAPS) for _, p in cl.split_raw(raw)]   # noqa: E731
            if scenario == "self-plain":
                a.feed(cl.frame(bytes([cl.COM_QUERY]) + b"KILL QUERY %d" % aid, 0))
                got = kinds(a.take())
                a.feed(cl.frame(bytes([cl.COM_PING]), 0)); got2 = kinds(a.take())
                if got != ["OK"] or got2 != ["OK"]:
                    problems.append(dict(scenario=scenario, reply_to_kill=got, reply_to_ping=got2))
            elif scenario == "self-drain-pending":
                a.writer.paused = True
                a.feed(cl.frame(bytes([cl.COM_QUERY]) + b"KILL QUERY %d" % aid, 0))
                env.settle()
                a.writer.paused = False
                if ("drain", 0) in env.pending:
                    env.resolve(("drain", 0), None)
                env.settle()
                got = kinds(a.take())
                a.feed(cl.frame(bytes([cl.COM_PING]), 0)); got2 = kinds(a.take())
                if got != ["OK"] or got2 != ["OK"]:
                    problems.append(dict(scenario=scenario, reply_to_kill=got, reply_to_ping=got2))
            elif scenario == "self-pipelined":
                a.feed(cl.frame(bytes([cl.COM_QUERY]) + b"KILL QUERY %d" % aid, 0) + cl.frame(bytes([cl.COM_QUERY]) + b"SELECT a FROM t", 0))
                env.settle()
                if ("app", 0) in env.pending:
                    env.resolve(("app", 0), None)
                env.settle()
                raw = cl.split_raw(a.take())
                got = [cl.kind_of(p, cl.BASE_CAPS) for _, p in raw]
                if got[:1] != ["OK"] or "ERR" in got or len(got) < 4:
                    problems.append(dict(scenario=scenario, replies=got))
            else:
                a.feed(cl.frame(bytes([cl.COM_QUERY]) + b"SELECT a FROM t", 0))       # A is inside the application
                b.feed(cl.frame(bytes([cl.COM_QUERY]) + (b"KILL QUERY %d" if scenario == "other-query" else b"KILL %d") % aid, 0))
                gotb = kinds(b.take())
                gota = kinds(a.take())
                alive = a.blocked_on() != "done"
                if gotb != ["OK"] or gota != ["ERR"] or alive != (scenario == "other-query"):
                    problems.append(dict(scenario=scenario, issuer=gotb, target=gota, target_alive=alive))
            a.eof(); b.eof()
        finally:
            env.close()
    return problems


def kill_histories(ctx):
    """Kills through the real LocalControl registry with a HISTORY on the target: earlier KILL QUERYs (on an idle target, on one
    inside the application), statements in between, then KILL CONNECTION - by statement from another connection or through the
    Control API.  The last kill must end the target: task finished, socket closed, session closed exactly once, registry entry
    gone; every KILL statement is answered with one OK; an earlier KILL QUERY leaves the target in service."""
    import client as cl
    import impl
    from mysql_mimic.control import KillKind
    problems = []
    histories = [[], ["kq-idle"], ["kq-idle", "query"], ["kq-app", "query"], ["kq-idle", "kq-idle"], ["query", "kq-idle", "ping"], ["kq-app"]]
    for hist in histories:
        for final in ("statement", "api", "statement-in-app"):
            env = impl.Env(own_sleep=False)
            try:
                closes = []

                class S(impl.Session):
                    async def query(self, e, sql, attrs):
                        await env.fut(("app", 0))
                        return [(7,)], ["a"]

                    async def close(self):
                        closes.append(self.connection.connection_id if getattr(self, "connection", None) else None)
                        await super().close()

                srv = impl.make_server(env, S)
                a = impl.Conn(env, srv, cid=0); env.settle()
                aid = cl.parse_handshake_v10(cl.split_raw(a.take())[0][1])["thread_id"]
                a.feed(cl.frame(cl.handshake_response(user=b"u"), 1)); a.take()
                b = impl.Conn(env, srv, cid=1); env.settle()
                b.take()
                b.feed(cl.frame(cl.handshake_response(user=b"u"), 1)); b.take()
                ctx.evals += 1
                kinds = lambda raw: [cl.kind_of(p, cl.BASE_CAPS) for _, p in cl.split_raw(raw)]   # noqa: E731
                where = dict(history=hist, final_kill=final)

                def run_query(expect_killed=False):
                    a.feed(cl.frame(bytes([cl.COM_QUERY]) + b"SELECT a FROM t", 0))
                    if not expect_killed:
                        if ("app", 0) in env.pending:
                            env.resolve(("app", 0), None)
                        env.settle()
                        got = kinds(a.take())
                        if "ERR" in got or len(got) < 4:
                            problems.append(dict(problem="a statement after KILL QUERY was not served normally", reply=got, **where))

                for h in hist:
                    if h == "kq-idle":
                        b.feed(cl.frame(bytes([cl.COM_QUERY]) + b"KILL QUERY %d" % aid, 0))
                        if kinds(b.take()) != ["OK"] or kinds(a.take()) != [] or a.blocked_on() != "read":
                            problems.append(dict(problem="KILL QUERY of an idle connection is not a no-op answered with OK", **where))
                    elif h == "kq-app":
                        run_query(expect_killed=True)
                        b.feed(cl.frame(bytes([cl.COM_QUERY]) + b"KILL QUERY %d" % aid, 0))
                        gb, ga = kinds(b.take()), kinds(a.take())
                        if gb != ["OK"] or ga != ["ERR"] or a.blocked_on() != "read":
                            problems.append(dict(problem="KILL QUERY of a running statement: not one OK / one ERR / target in service", issuer=gb, target=ga, **where))
                    elif h == "query":
                        run_query()
                    elif h == "ping":
                        a.feed(cl.frame(bytes([cl.COM_PING]), 0))
                        if kinds(a.take()) != ["OK"]:
                            problems.append(dict(problem="PING not answered after KILL QUERY", **where))
                if final == "statement-in-app":
                    run_query(expect_killed=True)
                if final == "api":
                    env.loop.run_until_complete(srv.control.kill(aid, KillKind.CONNECTION))
                    env.settle()
                else:
                    b.feed(cl.frame(bytes([cl.COM_QUERY]) + b"KILL %d" % aid, 0))
                    gb = kinds(b.take())
                    if gb != ["OK"]:
                        problems.append(dict(problem="KILL CONNECTION statement not answered with one OK", issuer=gb, **where))
                env.settle()
                ga = kinds(a.take())
                state = a.blocked_on()
                bad = []
                if state != "done":
                    bad.append(f"the target's task is still running (blocked on {state})")
                    a.feed(cl.frame(bytes([cl.COM_PING]), 0))
                    if kinds(a.take()) == ["OK"]:
                        bad.append("it goes on answering commands")
                if not a.writer.closed:
                    bad.append("its socket is not closed")
                if len(closes) != 1:
                    bad.append(f"its session was closed {len(closes)} time(s)")
                if aid in srv.control._connections:
                    bad.append("its registry entry remains")
                if ga.count("ERR") > 1 or any(k != "ERR" for k in ga):
                    bad.append(f"it was sent {ga} after the kill")
                if bad:
                    problems.append(dict(problem="KILL CONNECTION did not end the target: " + "; ".join(bad), **where))
                a.eof(); b.eof()
                env.settle()
                if srv.control._connections:
                    problems.append(dict(problem="registry not empty after both clients left", ids=list(srv.control._connections), **where))
            finally:
                env.close()
    return problems


def run(ctx: core.Ctx):
    rng = ctx.rng
    pr = core.check_proofs(ctx, "Props/C09", headers=[HEADER])
    drivers = []
    nscript = len(reference_script(False))
    # one kill (both kinds) at every position of the reference program
    for depeof in ((False, True) if not ctx.quick else (True,)):
        for i in range(nscript + 1):
            for k in ("KQ", "KC"):
                drivers.append(run_with_kills(rng, depeof, {i: [k]}, batch=2))
    # KILL QUERY immediately followed by KILL CONNECTION (and the reverse) at every position, in every tier
    for i in range(nscript + 1):
        for ks in (["KQ", "KC"], ["KC", "KQ"]):
            drivers.append(run_with_kills(rng, i % 2 == 0, {i: ks}, batch=2))
    single = len(drivers)
    # two kills at ordered pairs of positions
    pairs = [(i, j) for i in range(nscript + 1) for j in range(i, nscript + 1)]
    if ctx.quick:
        pairs = rng.sample(pairs, 200)
    for (i, j) in pairs:
        for k1, k2 in (("KQ", "KQ"), ("KQ", "KC"), ("KC", "KQ")) if not ctx.quick else (rng.choice([("KQ", "KQ"), ("KQ", "KC"), ("KC", "KQ")]),):
            pl = {i: [k1]}
            pl.setdefault(j, []).append(k2)
            drivers.append(run_with_kills(rng, rng.random() < 0.5, pl, batch=2))
    # random walks with kills (and pause/resume)
    for _ in range(150 if ctx.quick else 4000):
        d = ls.Driver(rng, batch=rng.choice([None, 2, 3]))
        ls.random_walk(rng, d, rng.choice([20, 40]), faults=False, kills=True, auth_variants=False, pauses=True)
        finish(d)
        d.close()
        drivers.append(d)
    terms = [ls.coq_term(d) for d in drivers]
    model = core.run_coq_terms(ctx, "c09t", HEADER, terms, shard=40)
    disagreements, witness = [], None
    where = {}
    for d, m in zip(drivers, model):
        c = ls.compare(d, m)
        if c:
            disagreements.append(c)
        for i, e in enumerate(d.events):
            if e.startswith("EvKill"):
                b = d.obs[i - 1][1] if i else d.boot_obs[1]
                where[(e, b)] = where.get((e, b), 0) + 1
        w = kill_oracle(d)
        if w and witness is None:
            witness = dict(kind="kill", **w)
    oterms, refs, w2 = grammar_terms(drivers)
    if w2 and witness is None:
        witness = w2
    oks = core.run_coq_terms(ctx, "c09o", HEADER, oterms, shard=500)
    failing = [(d, cmd, pk) for ok, (d, cmd, pk) in zip(oks, refs) if ok is not True]
    # a response that was already complete when the kill's ERR was appended is the recorded open finding
    known_terms = []
    for d, cmd, pk in failing:
        body = pk[:-1] if pk and pk[-1][1] == ("PErr", 3169) else pk
        rk = ls.RK.get(cmd[0], "RKOk") if cmd[0] != "execute" else f"(RKExecute {core.coq_bool(cmd[2])})"
        known_terms.append(f"accepts {core.coq_bool(d.depeof)} {rk} {core.coq_list([ls.coq_pkt(a) for _, a in body])}")
    complete_before = core.run_coq_terms(ctx, "c09k", HEADER, known_terms, shard=500) if known_terms else []
    n_known = 0
    for (d, cmd, pk), was_complete in zip(failing, complete_before):
        evs = [e for e in d.events if not e.startswith("EvApp (OSet")][:60]
        # the recorded finding is specific: every kill of this command arrived while the task waited in drain() behind the
        # terminal packet; a kill accepted anywhere else after the response was complete (e.g. inside a callback that
        # follows the OK of COM_CHANGE_USER) is a different violation and is reported
        kwhere = [x for x in cmd if isinstance(x, str) and x.startswith("@")]
        if cmd[-1] == "killed" and pk and pk[-1][1] == ("PErr", 3169) and was_complete is True and kwhere and all(w == "@drain" for w in kwhere):
            n_known += 1
            core.report_violation(ctx, "KILL QUERY after the terminal packet of a response was written (final drain / post-response "
                                  "callback pending) appends an ERR to a complete response",
                                  dict(kind="kill-after-terminal-packet", command=repr(cmd), packets=[repr(a) for _, a in pk][:20], events=evs),
                                  key="kill-after-terminal-packet")
        elif witness is None:
            witness = dict(kind="malformed-response-after-kill", command=repr(cmd), packets=[repr(a) for _, a in pk][:20], events=evs)
    ctx.coverage["known_finding_instances"] = n_known
    sk = statement_kills(ctx)
    if sk and witness is None:
        witness = dict(kind="kill-statement", problems=sk)
    kh = kill_histories(ctx)
    if kh and witness is None:
        witness = dict(kind="kill-with-history", problems=kh[:4])
    rsw = core.realsock_witness(core.realsock(ctx, ["kill_after_reset"]))     # KILL CONNECTION of a target whose client has reset the connection
    if rsw and witness is None:
        witness = rsw
    if witness is not None:
        core.report_violation(ctx, "a kill does more (or less) than the property allows", witness)
    if (not pr["ok"] or disagreements) and not ctx.violations:
        core.report_violation(ctx, "proof obligation or model/implementation correspondence no longer checks",
                              dict(kind="unproved", broken=core.proof_failure_summary(ctx), disagreements=disagreements[:3]),
                              no_input=True)
    if not ctx.quick and pr["ok"]:
        core.coqchk(ctx, "Props/C09")
    core.write_evidence(
        ctx,
        rule="reference program over every command kind (queries with async rows and cooperative yields at batch 2, prepared statements, "
             "cursor fetches under a paused socket, COM_CHANGE_USER with a more-data round trip, ...): one kill of either kind before "
             "every script position, two kills at ordered pairs of positions (all / sampled), random walks with kills and pause/resume; "
             "kills through the real LocalControl on targets with a history (KILL QUERY while idle / inside the application, statements "
             "in between, then KILL CONNECTION by statement or Control API) with the lifecycle oracle; "
             "kills go through Connection.kill at loop-iteration boundaries; every trace replayed on Model/Conn.v; oracles: KILL QUERY "
             "never ends the connection, KILL CONNECTION always does with at most one close, every response obeys Model/Resp.v, "
             "PING/QUIT served afterwards. distinct = traces",
        samples=[dict(events=[e[:50] for e in drivers[7].events[:14]])], distinct=len(drivers),
        extra=dict(single_kill_runs=single, traces=len(drivers), kills_by_blocking_point={f"{k[0]} at {k[1]}": v for k, v in sorted(where.items())},
                   disagreements=len(disagreements)),
        assumptions=["socket back-pressure is the fake writer's paused flag",
                     "kills issued through a KILL statement on another connection are exercised by C08/C18 (same Connection.kill)"],
    )
