"""C02 - A password proof is accepted iff it fits this connection's nonce and secret."""
from __future__ import annotations

import hashlib

import core
import client as cl
import impl

from mysql_mimic import utils as MU
from mysql_mimic.auth import (NativePasswordAuthPlugin, AbstractClearPasswordAuthPlugin, NoLoginAuthPlugin, IdentityProvider,
                              User, AuthInfo, Success, Forbidden)

HEADER = """From Coq Require Import List NArith.
From MM Require Import Lib.Bytes Lib.Sha1 Model.Parse Model.Auth.
Import ListNotations. Open Scope N_scope.
Definition opt_text (o : option (list N)) := o.
"""


def coq_opt_text(s):
    return "None" if s is None else f"(Some {core.coq_N_list(s.encode('latin1', 'replace'))})"


def gen_password(rng):
    return rng.choice(["pw", "s3cr3t", "päss wörd", "密码", "a" * 40, "x", "\U0001f511key"])


def responses_for(rng, pw, old, nonce, other_nonce, quick):
    exact = cl.native_scramble(pw.encode(), nonce)
    out = [("exact", exact), ("other-nonce", cl.native_scramble(pw.encode(), other_nonce)), ("empty", b""),
           ("junk-extended", exact + b"junk"), ("wrong-password", cl.native_scramble(b"wrong", nonce))]
    if old:
        out.append(("old-password", cl.native_scramble(old.encode(), nonce)))
    flips = range(160) if not quick else rng.sample(range(160), 24)
    for bit in flips:
        b = bytearray(exact)
        b[bit // 8] ^= 1 << (bit % 8)
        out.append((f"bitflip-{bit}", bytes(b)))
    for k in (range(20) if not quick else (0, 1, 10, 19)):
        out.append((f"truncated-{k}", exact[:k]))
    return out


def hex_ok(a):
    try:
        bytes.fromhex(a)
        return True
    except ValueError:
        return False


class IP(IdentityProvider):
    def __init__(self, users, plugins):
        self.users, self.plugins = users, plugins

    def get_plugins(self):
        return self.plugins

    async def get_user(self, username):
        return self.users.get(username)


def route_run(route, user, password_try, respond=None):
    """the four routes through the real Connection.authenticate; returns (accepted, session username).  respond(nonce), when
    given, computes the response sent for the target account instead of the scramble of password_try"""
    target_resp = (lambda nonce_: respond(nonce_)) if respond else (lambda nonce_: cl.native_scramble(password_try, nonce_))
    env = impl.Env(own_sleep=False)
    try:
        native = NativePasswordAuthPlugin()
        plugins = [native, NoLoginAuthPlugin()] if route in ("optimistic", "change-user-reuse") else [NoLoginAuthPlugin(), native]
        if route.startswith("clear-login"):
            class ClearP(AbstractClearPasswordAuthPlugin):
                name = "mysql_clear_password"

                async def check(self, username, password):
                    return username if password == "clearpw" else None
            plugins = [native, ClearP()]
        sess = []

        def factory():
            s = impl.ScriptSession(env, 0)
            sess.append(s)
            return s

        login = User(name="login", auth_string=NativePasswordAuthPlugin.create_auth_string("loginpw"), auth_plugin=native.name)
        clearuser = User(name="clearuser", auth_plugin="mysql_clear_password")
        srv = impl.make_server(env, factory, identity_provider=IP({"target": user, "login": login, "clearuser": clearuser}, plugins))
        c = impl.Conn(env, srv)
        env.settle()
        hs = cl.parse_handshake_v10(cl.reassemble(c.take())[0][1])
        nonce = hs["nonce"]

        def answer_exchange(pw, first_payload, seq, sc=None):
            sc = sc or (lambda nn: cl.native_scramble(pw, nn))
            c.feed(cl.frame(first_payload, seq))
            pk = cl.reassemble(c.take())
            seq += 2
            while pk and pk[-1][1][:1] == b"\xfe" and len(pk[-1][1]) > 9:       # auth switch request
                body = pk[-1][1]
                i = body.index(0, 1)
                new_nonce = body[i + 1:].rstrip(b"\0")
                if body[1:i] == b"mysql_clear_password":
                    c.feed(cl.frame(pw + b"\0", seq))
                else:
                    c.feed(cl.frame(sc(new_nonce), seq))
                pk = cl.reassemble(c.take())
                seq += 2
            return pk

        if route in ("optimistic", "switch"):
            resp = target_resp(nonce) if route == "optimistic" else b"whatever"
            # announcing another plugin forces the auth-switch round trip
            plugin = b"mysql_native_password" if route == "optimistic" else b"caching_sha2_password"
            pk = answer_exchange(password_try, cl.handshake_response(user=b"target", auth=resp, plugin=plugin), 1, target_resp)
        elif route.startswith("clear-login"):
            # log in through an auth switch to ANOTHER plugin (clear password), then COM_CHANGE_USER to the native account with
            # a scramble under the nonce the handshake issued (or, for the negative route, under the switch request's data)
            pk = answer_exchange(b"clearpw", cl.handshake_response(user=b"clearuser", auth=b"", plugin=b"mysql_native_password"), 1)
            if not pk or pk[-1][1][:1] != b"\x00":
                return None, None
            use = nonce if route == "clear-login-then-change-user-reuse" else b"0" * 20
            resp = target_resp(use)
            cu = bytes([cl.COM_CHANGE_USER]) + b"target\0" + bytes([len(resp)]) + resp + b"\0" + b"\x08\x00" + b"mysql_native_password\0"
            c.feed(cl.frame(cu, 0))
            pk = cl.reassemble(c.take())
        else:
            # log in as another user first, then COM_CHANGE_USER
            first = cl.native_scramble(b"loginpw", nonce) if route == "change-user-reuse" else b""
            pk = answer_exchange(b"loginpw", cl.handshake_response(user=b"login", auth=first,
                                 plugin=b"mysql_native_password" if route == "change-user-reuse" else b"caching_sha2_password"), 1)
            if not pk or pk[-1][1][:1] != b"\x00":
                return None, None
            resp = target_resp(nonce)
            cu_plugin = b"mysql_native_password" if route == "change-user-reuse" else b"caching_sha2_password"
            cu = bytes([cl.COM_CHANGE_USER]) + b"target\0" + bytes([len(resp)]) + resp + b"\0" + b"\x08\x00" + cu_plugin + b"\0"
            pk = answer_exchange(password_try, cu, 0, target_resp)
        ok = bool(pk) and pk[-1][1][:1] == b"\x00"
        return ok, (sess[0].username if sess else None)
    finally:
        env.close()


def replay_probe():
    """a complete, successful login conversation recorded on one connection and replayed byte for byte on another one must be
    refused - whatever plugin the server announces in its greeting (the account's, a clear-password plugin whose greeting data
    is a constant filler, no-login), whatever plugin the client names (the account's, another one, none)"""
    native = NativePasswordAuthPlugin()

    class ClearP(AbstractClearPasswordAuthPlugin):
        name = "corp_clear_password"

        async def check(self, username, password):
            return username if password == "clearpw" else None
    target = User(name="target", auth_string=NativePasswordAuthPlugin.create_auth_string("s3cret"), auth_plugin=native.name)
    n = 0
    for cfgname, plugins in (("native-default", [native, NoLoginAuthPlugin()]), ("clear-default", [ClearP(), native]), ("nologin-default", [NoLoginAuthPlugin(), native])):
        for announced in (b"mysql_native_password", b"caching_sha2_password", b""):
            recorded, outcomes, nonces = [], [], []
            for attempt in ("record", "replay"):
                env = impl.Env(own_sleep=False)
                try:
                    srv = impl.make_server(env, lambda: impl.ScriptSession(env, 0), identity_provider=IP({"target": target}, plugins))
                    c = impl.Conn(env, srv)
                    env.settle()
                    hs = cl.parse_handshake_v10(cl.reassemble(c.take())[0][1])
                    nonces.append(hs["nonce"])
                    if attempt == "record":
                        frames = [(cl.handshake_response(user=b"target", auth=cl.native_scramble(b"s3cret", hs["nonce"]), plugin=announced), 1)]
                    else:
                        frames = list(recorded)
                    pk, k = [], 0
                    while True:
                        if attempt == "record":
                            payload, seq = frames[-1]
                        else:
                            if k >= len(frames):
                                break
                            payload, seq = frames[k]
                        k += 1
                        if c.blocked_on() == "done":
                            break
                        c.feed(cl.frame(payload, seq))
                        pk = cl.reassemble(c.take())
                        if not pk or pk[-1][1][:1] in (b"\x00", b"\xff"):
                            break
                        if attempt == "record":
                            body = pk[-1][1]
                            if body[:1] == b"\xfe":                 # auth switch: plugin name, data
                                i = body.index(0, 1)
                                data = body[i + 1:].rstrip(b"\0")
                            else:                                     # more data
                                data = body[1:].rstrip(b"\0")
                            frames.append((cl.native_scramble(b"s3cret", data), (pk[-1][0] + 1) % 256))
                            if len(frames) > 4:
                                break
                    outcomes.append(bool(pk) and pk[-1][1][:1] == b"\x00")
                    if attempt == "record":
                        recorded = frames
                    n += 1
                finally:
                    env.close()
            if not outcomes[0]:
                return dict(kind="replay", problem="the right password was refused", greeting_plugin=cfgname, client_names=announced.decode()), n
            if outcomes[1]:
                return dict(kind="replay", problem="a login conversation recorded on one connection was accepted when replayed on another one",
                            greeting_plugin=cfgname, client_names=announced.decode(), client_frames=[p.hex()[:80] for p, _ in recorded],
                            greeting_data=[x.hex() for x in nonces]), n
    return None, n


def run(ctx: core.Ctx):
    rng = ctx.rng
    pr = core.check_proofs(ctx, "Props/C02", headers=[HEADER])
    disagreements, witness = [], None
    distinct = set()
    plugin = NativePasswordAuthPlugin()

    # ---- hashlib vs the Gallina SHA-1 (the model is RUN with it) and utils.xor vs xor_bytes -------------------
    msgs = [b"", b"abc", b"a" * 55, b"a" * 56, b"a" * 63, b"a" * 64, b"a" * 65, bytes(range(200))] + \
           [bytes(rng.randrange(256) for _ in range(rng.randint(0, 130))) for _ in range(10 if ctx.quick else 100)]
    got = core.run_coq_terms(ctx, "c02h", HEADER, [f"sha1 {core.coq_N_list(m)}" for m in msgs], shard=40)
    for m, g in zip(msgs, got):
        if bytes(g) != hashlib.sha1(m).digest():
            disagreements.append(dict(kind="sha1", msg=list(m)))
    xs = [(bytes(rng.randrange(256) for _ in range(rng.randint(0, 25))), bytes(rng.randrange(256) for _ in range(rng.randint(0, 25)))) for _ in range(40)]
    got = core.run_coq_terms(ctx, "c02x", HEADER, [f"xor_bytes {core.coq_N_list(a)} {core.coq_N_list(b)}" for a, b in xs])
    for (a, b), g in zip(xs, got):
        if bytes(g) != MU.xor(a, b):
            disagreements.append(dict(kind="xor", a=list(a), b=list(b), impl=list(MU.xor(a, b)), model=g))

    # ---- password_matches on (account, nonce, response) triples ------------------------------------------------
    cases = []
    for _ in range(12 if ctx.quick else 150):
        pw = gen_password(rng)
        old = gen_password(rng) if rng.random() < 0.5 else None
        kind = rng.random()
        auth = NativePasswordAuthPlugin.create_auth_string(pw)
        malformed = ["zz" + auth[2:], auth[:-1], auth.upper(), " " + auth, auth[:20] + " " + auth[20:], "0x" + auth, auth + "00", "*" + auth.upper(),
                     "not-a-hash", " ", "0", "g"]
        if len(cases) == 0:
            # every tier: each malformed shape of the stored hash, against every kind of response (incl. the empty one)
            nonce0 = bytes(rng.choice(MU.SAFE_NONCE_CHARS) for _ in range(20))
            for bad in malformed + [None, ""]:
                for label, resp in responses_for(rng, pw, old, nonce0, nonce0[::-1], True)[:6]:
                    cases.append((bad, None, nonce0, resp, label, pw))
        if kind < 0.12:
            auth = None
        elif kind < 0.2:
            auth = ""
        elif kind < 0.3:
            auth = rng.choice(malformed)
        oldauth = NativePasswordAuthPlugin.create_auth_string(old) if old else None
        nonce = bytes(rng.choice(MU.SAFE_NONCE_CHARS) for _ in range(20))
        other = bytes(rng.choice(MU.SAFE_NONCE_CHARS) for _ in range(20))
        for label, resp in responses_for(rng, pw, old, nonce, other, ctx.quick):
            cases.append((auth, oldauth, nonce, resp, label, pw))
    # accounts whose stored hash is the SHA-1 of a string shorter than a digest (nothing create_auth_string produces, but a
    # 40-digit hexadecimal auth_string like any other): the response "string XOR digest", as short as the string, is no scramble
    for short in (b"", b"abc", b"0123456789012345678"):
        auth = hashlib.sha1(short).hexdigest()
        nonce = bytes(rng.choice(MU.SAFE_NONCE_CHARS) for _ in range(20))
        d = hashlib.sha1(nonce + bytes.fromhex(auth)).digest()
        r = bytes(x ^ y for x, y in zip(short, d))
        cases.append((auth, None, nonce, r, "short-preimage", None))
        cases.append((None, auth, nonce, r, "short-preimage", None))
        cases.append((auth, None, nonce, r + d[len(short):], "short-preimage-padded", None))
    # responses whose last / first byte is zero, cut there (a client that treats the response as a C string sends these):
    # search nonces until the exact scramble ends (begins) with 0x00
    for pw in ("pw", "päss wörd"):
        auth = NativePasswordAuthPlugin.create_auth_string(pw)
        found = {"tail": None, "head": None}
        k = 0
        while (found["tail"] is None or found["head"] is None) and k < 20000:
            k += 1
            nonce = bytes(MU.SAFE_NONCE_CHARS[b % len(MU.SAFE_NONCE_CHARS)] for b in hashlib.sha256(b"n%d" % k).digest()[:20])
            ex = cl.native_scramble(pw.encode(), nonce)
            if ex[-1] == 0 and found["tail"] is None:
                found["tail"] = (nonce, ex)
            if ex[0] == 0 and found["head"] is None:
                found["head"] = (nonce, ex)
        for where, v in found.items():
            if v is None:
                continue
            nonce, ex = v
            cases.append((auth, None, nonce, ex, "exact", pw))
            cases.append((auth, None, nonce, ex[:-1] if where == "tail" else ex[1:], "truncated-zero-" + where, pw))
            cases.append((auth, None, nonce, ex.rstrip(b"\0") if where == "tail" else ex.lstrip(b"\0"), "truncated-zero-" + where, pw))
    terms = [f"password_matches sha1 (mk_user {coq_opt_text(a)} {coq_opt_text(o)}) {core.coq_N_list(r)} {core.coq_N_list(n)}"
             for a, o, n, r, _, _ in cases]
    model = core.run_coq_terms(ctx, "c02m", HEADER, terms, shard=60)
    labels = {}
    for (a, o, n, r, label, pw), m in zip(cases, model):
        u = User(name="u", auth_string=a, old_auth_string=o)
        got = bool(plugin.password_matches(user=u, scramble=r, nonce=n))
        distinct.add((a, o, n, r))
        k = label.split("-")[0]
        labels[k] = labels.get(k, 0) + 1
        if got != m:
            disagreements.append(dict(kind="password_matches", auth=a, old=o, nonce=list(n), response=list(r), label=label, impl=got, model=m))
        # the property itself, for well-formed accounts
        wellformed = pw is not None and a is not None and len(a) == 40 and a == NativePasswordAuthPlugin.create_auth_string(pw)
        if got and len(r) < 20 and not (r == b"" and a in (None, "")) and witness is None:
            # "only if its first 20 bytes are such a scramble": a response shorter than a scramble is none, whatever is stored
            witness = dict(kind="password_matches-short-response", auth=a, old=o, label=label, accepted=True, expected=False, nonce=list(n), response=list(r))
        if wellformed:
            should = label in ("exact", "junk-extended", "old-password")
            if label == "old-password" and o is None:
                should = False
            if label.startswith("bitflip") or label.startswith("truncated") or label in ("other-nonce", "wrong-password", "empty"):
                should = False
            if got != should and witness is None:
                witness = dict(kind="password_matches", label=label, accepted=got, expected=should, nonce=list(n), response=list(r))
        elif a not in (None, "") and o is None and got and witness is None and not hex_ok(a):
            # a stored hash that does not decode proves nothing about any password: no response may be accepted
            witness = dict(kind="password_matches-undecodable-account", auth=a, label=label, accepted=True, expected=False, nonce=list(n), response=list(r))

    # ---- nonces issued by the library ------------------------------------------------------------------------------
    seen = set()
    for _ in range(300 if ctx.quick else 5000):
        nn = MU.nonce(20)
        seen.add(nn)
        if len(nn) != 20 or 0 in nn or any(ch not in MU.SAFE_NONCE_CHARS for ch in nn):
            witness = witness or dict(kind="nonce", value=list(nn))
    ctx.evals += 300
    if len(seen) < 299:
        witness = witness or dict(kind="nonce-repeat", distinct=len(seen))

    # ---- the four routes through the real connection --------------------------------------------------------------
    routes = ["optimistic", "switch", "change-user-reuse", "change-user-switch", "clear-login-then-change-user-reuse"]
    nroute = 0
    for route in routes:
        for pw in (["pw", "päss wörd"] if ctx.quick else ["pw", "päss wörd", "密码", "a" * 40]):
            user = User(name="target", auth_string=NativePasswordAuthPlugin.create_auth_string(pw), auth_plugin="mysql_native_password")
            for attempt, should in ((pw.encode(), True), (b"wrong", False)):
                ok, uname = route_run(route, user, attempt)
                nroute += 1
                if ok is None:
                    continue
                if ok != should or (ok and uname != "target"):
                    witness = witness or dict(kind="route", route=route, password_ok=should, accepted=ok, session_username=uname)
    # a scramble computed under anything but the nonce issued on this connection - here the constant data of an earlier
    # auth-switch request to another plugin - must be refused even with the right password
    for pw in ("pw", "päss wörd"):
        user = User(name="target", auth_string=NativePasswordAuthPlugin.create_auth_string(pw), auth_plugin="mysql_native_password")
        ok, uname = route_run("clear-login-foreign-nonce", user, pw.encode())
        nroute += 1
        if ok:
            witness = witness or dict(kind="route", route="login through a switch to mysql_clear_password, then COM_CHANGE_USER with a scramble under the switch request's data",
                                      accepted=True, expected=False)
    for route in routes:
        for bad in ("not-a-hash", "*" + NativePasswordAuthPlugin.create_auth_string("pw").upper(), NativePasswordAuthPlugin.create_auth_string("pw")[:-1]):
            user = User(name="target", auth_string=bad, auth_plugin="mysql_native_password")
            for attempt in (b"", b"pw"):
                ok, uname = route_run(route, user, attempt)
                nroute += 1
                if ok:
                    witness = witness or dict(kind="route-undecodable-account", route=route, auth_string=bad, password_try=attempt.decode(), accepted=True)
    # a response shorter than a scramble, for an account whose stored hash it would reach through the truncating XOR
    for route in routes:
        for short in (b"", b"abc"):
            auth = hashlib.sha1(short).hexdigest()
            user = User(name="target", auth_string=auth, auth_plugin="mysql_native_password")
            ok, uname = route_run(route, user, b"", respond=lambda nn, short=short, auth=auth: bytes(
                x ^ y for x, y in zip(short, hashlib.sha1(nn + bytes.fromhex(auth)).digest())))
            nroute += 1
            if ok:
                witness = witness or dict(kind="route-short-response", route=route, auth_string=auth, response_length=len(short), accepted=True, expected=False)
    rp, nrp = replay_probe()
    nroute += nrp
    if rp and witness is None:
        witness = rp
    ctx.evals += nroute

    # ---- clear password and no-login ---------------------------------------------------------------------------------
    import asyncio

    class Clear(AbstractClearPasswordAuthPlugin):
        name = "clear"

        async def check(self, username, password):
            return username if password == "right" else None

    async def clear_decision(data):
        ai = AuthInfo(username="u", data=data, user=User(name="u"), connect_attrs={}, client_plugin_name="mysql_clear_password",
                      handshake_auth_data=None, handshake_plugin_name="x")
        g = Clear().auth(ai)
        return await g.__anext__()

    async def nologin_decision():
        ai = AuthInfo(username="u", data=b"x", user=User(name="u"), connect_attrs={}, client_plugin_name=None,
                      handshake_auth_data=None, handshake_plugin_name="x")
        return await NoLoginAuthPlugin().auth(ai).__anext__()

    loop = asyncio.new_event_loop()
    try:
        for data, should in ((b"right\0", True), (b"right", True), (b"right\0junk", True), (b"wrong\0", False), (b"", False), (b"\0right", False)):
            d = loop.run_until_complete(clear_decision(data))
            if isinstance(d, Success) != should:
                witness = witness or dict(kind="clear-password", data=list(data), decision=repr(d))
        d = loop.run_until_complete(nologin_decision())
        if not isinstance(d, Forbidden):
            witness = witness or dict(kind="no-login", decision=repr(d))
    finally:
        loop.close()

    if witness is not None:
        core.report_violation(ctx, "a password proof is accepted / refused against the property", witness)
    if (not pr["ok"] or disagreements) and not ctx.violations:
        core.report_violation(ctx, "proof obligation or model/implementation correspondence no longer checks",
                              dict(kind="unproved", broken=core.proof_failure_summary(ctx), disagreements=disagreements[:3]),
                              no_input=True)
    if not ctx.quick and pr["ok"]:
        core.coqchk(ctx, "Props/C02")
    core.write_evidence(
        ctx,
        rule="accounts (Unicode passwords, with/without secondary password, no password, empty / malformed / odd-length / spaced / "
             "prefixed stored hash) x nonces x responses (exact, for another nonce, for the old password, single-bit corruptions, "
             "truncations, junk-extended, empty, wrong password): NativePasswordAuthPlugin.password_matches vs Auth.password_matches "
             "run with the Gallina SHA-1 (itself compared with hashlib on boundary-length and random messages); utils.xor vs xor_bytes; "
             "issued nonces; the four routes (optimistic, auth switch, COM_CHANGE_USER reusing the nonce / with switch) through the "
             "real connection with a reference client; clear-password and no-login decisions. distinct = (account, nonce, response)",
        samples=[dict(label=cases[0][4], response=list(cases[0][3]), model=model[0])], distinct=len(distinct),
        extra=dict(response_kinds=labels, sha1_vectors=len(msgs), route_runs=nroute, disagreements=len(disagreements)),
        assumptions=["freshness of nonces rests on random.SystemRandom (distinctness of a few hundred draws is a test)",
                     "hashlib.sha1 = the Gallina SHA-1 on the sampled messages; the theorems do not depend on it"],
    )
