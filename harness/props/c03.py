"""C03 - Every command gets exactly one complete, well-formed response (lockstep)."""
from __future__ import annotations

import core
import lockstep as ls

HEADER = ls.HEADER_MON

from lockstep import RK, coq_pkt, responses, grammar_terms


PIPE_HEADER = """From MM Require Import Proofs.C10Proofs Proofs.DeferProofs Proofs.PipelineProofs.
Definition pipe_verdict (B BATCH hs : N) (dep : bool) (login rest : list ev) : bool :=
  let s := fst (exec B BATCH (fst (boot B BATCH hs)) login) in
  let '(_, _, _, _, _, v) := execp B BATCH dep RKOk (mk_mon RDone 0) s [] rest in v.
"""


def unencodable_error_probe(ctx):
    """an error whose message quotes text the results character set cannot express (the client's own statement, the
    application's message) is still answered with exactly one ERR, and the connection stays in step"""
    import client as cl
    import impl
    from mysql_mimic.errors import MysqlError
    for setting in ("latin1", "ascii", "cp1251", "sjis"):
        for trigger in ("library", "application"):
            env = impl.Env(own_sleep=False)
            try:
                class S(impl.Session):
                    async def query(self, e, sql, attrs):
                        raise MysqlError("\u8868 \u0436 \u00e9 failed", 1064)
                srv = impl.make_server(env, S)
                c = impl.Conn(env, srv)
                env.settle(); c.take()
                c.feed(cl.frame(cl.handshake_response(user=b"u", charset=45), 1)); c.take()
                c.feed(cl.frame(bytes([cl.COM_QUERY]) + f"SET character_set_results = '{setting}'".encode(), 0)); c.take()
                sql = "SET @@\u4e2d\u6587\u0436\u00e9 = 1" if trigger == "library" else "SELECT a FROM t"
                c.feed(cl.frame(bytes([cl.COM_QUERY]) + sql.encode("utf8"), 0))
                got = cl.split_raw(c.take())
                ctx.evals += 1
                ok = len(got) == 1 and got[0][0] == 1 and got[0][1][:1] == b"\xff" and c.blocked_on() == "read"
                if ok:
                    c.feed(cl.frame(bytes([cl.COM_PING]), 0))
                    pg = cl.split_raw(c.take())
                    ok = len(pg) == 1 and pg[0][1][:1] == b"\x00"
                if not ok:
                    return dict(kind="unencodable-error-message", results_character_set=setting, error_raised_by=trigger, statement=sql,
                                answered=[(q, p[:12].hex()) for q, p in got][:4], connection=c.blocked_on())
            finally:
                env.close()
    return None


def big_prepare_probe(ctx):
    """COM_STMT_PREPARE whose placeholder count sits on both sides of the 2-byte field of the prepare-OK (65535 / 65536 /
    70000), followed by a PING: what the prepare-OK announces must be what follows it (or the command gets ONE ERR), and the
    PING's OK must be the next packet with sequence id 1."""
    import struct
    import client as cl
    import impl
    for depeof in (False, True):
        for n in ((300, 65535, 65536, 70000) if not ctx.quick else (65535, 65536, 70000)):
            env = impl.Env(own_sleep=False)
            try:
                srv = impl.make_server(env, lambda: impl.ScriptSession(env, 0))
                c = impl.Conn(env, srv)
                env.settle(); c.take()
                caps = cl.BASE_CAPS | (cl.CLIENT_DEPRECATE_EOF if depeof else 0)
                c.feed(cl.frame(cl.handshake_response(user=b"u", caps=caps), 1)); c.take()
                sql = b"SELECT " + b",".join([b"?"] * n)
                c.feed(cl.frame(bytes([cl.COM_STMT_PREPARE]) + sql, 0))
                c.feed(cl.frame(bytes([cl.COM_PING]), 0))
                pk = cl.split_stream(c.take())
                ctx.evals += 1
                if not pk:
                    return dict(kind="big-prepare", placeholders=n, deprecate_eof=depeof, problem="no response at all")
                i = 0
                if pk[0][1][:1] == b"\xff":
                    i = 1
                elif pk[0][1][:1] == b"\x00" and len(pk[0][1]) >= 12:
                    ncols, nparams = struct.unpack("<HH", pk[0][1][5:9])
                    i = 1 + nparams + (1 if (nparams and not depeof) else 0) + ncols + (1 if (ncols and not depeof) else 0)
                    if nparams != n:
                        return dict(kind="big-prepare", placeholders=n, deprecate_eof=depeof, problem=f"prepare-OK announces {nparams} parameters for {n} placeholders")
                    seqs = [q for q, _ in pk[:i]]
                    if seqs != [(1 + j) % 256 for j in range(len(seqs))]:
                        return dict(kind="big-prepare", placeholders=n, deprecate_eof=depeof, problem="sequence ids of the prepare response are not consecutive from 1")
                else:
                    return dict(kind="big-prepare", placeholders=n, deprecate_eof=depeof, problem="first packet is neither prepare-OK nor ERR", first=pk[0][1][:12].hex())
                rest = pk[i:]
                if len(rest) != 1 or rest[0][0] != 1 or rest[0][1][:1] != b"\x00":
                    return dict(kind="big-prepare", placeholders=n, deprecate_eof=depeof,
                                problem="the packet after the prepare response is not the PING's OK with sequence id 1 (the client is out of step)",
                                announced=i, packets=len(pk), next=[(q, p[:6].hex()) for q, p in rest[:3]])
            finally:
                env.close()
    return None


def run(ctx: core.Ctx):
    rng = ctx.rng
    pr = core.check_proofs(ctx, "Props/C03", headers=[HEADER])
    ntr = 250 if ctx.quick else 6000
    drivers, terms = [], []
    for i in range(ntr):
        d = ls.Driver(rng)
        ls.random_walk(rng, d, rng.choice([20, 40, 60]), faults=False, kills=False, auth_variants=False, app_failures=(i % 2 == 1))
        drivers.append(d)
        terms.append(ls.coq_term(d))
        d.close()
    # special programs: > 256 rows (sequence wrap), failure at every row of a 12-row result
    for depeof in (False, True):
        d = ls.Driver(rng)
        d.handshake(True, depeof); d.decide("ASuccess"); d.app_result("void")
        d.payload(("query",)); d.app_result("set", ncols=2, items=[("row", 1)] * 300)
        d.payload(("ping",))
        for j in range(13):
            d.payload(("query",))
            items = [("row", 2)] * 12
            items.insert(j, ("raise", None if j % 2 else 1064))
            d.app_result("set", ncols=1, items=items)
        d.payload(("ping",))
        # results larger than the write buffer (several automatic flushes), failing at the end / in the middle
        for nrows, at in ((900, 900), (900, 450), (700, 0)):
            d.payload(("query",))
            items = [("row", 60)] * nrows
            items.insert(at, ("raise", 1064))
            d.app_result("set", ncols=1, items=items, asynchronous=(at % 2 == 1))
            d.payload(("ping",))
        # single packets larger than the write buffer, between small ones (text, field list, cursor fetch)
        d.payload(("query",)); d.app_result("set", ncols=2, items=[("row", 20), ("row", 40000), ("row", 5), ("row", 70000)])
        d.payload(("ping",))
        d.payload(("query",)); d.app_result("set", ncols=1, items=[("row", 33000)])
        d.payload(("ping",))
        d.payload(("prepare", 0)); d.payload(("execute", 0, False))
        d.app_result("set", ncols=1, items=[("row", 60)] * 600 + [("raise", None)])
        d.payload(("ping",))
        drivers.append(d); terms.append(ls.coq_term(d)); d.close()
    # every application callback of the command phase failing (MysqlError / any exception), each followed by a PING that must
    # be answered in step: use, reset (COM_STMT_RESET and after a COM_CHANGE_USER whose OK is already written), query
    for depeof in (False, True):
        for code in (None, 1064):
            d = ls.Driver(rng)
            d.handshake(True, depeof); d.decide("ASuccess"); d.app_result("void")
            d.payload(("initdb",)); d.app_result("raise", raise_code=code); d.payload(("ping",))
            d.payload(("prepare", 1)); d.payload(("reset", 0)); d.app_result("raise", raise_code=code); d.payload(("ping",))
            d.payload(("query",)); d.app_result("raise", raise_code=code); d.payload(("ping",))
            d.payload(("fieldlist",)); d.app_result("raise", raise_code=code); d.payload(("ping",))
            d.payload(("execute", 0, False)); d.app_result("raise", raise_code=code); d.payload(("ping",))
            d.payload(("changeuser",)); d.decide("ASuccess"); d.app_result("raise", raise_code=code)
            if d.blocked() == "read":
                d.payload(("ping",))
            drivers.append(d); terms.append(ls.coq_term(d)); d.close()
    # conversations in which the client does not wait for the prompt: commands sent while the previous one is still being
    # answered (application call, row source, cooperative yield or socket drain pending).  Replayed on the machine like the
    # others; the theorem's schedule `execp` (every command handed over at a prompt, the monitor restarted there) is evaluated
    # on the same events and must report v = true
    npipe = 80 if ctx.quick else 2500
    pipe_terms, pipe_drivers = [], []
    for i in range(npipe):
        d = ls.Driver(rng)
        d.pipelined = False
        d.handshake(True, rng.random() < 0.5); d.decide("ASuccess"); d.app_result("void")
        ls.random_walk(rng, d, rng.choice([20, 40, 60]), faults=False, kills=False, auth_variants=False, pauses=True, pipeline=True)
        drivers.append(d); terms.append(ls.coq_term(d)); d.close()
        if d.pipelined:
            pipe_drivers.append(d)
            pipe_terms.append(f"pipe_verdict {d.B} {d.BATCH} {d.hs_size} {core.coq_bool(d.depeof)} {core.coq_list(d.events[:3])} {core.coq_list(d.events[3:])}")
    model = core.run_coq_terms(ctx, "c03t", HEADER, terms, shard=20)
    disagreements = []
    kinds = {}
    for d, m in zip(drivers, model):
        c = ls.compare(d, m)
        for cm in d.cmds:
            if cm:
                kinds[cm[0]] = kinds.get(cm[0], 0) + 1
        if c:
            disagreements.append(c)
    # ---- the packets byte for byte: packets.make_* against Model/Packets.v, Coq reference decoders on the implementation's bytes
    import packets_corr
    npk, pbad, pkinds = packets_corr.run(ctx, "c03p", 60 if ctx.quick else 1500)
    disagreements += [dict(kind="packet-bytes", **b) for b in pbad if b["kind"].endswith("-bytes")]
    pdecode = [b for b in pbad if b["kind"].endswith("-decode")]
    # ---- oracle: the protocol's response grammar (Model/Resp.v, evaluated in Coq) on the implementation's packets
    oterms, refs, witness = grammar_terms([d for d in drivers if not getattr(d, "pipelined", False)], monitor=True)
    pv = core.run_coq_terms(ctx, "c03v", HEADER + PIPE_HEADER, pipe_terms, shard=40) if pipe_terms else []
    for d, v in zip(pipe_drivers, pv):
        if v is not True and witness is None:
            witness = dict(kind="pipelined-conversation", problem="the schedule of the pipelining theorem rejects the conversation: some response "
                           "is not complete when the next command is dispatched, or a packet does not fit the grammar", verdict=repr(v), events=d.events[:60])
    oks = core.run_coq_terms(ctx, "c03o", HEADER, oterms, shard=400)
    for ok, (d, cmd, pk) in zip(oks, refs):
        if ok is not True and witness is None:
            witness = dict(kind="malformed-response", command=repr(cmd), deprecate_eof=d.depeof,
                           packets=[repr(a) for _, a in pk][:30], events=d.events[:60])
    if pdecode and witness is None:
        witness = dict(kind="undecodable-packet", **pdecode[0])
    bp = big_prepare_probe(ctx)
    if bp and witness is None:
        witness = bp
    ue = unencodable_error_probe(ctx)
    if ue and witness is None:
        witness = ue
    # real sockets: a result larger than the kernel buffers to a client that reads slowly (plain, TLS, a small send buffer; text and
    # binary): complete, in sequence, and the next command is answered
    rsw = core.realsock_witness(core.realsock(ctx, ["slow_reader"]))
    if rsw and witness is None:
        witness = rsw
    # a command the server does not finish answering: where the model keeps serving, the implementation closed its session -
    # in these conversations the client never goes away, sends nothing malformed and nobody kills anything
    for c in disagreements:
        if witness is None and isinstance(c.get("impl"), dict) and isinstance(c.get("model"), dict):
            io, mo = c["impl"].get("out") or [], c["model"].get("out") or []
            closes = lambda outs: any(isinstance(o, (list, tuple)) and len(o) == 2 and o[0] == "OSess" and o[1] == "close" for o in outs)   # noqa: E731
            if closes(io) and not closes(mo):
                witness = dict(kind="server-ended-the-conversation", problem="the server closed the session in the middle of a conversation in which the "
                               "client only waited, paused and resumed: the command in progress gets no complete response", at_event=c.get("event"),
                               sent_before=repr(io)[:200], events=c.get("events", [])[-40:])
    if witness is not None:
        core.report_violation(ctx, "a command's response is not the one the protocol prescribes", witness)
    if (not pr["ok"] or disagreements) and not ctx.violations:
        core.report_violation(ctx, "proof obligation or model/implementation correspondence no longer checks",
                              dict(kind="unproved", broken=core.proof_failure_summary(ctx), disagreements=disagreements[:3]),
                              no_input=True)
    if not ctx.quick and pr["ok"]:
        core.coqchk(ctx, "Props/C03")
    core.write_evidence(
        ctx,
        rule="random walks over the real connection (all 14 dispatched commands + unsupported/undecodable ones, DEPRECATE_EOF on/off, "
             "application outcomes: none / result sets of 1-3 columns and 0-12 rows, sync and async sources, exceptions before and at "
             "every row) replayed step by step on Model/Conn.v; plus 300-row results (sequence wrap) and a failure at every row of a "
             "12-row result, packets larger than the write buffer; the client offers OPTIONAL_RESULTSET_METADATA / QUERY_ATTRIBUTES in "
             "half of the connections; every response of the implementation - (sequence id, packet) pairs - is run through the "
             "client-side monitor of Proofs/C03Proofs.v (grammar Model/Resp.v and sequence numbers; the function the theorem "
             "c03_lockstep_conversation is stated with) inside Coq; application failures in every callback of the command phase; packets.make_ok / make_eof / make_error / make_column_definition_41 (also as COM_FIELD_LIST) / make_handshake_v10 on "
             "random arguments byte for byte against Model/Packets.v and through its reference decoders. distinct = traces",
        samples=[dict(events=drivers[0].events[:12])], distinct=len(drivers),
        extra=dict(traces=len(drivers), pipelined_conversations=len(pipe_drivers), early_commands=sum(1 for d in pipe_drivers for c in d.cmds if c and c[-1] == "early"), commands=kinds, responses_checked=len(oterms), disagreements=len(disagreements), packet_cases=npk,
                   packet_kinds=pkinds),
        assumptions=["row contents are C05's business, catalog contents C16's",
                     "asyncio semantics as transcribed in Model/Conn.v (DESIGN.md appendix B)"],
    )
