"""C18 - Connection ids are unique among live connections and address the right one."""
from __future__ import annotations

import asyncio
import struct

import core
import client as cl
import impl
from mysql_mimic.control import LocalControl, TooManyConnections

HEADER = """From Coq Require Import List NArith.
From MM Require Import Lib.Bytes Model.ConnId Gen.FactsControl.
Import ListNotations. Open Scope N_scope.
Definition go (W pre v0 : N) (lv : list N) (ops : list op) := snd (run W pre (mk_reg lv v0) ops).
"""


def mk_control(bits, server_id):
    if bits == 16:
        return LocalControl(server_id=server_id)

    class Small(LocalControl):
        _CONNECTION_ID_BITS = bits
        _MAX_CONNECTION_SEQ = 2 ** bits

    return Small(server_id=server_id)


def impl_history(bits, server_id, v0, ops):
    ctl = mk_control(bits, server_id)
    ctl._connection_seq.value = v0
    loop = asyncio.new_event_loop()
    out = []
    try:
        for o in ops:
            if o[0] == "add":
                try:
                    out.append(("Added", loop.run_until_complete(ctl.add(object()))))
                except TooManyConnections:
                    out.append("Refused")
                except Exception as e:  # noqa   (neither an id nor the refusal the property names)
                    out.append(("Failed", type(e).__name__ + ": " + str(e)[:80]))
            else:
                loop.run_until_complete(ctl.remove(o[1]))
                out.append("Removed")
            ids = list(ctl._connections)
            assert len(ids) == len(set(ids))
    finally:
        loop.close()
    return out, ctl


def gen_history(rng, bits, n):
    """adds/removes keeping some long-lived survivors; ids to remove are drawn from what the impl returned."""
    W = 2 ** bits
    pre = None
    ops = []
    live = []
    sid = rng.choice([0, 1, 5, 65535, 65536 + 9]) if rng.random() < 0.7 else rng.randrange(1 << 17)
    v0 = rng.choice([0, W - 2, W - 1, rng.randrange(W)])
    # generate with a shadow of the specified behaviour only for choosing which ids to remove
    ctl = mk_control(bits, sid if sid != 0 else 65536)  # shadow uses an equivalent non-zero id for prefix 0
    ctl._connection_seq.value = v0
    loop = asyncio.new_event_loop()
    survivors = set()
    for _ in range(n):
        full = len(live) >= W
        r = rng.random()
        if (r < 0.62 and not (full and rng.random() < 0.5)) or not live:
            ops.append(("add",))
            try:
                i = loop.run_until_complete(ctl.add(object()))
                live.append(i)
                if rng.random() < 0.1:
                    survivors.add(i)
            except Exception:  # noqa   (TooManyConnections, or a failure that impl_history reports)
                pass
        elif r < 0.97:
            cands = [i for i in live if i not in survivors] or live
            i = rng.choice(cands)
            live.remove(i)
            survivors.discard(i)
            loop.run_until_complete(ctl.remove(i))
            ops.append(("remove", i))
        else:
            ops.append(("remove", rng.randrange(1 << 32)))  # unknown id
    loop.close()
    return sid, v0, ops


def oracle_history(res, sid, bits, ops):
    """The property itself on an implementation history: distinct live ids with the configured upper half."""
    live = set()
    for r, o in zip(res, ops):
        if o[0] == "remove":
            live.discard(o[1])
        if isinstance(r, tuple) and r[0] == "Failed":
            return f"registering a connection failed with {r[1]} ({len(live)} of {2 ** bits} ids in use)"
        if isinstance(r, tuple):
            i = r[1]
            if i in live:
                return f"id {i} handed out while still live"
            if not (0 <= i < 1 << 32) and bits == 16:
                return f"id {i} is not 32-bit"
            if i >> bits != sid % 65536:
                return f"id {i} has upper half {i >> bits}, configured server id {sid}"
            live.add(i)
    return None


def wire_checks(ctx):
    """Handshake thread id == CONNECTION_ID() == the id KILL accepts; full registry -> ERR 1040, then recovery."""
    problems = []
    env = impl.Env(own_sleep=False)
    try:
        ctl = impl.LoggingControl(env, server_id=300)

        class S(impl.Session):
            async def query(self, e, sql, attrs):
                return [(1,)], ["a"]

        srv = impl.make_server(env, S, control=ctl)
        conns = []
        for k in range(3):
            c = impl.Conn(env, srv, cid=k)
            env.settle()
            hs = cl.reassemble(c.take())[0][1]
            tid = cl.parse_handshake_v10(hs)["thread_id"]
            c.feed(cl.frame(cl.handshake_response(user=b"u"), 1))
            c.take()
            c.feed(cl.frame(bytes([cl.COM_QUERY]) + b"SELECT CONNECTION_ID()", 0))
            pk = cl.reassemble(c.take())
            row = pk[-2][1]  # last row before the terminator
            val = int(row[1:1 + row[0]])
            conns.append((c, tid, val))
            if tid != val:
                problems.append(dict(kind="id-mismatch", handshake=tid, connection_id_fn=val))
            if tid >> 16 != 300:
                problems.append(dict(kind="upper-half", handshake=tid, server_id=300))
        # KILL the second from the first
        c0, c1 = conns[0][0], conns[1][0]
        c0.feed(cl.frame(bytes([cl.COM_QUERY]) + b"KILL %d" % conns[1][1], 0))
        resp = cl.reassemble(c0.take())
        if not (len(resp) == 1 and cl.kind_of(resp[0][1], cl.BASE_CAPS) == "OK"):
            problems.append(dict(kind="kill-response", got=[cl.kind_of(p, cl.BASE_CAPS) for _, p, _ in resp]))
        if c1.blocked_on() != "done" or conns[2][0].blocked_on() != "read" or c0.blocked_on() != "read":
            problems.append(dict(kind="kill-target", target=c1.blocked_on(), other=conns[2][0].blocked_on(), issuer=c0.blocked_on()))
        if conns[1][1] in ctl._connections:
            problems.append(dict(kind="not-removed", id=conns[1][1]))
        # the id KILL accepts is the VALUE of its argument: hex / bit literals, strings of digits
        envk = impl.Env(own_sleep=False)
        try:
            ctlk = impl.LoggingControl(envk, server_id=0)
            srvk = impl.make_server(envk, S, control=ctlk)
            ks = []
            for k in range(18):
                ck = impl.Conn(envk, srvk, cid=k)
                envk.settle()
                tidk = cl.parse_handshake_v10(cl.reassemble(ck.take())[0][1])["thread_id"]
                ck.feed(cl.frame(cl.handshake_response(user=b"u"), 1)); ck.take()
                ks.append((ck, tidk))
            for stmt, target in ((b"KILL 0x10", 16), (b"KILL b'11'", 3), (b"KILL QUERY 0x0C", None), (b"KILL '1_2'", None), (b"KILL '7'", 7)):
                alive_before = {t for c_, t in ks if c_.blocked_on() != "done"}
                ks[17][0].feed(cl.frame(bytes([cl.COM_QUERY]) + stmt, 0))
                rk = cl.reassemble(ks[17][0].take())
                ended = sorted(alive_before - {t for c_, t in ks if c_.blocked_on() != "done"})
                want = [target] if target is not None and b"QUERY" not in stmt else []
                if ended != want:
                    problems.append(dict(kind="kill-literal", statement=stmt.decode(), names_connection=target, connections_ended=ended,
                                         reply=[cl.kind_of(p, cl.BASE_CAPS) for _, p, _ in rk]))
        finally:
            envk.close()
        # full registry
        W = ctl._MAX_CONNECTION_SEQ
        prefix = 300 << 16
        for x in range(W):
            ctl._connections.setdefault(prefix + x, None)
        assert len(ctl._connections) == W
        c = impl.Conn(env, srv, cid=10)
        env.settle()
        pk = cl.reassemble(c.take())
        if not (len(pk) == 1 and cl.kind_of(pk[0][1], 0) == "ERR" and cl.err_code(pk[0][1]) == 1040 and c.blocked_on() == "done"):
            problems.append(dict(kind="full-registry", got=[(cl.kind_of(p, 0), p[:12].hex()) for _, p, _ in pk], state=c.blocked_on()))
        if not c.writer.closed:
            problems.append(dict(kind="refused-client-left-connected", note="after ERR 1040 the server's side of the socket stays open: the refused client is never disconnected"))
        victim = prefix + 777
        ctl._connections.pop(victim)
        c = impl.Conn(env, srv, cid=11)
        env.settle()
        pk = cl.reassemble(c.take())
        if not (len(pk) == 1 and pk[0][1][0] == 10 and cl.parse_handshake_v10(pk[0][1])["thread_id"] == victim):
            problems.append(dict(kind="recover", got=pk[0][1][:12].hex() if pk else None))
    finally:
        env.close()
    return problems


def lifetime_checks(ctx):
    """an id stays registered - and addresses that connection - for exactly as long as the connection lives: a connection that
    was told to die but has not finished (its client does not read the ERR, its session.close() is slow) still holds its id,
    and a newcomer is never given it; once the task has ended the id is free again"""
    problems = []
    for how in ("kill-while-socket-paused", "kill-while-streaming", "disconnect"):
        env = impl.Env(own_sleep=False)
        try:
            ctl = impl.LoggingControl(env, server_id=7)

            class S(impl.Session):
                async def query(self, e, sql, attrs):
                    if b"slow" in sql.encode():
                        async def rows():
                            for i in range(3):
                                await env.fut(("row", 0))
                                yield (i,)
                        return rows(), ["a"]
                    return [(1,)], ["a"]

            srv = impl.make_server(env, S, control=ctl)
            a = impl.Conn(env, srv, cid=0)
            env.settle()
            aid = cl.parse_handshake_v10(cl.reassemble(a.take())[0][1])["thread_id"]
            a.feed(cl.frame(cl.handshake_response(user=b"u"), 1)); a.take()
            killer = impl.Conn(env, srv, cid=1)
            env.settle(); killer.take()
            killer.feed(cl.frame(cl.handshake_response(user=b"u"), 1)); killer.take()
            if how == "kill-while-socket-paused":
                a.writer.paused = True
            elif how == "kill-while-streaming":
                a.feed(cl.frame(bytes([cl.COM_QUERY]) + b"SELECT slow FROM t", 0))
                a.writer.paused = True
            if how == "disconnect":
                a.eof()
            else:
                killer.feed(cl.frame(bytes([cl.COM_QUERY]) + b"KILL %d" % aid, 0)); killer.take()
            ctx.evals += 1
            alive = a.blocked_on() != "done"
            registered = ctl._connections.get(aid)
            if alive and (registered is None):
                problems.append(dict(kind="released-while-alive", how=how, id=aid, blocked_on=a.blocked_on()))
            if alive:
                # the next id the registry would hand out must not be A's: force the sequence to A's value
                ctl._connection_seq.value = aid & 0xFFFF if hasattr(ctl._connection_seq, "value") else 0
                b = impl.Conn(env, srv, cid=2)
                env.settle()
                pk = cl.reassemble(b.take())
                bid = cl.parse_handshake_v10(pk[0][1])["thread_id"] if pk and pk[0][1][:1] == b"\x0a" else None
                if bid == aid:
                    problems.append(dict(kind="id-given-twice", how=how, id=aid))
                b.eof()
            # let A finish
            a.writer.paused = False
            if ("drain", 0) in env.pending:
                env.resolve(("drain", 0), None)
            for _ in range(5):
                if ("row", 0) in env.pending:
                    env.resolve(("row", 0), None)
            env.settle()
            a.eof()
            if a.blocked_on() == "done" and aid in ctl._connections and ctl._connections.get(aid) is registered and registered is not None:
                problems.append(dict(kind="not-released-after-end", how=how, id=aid))
            removes = [e for e in env.log if e == ("ctl_remove", aid)]
            if len(removes) != 1:
                problems.append(dict(kind="released-%d-times" % len(removes), how=how, id=aid))
            killer.eof()
        finally:
            env.close()
    return problems


def run(ctx: core.Ctx):
    rng = ctx.rng
    pr = core.check_proofs(ctx, "Props/C18", headers=[HEADER])
    samples, disagreements = [], []
    distinct = set()
    witness = None

    # ---- server-id selection -----------------------------------------------------------------
    sids = [0, 1, 2, 65535, 65536, 65537, 131072 + 3]
    terms = [f"effective_server_id control_sid_mode (Some {x}) 4242" for x in sids]
    model = core.run_coq_terms(ctx, "c18s", HEADER, terms)
    for x, m in zip(sids, model):
        got = LocalControl(server_id=x).server_id
        distinct.add(("sid", x))
        if m == 4242:  # model says "random": implementation must not equal configured (statistically) - compare class only
            if got == x and x != 0:
                disagreements.append(dict(kind="server-id", cfg=x, impl=got, model="random"))
        elif got != m:
            disagreements.append(dict(kind="server-id", cfg=x, impl=got, model=m))
    for x in sids:  # the property itself
        seen = {LocalControl(server_id=x).server_id for _ in range(4)}
        if seen != {x}:
            witness = witness or dict(kind="server-id", configured=x, observed=sorted(seen))
    n_none = {LocalControl().server_id for _ in range(50)}
    if not all(0 <= s < 65536 for s in n_none):
        witness = witness or dict(kind="server-id-none", observed=sorted(n_none))

    # ---- histories against the model ---------------------------------------------------------------
    plans = []
    nh = 40 if ctx.quick else 400
    for k in range(nh):
        bits = rng.choice([2, 3, 3, 4, 16])
        n = rng.choice([20, 60, 150]) if bits < 16 else rng.choice([50, 300, 1200 if not ctx.quick else 300])
        plans.append((bits,) + gen_history(rng, bits, n))
    terms = []
    for bits, sid, v0, ops in plans:
        pre = (sid % 65536) << bits
        o = core.coq_list(["Add" if x[0] == "add" else f"Remove {x[1]}" for x in ops])
        terms.append(f"go {2 ** bits} {pre} {v0} [] {o}")
    model = core.run_coq_terms(ctx, "c18h", HEADER, terms, shard=8)
    nontriv = 0
    for (bits, sid, v0, ops), m in zip(plans, model):
        got, ctl = impl_history(bits, sid, v0, ops)
        mm = [("Added", x[1]) if isinstance(x, tuple) else x for x in m]
        got_cmp = got
        key = (bits, sid, v0, tuple(ops))
        distinct.add(key)
        if any(x == "Refused" for x in got) or len(ops) > 2 ** bits:
            nontriv += 1
        if got != mm:
            k = next(i for i, (a, b) in enumerate(zip(got, mm)) if a != b)
            disagreements.append(dict(kind="history", bits=bits, server_id=sid, v0=v0, ops=ops[:k + 1], impl=repr(got[k]), model=repr(mm[k])))
        bad = oracle_history(got, sid, bits, ops)
        if bad:
            witness = witness or dict(kind="history", bits=bits, server_id=sid, v0=v0, ops=ops, problem=bad)
    samples.append(dict(kind="history", bits=plans[0][0], server_id=plans[0][1], v0=plans[0][2], ops=plans[0][3][:12], model=repr(model[0][:12])))

    # ---- long histories with the real width: wrap-around with survivors, full registry (oracle) ---------
    steps = 0
    for rep in range(2 if ctx.quick else 20):
        sid = rng.choice([0, 9, 65535])
        ctl = LocalControl(server_id=sid)
        loop = asyncio.new_event_loop()
        live = []
        keep = set()
        total = 140000 if ctx.quick else 200000
        for t in range(total):
            if len(live) < 40 or rng.random() < 0.5:
                i = loop.run_until_complete(ctl.add(None))
                if i in live[-64:] or i in keep:
                    witness = witness or dict(kind="long-history", problem=f"id {i} reissued while live", step=t)
                if i >> 16 != sid:
                    witness = witness or dict(kind="long-history", problem=f"id {i} upper half != {sid}", step=t)
                live.append(i)
                if rng.random() < 0.0005:
                    keep.add(i)
            else:
                j = rng.randrange(len(live))
                i = live[j]
                if i in keep:
                    continue
                live[j] = live[-1]
                live.pop()
                loop.run_until_complete(ctl.remove(i))
            steps += 1
        if len(set(ctl._connections)) != len(live) or set(live) != set(ctl._connections):
            witness = witness or dict(kind="long-history", problem="registry differs from the set of live ids")
        # now fill completely
        while len(ctl._connections) < 65536:
            loop.run_until_complete(ctl.add(None))
        try:
            loop.run_until_complete(ctl.add(None))
            witness = witness or dict(kind="full", problem="65537th connection accepted")
        except TooManyConnections:
            pass
        some = next(iter(ctl._connections))
        loop.run_until_complete(ctl.remove(some))
        try:
            i = loop.run_until_complete(ctl.add(None))
        except Exception as e:  # noqa
            i = f"{type(e).__name__}: {e}"[:100]
        if i != some:
            witness = witness or dict(kind="recover", problem=f"registry full, one client refused, then connection {some} ended: the next client got {i}")
        loop.close()
    ctx.evals += steps
    samples.append(dict(kind="long-history", steps=steps, includes="wrap-around with survivors, full registry, recovery"))

    wp = wire_checks(ctx) + lifetime_checks(ctx)
    ctx.evals += 6
    if wp:
        witness = witness or dict(kind="wire", problems=wp)

    # the packet itself byte for byte against Model/Packets.v and through its reference decoder
    import packets_corr
    npk, pbad, _pk = packets_corr.run(ctx, "c18p", 40 if ctx.quick else 600, only=("handshake",))
    if pbad and witness is None:
        witness = dict(kind="packet", **pbad[0])
    if witness is not None:
        core.report_violation(ctx, "connection id is not unique / not the configured one / not addressable", witness)
    if (not pr["ok"] or disagreements) and not ctx.violations:
        core.report_violation(ctx, "proof obligation or model/implementation correspondence no longer checks",
                              dict(kind="unproved", broken=core.proof_failure_summary(ctx), disagreements=disagreements[:3]),
                              no_input=True)
    if not ctx.quick and pr["ok"]:
        core.coqchk(ctx, "Props/C18")
    core.write_evidence(
        ctx,
        rule="add/remove histories (biased to full registries, wrap-around start values, unknown ids) on LocalControl with "
             "2/3/4-bit sequence subclasses and the real 16-bit width, result by result against ConnId.run; configured server ids "
             "incl. 0 and >= 2^16; long real-width histories with survivors + completely full registry checked with the property "
             "oracle (any failure of add() other than TooManyConnections is an outcome the oracle reports); wire: handshake id = CONNECTION_ID() = KILL target, ERR 1040 when full, recovery. non-trivial = history with a "
             "refusal or longer than the sequence space",
        samples=samples,
        distinct=len(distinct),
        extra=dict(histories=len(plans), histories_with_refusal_or_wrap=nontriv, long_history_steps=steps,
                   disagreements=len(disagreements)),
        assumptions=["random.randint for an unconfigured server id is only range-checked",
                     "registry is a dict keyed by id; the model keeps a list of live ids"],
    )
