"""C12 - Results stream lazily with back-pressure and without starving other clients."""
from __future__ import annotations

import asyncio

import core
import client as cl
import impl
import lockstep as ls

HEADER = ls.HEADER


def stream_run(rng, kind, nrows, B, batch, pause_at, depeof, width):
    """one streamed result with the socket paused / resumed at chosen event indices"""
    d = ls.Driver(rng, buffer_size=B, batch=batch)
    d.handshake(True, depeof); d.decide("ASuccess"); d.app_result("void")
    items = [("row", width)] * nrows
    maxpull = 0

    def counted(fn, *a, **k):
        # rows pulled while the server handles ONE event (one stretch without giving the loop back to other connections)
        nonlocal maxpull
        b0 = d.source.pulled if d.source is not None else 0
        fn(*a, **k)
        maxpull = max(maxpull, (d.source.pulled if d.source is not None else 0) - b0)

    if kind == "text":
        d.payload(("query",)); counted(d.app_result, "set", ncols=1, items=items)
    elif kind == "binary":
        d.payload(("prepare", 0)); d.payload(("execute", 0, False)); counted(d.app_result, "set", ncols=1, items=items)
    else:
        d.payload(("prepare", 0)); d.payload(("execute", 0, True)); counted(d.app_result, "set", ncols=1, items=items)
        counted(d.payload, ("fetch", 0, nrows + 1))
    worst = 0
    steps = 0
    paused_since = None
    while d.blocked() not in ("read", "done") and steps < 10 * nrows + 50:
        steps += 1
        b = d.blocked()
        before = d.source.pulled
        if not d.writer.paused:
            paused_since = None
        elif paused_since is None:
            paused_since = before
        elif before - paused_since > B // 5 + 2:
            # a client that stopped reading: the server may fill its own buffer once, then has to wait in drain()
            return d, dict(problem=f"{before - paused_since} rows pulled since the socket stopped accepting data (buffer {B} bytes): no back-pressure"), 0, 0
        if steps in pause_at and not d.writer.paused:
            d.simple("EvPause")
        elif d.writer.paused and (steps - 2) in pause_at:
            d.simple("EvResume")
        elif b == "sleep":
            d.simple("EvTick")
        elif b == "drain":
            # the client is not reading: nothing may be pulled while we wait
            if rng.random() < 0.5:
                d.simple("EvPause")
                if d.source.pulled != before:
                    return d, dict(problem="rows pulled while the socket does not accept data"), 0, 0
            else:
                d.simple("EvResume")
        elif b == "row":
            d.simple("EvRowReady")
        elif b == "app":
            d.app_result("void")
        else:
            break
        handed = sum(1 for q, p in cl.split_stream(b"".join(d.writer.writes)) if ls.MARK.search(p))
        worst = max(worst, d.source.pulled - handed)
        maxpull = max(maxpull, d.source.pulled - before)
    if d.writer.paused:
        d.simple("EvResume")
    for _ in range(5):
        if d.blocked() == "sleep":
            d.simple("EvTick")
    d.close()
    bound = B // 5 + 1
    w = None
    if worst > bound:
        w = dict(problem=f"{worst} rows pulled beyond what was handed to the socket (bound {bound})")
    if maxpull > batch + 1:
        w = dict(problem=f"{maxpull} rows pulled in one event-loop iteration (batch {batch})")
    return d, w, worst, maxpull


def stalled_client(rng, kind, B, batch, widths, depeof, history=None):
    """a client that stops reading right after sending its command and never resumes: the server may fill its write buffer once
    (B bytes), then has to wait in drain() - whatever the width of the rows (narrower than, equal to, wider than the buffer)"""
    d = ls.Driver(rng, buffer_size=B, batch=batch)
    d.handshake(True, depeof); d.decide("ASuccess"); d.app_result("void")
    items = [("row", w) for w in widths]
    if history is not None:
        # the connection has streamed to a stalled client before: that stream ran into drain() and was then either resumed and
        # completed, or ended by KILL QUERY while it waited there, or by KILL QUERY while the application was preparing it
        d.payload(("query",))
        if history == "killed-in-app":
            d.kill("KQ", selfkill=False)
        else:
            d.simple("EvPause"); d.app_result("set", ncols=1, items=[("row", 5)] * (B // 8 + 10))
            for _ in range(B + 50):
                b = d.blocked()
                if b == "sleep":
                    d.simple("EvTick")
                elif b == "row":
                    d.simple("EvRowReady")
                else:
                    break
            if history == "killed-in-drain" and d.blocked() == "drain":
                d.kill("KQ", selfkill=False)
            d.simple("EvResume")
        for _ in range(3 * B + 100):
            b = d.blocked()
            if b == "sleep":
                d.simple("EvTick")
            elif b == "row":
                d.simple("EvRowReady")
            elif b == "drain":
                d.simple("EvResume")
            elif b == "app":
                d.app_result("void")
            else:
                break
        if d.blocked() != "read":
            d.close()
            return d, dict(problem=f"the connection did not return to the prompt after the first stream ({history}): '{d.blocked()}'")
    if kind == "text":
        d.payload(("query",)); d.simple("EvPause"); d.app_result("set", ncols=1, items=items)
    else:
        d.payload(("prepare", 0)); d.payload(("execute", 0, True)); d.app_result("set", ncols=1, items=items)
        d.simple("EvPause"); d.payload(("fetch", 0, len(items) + 1))
    for _ in range(4 * len(items) + 20):
        b = d.blocked()
        if b == "sleep":
            d.simple("EvTick")
        elif b == "row":
            d.simple("EvRowReady")
        elif b == "app":
            d.app_result("void")
        else:
            break
    pulled = d.source.pulled if d.source is not None else 0
    # rows that fit into B bytes (4-byte header + payload each), plus the one that overflows it, plus the one being pulled
    fit, acc = 0, 0
    for w in widths:
        acc += 4 + w + 8
        fit += 1
        if acc >= B:
            break
    w = None
    if pulled > fit + 2 or d.blocked() != "drain":
        w = dict(problem=f"{pulled} of {len(items)} rows pulled although the client never read (at most {fit + 2} fit the {B}-byte buffer); "
                         f"the server task is in '{d.blocked()}'", protocol=kind, widths=list(widths)[:12], B=B, earlier_on_this_connection=history)
    d.simple("EvResume")
    for _ in range(6 * len(items) + 20):
        b = d.blocked()
        if b == "sleep":
            d.simple("EvTick")
        elif b == "row":
            d.simple("EvRowReady")
        elif b == "drain":
            d.simple("EvResume")
        else:
            break
    d.close()
    return d, w


def witness_ping(rng, B, batch, nrows, kind="text", sql=b"SELECT a FROM t"):
    """while connection 1 streams from a source that never suspends, connection 2's PING is answered within batch+1 rows"""
    env = impl.Env(own_sleep=False)   # real asyncio.sleep(0): plain FIFO scheduling
    try:
        pulled = [0]

        class S(impl.Session):
            async def query(self, e, sql, attrs):
                def gen():
                    for i in range(nrows):
                        pulled[0] += 1
                        yield (i,)
                return gen(), ["a"]

        srv = impl.make_server(env, S)
        a = impl.Conn(env, srv, cid=0); b = impl.Conn(env, srv, cid=1)
        env.settle()
        for c in (a, b):
            c.take(); c.feed(cl.frame(cl.handshake_response(user=b"u"), 1)); c.take()
        # start the long stream, then immediately a PING on the other connection, then count
        if kind == "text":
            a.reader.feed_data(cl.frame(bytes([cl.COM_QUERY]) + sql, 0))
        else:
            a.feed(cl.frame(bytes([cl.COM_STMT_PREPARE]) + sql, 0))
            sid = cl.split_raw(a.take())[0][1][1:5]
            cursor = 1 if kind.startswith("fetch") else 0
            a.reader.feed_data(cl.frame(bytes([cl.COM_STMT_EXECUTE]) + sid + bytes([cursor]) + (1).to_bytes(4, "little"), 0))
            if kind == "fetch":
                env.settle(); a.take()
                a.reader.feed_data(cl.frame(bytes([cl.COM_STMT_FETCH]) + sid + (nrows + 1).to_bytes(4, "little"), 0))
            if kind == "fetch-pipelined":
                # many small fetches already waiting in the socket: no fetch is large enough to reach the batch size by itself
                env.settle(); a.take()
                a.reader.feed_data(b"".join(cl.frame(bytes([cl.COM_STMT_FETCH]) + sid + (700).to_bytes(4, "little"), 0) for _ in range(nrows // 700 + 1)))
        start = pulled[0]
        b.reader.feed_data(cl.frame(bytes([cl.COM_PING]), 0))
        its = 0
        while not b.take() and its < 100000:
            env.loop.call_soon(env.loop.stop); env.loop.run_forever(); its += 1
        at = pulled[0] - start
        env.settle()
        return at
    finally:
        env.close()


def inferred_peek_probe(limit=20000):
    """bare column names with a column that is NULL in every row: how many rows are pulled before anything is sent"""
    from mysql_mimic.results import ensure_result_set
    pulled = [0]

    def gen():
        i = 0
        while True:
            pulled[0] += 1
            if pulled[0] > limit:
                return
            yield (i, None)
            i += 1

    loop = asyncio.new_event_loop()
    try:
        loop.run_until_complete(ensure_result_set((gen(), ["a", "b"])))
    finally:
        loop.close()
    return pulled[0]


def run(ctx: core.Ctx):
    rng = ctx.rng
    pr = core.check_proofs(ctx, "Props/C12", headers=[HEADER])
    drivers, witness = [], None
    driver_errors = []
    stats = []
    B, batch = 64, 3
    nrows = 3 * batch + 2
    # pause at every moment of a 3*batch-row result, for the three protocols (small B and batch)
    for kind in ("text", "binary", "fetch"):
        for p in range(1, 4 * nrows):
            r = stream_run(rng, kind, nrows, B, batch, {p, p + 2}, depeof=(p % 2 == 0), width=rng.choice([1, 7, 20]))
            drivers.append(r[0])
            if r[1] and witness is None:
                witness = dict(kind="stream", protocol=kind, pause_at=p, events=[e[:50] for e in r[0].events[-12:]], **r[1])
            if len(r) > 2:
                stats.append((kind, r[2], r[3]))
    # the client stops reading for good: narrow rows, rows of exactly / more than the buffer size, mixtures; small and real buffer
    for kind in ("text", "fetch"):
        for Bx, ws in ((64, [5] * 60), (64, [64] * 30), (64, [200] * 30), (64, [5, 5, 300] * 15), (64, [300, 5] * 20),
                       (32768, [32768 - 20] * 12), (32768, [32768] * 12), (32768, [40000] * 12), (32768, [100] * 5 + [40000] * 10)):
            r = stalled_client(rng, kind, Bx, 1000, ws, depeof=(len(ws) % 2 == 0))
            drivers.append(r[0])
            if r[1] and witness is None:
                witness = dict(kind="back-pressure", **r[1])
    # the same on a connection with a history: an earlier stream to a stalled client that completed / was killed while waiting
    for kind in ("text", "fetch"):
        for hist in ("completed", "killed-in-drain", "killed-in-app"):
            for Bx, ws in ((64, [5] * 60), (64, [5, 5, 300] * 15), (32768, [100] * 5 + [40000] * 10)):
                r = stalled_client(rng, kind, Bx, 1000, ws, depeof=(len(hist) % 2 == 0), history=hist)
                drivers.append(r[0])
                if r[1] and witness is None:
                    witness = dict(kind="back-pressure", **r[1])
    # random: other sizes incl. the real buffer size and long results
    for _ in range(20 if ctx.quick else 300):
        Bx = rng.choice([32, 64, 200, 32768]); bx = rng.choice([2, 5, 10000]); n = rng.choice([10, 40, 200])
        pa = {rng.randint(1, 2 * n) for _ in range(rng.randint(0, 6))}
        try:
            r = stream_run(rng, rng.choice(["text", "binary", "fetch"]), n, Bx, bx, pa, rng.random() < 0.5, rng.choice([1, 30, 300]))
        except Exception as e:  # noqa  (the driver lost track of the connection: reported below as a broken correspondence)
            driver_errors.append(repr(e)[:200])
            continue
        drivers.append(r[0])
        if r[1] and witness is None:
            witness = dict(kind="stream", B=Bx, batch=bx, rows=n, **r[1])
    terms = [ls.coq_term(d) for d in drivers]
    model = core.run_coq_terms(ctx, "c12t", HEADER, terms, shard=30)
    disagreements = [dict(kind="driver-error", error=e) for e in driver_errors]
    for d, m in zip(drivers, model):
        c = ls.compare(d, m)
        if c:
            disagreements.append(c)
    # fairness across connections with the real batch size
    at = 0
    # (through the real Session: the statement passes the whole middleware chain - also with an optimizer hint, which makes
    #  _set_var_middleware wrap the rest of the chain)
    for sql in (b"SELECT a FROM t", b"SELECT /*+ SET_VAR(max_execution_time = 1000) */ a FROM t", b"SELECT a FROM t WHERE b = @@sql_mode"):
        for kind in ("text", "binary", "fetch", "fetch-pipelined"):
            n = witness_ping(rng, 32768, 10000, 35000, kind, sql)
            at = max(at, n)
            ctx.evals += 1
            if n > 10001 + 1:
                witness = witness or dict(kind="starvation", protocol=kind, sql=sql.decode(),
                                          problem=f"PING of another connection answered only after {n} rows of a non-suspending stream")
    # real sockets, with and without TLS (own interpreter, real event loop): a client that logs in, asks for 40000 rows of 1000
    # bytes and then does not read - after 1.5 s the server has pulled what the socket buffers hold, not the result
    import json as _json, os as _os, subprocess as _sp, sys as _sys
    here = _os.path.dirname(_os.path.dirname(_os.path.abspath(__file__)))
    try:
        outp = _sp.run([_sys.executable, _os.path.join(here, "tlsprobe.py"), "backpressure"], stdout=_sp.PIPE, stderr=_sp.DEVNULL, timeout=90, text=True).stdout
        line = [l for l in outp.splitlines() if l.startswith("@@")]
        sock = _json.loads(line[-1][2:]) if line else dict(plain_stalled_pulled="probe produced no result", tls_stalled_pulled="probe produced no result")
    except Exception as e:  # noqa
        sock = dict(plain_stalled_pulled=f"probe failed: {type(e).__name__}", tls_stalled_pulled="probe failed")
    ctx.evals += 2
    for k in ("plain_stalled_pulled", "tls_stalled_pulled"):
        v = sock.get(k)
        if (not isinstance(v, int) or v > 20000) and witness is None:
            witness = dict(kind="back-pressure-real-socket", transport=("TLS" if k.startswith("tls") else "plain TCP"),
                           problem=f"{v} of {sock.get('rows')} rows pulled while the client did not read for 1.5 s (the socket buffers hold a few thousand)")
    # a client that goes away while the server streams freely (not blocked in drain()): the source comes to rest, the session is closed
    rsw = core.realsock_witness(core.realsock(ctx, ["vanish"]))
    if rsw and witness is None:
        witness = rsw
    # inferred column types: the recorded open finding
    peek = inferred_peek_probe()
    ctx.evals += 1
    if peek > 1000:
        core.report_violation(ctx, "type inference peeks without bound", dict(kind="inferred-null-column-peek", rows_pulled=peek),
                              key="inferred-null-column-peek")
    if witness is not None:
        core.report_violation(ctx, "rows are pulled ahead of the socket / other clients are starved", witness)
    if (not pr["ok"] or disagreements) and not ctx.violations:
        core.report_violation(ctx, "proof obligation or model/implementation correspondence no longer checks",
                              dict(kind="unproved", broken=core.proof_failure_summary(ctx), disagreements=disagreements[:3]),
                              no_input=True)
    if not ctx.quick and pr["ok"]:
        core.coqchk(ctx, "Props/C12")
    core.write_evidence(
        ctx,
        rule="a 3*batch+2-row result (buffer 64 bytes, batch 3) in the text protocol, the binary protocol and a cursor fetch with the "
             "socket paused before every event and resumed two events later; random sizes incl. the real 32 KiB buffer and batch "
             "10000; a client that never reads, on a fresh connection and on one whose earlier stream to a stalled client completed / was "
             "killed while waiting in drain() / was killed inside the application; instrumented sources count pulls, the fake writer counts rows handed over; replayed on Model/Conn.v incl. its "
             "pulled / handed counters; a PING on a second connection during a 35000-row non-suspending stream with the real "
             "asyncio.sleep; a stalled client on real loopback sockets, plain and over TLS (rows pulled in 1.5 s); an unbounded source with an "
             "always-NULL inferred column. distinct = runs",
        samples=[dict(events=[e[:50] for e in drivers[3].events[:14]])], distinct=len(drivers),
        extra=dict(runs=len(drivers), worst_rows_ahead=max([s[1] for s in stats] or [0]), bound=B // 5 + 1,
                   max_rows_per_iteration=max([s[2] for s in stats] or [0]), batch=batch, ping_answered_after_rows=at, real_socket_stall=sock,
                   inferred_peek_rows=peek, disagreements=len(disagreements)),
        assumptions=["transport buffering after writer.write (asyncio high-water mark, kernel buffers) is not modelled: 'accepts' means "
                     "drain() returns; the fake writer keeps a memoryview of a bytearray written while paused (as the CPython 3.12 transport does)", "asyncio's FIFO ready queue"],
    )
